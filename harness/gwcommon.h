// Shared machinery of the C03 conformance programs gw (C++ gateways), gwmini and gwmicro (C gateways against the C++ one):
// scripted pipes, the Message menu, the GwAbs monitor, the replay of TLC behaviours of GwBinaryImpl, seeded random runs with event logs.
#ifndef VERIF_GWCOMMON_H
#define VERIF_GWCOMMON_H
#include "message/Message.h"
#include "system/SetupSystem.h"
#include "util/ByteBuffer.h"
#include "mjson.h"
#include <string>
#include <vector>
#include <map>
#include <set>
#include <signal.h>
#include <unistd.h>
#include <sys/time.h>

namespace gwh {
using namespace muscle;
typedef std::string Bytes;

// ---------------------------------------------------------------------------------------------- deterministic random numbers
struct Rng {
   uint64_t s;
   explicit Rng(uint64_t seed = 1) : s(seed * 0x9E3779B97F4A7C15ULL + 0x1234567ULL) {}
   uint64_t next() {uint64_t z = (s += 0x9E3779B97F4A7C15ULL); z = (z ^ (z >> 30)) * 0xBF58476D1CE4E5B9ULL; z = (z ^ (z >> 27)) * 0x94D049BB133111EBULL; return z ^ (z >> 31);}
   uint32_t R(uint32_t n) {return n ? (uint32_t)(next() % n) : 0;}
};

// ---------------------------------------------------------------------------------------------- the wire
struct Pipe {
   Bytes buf; size_t head; uint64_t put, got; bool keepAll; Bytes all;
   Pipe() : head(0), put(0), got(0), keepAll(false) {}
   size_t avail() const {return buf.size() - head;}
   void push(const void * p, size_t n) {buf.append((const char *) p, n); put += n; if (keepAll) all.append((const char *) p, n);}
   size_t pop(void * p, size_t n) {if (n > avail()) n = avail(); memcpy(p, buf.data() + head, n); head += n; got += n; if (head > (1u << 20)) {buf.erase(0, head); head = 0;} return n;}
};

// what the transport does during ONE gateway call: the i-th Write() / Read() may move bytes up to caps[i] (absolute stream position if
// `absolute', else a byte count); calls beyond the list get 0 = would-block; a call with n = 0 is not an I/O event
struct Script {
   bool unlimited, absolute; std::vector<uint64_t> caps; size_t idx; std::vector<uint32_t> results;
   Script() : unlimited(true), absolute(false), idx(0) {}
   void Arm(const std::vector<uint64_t> & c, bool abs) {unlimited = false; absolute = abs; caps = c; idx = 0; results.clear();}
   void Free() {unlimited = true; caps.clear(); idx = 0; results.clear();}
   uint32_t Serve(uint32_t n, uint64_t pos, uint64_t avail) {
      if (n == 0) return 0;
      uint64_t c = n;
      if (!unlimited) {
         if (idx < caps.size()) {c = absolute ? ((caps[idx] > pos) ? (caps[idx] - pos) : 0) : caps[idx];} else c = 0;
         idx++;
      }
      uint64_t r = n; if (c < r) r = c; if (avail < r) r = avail;
      results.push_back((uint32_t) r);
      return (uint32_t) r;
   }
};
static const uint64_t NOAVAIL = (uint64_t) -1;

// ---------------------------------------------------------------------------------------------- Messages
enum Family {FAM_BIN = 0, FAM_TEXT, FAM_RAW};
enum Gran {G_MSG = 0, G_LINES, G_STREAM, G_CHUNKS};

struct Field {char type; std::string name; uint32_t n; uint32_t style;};   // 'i' int32 x n, 's' string of n chars, 'b' raw blob of n bytes, 'm' sub-Message, 'o' bool, 'd' double, 'p' Point x n
struct MsgSpec {
   Family fam; uint32_t what; std::vector<Field> fields; int32_t padTo;    // padTo >= 0: a blob "pad" is sized so that FlattenedSize() == padTo
   std::vector<Bytes> lines; std::vector<Bytes> chunks; std::string tag;
   MsgSpec() : fam(FAM_BIN), what(0), padTo(-1) {}
};

inline Bytes Fill(uint32_t style, uint32_t n, uint32_t salt) {
   Bytes b(n, '\0');
   switch(style) {
      case 0: for (uint32_t i=0; i<n; i++) b[i] = (char)((i * 7 + salt) & 0xFF); break;                                   // compressible pattern
      case 1: {Rng r(salt * 977 + 13); for (uint32_t i=0; i<n; i++) b[i] = (char) r.R(256);} break;                        // incompressible
      case 2: {static const unsigned char menu[] = {0300, 0333, 0334, 0335, 0, 1, 65}; Rng r(salt * 31 + 7); for (uint32_t i=0; i<n; i++) b[i] = (char) menu[r.R(7)];} break;  // SLIP specials
      case 3: {static const char * al = "ab \xc3\xa9xyz0"; Rng r(salt * 131 + 3); for (uint32_t i=0; i<n; i++) b[i] = al[r.R(9)]; /* keep UTF-8 pairs whole is not needed: lines are bytes */
               for (uint32_t i=0; i<n; i++) if ((b[i] == '\r')||(b[i] == '\n')||(b[i] == 0)) b[i] = 'q';} break;        // text
      default: for (uint32_t i=0; i<n; i++) b[i] = (char) style; break;
   }
   return b;
}

inline void AddField(Message & m, const Field & f) {
   switch(f.type) {
      case 'i': for (uint32_t i=0; i<f.n; i++) (void) m.AddInt32(f.name.c_str(), (int32)(f.style * 1000 + i)); break;
      case 'y': for (uint32_t i=0; i<f.n; i++) (void) m.AddInt8(f.name.c_str(), (int8)(f.style + i)); break;
      case 's': {Bytes t = Fill(3, f.n, f.style); (void) m.AddString(f.name.c_str(), String(t.c_str()));} break;
      case 'b': {Bytes t = Fill(f.style, f.n, f.n + 1); (void) m.AddData(f.name.c_str(), B_RAW_TYPE, t.data(), (uint32) t.size());} break;
      case 'm': {MessageRef sub = GetMessageFromPool(7 + f.style); (void) sub()->AddInt64("q", 1234567 + f.style); (void) sub()->AddString("z", "sub"); (void) m.AddMessage(f.name.c_str(), sub);} break;
      case 'o': (void) m.AddBool(f.name.c_str(), (f.style & 1) != 0); break;
      case 'd': (void) m.AddDouble(f.name.c_str(), 3.25 + f.style); break;
      case 'p': for (uint32_t i=0; i<f.n; i++) (void) m.AddPoint(f.name.c_str(), Point(1.0f * i, 2.0f + f.style)); break;
   }
}

// resolves padTo into a concrete blob field (so that every builder, C++ or C, builds the same Message)
inline void Finalize(MsgSpec & s) {
   if ((s.fam != FAM_BIN)||(s.padTo < 0)) return;
   // measured, not computed: the Message with a 1-byte pad tells what n bytes of pad will give
   Message probe(s.what); for (size_t i=0; i<s.fields.size(); i++) AddField(probe, s.fields[i]);
   (void) probe.AddData("pad", B_RAW_TYPE, "x", 1);
   const int32 base = (int32) probe.FlattenedSize() - 1;
   int32 n = s.padTo - base; if (n < 1) n = 1;
   Field f; f.type = 'b'; f.name = "pad"; f.n = (uint32_t) n; f.style = (s.padTo & 1) ? 1 : 0;
   if (s.tag.find("rnd") != std::string::npos) f.style = 1;
   if (s.tag.find("cmp") != std::string::npos) f.style = 0;
   s.fields.push_back(f); s.padTo = -1;
}

inline MessageRef Build(const MsgSpec & s0) {
   MsgSpec s = s0; Finalize(s);
   if (s.fam == FAM_TEXT) {
      MessageRef m = GetMessageFromPool(1886681204 /* PR_COMMAND_TEXT_STRINGS */);
      for (size_t i=0; i<s.lines.size(); i++) (void) m()->AddString("tl", String(s.lines[i].c_str()));
      return m;
   }
   if (s.fam == FAM_RAW) {
      MessageRef m = GetMessageFromPool(1919181923 /* PR_COMMAND_RAW_DATA */);
      for (size_t i=0; i<s.chunks.size(); i++) (void) m()->AddFlat("rd", GetByteBufferFromPool((uint32) s.chunks[i].size(), (const uint8 *) s.chunks[i].data()));
      return m;
   }
   MessageRef m = GetMessageFromPool(s.what);
   for (size_t i=0; i<s.fields.size(); i++) AddField(*m(), s.fields[i]);
   return m;
}
inline Bytes Flat(const Message & m) {const uint32 n = m.FlattenedSize(); Bytes s(n, '\0'); if (n) m.FlattenToBytes((uint8 *) &s[0], n); return s;}

inline Field F(char t, const char * name, uint32_t n, uint32_t style) {Field f; f.type = t; f.name = name; f.n = n; f.style = style; return f;}

// The menu.  cls: 0 = frame below the scratch size, 1 = exactly at it, 2 = above it (binary family); v selects a member.
// simple: only field types the micro writer of the harness builds natively.  big: allow the 70000-byte member.
inline MsgSpec MenuMessage(Family fam, int cls, uint32_t v, bool simple, bool big) {
   MsgSpec s; s.fam = fam;
   char tag[64];
   if (fam == FAM_BIN) {
      if (cls == 0) {
         switch(v % 6) {
            case 0: s.what = 1000; break;                                                                        // what code only ("trivial")
            case 1: s.what = 1001; s.fields.push_back(F('i', "i", 1, 1)); break;
            case 2: s.what = 1002; s.fields.push_back(F('s', "s", 5, 2)); s.fields.push_back(F('i', "i", 2, 3)); if (!simple) s.fields.push_back(F('d', "d", 1, 0)); break;
            case 3: s.what = 1003; s.fields.push_back(F('i', "k", 1, 4)); s.padTo = 2039; s.tag = "rnd"; break;        // one byte below the boundary
            case 4: s.what = 1004; s.fields.push_back(F('s', "t", 40, 5)); if (!simple) {s.fields.push_back(F('m', "sub", 1, 1)); s.fields.push_back(F('o', "b", 1, 1)); s.fields.push_back(F('p', "p", 2, 1));} break;
            default: s.what = 1002; s.fields.push_back(F('s', "s", 5, 9)); s.fields.push_back(F('i', "i", 2, 8)); if (!simple) s.fields.push_back(F('d', "d", 1, 1)); break;   // same template as case 2, other payload
         }
      } else if (cls == 1) {
         s.padTo = 2040;
         switch(v % 3) {
            case 0: s.what = 1100; s.tag = "rnd"; break;
            case 1: s.what = 1101; s.fields.push_back(F('s', "s", 12, 1)); s.tag = "cmp"; break;
            default: s.what = 1102; s.fields.push_back(F('i', "i", 3, 2)); s.tag = "rnd"; break;
         }
      } else {
         switch(v % (big ? 6 : 5)) {
            case 0: s.what = 1200; s.padTo = 2041; s.tag = "rnd"; break;                                           // one byte above the boundary
            case 1: s.what = 1201; s.fields.push_back(F('s', "s", 7, 3)); s.padTo = 4200; s.tag = "cmp"; break;      // > 2 x scratch
            case 2: s.what = 1202; s.padTo = 2049; s.tag = "rnd"; break;
            case 3: s.what = 1203; s.fields.push_back(F('i', "i", 2, 5)); s.padTo = 2041; s.tag = "cmp"; break;
            case 4: s.what = 1204; s.fields.push_back(F('b', "blob", 5000, 0)); s.fields.push_back(F('i', "k", 1, 3)); break;
            default: s.what = 1205; s.fields.push_back(F('b', "blob", 70000, 1)); break;
         }
      }
      snprintf(tag, sizeof(tag), "bin%d.%u%s", cls, (unsigned)(v % 6), s.tag.c_str()); s.tag = tag;
   } else if (fam == FAM_TEXT) {
      if (cls == 0) {
         switch(v % 5) {
            case 0: s.lines.push_back("hello"); break;
            case 1: s.lines.push_back(""); s.lines.push_back("a"); s.lines.push_back(""); break;                   // empty lines
            case 2: break;                                                                                        // no lines at all: nothing is written
            case 3: s.lines.push_back(Fill(3, 100, 1)); s.lines.push_back("\xc3\xa9t\xc3\xa9"); break;
            default: s.lines.push_back(""); s.lines.push_back(""); break;
         }
      } else if (cls == 1) {
         switch(v % 3) {                                                                                          // the receiver reads 2047 bytes at a time
            case 0: s.lines.push_back(Fill(3, 2045, 2)); break;
            case 1: s.lines.push_back(Fill(3, 2046, 3)); break;
            default: s.lines.push_back(Fill(3, 2047, 4)); s.lines.push_back(""); break;
         }
      } else {
         switch(v % 3) {
            case 0: s.lines.push_back(Fill(3, 5000, 5)); break;
            case 1: s.lines.push_back("a"); s.lines.push_back(Fill(3, 3000, 6)); s.lines.push_back(""); s.lines.push_back("b"); break;
            default: s.lines.push_back(Fill(3, 2048, 7)); s.lines.push_back(Fill(3, 4094, 8)); break;
         }
      }
      snprintf(tag, sizeof(tag), "text%d.%u", cls, (unsigned)(v % 5)); s.tag = tag;
   } else {
      if (cls == 0) {
         switch(v % 5) {
            case 0: s.chunks.push_back(Bytes(1, (char) 0300)); break;                                             // a lone END byte
            case 1: s.chunks.push_back(Bytes("\333\334\300\335\333", 5)); break;                                  // specials only
            case 2: s.chunks.push_back(Fill(2, 10, 1)); s.chunks.push_back(Fill(2, 5, 2)); break;
            case 3: s.chunks.push_back(Fill(2, 5, 3)); s.chunks.push_back(Bytes()); break;                         // an empty chunk, LAST in its Message (F12 otherwise)
            default: s.chunks.push_back(Fill(0, 16, 4)); s.chunks.push_back(Bytes(1, (char) 0333)); s.chunks.push_back(Fill(2, 33, 5)); break;   // a lone ESC
         }
      } else if (cls == 1) {
         switch(v % 4) {
            case 0: s.chunks.push_back(Fill(2, 256, 6)); break;                                                   // SLIP's initial pending-buffer size
            case 1: s.chunks.push_back(Fill(1, 125, 7)); break;                                                   // WebSocket 7-bit length limit
            case 2: s.chunks.push_back(Fill(1, 126, 8)); break;
            default: s.chunks.push_back(Fill(2, 255, 9)); s.chunks.push_back(Fill(2, 257, 10)); break;
         }
      } else {
         switch(v % (big ? 6 : 4)) {
            case 0: s.chunks.push_back(Fill(1, 8192, 11)); break;                                                 // the raw receiver's scratch size
            case 1: s.chunks.push_back(Fill(2, 8193, 12)); break;
            case 2: s.chunks.push_back(Fill(2, 3000, 13)); s.chunks.push_back(Fill(0, 8191, 14)); break;
            case 3: s.chunks.push_back(Fill(2, 20000, 15)); break;
            case 4: s.chunks.push_back(Fill(1, 65535, 16)); break;                                                // WebSocket 16-bit length limit
            default: s.chunks.push_back(Fill(1, 65536, 17)); break;
         }
      }
      snprintf(tag, sizeof(tag), "raw%d.%u", cls, (unsigned)(v % 6)); s.tag = tag;
   }
   return s;
}

inline MsgSpec RandomMessage(Family fam, Rng & r, bool simple, bool big) {
   const uint32_t k = r.R(100);
   if (k < 70) return MenuMessage(fam, (k < 40) ? 0 : ((k < 52) ? 1 : 2), r.R(60), simple, big && (r.R(8) == 0));
   MsgSpec s; s.fam = fam; s.tag = "random";
   if (fam == FAM_BIN) {
      s.what = 2000 + r.R(4);
      const uint32_t nf = r.R(4);
      for (uint32_t i=0; i<nf; i++) {
         char nm[8]; snprintf(nm, sizeof(nm), "f%u", (unsigned) r.R(5));
         bool dup = false; for (size_t j=0; j<s.fields.size(); j++) if (s.fields[j].name == nm) dup = true;
         if (dup) continue;
         switch(r.R(simple ? 3 : 6)) {
            case 0: s.fields.push_back(F('i', nm, 1 + r.R(3), r.R(50))); break;
            case 1: s.fields.push_back(F('s', nm, r.R(30), r.R(50))); break;
            case 2: s.fields.push_back(F('b', nm, 1 + r.R(r.R(3) ? 300 : 6000), r.R(3))); break;   // (Message::AddData refuses 0 bytes, the C writers do not: not the same Message)
            case 3: s.fields.push_back(F('m', nm, 1, r.R(3))); break;
            case 4: s.fields.push_back(F('o', nm, 1, r.R(2))); break;
            default: s.fields.push_back(F('p', nm, 1 + r.R(2), r.R(3))); break;
         }
      }
      if (r.R(4) == 0) {s.padTo = 2030 + (int32_t) r.R(24); s.tag = r.R(2) ? "random-rnd" : "random-cmp";}     // bodies around the scratch boundary 2040
   } else if (fam == FAM_TEXT) {
      const uint32_t nl = r.R(5);
      for (uint32_t i=0; i<nl; i++) s.lines.push_back(Fill(3, r.R(4) ? r.R(12) : (r.R(3) ? 2040 + r.R(16) : r.R(6000)), r.R(1000)));
   } else {
      const uint32_t nc = 1 + r.R(3);
      for (uint32_t i=0; i<nc; i++) s.chunks.push_back(Fill(r.R(3), 1 + (r.R(4) ? r.R(40) : (r.R(3) ? 250 + r.R(12) : r.R(9000))), r.R(1000)));
      if (r.R(6) == 0) s.chunks.push_back(Bytes());   // an empty chunk, only ever as the LAST chunk of a Message (F12)
   }
   return s;
}

// what the receiver must be handed for this Message, at the granularity the gateway type promises
inline void ExpectedItems(const MsgSpec & s, Gran g, std::vector<Bytes> & items) {
   switch(g) {
      case G_MSG:    items.push_back(Flat(*Build(s)())); break;
      case G_LINES:  for (size_t i=0; i<s.lines.size(); i++) items.push_back(s.lines[i]); break;
      case G_STREAM: for (size_t i=0; i<s.chunks.size(); i++) items.push_back(s.chunks[i]); break;   // concatenated by the monitor
      case G_CHUNKS: for (size_t i=0; i<s.chunks.size(); i++) if (!s.chunks[i].empty()) items.push_back(s.chunks[i]); break;
   }
}
// what a received Message holds, at that granularity
inline void ItemsOfMessage(const Message & m, Gran g, std::vector<Bytes> & items) {
   switch(g) {
      case G_MSG:    items.push_back(Flat(m)); break;
      case G_LINES:  {const String * s; for (uint32 i=0; m.FindString("tl", i, &s).IsOK(); i++) items.push_back(Bytes(s->Cstr(), s->Length()));} break;
      case G_STREAM: case G_CHUNKS: {
         const uint32 n = m.GetNumValuesInName("rd");
         for (uint32 i=0; i<n; i++) {ConstByteBufferRef b; if ((m.FindFlat("rd", i, b).IsOK())&&(b())) items.push_back(Bytes((const char *) b()->GetBuffer(), b()->GetNumBytes())); else items.push_back(Bytes());}
      } break;
   }
}

// ---------------------------------------------------------------------------------------------- one direction under test
struct Link {
   Pipe fwd, back; Script ws, rs;     // ws: what Write() calls of the sender get; rs: what Read() calls of the receiver get
   std::string name; Family fam; Gran gran; bool exact; uint32_t slack; uint32_t maxChunk; bool simple, big;
   bool predictable;   // the bytes a Message puts on the wire do not depend on WHEN it is taken out of the queue (false: the sender's encoding changes on the way)
   Link() : fam(FAM_BIN), gran(G_MSG), exact(false), slack(0), maxChunk(0), simple(false), big(true), predictable(true), retryQueue(false) {}
   virtual ~Link() {}
   virtual bool Prepare(uint32_t /*seed*/) {return true;}                     // e.g. a handshake under a seeded random segmentation
   virtual bool Queue(const MsgSpec & s) = 0;                                  // AddOutgoingMessage on the sender
   virtual int64_t DoOutput(uint32_t maxBytes) = 0;                            // sender; < 0: error
   virtual int64_t DoInput(uint32_t maxBytes, std::vector<Bytes> & items) = 0; // receiver; items handed over during the call are appended
   virtual bool TxIdle() = 0;                                                  // !HasBytesToOutput()
   virtual int TxQueueLen() {return -1;}
   virtual void PumpReverse() {}
   virtual bool CanQueueNow() {return true;}
   virtual bool Acceptable(const MsgSpec & /*s*/) {return true;}               // false: this Message falls under the predicate of an open known finding on this connection
   std::string fault;                                                          // set by a link that watches more than the direction under test (a second connection sharing tagged Messages)
   bool retryQueue;                                                            // Queue() may fail for lack of room in a fixed output buffer: try again after some output
   virtual void SizeCases(std::vector<struct SizeCase> & /*out*/, bool /*big*/) {}   // the size sweep of this configuration, derived from the thresholds in its gateways' sources
};
// a list of Messages whose sizes sit at an internal threshold of the gateways; rejectAt >= 0: Message number rejectAt is over a DOCUMENTED limit of the receiver:
// the Messages before it must arrive, it must not be handed over (what else happens - error, torn stream - is not judged)
struct SizeCase {std::string what; std::vector<MsgSpec> msgs; int rejectAt; SizeCase() : rejectAt(-1) {}};
typedef Link * (*LinkFactory)(const std::string & cfg);

// ---------------------------------------------------------------------------------------------- report
struct Outcome {std::vector<std::string> violations, drift, known; void clear() {violations.clear(); drift.clear(); known.clear();}};
inline std::string Hex(const Bytes & b, size_t maxn = 24) {std::string s; char t[4]; for (size_t i=0; (i<b.size())&&(i<maxn); i++) {snprintf(t, sizeof(t), "%02x", (unsigned char) b[i]); s += t;} if (b.size() > maxn) s += ".."; return s;}
inline std::string Fmt(const char * f, ...) {char buf[1024]; va_list ap; va_start(ap, f); vsnprintf(buf, sizeof(buf), f, ap); va_end(ap); return buf;}

struct Report {
   FILE * f; int badCases; std::string current; uint64_t cases;
   Report() : f(NULL), badCases(0), cases(0) {}
   void Line(const mj::Value & v) {std::string s = mj::ToString(v); fprintf(f, "%s\n", s.c_str()); fflush(f);}
   void Case(mj::Value v, const Outcome & o) {
      if (o.violations.empty() && o.drift.empty() && o.known.empty()) return;
      if (!o.violations.empty()) {mj::Value a = mj::Value::Arr(); for (size_t i=0; (i<o.violations.size())&&(i<6); i++) a.push(mj::Value::Str(o.violations[i])); v.set("violations", a); badCases++;}
      if (!o.drift.empty()) {mj::Value a = mj::Value::Arr(); for (size_t i=0; (i<o.drift.size())&&(i<6); i++) a.push(mj::Value::Str(o.drift[i])); v.set("drift", a);}
      if (!o.known.empty()) {mj::Value a = mj::Value::Arr(); for (size_t i=0; (i<o.known.size())&&(i<6); i++) a.push(mj::Value::Str(o.known[i])); v.set("known", a);}
      Line(v);
   }
   bool Stop() const {return badCases >= 25;}
};
static Report g_rep;
static mj::Value g_summary = mj::Value::Obj();
// a case that does not end is a violation, not an endless run
static void OnAlarm(int) {
   if (g_rep.f) {
      std::string s = "{\"case\":" + mj::ToString(mj::Value::Str(g_rep.current)) + ",\"violations\":[\"watchdog: the gateways did not return within 20 s of CPU time (endless loop)\"]}\n{\"summary\":true,\"aborted\":\"watchdog\"}\n";
      if (write(fileno(g_rep.f), s.data(), s.size()) < 0) {}
   }
   _exit(0);
}
// (CPU time of this process, not wall time: a busy machine must not look like a hang; the pipes are in memory, so a case that does not end is a loop)
inline void ArmTimer(int seconds) {struct itimerval it; memset(&it, 0, sizeof(it)); it.it_value.tv_sec = seconds; (void) setitimer(ITIMER_PROF, &it, NULL);}
inline void Watch(const std::string & what) {g_rep.current = what; g_rep.cases++; ArmTimer(20);}
// a crash inside the gateway code (these programs feed it nothing but Messages it queued itself and a working transport) is a violation, not a harness failure
static void OnCrash(int sig) {
   if (g_rep.f) {
      char num[16]; snprintf(num, sizeof(num), "%d", sig);
      std::string s = "{\"case\":" + mj::ToString(mj::Value::Str(g_rep.current)) + ",\"violations\":[\"the gateway code crashed (signal " + std::string(num) + ") while moving Messages it had queued itself over a working transport: memory is corrupted, nothing it hands over afterwards can be trusted\"]}\n{\"summary\":true,\"aborted\":\"crash\"}\n";
      if (write(fileno(g_rep.f), s.data(), s.size()) < 0) {}
   }
   _exit(0);
}
inline void InitHarness(const char * reportPath) {g_rep.f = fopen(reportPath, "w"); if (g_rep.f == NULL) {fprintf(stderr, "cannot write %s\n", reportPath); exit(3);} signal(SIGPROF, OnAlarm); signal(SIGSEGV, OnCrash); signal(SIGBUS, OnCrash); signal(SIGABRT, OnCrash); signal(SIGFPE, OnCrash); signal(SIGILL, OnCrash);}

// ---------------------------------------------------------------------------------------------- GwAbs, as a monitor
struct Monitor {
   Gran g; uint32_t slack, maxChunk; std::vector<Bytes> sent; Bytes stream; size_t nd; uint64_t bd; uint64_t nItems;
   FILE * log;   // GwAbsTrace lines
   Monitor(Gran gr, uint32_t sl, uint32_t mc, FILE * l) : g(gr), slack(sl), maxChunk(mc), nd(0), bd(0), nItems(0), log(l) {}
   void OnSent(const MsgSpec & s) {
      std::vector<Bytes> it; ExpectedItems(s, g, it);
      for (size_t i=0; i<it.size(); i++) {
         if (g == G_STREAM) {stream += it[i]; if ((log)&&(!it[i].empty())) fprintf(log, "{\"e\":\"S\",\"len\":%u}\n", (unsigned) it[i].size());}
         else {sent.push_back(it[i]); if (log) fprintf(log, "{\"e\":\"S\",\"i\":%u}\n", (unsigned) sent.size());}
      }
   }
   // returns the number (1-based) of the queued item these bytes are, 0 if none
   uint32_t OnDelivered(const Bytes & item, Outcome & o) {
      nItems++;
      if (g == G_STREAM) {
         if (item.empty()) return 0;
         if ((maxChunk > 0)&&(item.size() > maxChunk)) o.violations.push_back(Fmt("raw gateway handed over a chunk of %u bytes, more than its maximum chunk size %u", (unsigned) item.size(), maxChunk));
         const bool ok = (bd + item.size() <= stream.size())&&(memcmp(stream.data() + bd, item.data(), item.size()) == 0);
         if (log) fprintf(log, "{\"e\":\"D\",\"a\":%lld,\"b\":%llu}\n", ok ? (long long) bd : -1LL, (unsigned long long)(bd + item.size()));
         if (!ok) {o.violations.push_back(Fmt("bytes handed over at stream offset %llu (%u bytes: %s) are not the bytes queued at that offset (queued so far %llu)", (unsigned long long) bd, (unsigned) item.size(), Hex(item).c_str(), (unsigned long long) stream.size())); bd += item.size(); return 0;}
         bd += item.size(); return 1;
      }
      uint32_t j = 0;
      if ((nd < sent.size())&&(sent[nd] == item)) j = (uint32_t)(nd + 1);
      else for (size_t i=0; i<sent.size(); i++) if (sent[i] == item) {j = (uint32_t)(i + 1); if (i >= nd) break;}
      if (log) fprintf(log, "{\"e\":\"D\",\"i\":%u}\n", j);
      if (j != nd + 1) {
         if (nd >= sent.size()) o.violations.push_back(Fmt("item %u handed over although only %u were queued (%u bytes: %s)%s", (unsigned)(nd + 1), (unsigned) sent.size(), (unsigned) item.size(), Hex(item).c_str(), j ? Fmt(": a duplicate of item %u", j).c_str() : ""));
         else o.violations.push_back(Fmt("item %u handed over is not item %u as queued: got %u bytes %s, queued %u bytes %s%s", (unsigned)(nd + 1), (unsigned)(nd + 1), (unsigned) item.size(), Hex(item).c_str(), (unsigned) sent[nd].size(), Hex(sent[nd]).c_str(),
                                         j ? Fmt(" (it is item %u)", j).c_str() : " (no queued item has these bytes)"));
      }
      nd++;
      return j;
   }
   void AtQuiescence(Outcome & o, const char * when) {
      if (log) fprintf(log, "{\"e\":\"Q\"}\n");
      if (g == G_STREAM) {if (stream.size() - (size_t) bd > slack) o.violations.push_back(Fmt("%s: %llu of the %llu queued bytes were handed over (allowed to stay behind: %u)", when, (unsigned long long) bd, (unsigned long long) stream.size(), slack));}
      else if (nd != sent.size()) o.violations.push_back(Fmt("%s: %u of the %u queued items were handed over", when, (unsigned) nd, (unsigned) sent.size()));
   }
};

// ---------------------------------------------------------------------------------------------- replay of a TLC behaviour of GwBinaryImpl
// abstract stream positions -> real ones: frame boundaries to frame boundaries, end of header to end of header, interior points by variant
struct PosMap {
   uint32_t HSa; int variant; std::vector<uint64_t> aEnd, lEnd;   // cumulative ends, abstract and real
   uint64_t InFrame(uint64_t o, uint64_t A, uint64_t L) const {
      if (o == 0) return 0;
      if (o >= A) return L;
      const uint64_t H = (L < 8) ? L : 8;
      if (o < HSa) {static const uint64_t hv[3] = {1, 7, 4}; uint64_t h = (HSa == 2) ? hv[variant % 3] : ((o * 8) / HSa); if (h >= H) h = (H > 0) ? (H - 1) : 0; if ((HSa != 2)&&(h < o)) h = o; return (h > H) ? H : h;}
      if (o == HSa) return H;
      const uint64_t ba = A - HSa, t = o - HSa, B = L - H;
      switch(variant % 3) {
         case 0:  return H + ((t < B) ? t : B);
         case 1:  return L - (((ba - t) < B) ? (ba - t) : B);
         default: return H + (t * B) / ba;
      }
   }
   uint64_t Map(uint64_t pa) const {
      uint64_t a0 = 0, l0 = 0;
      for (size_t f=0; f<aEnd.size(); f++) {
         if (pa < aEnd[f]) return l0 + InFrame(pa - a0, aEnd[f] - a0, lEnd[f] - l0);
         a0 = aEnd[f]; l0 = lEnd[f];
      }
      return l0 + (pa - a0);
   }
};

struct Counters {uint64_t replays, followed, drifted, steps, ioCalls, zeroResults, oneByteResults, itemsDelivered, bytesMoved, messages, headerSplits, runs, traceLines, tracedRuns, skippedKnown;
                 Counters() {memset(this, 0, sizeof(*this));}};

// pumps without limits until nothing moves any more; false on a gateway error
inline bool Drain(Link & L, Monitor & mon, Outcome & o, std::vector<uint32_t> * deliveredIdx = NULL) {
   L.ws.Free(); L.rs.Free();
   int idle = 0;
   for (int round=0; (round<200000)&&(idle<3); round++) {
      bool prog = false;
      const int64_t w = L.DoOutput(MUSCLE_NO_LIMIT); if (w < 0) {o.violations.push_back("DoOutput() reported an error while nothing but queued Messages and a working transport was involved"); return false;} if (w > 0) prog = true;
      std::vector<Bytes> items; const size_t before = L.fwd.avail();
      const int64_t r = L.DoInput(MUSCLE_NO_LIMIT, items);
      for (size_t i=0; i<items.size(); i++) {const uint32_t j = mon.OnDelivered(items[i], o); if (deliveredIdx) deliveredIdx->push_back(j);}
      if (r < 0) {o.violations.push_back("DoInput() reported an error on a stream written by a gateway of the same type"); return false;}
      if ((r > 0)||(!items.empty())||(L.fwd.avail() != before)) prog = true;
      const uint64_t b0 = L.back.put + L.back.got; L.PumpReverse(); if (L.back.put + L.back.got != b0) prog = true;
      idle = prog ? 0 : (idle + 1);
   }
   return true;
}

inline int ClassOf(uint32_t HSa, uint32_t SCRa, uint32_t b) {return (HSa + b < SCRa) ? 0 : ((HSa + b == SCRa) ? 1 : 2);}

// beh = {"id":.., "steps":[...]} ; hsa / scra = the constants of the instance that generated it
inline void ReplayBehaviour(LinkFactory mk, const std::string & cfg, const mj::Value & beh, uint32_t hsa, uint32_t scra, int variant, uint32_t seed, Counters & C) {
   const mj::Value & steps = beh["steps"];
   const int64_t id = beh["id"].i();
   Outcome o;
   Watch(Fmt("replay cfg=%s behaviour=%lld variant=%d", cfg.c_str(), (long long) id, variant));
   Link * probe = mk(cfg);
   if (probe == NULL) {fprintf(stderr, "unknown configuration %s\n", cfg.c_str()); exit(3);}
   // 1. the Messages of this behaviour
   std::vector<MsgSpec> msgs; std::vector<uint32_t> bodies;
   for (size_t i=0; i<steps.size(); i++) if (steps[i]["a"].str() == "Send") {
      const uint32_t b = (uint32_t) steps[i]["b"].i();
      MsgSpec s = MenuMessage(probe->fam, ClassOf(hsa, scra, b), (uint32_t)(id * 7 + variant * 3 + msgs.size() * 5 + b + (seed % 97)), probe->simple, false);
      Finalize(s); msgs.push_back(s); bodies.push_back(b);
   }
   // 2. how many bytes each of them puts on the wire (a dry run over a transport that takes everything)
   PosMap pm; pm.HSa = hsa; pm.variant = variant;
   {
      Monitor dm(probe->gran, probe->slack, probe->maxChunk, NULL); Outcome junk;
      (void) probe->Prepare(seed);
      const uint64_t base = probe->fwd.put; uint64_t a = 0;
      for (size_t i=0; i<msgs.size(); i++) {
         (void) probe->Queue(msgs[i]);
         if (!Drain(*probe, dm, junk)) break;
         a += hsa + bodies[i]; pm.aEnd.push_back(a); pm.lEnd.push_back(probe->fwd.put - base);
      }
   }
   delete probe;
   // 3. the replay proper
   Link * Lp = mk(cfg); Link & L = *Lp;
   Monitor mon(L.gran, L.slack, L.maxChunk, NULL);
   bool dead = false;
   if (!L.Prepare(seed)) {o.violations.push_back("the connection could not be set up (handshake failed)"); dead = true;}
   const uint64_t wbase = L.fwd.put, rbase = L.fwd.got;
   uint64_t pas = 0, par = 0;   // abstract stream positions of the sender and of the receiver
   size_t nsent = 0; bool drifted = false; size_t stepNo = 0;
   for (size_t i=0; (i<steps.size())&&(!dead); i++) {
      const mj::Value & st = steps[i]; const std::string & a = st["a"].str();
      if (a == "-") continue;
      stepNo++; C.steps++;
      if (a == "Send") {
         if (!L.Queue(msgs[nsent])) {o.violations.push_back(Fmt("step %u: AddOutgoingMessage failed", (unsigned) stepNo)); dead = true; break;}
         mon.OnSent(msgs[nsent]); nsent++; C.messages++;
         if (!L.fault.empty()) {o.violations.push_back(L.fault); dead = true; break;}
      } else if (a == "Out") {
         const int64_t m = st["m"].i(); const mj::Value & w = st["w"];
         std::vector<uint64_t> caps; uint64_t cum = pas; for (size_t k=0; k<w.size(); k++) {cum += (uint64_t) w[k].i(); caps.push_back(wbase + pm.Map(cum));}
         const uint64_t pos0 = L.fwd.put;
         uint32_t M = MUSCLE_NO_LIMIT; if (m >= 0) {const uint64_t tgt = wbase + pm.Map(pas + (uint64_t) m); M = (tgt > pos0) ? (uint32_t)(tgt - pos0) : 0;}
         L.ws.Arm(caps, true);
         const int64_t ret = L.DoOutput(M);
         if (ret < 0) {o.violations.push_back(Fmt("step %u: DoOutput(%u) reported an error", (unsigned) stepNo, M)); dead = true; break;}
         C.ioCalls += L.ws.results.size(); for (size_t k=0; k<L.ws.results.size(); k++) {if (L.ws.results[k] == 0) C.zeroResults++; if (L.ws.results[k] == 1) C.oneByteResults++;}
         pas = cum;
         if ((L.exact)&&(L.predictable)) {
            // algorithm level: the call did exactly what GwBinaryImpl says
            std::vector<uint32_t> want; uint64_t p = pos0; for (size_t k=0; k<caps.size(); k++) {const uint64_t t = (caps[k] > p) ? caps[k] : p; want.push_back((uint32_t)(t - p)); p = t;}
            if (L.ws.results != want) {o.drift.push_back(Fmt("step %u DoOutput(%u): %u Write() calls instead of the %u of the specification (or other sizes)", (unsigned) stepNo, M, (unsigned) L.ws.results.size(), (unsigned) want.size())); drifted = true;}
            if ((uint64_t) ret != L.fwd.put - pos0) {o.drift.push_back(Fmt("step %u DoOutput(%u) returned %lld but wrote %llu bytes", (unsigned) stepNo, M, (long long) ret, (unsigned long long)(L.fwd.put - pos0))); drifted = true;}
            const int q = L.TxQueueLen();
            if ((q >= 0)&&(q != (int) nsent - (int) st["popped"].i())) {o.drift.push_back(Fmt("step %u: %d Messages left in the outgoing queue, specification %d", (unsigned) stepNo, q, (int) nsent - (int) st["popped"].i())); drifted = true;}
         }
      } else if (a == "In") {
         const int64_t m = st["m"].i(); const mj::Value & r = st["r"];
         std::vector<uint64_t> caps; uint64_t cum = par; for (size_t k=0; k<r.size(); k++) {cum += (uint64_t) r[k].i(); caps.push_back(rbase + pm.Map(cum));}
         const uint64_t pos0 = L.fwd.got;
         uint32_t M = MUSCLE_NO_LIMIT; if (m >= 0) {const uint64_t tgt = rbase + pm.Map(par + (uint64_t) m); M = (tgt > pos0) ? (uint32_t)(tgt - pos0) : 0;}
         L.rs.Arm(caps, true);
         std::vector<Bytes> items;
         const int64_t ret = L.DoInput(M, items);
         for (size_t k=0; k<items.size(); k++) {(void) mon.OnDelivered(items[k], o); C.itemsDelivered++;}
         if (ret < 0) {o.violations.push_back(Fmt("step %u: DoInput(%u) reported an error on a stream written by a gateway of the same type", (unsigned) stepNo, M)); dead = true; break;}
         C.ioCalls += L.rs.results.size(); for (size_t k=0; k<L.rs.results.size(); k++) {if (L.rs.results[k] == 0) C.zeroResults++; if (L.rs.results[k] == 1) C.oneByteResults++;}
         par = cum;
         if ((L.exact)&&(L.predictable)) {
            std::vector<uint32_t> want; uint64_t p = pos0; for (size_t k=0; k<caps.size(); k++) {const uint64_t t = (caps[k] > p) ? caps[k] : p; want.push_back((uint32_t)(t - p)); p = t;}
            if (L.rs.results != want) {o.drift.push_back(Fmt("step %u DoInput(%u): %u Read() calls instead of the %u of the specification (or other sizes)", (unsigned) stepNo, M, (unsigned) L.rs.results.size(), (unsigned) want.size())); drifted = true;}
            if ((uint64_t) ret != L.fwd.got - pos0) {o.drift.push_back(Fmt("step %u DoInput(%u) returned %lld but read %llu bytes", (unsigned) stepNo, M, (long long) ret, (unsigned long long)(L.fwd.got - pos0))); drifted = true;}
            if ((int64_t) mon.nd != st["nd"].i()) {o.drift.push_back(Fmt("step %u: %u Messages handed over so far, specification %lld", (unsigned) stepNo, (unsigned) mon.nd, (long long) st["nd"].i())); drifted = true;}
         }
      }
      L.ws.Free(); L.rs.Free();
      L.PumpReverse();
      if (!o.violations.empty()) break;
   }
   // 4. let everything arrive: at quiescence delivered = sent
   if ((!dead)&&(o.violations.empty())) {if (Drain(L, mon, o)) mon.AtQuiescence(o, "after the behaviour, with the transport unblocked and everything pumped");}
   C.replays++; if ((!drifted)&&(o.violations.empty())) C.followed++; if (drifted) C.drifted++;
   C.bytesMoved += L.fwd.got - rbase;
   if (!(o.violations.empty() && o.drift.empty())) {
      mj::Value v = mj::Value::Obj(); v.set("config", mj::Value::Str(cfg)).set("behaviour", mj::Value::Int(id)).set("variant", mj::Value::Int(variant)).set("seed", mj::Value::Int(seed));
      mj::Value tags = mj::Value::Arr(); for (size_t i=0; i<msgs.size(); i++) tags.push(mj::Value::Str(msgs[i].tag)); v.set("messages", tags);
      mj::Value fr = mj::Value::Arr(); uint64_t p = 0; for (size_t i=0; i<pm.lEnd.size(); i++) {fr.push(mj::Value::Int((int64_t)(pm.lEnd[i] - p))); p = pm.lEnd[i];} v.set("wire_bytes_per_message", fr);
      v.set("steps", steps);
      g_rep.Case(v, o);
   }
   delete Lp;
}

// ---------------------------------------------------------------------------------------------- seeded random runs
static const uint32_t kCapMenu[] = {0, 0, 0, 1, 1, 1, 2, 3, 4, 7, 8, 9, 15, 16, 17, 100, 1000, 2039, 2040, 2041, 2047, 2048, 2049, 4096, 8192, 100000};
static const uint32_t kMaxMenu[] = {1, 1, 2, 7, 8, 9, 12, 100, 2040, 2048, 2049, 3000, 70000};
inline uint32_t Pick(Rng & r, const uint32_t * menu, size_t n) {return menu[r.R((uint32_t) n)];}

// style 0: mixed; 1: one byte at a time (every Read / Write moves at most 1 byte); 2: maxBytes = 1 on every call; 3: everything at once
inline void RandomRun(LinkFactory mk, const std::string & cfg, uint32_t seed, uint32_t nmsgs, int style, Counters & C, FILE * absLog, FILE * binLog, const std::vector<MsgSpec> * fixed = NULL) {
   if (fixed) nmsgs = (uint32_t) fixed->size();
   Rng r(seed * 2654435761u + 17);
   Outcome o;
   Watch(Fmt("random run cfg=%s seed=%u messages=%u style=%d", cfg.c_str(), seed, nmsgs, style));
   Link * Lp = mk(cfg); if (Lp == NULL) {fprintf(stderr, "unknown configuration %s\n", cfg.c_str()); exit(3);}
   Link & L = *Lp;
   if (absLog) fprintf(absLog, "{\"e\":\"Reset\",\"cfg\":\"%s\",\"seed\":%u,\"mode\":\"%s\",\"slack\":%u}\n", cfg.c_str(), seed, (L.gran == G_STREAM) ? "bytes" : "items", L.slack);
   Monitor mon(L.gran, L.slack, L.maxChunk, absLog);
   const bool bl = (binLog != NULL)&&(L.exact);
   std::vector<std::string> blines;    // GwBinaryTrace lines; Send lines get their frame size when the run is over
   std::vector<size_t> sendLineIdx;
   if (bl) L.fwd.keepAll = true;
   bool dead = false;
   if (!L.Prepare(seed)) {o.violations.push_back("the connection could not be set up (handshake failed)"); dead = true;}
   if (bl) L.fwd.all.clear();
   uint32_t queued = 0; uint64_t calls = 0; int idle = 0;
   while((!dead)&&(o.violations.empty())) {
      const bool allQueued = (queued >= nmsgs);
      if ((allQueued)&&(L.TxIdle())&&(L.fwd.avail() == 0)) break;
      if (++calls > 400000 + 6000ULL * nmsgs * ((style == 1 || style == 2) ? 40 : 1)) {o.violations.push_back(Fmt("no quiescence after %llu calls: %u of %u items handed over, %llu bytes in flight, sender idle=%d", (unsigned long long) calls, (unsigned) mon.nd, (unsigned) mon.sent.size(), (unsigned long long) L.fwd.avail(), (int) L.TxIdle())); break;}
      const uint32_t what = r.R(100);
      if ((!allQueued)&&(what < 22)&&(L.CanQueueNow())) {
         MsgSpec s = fixed ? (*fixed)[queued] : RandomMessage(L.fam, r, L.simple, L.big && (style == 0 || style == 3)); Finalize(s);
         if ((!fixed)&&(!L.Acceptable(s))) {C.skippedKnown++; continue;}
         if (!L.Queue(s)) {if (L.retryQueue) {idle++; goto pump;} o.violations.push_back("AddOutgoingMessage failed"); break;}
         mon.OnSent(s); queued++; C.messages++;
         if (!L.fault.empty()) {o.violations.push_back(L.fault); break;}
         if (bl) {sendLineIdx.push_back(blines.size()); blines.push_back("");}
         continue;
      }
      pump:
      const bool out = (what < 61)||((L.retryQueue)&&(what < 22));
      uint32_t M = MUSCLE_NO_LIMIT;
      if (style == 2) M = 1; else if ((style != 3)&&(r.R(3) == 0)) M = Pick(r, kMaxMenu, sizeof(kMaxMenu) / sizeof(kMaxMenu[0]));
      std::vector<uint64_t> caps; const uint32_t nc = (style == 3) ? 0 : (1 + r.R(4));
      for (uint32_t k=0; k<nc; k++) caps.push_back((style == 1) ? r.R(2) : Pick(r, kCapMenu, sizeof(kCapMenu) / sizeof(kCapMenu[0])));
      if (idle > 50) {caps.assign(3, 100000); M = MUSCLE_NO_LIMIT;}    // the random transport has starved the pair for a while: let something through
      if (out) {
         if (style == 3) L.ws.Free(); else L.ws.Arm(caps, false);
         const uint64_t p0 = L.fwd.put;
         const int64_t ret = L.DoOutput(M);
         if (ret < 0) {o.violations.push_back(Fmt("DoOutput(%u) reported an error", M)); break;}
         C.ioCalls += L.ws.results.size(); for (size_t k=0; k<L.ws.results.size(); k++) {if (L.ws.results[k] == 0) C.zeroResults++; if (L.ws.results[k] == 1) C.oneByteResults++;}
         if (bl) {std::string ln = Fmt("{\"e\":\"Out\",\"m\":%lld,\"w\":[", (M == MUSCLE_NO_LIMIT) ? -1LL : (long long) M); for (size_t k=0; k<L.ws.results.size(); k++) ln += Fmt("%s%u", k ? "," : "", L.ws.results[k]); ln += Fmt("],\"ret\":%lld,\"q\":%d}", (long long) ret, L.TxQueueLen()); blines.push_back(ln);}
         idle = (L.fwd.put != p0) ? 0 : (idle + 1);
      } else {
         if (style == 3) L.rs.Free(); else L.rs.Arm(caps, false);
         const uint64_t g0 = L.fwd.got;
         std::vector<Bytes> items;
         const int64_t ret = L.DoInput(M, items);
         std::string dl;
         for (size_t k=0; k<items.size(); k++) {const uint32_t j = mon.OnDelivered(items[k], o); C.itemsDelivered++; dl += Fmt("%s%u", k ? "," : "", j);}
         if (ret < 0) {o.violations.push_back(Fmt("DoInput(%u) reported an error on a stream written by a gateway of the same type", M)); break;}
         C.ioCalls += L.rs.results.size(); for (size_t k=0; k<L.rs.results.size(); k++) {if (L.rs.results[k] == 0) C.zeroResults++; if (L.rs.results[k] == 1) C.oneByteResults++;}
         if (bl) {std::string ln = Fmt("{\"e\":\"In\",\"m\":%lld,\"r\":[", (M == MUSCLE_NO_LIMIT) ? -1LL : (long long) M); for (size_t k=0; k<L.rs.results.size(); k++) ln += Fmt("%s%u", k ? "," : "", L.rs.results[k]); ln += Fmt("],\"ret\":%lld,\"dl\":[%s]}", (long long) ret, dl.c_str()); blines.push_back(ln);}
         idle = ((L.fwd.got != g0)||(!items.empty())) ? 0 : (idle + 1);
      }
      L.ws.Free(); L.rs.Free();
      L.PumpReverse();
   }
   bool quiet = false;
   if ((!dead)&&(o.violations.empty())) {
      // the last bytes may sit in the receiver's hands only if the gateway type says so (minimum chunk size); otherwise delivered = sent now
      mon.AtQuiescence(o, "at quiescence (every Message queued, sender idle, wire empty)");
      quiet = o.violations.empty();
   }
   if ((bl)&&(o.violations.empty())) {
      // frame sizes from the stream the sender wrote (MessageIOGateway.h: 4 bytes body length, 4 bytes encoding; the templating gateway uses the top bit of the length word)
      const Bytes & all = L.fwd.all; size_t p = 0, f = 0; bool ok = true;
      while((p + 8 <= all.size())&&(f < sendLineIdx.size())) {
         const uint32_t len = ((uint32_t)(unsigned char) all[p] | ((uint32_t)(unsigned char) all[p+1] << 8) | ((uint32_t)(unsigned char) all[p+2] << 16) | ((uint32_t)(unsigned char) all[p+3] << 24)) & 0x7FFFFFFFu;
         blines[sendLineIdx[f]] = Fmt("{\"e\":\"Send\",\"size\":%u}", len + 8); p += 8 + (size_t) len; f++;
      }
      if ((f != sendLineIdx.size())||(p != all.size())) ok = false;
      if (ok) {
         fprintf(binLog, "{\"e\":\"Reset\",\"cfg\":\"%s\",\"seed\":%u}\n", cfg.c_str(), seed);
         for (size_t k=0; k<blines.size(); k++) fprintf(binLog, "%s\n", blines[k].c_str());
         if (quiet) fprintf(binLog, "{\"e\":\"End\"}\n");
         C.traceLines += blines.size() + 2;
      } else o.drift.push_back(Fmt("the stream written by the sender does not parse as %u frames of 8-byte header + body (parsed %u, %llu of %llu bytes)", (unsigned) sendLineIdx.size(), (unsigned) f, (unsigned long long) p, (unsigned long long) all.size()));
   }
   C.runs++; C.bytesMoved += L.fwd.got; if (absLog) C.tracedRuns++;
   if (!(o.violations.empty() && o.drift.empty())) {
      mj::Value v = mj::Value::Obj(); v.set("config", mj::Value::Str(cfg)).set("random_run_seed", mj::Value::Int(seed)).set("messages", mj::Value::Int(nmsgs)).set("style", mj::Value::Int(style)).set("calls", mj::Value::Int((int64_t) calls));
      if (fixed) {mj::Value tags = mj::Value::Arr(); for (size_t i=0; i<fixed->size(); i++) tags.push(mj::Value::Str((*fixed)[i].tag)); v.set("menu_messages", tags);}
      g_rep.Case(v, o);
   }
   delete Lp;
}

// ---------------------------------------------------------------------------------------------- size sweeps
// a binary Message whose FlattenedSize() is exactly n (n = 12: what code only; 27 .. 33: one int8 field, the name makes the size; from 34: a padded raw field)
inline MsgSpec SizedBin(uint32_t n, bool rnd) {
   MsgSpec s; s.fam = FAM_BIN; s.what = 1300; char t[32]; snprintf(t, sizeof(t), "size%u%s", n, rnd ? "rnd" : "cmp"); s.tag = t;
   if (n <= 12) return s;
   if (n < 34) {s.fields.push_back(F('y', std::string((n > 27) ? (n - 26) : 1, 'n').c_str(), 1, 5)); return s;}
   s.padTo = (int32_t) n; Finalize(s); return s;
}
inline MsgSpec SizedText(const std::vector<uint32_t> & lens) {MsgSpec s; s.fam = FAM_TEXT; s.tag = "lines"; for (size_t i=0; i<lens.size(); i++) {char t[16]; snprintf(t, sizeof(t), ".%u", lens[i]); s.tag += t; s.lines.push_back(Fill(3, lens[i], lens[i] + (uint32_t) i));} return s;}
inline MsgSpec SizedRaw(const std::vector<uint32_t> & lens, uint32_t style) {MsgSpec s; s.fam = FAM_RAW; s.tag = "chunks"; for (size_t i=0; i<lens.size(); i++) {char t[16]; snprintf(t, sizeof(t), ".%u", lens[i]); s.tag += t; s.chunks.push_back(Fill(style, lens[i], lens[i] + (uint32_t) i));} return s;}
inline SizeCase Case1(const std::string & what, const MsgSpec & m, const MsgSpec * then = NULL) {SizeCase c; c.what = what; c.msgs.push_back(m); if (then) c.msgs.push_back(*then); return c;}
// how many bytes a Message puts on the wire of a fresh connection of this configuration
inline uint64_t WireBytes(LinkFactory mk, const std::string & cfg, const MsgSpec & m) {
   Link * L = mk(cfg); Monitor dm(L->gran, L->slack, L->maxChunk, NULL); Outcome junk;
   (void) L->Prepare(1); const uint64_t base = L->fwd.put; (void) L->Queue(m); (void) Drain(*L, dm, junk);
   const uint64_t r = L->fwd.put - base; delete L; return r;
}
// binary family: every Message size whose WIRE body (after compression / templating, without the 8-byte header) lies in [lo, hi]
inline void BinBodySweep(LinkFactory mk, const std::string & cfg, uint32_t lo, uint32_t hi, uint32_t header, const char * why, std::vector<SizeCase> & out) {
   const MsgSpec small = MenuMessage(FAM_BIN, 0, 1, true, false);
   std::set<uint64_t> seen;
   for (uint32_t n = (lo > 80) ? (lo - 80) : 12; n <= hi + 2; n++) {
      if ((n > 12)&&(n < 27)) continue;
      const MsgSpec m = SizedBin(n, true);
      const uint64_t w = WireBytes(mk, cfg, m);
      if ((w < header + lo)||(w > header + hi)||(seen.count(w))) continue;
      seen.insert(w);
      out.push_back(Case1(Fmt("%s: Message of %u bytes = %llu body bytes on the wire", why, n, (unsigned long long)(w - header)), m, &small));
   }
}
// reject cases: the Messages before rejectAt arrive, Message rejectAt is not handed over
inline void RejectRun(LinkFactory mk, const std::string & cfg, const SizeCase & sc, int style, uint32_t seed, Counters & C) {
   Rng r(seed * 7919 + 5); Outcome o;
   Watch(Fmt("size limit cfg=%s %s style=%d", cfg.c_str(), sc.what.c_str(), style));
   Link * Lp = mk(cfg); Link & L = *Lp; Monitor mon(L.gran, L.slack, L.maxChunk, NULL);
   if (!L.Prepare(seed)) o.violations.push_back("the connection could not be set up");
   for (size_t i=0; (i<sc.msgs.size())&&(o.violations.empty()); i++) {MsgSpec m = sc.msgs[i]; Finalize(m); if (!L.Queue(m)) {o.violations.push_back("AddOutgoingMessage failed"); break;} mon.OnSent(m); C.messages++;}
   bool rxErr = false; int idle = 0;
   for (int round=0; (round<400000)&&(idle<60)&&(o.violations.empty())&&(!rxErr); round++) {
      std::vector<uint64_t> caps; for (uint32_t k=0; k<1+r.R(3); k++) caps.push_back((style == 1) ? r.R(2) : Pick(r, kCapMenu, sizeof(kCapMenu) / sizeof(kCapMenu[0])));
      const uint64_t p0 = L.fwd.put + L.fwd.got;
      if (style == 3) L.ws.Free(); else L.ws.Arm(caps, false);
      if (L.DoOutput(MUSCLE_NO_LIMIT) < 0) {o.violations.push_back("DoOutput() reported an error"); break;}
      if (style == 3) L.rs.Free(); else L.rs.Arm(caps, false);
      std::vector<Bytes> items; const int64_t ret = L.DoInput(MUSCLE_NO_LIMIT, items);
      for (size_t k=0; k<items.size(); k++) {
         if ((int) mon.nd >= sc.rejectAt) {o.violations.push_back(Fmt("Message %d (%s) is over the receiver's documented size limit but was handed over", sc.rejectAt + 1, sc.msgs[sc.rejectAt].tag.c_str())); break;}
         (void) mon.OnDelivered(items[k], o); C.itemsDelivered++;
      }
      if (ret < 0) rxErr = true;
      idle = (L.fwd.put + L.fwd.got != p0) ? 0 : (idle + 1);
      L.ws.Free(); L.rs.Free();
   }
   if ((o.violations.empty())&&((int) mon.nd != sc.rejectAt)) o.violations.push_back(Fmt("%u of the %d Messages within the receiver's size limit were handed over (Message %d is over it)", (unsigned) mon.nd, sc.rejectAt, sc.rejectAt + 1));
   C.runs++; C.bytesMoved += L.fwd.got;
   if (!o.violations.empty()) {mj::Value v = mj::Value::Obj(); v.set("config", mj::Value::Str(cfg)).set("size_case", mj::Value::Str(sc.what)).set("style", mj::Value::Int(style)).set("seed", mj::Value::Int(seed)); g_rep.Case(v, o);}
   delete Lp;
}

inline mj::Value CountersJson(const Counters & C) {
   mj::Value v = mj::Value::Obj();
   v.set("replays", mj::Value::Int(C.replays)).set("followed", mj::Value::Int(C.followed)).set("drifted", mj::Value::Int(C.drifted)).set("steps", mj::Value::Int(C.steps))
    .set("io_calls", mj::Value::Int(C.ioCalls)).set("zero_byte_results", mj::Value::Int(C.zeroResults)).set("one_byte_results", mj::Value::Int(C.oneByteResults))
    .set("items_delivered", mj::Value::Int(C.itemsDelivered)).set("bytes_moved", mj::Value::Int(C.bytesMoved)).set("messages", mj::Value::Int(C.messages))
    .set("runs", mj::Value::Int(C.runs)).set("trace_lines", mj::Value::Int(C.traceLines)).set("traced_runs", mj::Value::Int(C.tracedRuns)).set("messages_skipped_known_finding", mj::Value::Int(C.skippedKnown));
   return v;
}

// the two modes every program of the family has.  argv: replay <behaviours.ndjson> <report> <hsa> <scra> <nvariants> <seed> <cfg>...
//                                                       explore <report> <abs trace> <bin trace> <seed> <runs per cfg> <msgs per run> <traced runs per cfg> <msgs per traced run> <cfg>...
inline int CommonMain(int argc, char ** argv, LinkFactory mk) {
   const std::string mode = (argc > 1) ? argv[1] : "";
   if ((mode == "replay")&&(argc >= 9)) {
      InitHarness(argv[3]);
      const uint32_t hsa = atoi(argv[4]), scra = atoi(argv[5]); const int nvar = atoi(argv[6]); const uint32_t seed = (uint32_t) atoll(argv[7]);
      std::vector<std::string> cfgs; for (int i=8; i<argc; i++) cfgs.push_back(argv[i]);
      std::vector<mj::Value> behs;
      {FILE * f = fopen(argv[2], "r"); if (f == NULL) {fprintf(stderr, "cannot read %s\n", argv[2]); return 3;} std::string line; while(mj::ReadLine(f, line)) {mj::Value v; if ((!line.empty())&&(mj::Parse(line, v))) behs.push_back(v);} fclose(f);}
      mj::Value per = mj::Value::Obj(); Counters T;
      for (size_t c=0; (c<cfgs.size())&&(!g_rep.Stop()); c++) {
         Counters C;
         for (size_t b=0; (b<behs.size())&&(!g_rep.Stop()); b++) for (int k=0; k<nvar; k++) ReplayBehaviour(mk, cfgs[c], behs[b], hsa, scra, (int)((behs[b]["id"].i() + k) % 3), seed, C);
         per.set(cfgs[c], CountersJson(C));
         T.replays += C.replays; T.followed += C.followed; T.drifted += C.drifted; T.steps += C.steps; T.ioCalls += C.ioCalls; T.zeroResults += C.zeroResults; T.oneByteResults += C.oneByteResults;
         T.itemsDelivered += C.itemsDelivered; T.bytesMoved += C.bytesMoved; T.messages += C.messages;
      }
      ArmTimer(0);
      mj::Value s = CountersJson(T); s.set("summary", mj::Value::Bool(true)).set("mode", mj::Value::Str("replay")).set("behaviours", mj::Value::Int((int64_t) behs.size())).set("per_config", per).set("stopped_early", mj::Value::Bool(g_rep.Stop()));
      g_rep.Line(s); fclose(g_rep.f);
      return 0;
   }
   if ((mode == "explore")&&(argc >= 11)) {
      InitHarness(argv[2]);
      FILE * absLog = fopen(argv[3], "w"); FILE * binLog = fopen(argv[4], "w");
      const uint32_t seed = (uint32_t) atoll(argv[5]); const uint32_t runs = atoi(argv[6]), nmsgs = atoi(argv[7]), traced = atoi(argv[8]), tmsgs = atoi(argv[9]);
      mj::Value per = mj::Value::Obj(); Counters T;
      for (int i=10; (i<argc)&&(!g_rep.Stop()); i++) {
         Counters C;
         for (uint32_t k=0; (k<runs)&&(!g_rep.Stop()); k++) {
            const int style = (k % 8 == 5) ? 1 : ((k % 8 == 6) ? 2 : ((k % 8 == 7) ? 3 : 0));
            // (runs whose logs go to TLC: byte-at-a-time styles with 2 Messages only, their logs have two lines per byte)
            const uint32_t n = (k < traced) ? ((style == 1 || style == 2) ? 2 : tmsgs) : ((style == 1 || style == 2) ? (nmsgs / 12 + 2) : ((k % 3 == 0) ? nmsgs : (nmsgs / 4 + 1)));
            RandomRun(mk, argv[i], seed * 1000 + k, n, style, C, (k < traced) ? absLog : NULL, (k < traced) ? binLog : NULL);
         }
         per.set(argv[i], CountersJson(C));
         T.runs += C.runs; T.messages += C.messages; T.ioCalls += C.ioCalls; T.zeroResults += C.zeroResults; T.oneByteResults += C.oneByteResults; T.itemsDelivered += C.itemsDelivered; T.bytesMoved += C.bytesMoved; T.traceLines += C.traceLines; T.tracedRuns += C.tracedRuns; T.skippedKnown += C.skippedKnown;
      }
      ArmTimer(0);
      if (absLog) fclose(absLog);
      if (binLog) fclose(binLog);
      mj::Value s = CountersJson(T); s.set("summary", mj::Value::Bool(true)).set("mode", mj::Value::Str("explore")).set("per_config", per).set("stopped_early", mj::Value::Bool(g_rep.Stop()));
      g_rep.Line(s); fclose(g_rep.f);
      return 0;
   }
   // sizes <report> <seed> <big 0|1> <cfg>... : Message / line / chunk SIZES across the internal thresholds of the gateways of each configuration
   // (Link::SizeCases), each in one piece, under two random segmentations and (small ones) one byte at a time
   if ((mode == "sizes")&&(argc >= 6)) {
      InitHarness(argv[2]);
      const uint32_t seed = (uint32_t) atoll(argv[3]); const bool big = atoi(argv[4]) != 0;
      mj::Value per = mj::Value::Obj(); Counters T; uint64_t ncases = 0, nreject = 0;
      for (int i=5; (i<argc)&&(!g_rep.Stop()); i++) {
         Counters C; Link * probe = mk(argv[i]); if (probe == NULL) {fprintf(stderr, "unknown configuration %s\n", argv[i]); return 3;}
         std::vector<SizeCase> cases; probe->SizeCases(cases, big); delete probe;
         for (size_t c=0; (c<cases.size())&&(!g_rep.Stop()); c++) {
            ncases++;
            uint64_t bytes = 0; for (size_t k=0; k<cases[c].msgs.size(); k++) {const MsgSpec & m = cases[c].msgs[k]; if (m.fam == FAM_BIN) bytes += Flat(*Build(m)()).size(); for (size_t j=0; j<m.lines.size(); j++) bytes += m.lines[j].size(); for (size_t j=0; j<m.chunks.size(); j++) bytes += m.chunks[j].size();}
            static const int styles[4] = {3, 0, 0, 1};
            for (int st=0; (st<4)&&(!g_rep.Stop()); st++) {
               if ((styles[st] == 1)&&(bytes > 9000)) continue;
               const size_t before = g_rep.badCases;
               if (cases[c].rejectAt >= 0) {nreject++; RejectRun(mk, argv[i], cases[c], styles[st], seed * 50 + st, C);}
               else RandomRun(mk, argv[i], seed * 50 + st + (uint32_t) c * 4, 0, styles[st], C, NULL, NULL, &cases[c].msgs);
               if (g_rep.badCases != before) {mj::Value v = mj::Value::Obj(); v.set("config", mj::Value::Str(argv[i])).set("size_case_of_the_line_above", mj::Value::Str(cases[c].what)); g_rep.Line(v); break;}
            }
         }
         mj::Value cj = CountersJson(C); cj.set("size_cases", mj::Value::Int((int64_t) cases.size())); per.set(argv[i], cj);
         T.runs += C.runs; T.messages += C.messages; T.ioCalls += C.ioCalls; T.zeroResults += C.zeroResults; T.oneByteResults += C.oneByteResults; T.itemsDelivered += C.itemsDelivered; T.bytesMoved += C.bytesMoved;
      }
      ArmTimer(0);
      mj::Value s = CountersJson(T); s.set("summary", mj::Value::Bool(true)).set("mode", mj::Value::Str("sizes")).set("size_cases", mj::Value::Int((int64_t) ncases)).set("limit_runs", mj::Value::Int((int64_t) nreject)).set("per_config", per).set("stopped_early", mj::Value::Bool(g_rep.Stop()));
      g_rep.Line(s); fclose(g_rep.f);
      return 0;
   }
   // menu <report> <seed> <big 0|1> <cfg>... : every member of the Message menu, followed by a small Message and by itself again (identical repeat),
   // one byte at a time (every Read / Write moves at most one byte), with maxBytes = 1 on every call, and in one piece
   if ((mode == "menu")&&(argc >= 6)) {
      InitHarness(argv[2]);
      const uint32_t seed = (uint32_t) atoll(argv[3]); const bool big = atoi(argv[4]) != 0;
      mj::Value per = mj::Value::Obj(); Counters T;
      for (int i=5; (i<argc)&&(!g_rep.Stop()); i++) {
         Counters C; Link * probe = mk(argv[i]); if (probe == NULL) {fprintf(stderr, "unknown configuration %s\n", argv[i]); return 3;}
         const Family fam = probe->fam; const bool simple = probe->simple; const bool pbig = probe->big && big; delete probe;
         std::set<std::string> seen;
         for (int cls=0; cls<3; cls++) for (uint32_t v=0; v<6; v++) {
            MsgSpec m = MenuMessage(fam, cls, v, simple, pbig); if (seen.count(m.tag)) continue; seen.insert(m.tag);
            std::vector<MsgSpec> fixed; fixed.push_back(m); fixed.push_back(MenuMessage(fam, 0, 1, simple, false)); fixed.push_back(m);
            for (int style=1; (style<=3)&&(!g_rep.Stop()); style++) RandomRun(mk, argv[i], seed * 100 + cls * 10 + v, 3, style, C, NULL, NULL, &fixed);
         }
         per.set(argv[i], CountersJson(C));
         T.runs += C.runs; T.messages += C.messages; T.ioCalls += C.ioCalls; T.zeroResults += C.zeroResults; T.oneByteResults += C.oneByteResults; T.itemsDelivered += C.itemsDelivered; T.bytesMoved += C.bytesMoved;
      }
      ArmTimer(0);
      mj::Value s = CountersJson(T); s.set("summary", mj::Value::Bool(true)).set("mode", mj::Value::Str("menu")).set("per_config", per).set("stopped_early", mj::Value::Bool(g_rep.Stop()));
      g_rep.Line(s); fclose(g_rep.f);
      return 0;
   }
   return -1;
}

}  // namespace gwh
#endif
