// C03 conformance program for the C MicroMessageGateway against the C++ MessageIOGateway (both directions); see gwmini.cpp / gwcommon.h.
//   configurations: micro_tx (C UMessageGateway sends Messages built natively with UMAdd*, C++ MessageIOGateway receives), micro_rx (other way round)
#include "gwcommon.h"
#include "iogateway/MessageIOGateway.h"
extern "C" {
#include "lang/c/micromessage/MicroMessage.h"
#include "lang/c/micromessage/MicroMessageGateway.h"
}
using namespace muscle;
using namespace gwh;

class ScriptIO : public DataIO
{
public:
   ScriptIO(Pipe * rd, Script * rs, Pipe * wr, Script * ws) : _rd(rd), _rs(rs), _wr(wr), _ws(ws) {}
   virtual io_status_t Read(void * b, uint32 n) {if (_rd == NULL) return io_status_t(0); const uint32 c = _rs->Serve(n, _rd->got, _rd->avail()); (void) _rd->pop(b, c); return io_status_t((int32) c);}
   virtual io_status_t Write(const void * b, uint32 n) {if (_wr == NULL) return io_status_t((int32) n); const uint32 c = _ws->Serve(n, _wr->put, NOAVAIL); _wr->push(b, c); return io_status_t((int32) c);}
   virtual void FlushOutput() {}
   virtual void Shutdown() {}
   virtual const ConstSocketRef & GetReadSelectSocket() const {return GetNullSocket();}
   virtual const ConstSocketRef & GetWriteSelectSocket() const {return GetNullSocket();}
private:
   Pipe * _rd; Script * _rs; Pipe * _wr; Script * _ws;
};

struct CEnd {Pipe * p; Script * s;};
static int32 CSend(const uint8 * buf, uint32 n, void * arg) {CEnd * e = (CEnd *) arg; const uint32 c = e->s->Serve(n, e->p->put, NOAVAIL); e->p->push(buf, c); return (int32) c;}
static int32 CRecv(uint8 * buf, uint32 n, void * arg) {CEnd * e = (CEnd *) arg; const uint32 c = e->s->Serve(n, e->p->got, e->p->avail()); (void) e->p->pop(buf, c); return (int32) c;}

static const uint32 kInBuf = 256 * 1024, kOutBuf = 1024 * 1024;

class MicroLink : public Link
{
public:
   bool cSends; UMessageGateway cgw; uint8 * ib; uint8 * ob; MessageIOGateway cpp; QueueGatewayMessageReceiver q; CEnd end; bool cErr; uint64_t queuedBytes;
   MicroLink(bool cs) : cSends(cs), ib(new uint8[kInBuf]), ob(new uint8[kOutBuf]), cErr(false), queuedBytes(0) {
      UGGatewayInitialize(&cgw, ib, kInBuf, ob, kOutBuf);
      simple = cSends;   // the native writer below knows int32 arrays, strings and raw data
      if (cSends) {cpp.SetDataIO(DataIORef(new ScriptIO(&fwd, &rs, NULL, NULL))); end.p = &fwd; end.s = &ws;}
             else {cpp.SetDataIO(DataIORef(new ScriptIO(NULL, NULL, &fwd, &ws))); end.p = &fwd; end.s = &rs;}
   }
   virtual ~MicroLink() {delete [] ib; delete [] ob;}
   virtual bool CanQueueNow() {return (!cSends)||((queuedBytes - fwd.put) < (kOutBuf / 2));}   // the output buffer is all the queue there is: leave room for the largest Message
   virtual bool Queue(const MsgSpec & s0) {
      if (!cSends) return cpp.AddOutgoingMessage(Build(s0)).IsOK();
      MsgSpec s = s0; Finalize(s);
      UMessage um = UGGetOutgoingMessage(&cgw, s.what);
      if (!UMIsMessageValid(&um)) return false;
      bool ok = true;
      for (size_t i=0; (i<s.fields.size())&&(ok); i++) {
         const Field & f = s.fields[i];
         switch(f.type) {
            case 'i': {std::vector<int32> v; for (uint32_t k=0; k<f.n; k++) v.push_back((int32)(f.style * 1000 + k)); ok = (UMAddInt32s(&um, f.name.c_str(), &v[0], (uint32) v.size()) == CB_NO_ERROR);} break;
            case 's': {const Bytes t = Fill(3, f.n, f.style); ok = (UMAddString(&um, f.name.c_str(), t.c_str()) == CB_NO_ERROR);} break;
            case 'b': {const Bytes t = Fill(f.style, f.n, f.n + 1); ok = (UMAddData(&um, f.name.c_str(), B_RAW_TYPE, t.data(), (uint32) t.size()) == CB_NO_ERROR);} break;
            default: ok = false; break;
         }
      }
      if (!ok) {UGOutgoingMessageCancelled(&cgw, &um); return false;}
      queuedBytes += 8 + UMGetFlattenedSize(&um);
      UGOutgoingMessagePrepared(&cgw, &um);
      return true;
   }
   virtual int64_t DoOutput(uint32_t maxBytes) {
      if (cSends) {if (cErr) return -1; const int32 r = UGDoOutput(&cgw, maxBytes, CSend, &end); if (r < 0) cErr = true; return r;}
      const io_status_t r = cpp.DoOutput(maxBytes); return ((r.IsError())||(cpp.GetUnrecoverableErrorStatus().IsError())) ? -1 : r.GetByteCount();
   }
   virtual int64_t DoInput(uint32_t maxBytes, std::vector<Bytes> & items) {
      if (cSends) {
         const io_status_t r = cpp.DoInput(q, maxBytes);
         MessageRef m; while(q.RemoveHead(m).IsOK()) if (m()) items.push_back(Flat(*m()));
         return ((r.IsError())||(cpp.GetUnrecoverableErrorStatus().IsError())) ? -1 : r.GetByteCount();
      }
      if (cErr) return -1;
      UMessage rm; memset(&rm, 0, sizeof(rm));
      const int32 r = UGDoInput(&cgw, maxBytes, CRecv, &end, &rm);
      if (UMIsMessageValid(&rm)) items.push_back(Bytes((const char *) UMGetFlattenedBuffer(&rm), UMGetFlattenedSize(&rm)));
      if (r < 0) cErr = true;
      return r;
   }
   virtual bool TxIdle() {return cSends ? (UGHasBytesToOutput(&cgw) == UFalse) : !cpp.HasBytesToOutput();}
};

static Link * MakeLink(const std::string & cfg)
{
   if (cfg == "micro_tx") return new MicroLink(true);
   if (cfg == "micro_rx") return new MicroLink(false);
   return NULL;
}

int main(int argc, char ** argv)
{
   CompleteSetupSystem css; SetConsoleLogLevel(MUSCLE_LOG_NONE);
   if ((argc > 1)&&(!strcmp(argv[1], "configs"))) {printf("micro_tx\nmicro_rx\n"); return 0;}
   const int r = CommonMain(argc, argv, MakeLink);
   if (r >= 0) return r;
   fprintf(stderr, "usage: gwmicro replay|explore|menu|configs ...\n");
   return 3;
}
