// C03 conformance program for the C MicroMessageGateway against the C++ MessageIOGateway (both directions); see gwmini.cpp / gwcommon.h.
//   configurations: micro_tx (C UMessageGateway sends Messages built natively with UMAdd*, C++ MessageIOGateway receives), micro_rx (other way round)
#include "gwcommon.h"
#include "iogateway/MessageIOGateway.h"
extern "C" {
#include "lang/c/micromessage/MicroMessage.h"
#include "lang/c/micromessage/MicroMessageGateway.h"
}
using namespace muscle;
using namespace gwh;

class ScriptIO : public DataIO
{
public:
   ScriptIO(Pipe * rd, Script * rs, Pipe * wr, Script * ws) : _rd(rd), _rs(rs), _wr(wr), _ws(ws) {}
   virtual io_status_t Read(void * b, uint32 n) {if (_rd == NULL) return io_status_t(0); const uint32 c = _rs->Serve(n, _rd->got, _rd->avail()); (void) _rd->pop(b, c); return io_status_t((int32) c);}
   virtual io_status_t Write(const void * b, uint32 n) {if (_wr == NULL) return io_status_t((int32) n); const uint32 c = _ws->Serve(n, _wr->put, NOAVAIL); _wr->push(b, c); return io_status_t((int32) c);}
   virtual void FlushOutput() {}
   virtual void Shutdown() {}
   virtual const ConstSocketRef & GetReadSelectSocket() const {return GetNullSocket();}
   virtual const ConstSocketRef & GetWriteSelectSocket() const {return GetNullSocket();}
private:
   Pipe * _rd; Script * _rs; Pipe * _wr; Script * _ws;
};

struct CEnd {Pipe * p; Script * s;};
static int32 CSend(const uint8 * buf, uint32 n, void * arg) {CEnd * e = (CEnd *) arg; const uint32 c = e->s->Serve(n, e->p->put, NOAVAIL); e->p->push(buf, c); return (int32) c;}
static int32 CRecv(uint8 * buf, uint32 n, void * arg) {CEnd * e = (CEnd *) arg; const uint32 c = e->s->Serve(n, e->p->got, e->p->avail()); (void) e->p->pop(buf, c); return (int32) c;}

static const uint32 kInBuf = 256 * 1024, kOutBuf = 1024 * 1024;
static const uint32 kSmallBuf = 4096;   // configurations micro_rx_4k / micro_tx_4k: the caller-supplied buffers ARE the thresholds of MicroMessageGateway.c

class MicroLink : public Link
{
public:
   bool cSends; UMessageGateway cgw; uint8 * ib; uint8 * ob; MessageIOGateway cpp; QueueGatewayMessageReceiver q; CEnd end; bool cErr; uint64_t queuedBytes; uint32 inSize, outSize;
   MicroLink(bool cs, bool smallBufs) : cSends(cs), ib(new uint8[kInBuf]), ob(new uint8[kOutBuf]), cErr(false), queuedBytes(0), inSize(smallBufs ? kSmallBuf : kInBuf), outSize(smallBufs ? kSmallBuf : kOutBuf) {
      UGGatewayInitialize(&cgw, ib, inSize, ob, outSize);
      retryQueue = (smallBufs && cSends); big = !smallBufs;
      simple = cSends;   // the native writer below knows int32 arrays, strings and raw data
      if (cSends) {cpp.SetDataIO(DataIORef(new ScriptIO(&fwd, &rs, NULL, NULL))); end.p = &fwd; end.s = &ws;}
             else {cpp.SetDataIO(DataIORef(new ScriptIO(NULL, NULL, &fwd, &ws))); end.p = &fwd; end.s = &rs;}
   }
   virtual ~MicroLink() {delete [] ib; delete [] ob;}
   virtual bool CanQueueNow() {return (!cSends)||(retryQueue)||((queuedBytes - fwd.put) < (kOutBuf / 2));}   // the output buffer is all the queue there is: leave room for the largest Message
   virtual bool Queue(const MsgSpec & s0) {
      if (!cSends) return cpp.AddOutgoingMessage(Build(s0)).IsOK();
      MsgSpec s = s0; Finalize(s);
      if (retryQueue) {
         // will it fit?  (the space UGGetOutgoingMessage will offer: what is free behind the pending bytes, after its move-to-the-front below a quarter of the buffer)
         uint32 avail = (uint32)((cgw._outputBuffer + cgw._outputBufferSize) - (cgw._firstValidOutputByte + cgw._numValidOutputBytes));
         if (avail < cgw._outputBufferSize / 4) avail = cgw._outputBufferSize - cgw._numValidOutputBytes;
         if (8 + Flat(*Build(s)()).size() > avail) return false;
      }
      UMessage um = UGGetOutgoingMessage(&cgw, s.what);
      if (!UMIsMessageValid(&um)) return false;
      bool ok = true;
      for (size_t i=0; (i<s.fields.size())&&(ok); i++) {
         const Field & f = s.fields[i];
         switch(f.type) {
            case 'y': {std::vector<int8> v; for (uint32_t k=0; k<f.n; k++) v.push_back((int8)(f.style + k)); ok = (UMAddInt8s(&um, f.name.c_str(), &v[0], (uint32) v.size()) == CB_NO_ERROR);} break;
            case 'i': {std::vector<int32> v; for (uint32_t k=0; k<f.n; k++) v.push_back((int32)(f.style * 1000 + k)); ok = (UMAddInt32s(&um, f.name.c_str(), &v[0], (uint32) v.size()) == CB_NO_ERROR);} break;
            case 's': {const Bytes t = Fill(3, f.n, f.style); ok = (UMAddString(&um, f.name.c_str(), t.c_str()) == CB_NO_ERROR);} break;
            case 'b': {const Bytes t = Fill(f.style, f.n, f.n + 1); ok = (UMAddData(&um, f.name.c_str(), B_RAW_TYPE, t.data(), (uint32) t.size()) == CB_NO_ERROR);} break;
            default: ok = false; break;
         }
      }
      if (!ok) {UGOutgoingMessageCancelled(&cgw, &um); return false;}
      queuedBytes += 8 + UMGetFlattenedSize(&um);
      UGOutgoingMessagePrepared(&cgw, &um);
      return true;
   }
   virtual int64_t DoOutput(uint32_t maxBytes) {
      if (cSends) {if (cErr) return -1; const int32 r = UGDoOutput(&cgw, maxBytes, CSend, &end); if (r < 0) cErr = true; return r;}
      const io_status_t r = cpp.DoOutput(maxBytes); return ((r.IsError())||(cpp.GetUnrecoverableErrorStatus().IsError())) ? -1 : r.GetByteCount();
   }
   virtual int64_t DoInput(uint32_t maxBytes, std::vector<Bytes> & items) {
      if (cSends) {
         const io_status_t r = cpp.DoInput(q, maxBytes);
         MessageRef m; while(q.RemoveHead(m).IsOK()) if (m()) items.push_back(Flat(*m()));
         return ((r.IsError())||(cpp.GetUnrecoverableErrorStatus().IsError())) ? -1 : r.GetByteCount();
      }
      if (cErr) return -1;
      UMessage rm; memset(&rm, 0, sizeof(rm));
      const int32 r = UGDoInput(&cgw, maxBytes, CRecv, &end, &rm);
      if (UMIsMessageValid(&rm)) items.push_back(Bytes((const char *) UMGetFlattenedBuffer(&rm), UMGetFlattenedSize(&rm)));
      if (r < 0) cErr = true;
      return r;
   }
   virtual bool TxIdle() {return cSends ? (UGHasBytesToOutput(&cgw) == UFalse) : !cpp.HasBytesToOutput();}
   virtual void SizeCases(std::vector<SizeCase> & out, bool big);
};

static Link * MakeLink(const std::string & cfg)
{
   Link * l = NULL;
   if (cfg == "micro_tx") l = new MicroLink(true, false);
   if (cfg == "micro_rx") l = new MicroLink(false, false);
   if (cfg == "micro_tx_4k") l = new MicroLink(true, true);
   if (cfg == "micro_rx_4k") l = new MicroLink(false, true);
   if (l) l->name = cfg;
   return l;
}

void MicroLink :: SizeCases(std::vector<SizeCase> & out, bool /*big*/)
{
   const MsgSpec small = MenuMessage(FAM_BIN, 0, 1, true, false);
   if (name == "micro_rx_4k") {
      // UGGatewayInitialize: "if a UMessage is received that is too large, the stream will be broken": bodies up to the input buffer size arrive, one byte more does not
      for (uint32_t n = inSize - 6; n <= inSize; n++) out.push_back(Case1(Fmt("input buffer %u: Message of %u bytes", inSize, n), SizedBin(n, true), &small));
      SizeCase r; r.what = Fmt("input buffer %u: Message of %u bytes, then one of %u bytes", inSize, inSize, inSize + 1); r.msgs.push_back(SizedBin(inSize, true)); r.msgs.push_back(SizedBin(inSize + 1, true)); r.rejectAt = 1; out.push_back(r);
      return;
   }
   if (name == "micro_tx_4k") {
      // the output buffer is all the queue there is: a Message that fills it exactly; trains of frames around a quarter of it (below a quarter of free space the
      // pending bytes are moved to the front before the next Message is built)
      out.push_back(Case1(Fmt("output buffer %u: Message of %u bytes (frame = the whole buffer)", outSize, outSize - 8), SizedBin(outSize - 8, true), &small));
      for (uint32_t f = outSize / 4 - 8; f <= outSize / 4 + 8; f++) {SizeCase c; c.what = Fmt("output buffer %u: 12 frames of %u bytes", outSize, f); for (int k=0; k<12; k++) c.msgs.push_back(SizedBin(f - 8, (k & 1) != 0)); out.push_back(c);}
      for (uint32_t f = outSize / 2 - 3; f <= outSize / 2 + 3; f++) {SizeCase c; c.what = Fmt("output buffer %u: 6 frames of %u bytes", outSize, f); for (int k=0; k<6; k++) c.msgs.push_back(SizedBin(f - 8, (k & 1) != 0)); out.push_back(c);}
      return;
   }
   // the C++ side's scratch receive buffer (2048 - 8) and the small frames
   for (uint32_t n = 2030; n <= 2060; n++) out.push_back(Case1(Fmt("scratch receive buffer of the C++ side: Message of %u bytes", n), SizedBin(n, true), &small));
   for (uint32_t n = 12; n <= 44; n++) {if ((n > 12)&&(n < 27)) continue; const MsgSpec m = SizedBin(n, false); out.push_back(Case1(Fmt("small Message of %u bytes, twice", n), m, &m));}
}

int main(int argc, char ** argv)
{
   CompleteSetupSystem css; SetConsoleLogLevel(MUSCLE_LOG_NONE);
   if ((argc > 1)&&(!strcmp(argv[1], "configs"))) {printf("micro_tx\nmicro_rx\nmicro_tx_4k\nmicro_rx_4k\n"); return 0;}
   const int r = CommonMain(argc, argv, MakeLink);
   if (r >= 0) return r;
   fprintf(stderr, "usage: gwmicro replay|explore|menu|configs ...\n");
   return 3;
}
