// C19 conformance harness: a real muscle::ThreadPool under the controlled scheduler.
//   tp explore <iterations> <seed> <report.ndjson> [tracefile [ntraces]]
//   tp free    <iterations> <seed> <report.ndjson>           (no scheduler: real pool threads, real blocking; see below)
// Seeded random workloads: pool size 1..3, 1..3 clients, 0..3 Messages per client, two submitting threads (a client's Messages
// all come from one of them, so its submission order is defined), each submitter unregisters a random subset of its clients
// after its submissions, then the pool is destroyed (Shutdown) - possibly while Messages are still pending or being handled.
// In half of the executions a third thread shuts the pool down at a random moment (through the object-recycler flush that
// ~CompleteSetupSystem uses), i.e. concurrently with submissions, handlers and UnregisterClient calls that are waiting.
// PoolAbs monitor: exactly once, per-client order, never two handlers in one client, never more handlers than pool threads,
// UnregisterClient returns only when everything submitted was handled, nothing handled that was not submitted;
// deadlock detector: Unregister / Shutdown that never returns.  Recorded traces are validated by TLC against TPImpl.tla.
#include "system/ThreadPool.h"
#include "system/SetupSystem.h"
#include "util/NetworkUtilityFunctions.h"
#include "util/ByteBuffer.h"
#include "vsched.h"
#include "mjson.h"
#include <set>
#include <algorithm>
#include <unistd.h>
using namespace muscle;

struct Mon {
   int poolSize; std::map<int,int> activeIn; int totalActive, maxActive;
   std::vector<std::vector<uint32> > handled, submitted; std::vector<bool> unregReturned; bool shutStarted;     // shutStarted: set by the HARNESS just before it asks for a shutdown (no event involved)
   std::vector<std::string> violations;
   void Reset(int n, int ps) {poolSize = ps; activeIn.clear(); totalActive = maxActive = 0; handled.assign(n, std::vector<uint32>()); submitted.assign(n, std::vector<uint32>()); unregReturned.assign(n, false); shutStarted = false; violations.clear();}
   void V(const std::string & s) {if (violations.size() < 5) violations.push_back(s);}
};
static Mon M;

// trace ---------------------------------------------------------------------------------------------------------
static int g_shutFinals = 0; static bool g_record = false, g_mute = false; static std::vector<std::string> g_lines;
static std::map<const void *, int> g_clientId; static std::map<const void *, int> g_threadOfObj;    // Thread* -> pool thread id (1-based)
static std::map<int, int> g_poolThreadOfTid;     // scheduler thread -> pool thread id
static thread_local int tl_unregClient = 0;
struct Group {bool open; std::string head; std::vector<int> made; std::vector<std::pair<int,int> > disp; int promoted; int notified; bool isFinish; bool early;};
static Group G;
static void FlushGroup()
{
   if (!G.open) return;
   std::string s = G.head; char b[64];
   if (G.isFinish) {snprintf(b, sizeof(b), ",\"promoted\":%d,\"notified\":%d", G.promoted, G.notified); s += b;}
   s += ",\"made\":["; for (size_t i=0; i<G.made.size(); i++) {snprintf(b, sizeof(b), "%s%d", i?",":"", G.made[i]); s += b;} s += "]";
   s += ",\"disp\":["; for (size_t i=0; i<G.disp.size(); i++) {snprintf(b, sizeof(b), "%s[%d,%d]", i?",":"", G.disp[i].first, G.disp[i].second); s += b;} s += "]}";
   g_lines.push_back(s); G.open = false;
}
static void Line(const std::string & s) {if ((!g_record)||(g_mute)) return; FlushGroup(); g_lines.push_back(s);}
static void OpenGroup(const std::string & head, bool isFinish, bool early) {FlushGroup(); G.open = true; G.head = head; G.made.clear(); G.disp.clear(); G.promoted = 0; G.notified = 0; G.isFinish = isFinish; G.early = early;}

static int CId(long p) {std::map<const void *, int>::iterator it = g_clientId.find((const void *) p); return (it == g_clientId.end()) ? 0 : it->second;}
static void ObserveEvent(const vs::Event & e)
{
   char b[200];
   if (e.name == "NewThread") {g_threadOfObj[(const void *) e.a[1]] = (int) e.a[0]+1; if ((g_record)&&(!g_mute)) G.made.push_back((int) e.a[0]+1); return;}
   if (e.name == "Receive") {g_poolThreadOfTid[e.tid] = (int) e.a[0]+1; if ((g_record)&&(!g_mute)) {snprintf(b, sizeof(b), "{\"e\":\"Receive\",\"t\":%d,\"c\":%d}", (int) e.a[0]+1, CId(e.a[1])); Line(b);} return;}
   if ((!g_record)||(g_mute)) return;
   if (e.name == "Dispatch") G.disp.push_back(std::make_pair(CId(e.a[0]), (int) e.a[1]+1));
   else if (e.name == "Promote") G.promoted = (int) e.a[1];
   else if (e.name == "NotifyWaiter") G.notified = 1;
   else if (e.name == "Submit") {snprintf(b, sizeof(b), "{\"e\":\"Submit\",\"c\":%d,\"deferred\":%ld,\"len\":%ld", CId(e.a[0]), e.a[1], e.a[2]); OpenGroup(b, false, false);}
   else if (e.name == "Finish") {snprintf(b, sizeof(b), "{\"e\":\"Finish\",\"t\":%d,\"c\":%d,\"early\":%ld", (int) e.a[0]+1, CId(e.a[1]), e.a[2]); OpenGroup(b, true, e.a[2] != 0);}
   else if (e.name == "UnregBegin") {snprintf(b, sizeof(b), "{\"e\":\"UnregBegin\",\"c\":%d,\"wait\":%ld}", CId(e.a[0]), e.a[1]); Line(b);}
   else if (e.name == "UnregEnd") {snprintf(b, sizeof(b), "{\"e\":\"UnregEnd\",\"c\":%d}", CId(e.a[0])); Line(b);}
   // Shutdown() runs again and again on a pool that is already shut down (the recycler flush restarts at the head of its list whenever some pool
   // flushed something): the first repetition is kept in the trace, the others - identical no-op rounds - are not
   else if (e.name == "ShutFlag") {if (g_shutFinals < 2) Line("{\"e\":\"ShutFlag\"}");}
   else if (e.name == "SwapTable") {if (g_shutFinals < 2) {snprintf(b, sizeof(b), "{\"e\":\"%s\",\"n\":%ld}", e.a[0] ? "SwapActive" : "SwapAvail", e.a[1]); Line(b);}}
   else if (e.name == "ShutFinal") {if (g_shutFinals < 2) Line("{\"e\":\"ShutFinal\"}"); g_shutFinals++;}
}
static void ObserveResume(vs::LThread * me, int kind, const void * obj, int)
{
   if ((!g_record)||(g_mute)) return;
   char b[100];
   if ((kind == vs::YIELD_WC_WAIT)&&(tl_unregClient > 0)&&(me->threadObj == NULL)) {snprintf(b, sizeof(b), "{\"e\":\"UnregWake\",\"c\":%d}", tl_unregClient); Line(b);}
   else if (kind == vs::YIELD_THREAD_JOIN) {std::map<const void *, int>::iterator it = g_threadOfObj.find(obj); if (it != g_threadOfObj.end()) {snprintf(b, sizeof(b), "{\"e\":\"ShutStop\",\"t\":%d}", it->second); Line(b);}}
}

class Client : public IThreadPoolClient {
public:
   Client(ThreadPool * tp, int id) : IThreadPoolClient(tp), _id(id) {}
   int _id;
protected:
   virtual void MessageReceivedFromThreadPool(const MessageRef & msg, uint32)
   {
      // only one logical thread runs at a time, so the monitor's tables need no lock
      if (++M.activeIn[_id] > 1) M.V("two pool threads are inside one client's handler at the same time");
      if (M.unregReturned[_id-1]) M.V("a client's handler was called after SetThreadPool(NULL) had returned for that client");
      if (++M.totalActive > M.maxActive) M.maxActive = M.totalActive;
      M.handled[_id-1].push_back(msg()->what);
      if ((g_record)&&(!g_mute)) {char b[100]; snprintf(b, sizeof(b), "{\"e\":\"Handle\",\"t\":%d,\"c\":%d,\"m\":%u}", g_poolThreadOfTid[vs::tl_id], _id, msg()->what); Line(b);}
      {static Mutex m; DECLARE_MUTEXGUARD(m);}     // a pre-emption point inside the handler
      FollowUp(msg()->what);
      {static Mutex m2; DECLARE_MUTEXGUARD(m2);}   // ... and another one after the follow-up submission
      if ((P_trigX() == _id-1)&&(msg()->what == 1)) HandlerUnregistersVictim();
      M.totalActive--; M.activeIn[_id]--;
   }
   static int P_trigX(); static void HandlerUnregistersVictim(); void FollowUp(uint32 what);
};

struct Plan {std::vector<bool> selfFed;   // a self-fed client gets its first Message from its owner; the handler of Message k then submits Message k+1 itself
             int poolSize2; int trigX, trigY; volatile bool trigDone;    // poolSize2 > 0: a second pool, clients are moved between the two; trigX >= 0: client trigX's handler unregisters client trigY while it handles its first Message
             bool destroyer; int destroyAfter; int poolSize, nClients; std::vector<int> nMsgs; std::vector<bool> unreg; std::vector<std::pair<int,uint32> > planA, planB;};
static Plan P; static std::vector<Client *> CS; static ThreadPool * g_tp = NULL; static ThreadPool * g_tp2 = NULL; static std::vector<ThreadPool *> g_curPool; static WaitCondition * g_bDone = NULL; static WaitCondition * g_cDone = NULL; static WaitCondition * g_hDone = NULL;

static void AfterLeavingAPool(int c, const char * how)
{
   char b[200];
   if (M.activeIn[c+1] > 0) {snprintf(b, sizeof(b), "%s returned for client %d while a pool thread is still inside that client's handler", how, c+1); M.V(b);}
   if ((!M.shutStarted)&&(M.handled[c].size() != M.submitted[c].size())) {snprintf(b, sizeof(b), "%s (client %d) returned after %zu of %zu submitted Messages were handled", how, c+1, M.handled[c].size(), M.submitted[c].size()); M.V(b);}
}
void Client :: FollowUp(uint32 what)
{
   const int c = _id-1;
   if ((c >= (int) P.selfFed.size())||(!P.selfFed[c])||((int) what >= P.nMsgs[c])) return;
   M.submitted[c].push_back(what+1);
   if (SendMessageToThreadPool(GetMessageFromPool(what+1)).IsError()) {if (M.shutStarted) M.submitted[c].pop_back(); else M.V("SendMessageToThreadPool failed for a registered client (follow-up Message submitted by the client's own handler)");}
}
int Client :: P_trigX() {return ((P.trigX >= 0)&&(!P.trigDone)) ? P.trigX : -1;}
// a handler of one client unregisters ANOTHER client (whose owner has handed it over: it never touches it again): the call must wait until that
// client's Messages are done, like any other unregistration
void Client :: HandlerUnregistersVictim()
{
   P.trigDone = true; const int y = P.trigY;
   tl_unregClient = y+1; CS[y]->SetThreadPool(NULL); tl_unregClient = 0;
   AfterLeavingAPool(y, "SetThreadPool(NULL) called from another client's handler");
   M.unregReturned[y] = true;
   (void) g_hDone->Notify();
}
static void RunPlan(const std::vector<std::pair<int,uint32> > & plan, int parity)
{
   for (size_t i=0; i<plan.size(); i++) {
      const int c = plan[i].first;
      if (plan[i].second == 0) {
         // move the client to the other pool: leaving the old one must wait for its Messages there, like an unregistration
         ThreadPool * target = (g_curPool[c] == g_tp) ? g_tp2 : g_tp;
         CS[c]->SetThreadPool(target); g_curPool[c] = target;
         AfterLeavingAPool(c, "SetThreadPool(other pool)");
         vs::OpBoundary();
         continue;
      }
      M.submitted[c].push_back(plan[i].second);
      if (CS[c]->SendMessageToThreadPool(GetMessageFromPool(plan[i].second)).IsError()) {
         // refused: legitimate once the pool has been shut down (its clients are detached); the Message does not count as submitted
         if (M.shutStarted) M.submitted[c].pop_back(); else M.V("SendMessageToThreadPool failed for a registered client");
      }
      vs::OpBoundary();
   }
   for (int c=parity; c<P.nClients; c+=2) if ((P.unreg[c])&&(c != P.trigY)) {
      tl_unregClient = c+1;
      CS[c]->SetThreadPool(NULL);
      tl_unregClient = 0;
      AfterLeavingAPool(c, "UnregisterClient / SetThreadPool(NULL)");
      M.unregReturned[c] = true;
      vs::OpBoundary();
   }
}
static void SubmitterA() {vs::ThreadBegin(); RunPlan(P.planA, 0); (void) g_bDone->Wait(); if (P.destroyer) (void) g_cDone->Wait();
   // a handler that is waiting inside UnregisterClient() for another client's Messages cannot be joined by Shutdown(), and those Messages are no longer
   // dispatched once the shutdown has begun: the pool goes away only after that handler's call has returned (the trigger Message was accepted, so it comes)
   if (P.trigX >= 0) (void) g_hDone->Wait();
   M.shutStarted = true; delete g_tp; g_tp = NULL; if (g_tp2) {delete g_tp2; g_tp2 = NULL;} vs::ThreadEnd();}
static void Destroyer() {vs::ThreadBegin(); for (int k=0; k<P.destroyAfter; k++) vs::OpBoundary(); M.shutStarted = true; (void) AbstractObjectRecycler::GlobalFlushAllCachedObjects(); (void) g_cDone->Notify(); vs::ThreadEnd();}
static void SubmitterB() {vs::ThreadBegin(); RunPlan(P.planB, 1); (void) g_bDone->Notify(); vs::ThreadEnd();}

// ------------------------------------------------------------------------------------------------------
// free-running mode: no scheduler - real pool threads, real blocking (WaitCondition in UnregisterClient, the pool threads' sockets),
// timing noise at the hooks.  Same PoolAbs clauses, evaluated with atomics; a watchdog for UnregisterClient / Shutdown that never returns.
#include <atomic>
#include <chrono>
static std::atomic<long> f_progress(0); static std::atomic<int> f_finished(0), f_totalActive(0), f_maxActive(0); static std::atomic<bool> f_shut(false);
static std::mutex f_vm; static std::vector<std::string> f_viol; static void FV(const std::string & s) {std::lock_guard<std::mutex> g(f_vm); if (f_viol.size() < 8) f_viol.push_back(s);}
static thread_local uint32_t f_rng = 1;
static inline uint32_t FR() {f_rng ^= f_rng << 13; f_rng ^= f_rng >> 17; f_rng ^= f_rng << 5; return f_rng;}
static int NoiseYield(int, const void *, long) {const uint32_t r = FR()%12; if (r == 0) std::this_thread::yield(); else if (r == 1) {for (volatile int i=0; i<300; i++) {}} return 0;}
static void FreeEvent(const char *, const void *, long, long, long, long) {}     // (the clauses use nothing the code reports about itself: f_shut is set by the harness just before it asks for a shutdown)
class FreeClient : public IThreadPoolClient {
public:
   FreeClient(ThreadPool * tp, int id) : IThreadPoolClient(tp), _id(id), _in(0), _unregReturned(false), _nHandled(0) {}
   int _id; std::atomic<int> _in; std::atomic<bool> _unregReturned; std::vector<uint32> _handled; std::atomic<int> _nHandled; std::vector<uint32> _submitted;
protected:
   virtual void MessageReceivedFromThreadPool(const MessageRef & msg, uint32)
   {
      char b[160];
      if (++_in > 1) {snprintf(b, sizeof(b), "two pool threads are inside the handler of client %d at the same time", _id); FV(b);}
      if (_unregReturned.load()) {snprintf(b, sizeof(b), "the handler of client %d was called after SetThreadPool(NULL) had returned for it", _id); FV(b);}
      const int a = ++f_totalActive; int m = f_maxActive.load(); while ((a > m)&&(!f_maxActive.compare_exchange_weak(m, a))) {}
      _handled.push_back(msg()->what); _nHandled++;
      const uint32_t w = FR()%6; if (w == 0) std::this_thread::yield(); else if (w < 3) {for (volatile int i=0; i<400; i++) {}}
      f_totalActive--; _in--; f_progress++;
   }
};
struct FreePlanTP {int poolSize, nClients; bool destroyer; int destroyAfterMs; std::vector<int> nMsgs; std::vector<bool> unreg;};
static FreePlanTP FP; static std::vector<FreeClient *> FC;
static void FreeSubmitter(int parity, uint32_t seed)
{
   f_rng = seed|1; char b[200];
   std::vector<int> left; for (int c=0; c<FP.nClients; c++) left.push_back(((c%2) == parity) ? FP.nMsgs[c] : 0);
   while(true) {
      std::vector<int> cand; for (int c=0; c<FP.nClients; c++) if (left[c] > 0) cand.push_back(c);
      if (cand.empty()) break;
      const int c = cand[FR()%cand.size()]; left[c]--;
      const uint32 m = (uint32) (FP.nMsgs[c]-left[c]);
      const bool shutBefore = f_shut.load();
      const status_t r = FC[c]->SendMessageToThreadPool(GetMessageFromPool(m));
      if (r.IsOK()) FC[c]->_submitted.push_back(m);
      else if ((!shutBefore)&&(!f_shut.load())) {snprintf(b, sizeof(b), "SendMessageToThreadPool failed for registered client %d although the pool is not being shut down", c+1); FV(b);}
      else left[c] = 0;     // refused by a pool that is shut down: nothing more from this client
      f_progress++;
      if ((FR()%5) == 0) std::this_thread::yield();
   }
   for (int c=parity; c<FP.nClients; c+=2) if (FP.unreg[c]) {
      FC[c]->SetThreadPool(NULL);
      const bool shut = f_shut.load();       // read AFTER the return: if no shutdown had begun by now, none had begun when the call returned
      if (FC[c]->_in.load() > 0) {snprintf(b, sizeof(b), "SetThreadPool(NULL) returned for client %d while a pool thread is still inside its handler", c+1); FV(b);}
      if ((!shut)&&((size_t) FC[c]->_nHandled.load() != FC[c]->_submitted.size())) {snprintf(b, sizeof(b), "UnregisterClient(client %d) returned after %d of %zu submitted Messages were handled", c+1, FC[c]->_nHandled.load(), FC[c]->_submitted.size()); FV(b);}
      FC[c]->_unregReturned = true;
      f_progress++;
   }
   f_finished++;
}
static void FreeDestroyer() {std::this_thread::sleep_for(std::chrono::microseconds(FP.destroyAfterMs*100)); f_shut = true; (void) AbstractObjectRecycler::GlobalFlushAllCachedObjects(); f_progress++; f_finished++;}
static int Free(uint32 iters, uint32 seed0, const char * outFile)
{
   FILE * out = fopen(outFile, "w"); if (!out) return 2;
   muscle::verif::YieldFuncRef() = NoiseYield; muscle::verif::EventFuncRef() = FreeEvent;
   long execs = 0, violated = 0, hung = 0, handledTotal = 0, dropped = 0;
   for (uint32 it=0; (it<iters)&&(violated < 10)&&(hung == 0); it++) {
      const uint32 seed = seed0*1000003u+it; std::mt19937 gen(seed*2246822519u+5);
      FP.poolSize = 1+(int)(gen()%4); FP.nClients = 1+(int)(gen()%6); FP.destroyer = (gen()%3) == 0; FP.destroyAfterMs = (int)(gen()%30); FP.nMsgs.clear(); FP.unreg.clear();
      for (int c=0; c<FP.nClients; c++) {FP.nMsgs.push_back((int)(gen()%40)); FP.unreg.push_back((gen()%3) != 0);}
      f_progress = 0; f_finished = 0; f_totalActive = 0; f_maxActive = 0; f_shut = false; f_viol.clear();
      ThreadPool * tp = new ThreadPool(FP.poolSize);
      FC.clear(); for (int c=0; c<FP.nClients; c++) FC.push_back(new FreeClient(tp, c+1));
      std::vector<std::thread> ths; ths.emplace_back(FreeSubmitter, 0, gen()); ths.emplace_back(FreeSubmitter, 1, gen()); if (FP.destroyer) ths.emplace_back(FreeDestroyer);
      const int need = (int) ths.size();
      long last = -1; int idle = 0; bool stuck = false;
      while (f_finished.load() < need) { std::this_thread::sleep_for(std::chrono::milliseconds(2)); const long p = f_progress.load(); if (p != last) {last = p; idle = 0;} else if (++idle > 15000) {stuck = true; break;} }
      std::atomic<bool> delDone(false);
      if (!stuck) {
         for (size_t k=0; k<ths.size(); k++) ths[k].join();
         f_shut = true;
         std::thread del([&]{delete tp; delDone = true;});       // the destructor shuts the pool down: it must terminate too
         for (int w=0; (w<15000)&&(!delDone.load()); w++) std::this_thread::sleep_for(std::chrono::milliseconds(2));
         if (delDone.load()) del.join(); else {stuck = true; del.detach();}
      }
      execs++;
      if (stuck) {hung++; FV("STRANDED (free-running): UnregisterClient or Shutdown did not return within 30 s without any progress");}
      else {
         char b[200];
         for (int c=0; c<FP.nClients; c++) {
            const std::vector<uint32> & h = FC[c]->_handled; const std::vector<uint32> & sb = FC[c]->_submitted;
            bool prefix = (h.size() <= sb.size()); for (size_t i=0; (prefix)&&(i<h.size()); i++) if (h[i] != sb[i]) prefix = false;
            if (!prefix) {snprintf(b, sizeof(b), "client %d: handled sequence (%zu) is not a prefix of the submitted sequence (%zu): a Message was lost, duplicated or reordered", c+1, h.size(), sb.size()); FV(b);}
            else if ((!f_shut.load())&&(false)) {}
            handledTotal += (long) h.size(); dropped += (long) (sb.size()-std::min(h.size(), sb.size()));
         }
         if (f_maxActive.load() > FP.poolSize) {snprintf(b, sizeof(b), "%d handlers were active at once in a pool of %d threads", f_maxActive.load(), FP.poolSize); FV(b);}
      }
      if (!f_viol.empty()) {
         violated++;
         mj::Value rec = mj::Value::Obj(); rec.set("free", mj::Value::Bool(true)).set("seed", mj::Value::Int(seed)).set("iteration", mj::Value::Int(it)).set("pool_size", mj::Value::Int(FP.poolSize)).set("clients", mj::Value::Int(FP.nClients)).set("concurrent_shutdown", mj::Value::Bool(FP.destroyer));
         mj::Value va = mj::Value::Arr(); {std::lock_guard<std::mutex> g(f_vm); for (size_t k=0; k<f_viol.size(); k++) va.push(mj::Value::Str(f_viol[k]));} rec.set("violations", va);
         fprintf(out, "%s\n", mj::ToString(rec).c_str());
      }
      if (stuck) {for (size_t k=0; k<ths.size(); k++) if (ths[k].joinable()) ths[k].detach();}
      else for (size_t k=0; k<FC.size(); k++) delete FC[k];
   }
   mj::Value sum = mj::Value::Obj();
   sum.set("summary", mj::Value::Bool(true)).set("executions", mj::Value::Int(execs)).set("violated", mj::Value::Int(violated)).set("stranded", mj::Value::Int(hung)).set("messages_handled", mj::Value::Int(handledTotal)).set("messages_dropped_by_shutdown", mj::Value::Int(dropped));
   fprintf(out, "%s\n", mj::ToString(sum).c_str()); fclose(out); printf("%s\n", mj::ToString(sum).c_str()); fflush(stdout);
   if (hung) _exit(0);
   return 0;
}

int main(int argc, char ** argv)
{
   CompleteSetupSystem css;
   // warm-up: the library's pools of sockets, Messages ... are function-local statics constructed on first use, and a recycler registers itself
   // in the global list from its base-class constructor; a global flush that runs during that construction would call a pure virtual.
   // A program that flushes while other threads run has long constructed them; so has this harness before its threads start.
   {ConstSocketRef a, b; (void) CreateConnectedSocketPair(a, b); (void) GetMessageFromPool(0); (void) GetByteBufferFromPool(4);
    class WarmClient : public IThreadPoolClient {public: WarmClient(ThreadPool * tp) : IThreadPoolClient(tp) {} virtual void MessageReceivedFromThreadPool(const MessageRef &, uint32) {}};
    ThreadPool wp(1); WarmClient wc(&wp); (void) wc.SendMessageToThreadPool(GetMessageFromPool(1)); wc.SetThreadPool(NULL);}
   if ((argc >= 5)&&(!strcmp(argv[1], "free"))) return Free((uint32) atol(argv[2]), (uint32) atol(argv[3]), argv[4]);
   vs::Install();
   if ((argc < 5)||(strcmp(argv[1], "explore"))) {fprintf(stderr, "usage: tp explore <iters> <seed> <report> [trace [n]]\n"); return 2;}
   const uint32 iters = (uint32) atol(argv[2]), seed0 = (uint32) atol(argv[3]);
   FILE * out = fopen(argv[4], "w"); FILE * tfs[4] = {NULL, NULL, NULL, NULL}; if (argc > 5) for (int k=1; k<=3; k++) {char fn[512]; snprintf(fn, sizeof(fn), "%s_%d.ndjson", argv[5], k); tfs[k] = fopen(fn, "w");} FILE * tf = tfs[1]; const uint32 ntraces = (argc > 6) ? (uint32) atol(argv[6]) : 50;   // one trace file per pool size (MaxThreads is a constant of the specification) const uint32 ntraces = (argc > 6) ? (uint32) atol(argv[6]) : 50;
   long execs = 0, violated = 0, stranded = 0, nevents = 0, tracesWritten = 0, traceLines = 0, handledTotal = 0, droppedByShutdown = 0; unsigned long ysteps = 0; std::set<std::string> distinct;
   for (uint32 it=0; it<iters; it++) {
      const uint32 seed = seed0*1000003u+it; std::mt19937 gen(seed*2246822519u+3);
      P.poolSize = 1+(int)(gen()%3); P.nClients = 1+(int)(gen()%3); P.destroyer = false; P.destroyAfter = 0; P.nMsgs.clear(); P.unreg.clear(); P.planA.clear(); P.planB.clear();
      std::string key; char kb[32]; snprintf(kb, sizeof(kb), "%d/%d:", P.poolSize, P.nClients); key = kb;
      for (int c=0; c<P.nClients; c++) {
         const int n = (int)(gen()%4); P.nMsgs.push_back(n); P.unreg.push_back((gen()%3) != 0);
         for (int k=0; k<n; k++) ((c%2) ? P.planB : P.planA).push_back(std::make_pair(c, (uint32)(k+1)));
         snprintf(kb, sizeof(kb), "%d%c", n, P.unreg[c] ? 'u' : '-'); key += kb;
      }
      // interleave the clients' Messages randomly but keep each client's own order
      for (int w=0; w<2; w++) {
         std::vector<std::pair<int,uint32> > & pl = w ? P.planB : P.planA;
         std::vector<int> order; for (size_t i=0; i<pl.size(); i++) order.push_back(pl[i].first);
         std::shuffle(order.begin(), order.end(), gen);
         std::map<int,uint32> next; for (size_t i=0; i<order.size(); i++) {pl[i].first = order[i]; pl[i].second = ++next[order[i]];}
      }
      P.destroyer = (gen()%2) == 0; P.destroyAfter = (int)(gen()%7); if (P.destroyer) key += "D";
      P.poolSize2 = 0; P.trigX = P.trigY = -1; P.trigDone = false; P.selfFed.assign(P.nClients, false);
      {
         const uint32 feature = gen()%4;
         if ((feature == 1)&&(!P.destroyer)) {
            // a second pool: every submitter moves some of its clients to the other pool (and perhaps back) between their Messages
            P.poolSize2 = 1+(int)(gen()%2); key += "M";
            // some clients are self-fed: only their first Message stays in the owner's plan
            for (int c=0; c<P.nClients; c++) if ((P.nMsgs[c] >= 2)&&((gen()%2) == 0)&&(c != P.trigY)) {
               P.selfFed[c] = true; key += "s";
               std::vector<std::pair<int,uint32> > & pl = (c%2) ? P.planB : P.planA;
               for (size_t i=0; i<pl.size(); ) {if ((pl[i].first == c)&&(pl[i].second > 1)) pl.erase(pl.begin()+i); else i++;}
            }
            for (int w=0; w<2; w++) {std::vector<std::pair<int,uint32> > & pl = w ? P.planB : P.planA; const int nm = (int)(gen()%3); for (int k=0; k<nm; k++) {int c = -1; for (int tries=0; (tries<8)&&(c < 0); tries++) {const int cc = (int)(gen()%P.nClients); if ((cc%2) == w) c = cc;} if (c >= 0) pl.insert(pl.begin()+(gen()%(pl.size()+1)), std::make_pair(c, (uint32) 0));}}
         }
         else if ((feature == 2)&&(!P.destroyer)&&(P.poolSize >= 2)&&(P.nClients >= 3)) {
            // clients x and y = x+2 belong to the same submitter: y's Messages go first, then the rest; x's first Message makes its handler unregister y
            const int x = (int)(gen()%(P.nClients-2)), y = x+2; std::vector<std::pair<int,uint32> > & pl = (x%2) ? P.planB : P.planA;
            bool xHas = false; for (size_t i=0; i<pl.size(); i++) if (pl[i].first == x) xHas = true;
            if (xHas) {std::stable_partition(pl.begin(), pl.end(), [y](const std::pair<int,uint32> & e){return e.first == y;}); P.trigX = x; P.trigY = y; key += "H";}
         }
      }
      distinct.insert(key);
      g_shutFinals = 0; g_mute = false; g_record = (tf != NULL)&&(tracesWritten < (long) ntraces)&&(P.poolSize2 == 0)&&(P.trigX < 0) /* TPImpl models one pool and unregistrations by user threads: the other executions are judged by the monitor */; g_lines.clear(); G.open = false; g_clientId.clear(); g_threadOfObj.clear(); g_poolThreadOfTid.clear();
      vs::Reset(seed, vs::RANDOM); vs::S.onEvent = ObserveEvent; vs::S.onResume = ObserveResume; vs::S.onYield = nullptr; vs::S.stickiness = (int)(gen()%3)*35; vs::S.atomicLocks = g_record;
      M.Reset(P.nClients, P.poolSize+P.poolSize2);
      g_tp2 = (P.poolSize2 > 0) ? new ThreadPool(P.poolSize2) : NULL;
      g_tp = new ThreadPool(P.poolSize); WaitCondition bDone; g_bDone = &bDone; WaitCondition cDone; g_cDone = &cDone; WaitCondition hDone; g_hDone = &hDone;
      CS.clear(); g_curPool.clear(); for (int c=0; c<P.nClients; c++) {Client * cl = new Client(g_tp, c+1); CS.push_back(cl); g_clientId[cl] = c+1; g_curPool.push_back(g_tp);}
      std::vector<std::thread> ths; ths.emplace_back(SubmitterA); vs::WaitRegistered(1); ths.emplace_back(SubmitterB); vs::WaitRegistered(2);
      if (P.destroyer) {ths.emplace_back(Destroyer); vs::WaitRegistered(3);}
      const bool ok = vs::RunAllRandom(ths.size());
      FlushGroup();
      execs++; ysteps += vs::S.steps; nevents += (long) vs::S.events.size();
      if (!ok) {stranded++; M.V(std::string("STRANDED (UnregisterClient or Shutdown never returns):")+vs::S.blockedDesc);}
      else {
         char b[200];
         for (int c=0; c<P.nClients; c++) {
            const std::vector<uint32> & h = M.handled[c]; const std::vector<uint32> & s = M.submitted[c];
            bool prefix = (h.size() <= s.size()); for (size_t i=0; (prefix)&&(i<h.size()); i++) if (h[i] != s[i]) prefix = false;
            if (!prefix) {snprintf(b, sizeof(b), "client %d: handled sequence (%zu) is not a prefix of the submitted sequence (%zu): a Message was lost, duplicated or reordered", c+1, h.size(), s.size()); M.V(b);}
            else if ((M.unregReturned[c])&&(!M.shutStarted)) {/* checked at return */}
            handledTotal += (long) h.size(); droppedByShutdown += (long) (s.size()-std::min(h.size(), s.size()));
         }
         if (M.maxActive > M.poolSize) {snprintf(b, sizeof(b), "%d handlers were active at once in pools of %d threads in all", M.maxActive, M.poolSize); M.V(b);}
      }
      if (!M.violations.empty()) {
         violated++;
         mj::Value rec = mj::Value::Obj(); rec.set("seed", mj::Value::Int(seed)).set("iteration", mj::Value::Int(it)).set("pool_size", mj::Value::Int(P.poolSize)).set("clients", mj::Value::Int(P.nClients)).set("plan", mj::Value::Str(key));
         mj::Value va = mj::Value::Arr(); for (size_t k=0; k<M.violations.size(); k++) va.push(mj::Value::Str(M.violations[k])); rec.set("violations", va);
         if (violated <= 20) fprintf(out, "%s\n", mj::ToString(rec).c_str());
      }
      if ((g_record)&&(ok)) {
         FILE * f = tfs[P.poolSize];
         fprintf(f, "{\"e\":\"Reset\",\"max\":%d,\"clients\":%d}\n", P.poolSize, P.nClients);
         for (size_t k=0; k<g_lines.size(); k++) fprintf(f, "%s\n", g_lines[k].c_str());
         tracesWritten++; traceLines += (long) g_lines.size()+1;
      }
      if (!ok) {for (size_t k=0; k<ths.size(); k++) ths[k].detach(); if ((stranded >= 10)||(vs::S.hung)||(P.destroyer)) break;}     // (a shutdown thread parked for ever inside the recycler flush holds the global lock: no further pool can be created in this process)
      else {for (size_t k=0; k<ths.size(); k++) ths[k].join(); for (size_t k=0; k<CS.size(); k++) delete CS[k];}
      vs::Deactivate();
      if (violated >= 25) break;
   }
   mj::Value sum = mj::Value::Obj();
   sum.set("summary", mj::Value::Bool(true)).set("executions", mj::Value::Int(execs)).set("distinct_plans", mj::Value::Int((int64_t) distinct.size())).set("violated", mj::Value::Int(violated)).set("stranded", mj::Value::Int(stranded))
      .set("events", mj::Value::Int(nevents)).set("yields", mj::Value::Int((int64_t) ysteps)).set("traces_written", mj::Value::Int(tracesWritten)).set("trace_lines", mj::Value::Int(traceLines))
      .set("messages_handled", mj::Value::Int(handledTotal)).set("messages_dropped_by_shutdown", mj::Value::Int(droppedByShutdown));
   fprintf(out, "%s\n", mj::ToString(sum).c_str()); fclose(out); for (int k=1; k<=3; k++) if (tfs[k]) fclose(tfs[k]);
   printf("%s\n", mj::ToString(sum).c_str()); fflush(stdout);
   if ((stranded > 0)||(vs::S.hung)) _exit(0);
   return 0;
}
