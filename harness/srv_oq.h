// C07 part of harness/srv.cpp (included there): OutQueue.tla's cases replayed with the victim's valve closed; HostileSpace.tla's Messages injected.
#include "util/MiscUtilityFunctions.h"

static const uint32 BIG_BYTES = 300000;   // payload of the filler node: two replies of this size fill the socket pair's buffers

// the three parties of every C07 world: V the sender of the hostile traffic (valve = whether the harness reads its socket), B a second sender, W the witness
struct OqWorld {
   World w; Client * V; Client * B; Client * W; uint32 pingSeq;
   std::vector<std::string> viol, drift;
   void Vio(const std::string & x) {if (viol.size() < 6) viol.push_back(x);}
   void Dri(const std::string & x) {if (drift.size() < 6) drift.push_back(x);}
   OqWorld() : pingSeq(0)
   {
      V = w.Add("V", "hV"); B = w.Add("B", "hB"); W = w.Add("W", "hW"); w.Settle();
      MessageRef m = Msg(PR_COMMAND_SETDATA); m()->AddMessage("a", Msg(1)); m()->AddMessage("b", Msg(2)); m()->AddMessage("c", Msg(1));
      MessageRef big = Msg(1); big()->AddFlat("blob", GetByteBufferFromPool(BIG_BYTES)); m()->AddMessage("big", big);
      w.Send(W, m); w.Settle();
   }
   // closes the valve of c: the harness stops reading c's socket, and replies are requested until the server cannot write any more
   // (from then on every further reply stays in the session's outgoing Message queue, whole)
   bool CloseValve(Client * c)
   {
      c->reads = false;
      for (int k=0; k<6; k++) {
         MessageRef g = Msg(PR_COMMAND_GETDATA); g()->AddString(PR_NAME_KEYS, (W->root + "/big").c_str()); w.Send(c, g); w.Settle(2);
         if ((c->sess->ServerHasBytes())&&(k >= 1)) { // blocked: a probe reply must now stay queued
            const uint32 before = c->sess->OutQ()->GetNumItems(); MessageRef p = Msg(PR_COMMAND_PING); p()->AddInt32("valve", 1); w.Send(c, p); w.Settle(2);
            if (c->sess->OutQ()->GetNumItems() == before+1) {(void) c->sess->OutQ()->RemoveTail(); return true;} }
      }
      return false;
   }
   // the witness's ping must be answered
   bool WitnessPing(const char * when)
   {
      W->inbox.clear(); MessageRef p = Msg(PR_COMMAND_PING); p()->AddInt32("seq", (int32) ++pingSeq); w.Send(W, p);
      SetStage(when); w.Settle(2);
      for (size_t k=0; k<W->inbox.size(); k++) if ((W->inbox[k]()->what == PR_RESULT_PONG)&&(W->inbox[k]()->GetInt32("seq") == (int32) pingSeq)) {W->inbox.clear(); return true;}
      // generous second chance before it is reported: the event loop may simply need more rounds
      w.Settle(6);
      for (size_t k=0; k<W->inbox.size(); k++) if ((W->inbox[k]()->what == PR_RESULT_PONG)&&(W->inbox[k]()->GetInt32("seq") == (int32) pingSeq)) {W->inbox.clear(); return true;}
      char b[200]; snprintf(b, sizeof(b), "%s: the witness's PR_COMMAND_PING was not answered (witness %s attached, %u sessions)", when, w.Attached(W) ? "still" : "NO LONGER", w.srv->GetSessions().GetNumItems());
      Vio(b); return false;
   }
};

// ---- queue shapes <-> real Messages
static std::string LeafOf(const std::string & path) {const size_t s = path.rfind('/'); return (s == std::string::npos) ? path : path.substr(s+1);}
// canonical text of one queued Message in the specification's vocabulary: items{a=[1,2];b=[2]|rem a,c}  trees(t1)  other
static std::string ShapeOfMessage(const Message & m)
{
   if (m.what == PR_RESULT_DATAITEMS) {
      std::map<std::string, std::string> sets; std::set<std::string> rem;
      for (MessageFieldNameIterator it = m.GetFieldNameIterator(B_MESSAGE_TYPE); it.HasData(); it++) {std::string ws; MessageRef sub; for (int i=0; m.FindMessage(it.GetFieldName(), i, sub).IsOK(); i++) {char b[16]; snprintf(b, sizeof(b), "%s%u", i ? "," : "", sub()->what); ws += b;} sets[LeafOf(it.GetFieldName()())] = ws;}
      const String * r; for (int i=0; m.FindString(PR_NAME_REMOVED_DATAITEMS, i, &r).IsOK(); i++) rem.insert(LeafOf(r->Cstr()));
      std::string s = "items{"; for (std::map<std::string, std::string>::iterator i = sets.begin(); i != sets.end(); ++i) {if (i != sets.begin()) s += ';'; s += i->first + "=[" + i->second + "]";}
      s += "|rem"; for (std::set<std::string>::iterator i = rem.begin(); i != rem.end(); ++i) s += " " + *i; return s + "}";
   }
   if (m.what == PR_RESULT_DATATREES) {const char * id = m.GetCstr(PR_NAME_TREE_REQUEST_ID); return std::string("trees(") + (id ? id : "none") + ")";}
   return "other";
}
static std::string ShapeOfModel(const J & m)
{
   const std::string k = m["k"].str();
   if (k == "items") { std::map<std::string, std::string> sets; std::set<std::string> rem;
      for (size_t i=0; i<m["sets"].size(); i++) {std::string ws; const J & w = m["sets"][i]["ws"]; for (size_t q=0; q<w.size(); q++) {char b[16]; snprintf(b, sizeof(b), "%s%d", q ? "," : "", (int) w[q].i()); ws += b;} sets[m["sets"][i]["n"].str()] = ws;}
      for (size_t i=0; i<m["rem"].size(); i++) rem.insert(m["rem"][i].str());
      std::string s = "items{"; for (std::map<std::string, std::string>::iterator i = sets.begin(); i != sets.end(); ++i) {if (i != sets.begin()) s += ';'; s += i->first + "=[" + i->second + "]";}
      s += "|rem"; for (std::set<std::string>::iterator i = rem.begin(); i != rem.end(); ++i) s += " " + *i; return s + "}"; }
   if (k == "trees") return "trees(" + m["id"].str() + ")";
   return "other";
}
static std::vector<std::string> ShapesOfQueue(Queue<MessageRef> & q) {std::vector<std::string> v; for (uint32 i=0; i<q.GetNumItems(); i++) if (q[i]()) v.push_back(ShapeOfMessage(*q[i]())); return v;}
static std::vector<std::string> ShapesOfModelQueue(const J & q) {std::vector<std::string> v; for (size_t i=0; i<q.size(); i++) v.push_back(ShapeOfModel(q[i])); return v;}
static std::string JoinShapes(const std::vector<std::string> & v) {std::string s; for (size_t i=0; i<v.size(); i++) {if (i) s += " , "; s += v[i];} return "[" + s + "]";}

static MessageRef FilterArchive(const std::string & kind);

// makes the server queue, for the (non-reading) victim, one result Message of the given model shape
static void Enqueue(OqWorld & ow, const J & m)
{
   World & w = ow.w; Client * V = ow.V; Client * W = ow.W; const std::string k = m["k"].str();
   if (k == "other") {MessageRef p = Msg(PR_COMMAND_PING); p()->AddInt32("q", 1); w.Send(V, p); w.Settle(2); return;}
   if (k == "trees") {MessageRef g = Msg(PR_COMMAND_GETDATATREES); g()->AddString(PR_NAME_KEYS, "a"); if (m["id"].str() != "none") g()->AddString(PR_NAME_TREE_REQUEST_ID, m["id"].str().c_str()); w.Send(V, g); w.Settle(2); return;}
   // items: the victim subscribes quietly to exactly the nodes involved, the witness makes the changes with ONE command (= one update Message), the victim unsubscribes.
   //   only sets: one PR_COMMAND_SETDATA carrying every payload (several payloads of one node = several items of one field)
   //   only removals: one PR_COMMAND_REMOVEDATA
   //   both: the subscription carries the filter "what == 1"; one SETDATA gives the nodes to be "removed" a payload the filter rejects, and the others what 1
   const bool hasSets = m["sets"].size() > 0, hasRem = m["rem"].size() > 0;
   std::vector<std::string> names; for (size_t i=0; i<m["sets"].size(); i++) names.push_back(m["sets"][i]["n"].str()); for (size_t i=0; i<m["rem"].size(); i++) names.push_back(m["rem"][i].str());
   if ((hasSets)&&(hasRem)) { // precondition: the nodes to be removed pass the filter now, the nodes to be set do not
      MessageRef sd = Msg(PR_COMMAND_SETDATA); for (size_t i=0; i<m["sets"].size(); i++) sd()->AddMessage(m["sets"][i]["n"].str().c_str(), Msg(2)); for (size_t i=0; i<m["rem"].size(); i++) sd()->AddMessage(m["rem"][i].str().c_str(), Msg(1)); w.Send(W, sd); w.Settle(2); }
   {MessageRef s = Msg(PR_COMMAND_SETPARAMETERS); s()->AddBool(PR_NAME_SUBSCRIBE_QUIETLY, true);
    for (size_t i=0; i<names.size(); i++) {const std::string pn = std::string("SUBSCRIBE:") + W->root + "/" + names[i]; if ((hasSets)&&(hasRem)) s()->AddMessage(pn.c_str(), FilterArchive("what1")); else s()->AddBool(pn.c_str(), true);}
    w.Send(V, s); w.Settle(2);}
   if (hasSets) { MessageRef sd = Msg(PR_COMMAND_SETDATA);
      for (size_t i=0; i<m["sets"].size(); i++) {const J & ws = m["sets"][i]["ws"]; for (size_t q=0; q<ws.size(); q++) sd()->AddMessage(m["sets"][i]["n"].str().c_str(), Msg((uint32) ws[q].i()));}
      for (size_t i=0; i<m["rem"].size(); i++) sd()->AddMessage(m["rem"][i].str().c_str(), Msg(3));
      w.Send(W, sd); w.Settle(2); }
   else {MessageRef rd = Msg(PR_COMMAND_REMOVEDATA); for (size_t i=0; i<m["rem"].size(); i++) rd()->AddString(PR_NAME_KEYS, m["rem"][i].str().c_str()); w.Send(W, rd); w.Settle(2);}
   {MessageRef u = Msg(PR_COMMAND_REMOVEPARAMETERS); u()->AddString(PR_NAME_KEYS, "SUBSCRIBE:*"); w.Send(V, u); w.Settle(2);}
   // the witness restores its nodes (the victim is no longer subscribed: nothing is queued for it)
   {MessageRef sd = Msg(PR_COMMAND_SETDATA); sd()->AddMessage("a", Msg(1)); sd()->AddMessage("b", Msg(2)); sd()->AddMessage("c", Msg(1)); w.Send(W, sd); w.Settle(2);}
}

static MessageRef BuildPrim(const J & c)
{
   const std::string kind = c["kind"].str();
   MessageRef m = Msg((kind == "JR") ? PR_COMMAND_JETTISONRESULTS : PR_COMMAND_JETTISONDATATREES);
   for (size_t i=0; i<c["keys"].size(); i++) (void) m()->AddString((kind == "JR") ? PR_NAME_KEYS : PR_NAME_TREE_REQUEST_ID, c["keys"][i].str().c_str());
   for (size_t i=0; i<c["filt"].size(); i++) { const std::string f = c["filt"][i].str();
      if (f == "none") {bool later = false; for (size_t q=i+1; q<c["filt"].size(); q++) if (c["filt"][q].str() != "none") later = true; if (!later) break;}
      (void) m()->AddMessage(PR_NAME_FILTERS, FilterArchive((f == "w1") ? "what1" : (f == "w2") ? "what2" : "not-a-filter")); }
   return m;
}
// the command Message of a case: a plain primitive, or a BATCH holding each primitive inside (nest - 1) further BATCHes
static MessageRef BuildCommand(const J & cmd)
{
   if ((cmd.size() == 1)&&(cmd[(size_t)0]["nest"].i() == 0)) return BuildPrim(cmd[(size_t)0]);
   MessageRef top = Msg(PR_COMMAND_BATCH);
   for (size_t i=0; i<cmd.size(); i++) { MessageRef cur = BuildPrim(cmd[i]); for (int64_t d=1; d<cmd[i]["nest"].i(); d++) {MessageRef b = Msg(PR_COMMAND_BATCH); (void) b()->AddMessage(PR_NAME_KEYS, cur); cur = b;} (void) top()->AddMessage(PR_NAME_KEYS, cur); }
   return top;
}

static long g_oqFollowed = 0, g_oqDrift = 0, g_oqQueued = 0, g_oqArrived = 0, g_oqPumps = 0; static double g_oqSlowest = 0;

static void OqCase(const J & cs)
{
   OqWorld ow; World & w = ow.w; Client * V = ow.V;
   J row = J::Obj(); row.set("case", cs);
   if (!ow.CloseValve(V)) {ow.Dri("could not block the victim's socket (the precondition of the case)");}
   else {
      const uint32 base = V->sess->OutQ()->GetNumItems();     // filler replies still queued behind the one in the send buffer
      for (size_t i=0; i<cs["q0"].size(); i++) Enqueue(ow, cs["q0"][i]);
      Queue<MessageRef> & oq = *V->sess->OutQ();
      std::vector<std::string> have = ShapesOfQueue(oq); have.erase(have.begin(), have.begin()+std::min((size_t) base, have.size()));
      const std::vector<std::string> want0 = ShapesOfModelQueue(cs["q0"]);
      if (have != want0) ow.Dri("could not build the queue state of the case: wanted " + JoinShapes(want0) + ", the server queued " + JoinShapes(have));
      else {
         g_oqQueued += (long) want0.size();
         const unsigned long recvBefore = V->received;
         SetStage("processing the command of the case with the victim's valve closed");
         w.Send(V, BuildCommand(cs["cmd"])); w.Settle(3);
         ow.WitnessPing("after the command of the case");
         std::vector<std::string> after = ShapesOfQueue(oq);
         // the filler replies must still be there
         uint32 fillers = 0; while ((fillers < after.size())&&(fillers < base)&&(after[fillers].compare(0, 6, "items{") == 0)&&(after[fillers].find("big=") != std::string::npos)) fillers++;
         after.erase(after.begin(), after.begin()+fillers);
         const std::vector<std::string> want = ShapesOfModelQueue(cs["q"]);
         // (a JETTISONRESULTS that matches the filler's path removes the filler too: pattern "*" - the model's queue holds only the case's Messages)
         if (after != want) ow.Dri("queue after the command: the specification says " + JoinShapes(want) + ", the server holds " + JoinShapes(after));
         // open the valve: what is queued must arrive, in order, and nothing else
         V->inbox.clear(); V->reads = true; SetStage("draining the victim's queue after the valve was opened"); w.Settle(3);
         std::vector<std::string> arrived; for (size_t k=0; k<V->inbox.size(); k++) arrived.push_back(ShapeOfMessage(*V->inbox[k]()));
         // drop the fillers (the first one was partly written already)
         while ((!arrived.empty())&&(arrived[0].find("big=") != std::string::npos)) arrived.erase(arrived.begin());
         g_oqArrived += (long) arrived.size();
         if (arrived != after) ow.Dri("after opening the valve the victim received " + JoinShapes(arrived) + " but its queue held " + JoinShapes(after));
         if (V->sess->OutQ()->GetNumItems() != 0) ow.Dri("the victim's queue did not drain after the valve was opened");
         (void) recvBefore;
         ow.WitnessPing("after the valve was opened");
      }
   }
   g_oqPumps += (long) w.pumps; if (w.slowest > g_oqSlowest) g_oqSlowest = w.slowest;
   if (!ow.viol.empty()) {g_violCases++; row.set("violations", StrList(ow.viol));}
   if (!ow.drift.empty()) {g_oqDrift++; row.set("drift", StrList(ow.drift));}
   if ((ow.viol.empty())&&(ow.drift.empty())) g_oqFollowed++; else RepJ(row);
}

static int OqReplay(int argc, char ** argv)
{
   if (argc < 4) return 2;
   CaseStream in(argv[2]); if (!in.Ok()) {fprintf(stderr, "cannot read %s\n", argv[2]); return 3;}
   if (!OpenReport(argv[3])) return 3;
   const double t0 = Now();
   J cs; while ((g_violCases < 25)&&(in.Next(cs))) {g_cases++; SetCur(mj::ToString(cs)); OqCase(cs);}
   J s = J::Obj(); s.set("summary", J::Bool(true)).set("cases", J::Int(g_cases)).set("followed", J::Int(g_oqFollowed)).set("drifted", J::Int(g_oqDrift)).set("violating_cases", J::Int(g_violCases))
      .set("messages_queued", J::Int(g_oqQueued)).set("messages_arrived", J::Int(g_oqArrived)).set("pumps", J::Int(g_oqPumps)).set("slowest_pump_us", J::Int((int64_t) (g_oqSlowest*1e6))).set("wall_ms", J::Int((int64_t) ((Now()-t0)*1000)));
   RepJ(s); return 0;
}

// ================================================================================================================ hostile Messages
static MessageRef FilterArchive(const std::string & kind)
{
   MessageRef fm = GetMessageFromPool();
   if (kind.compare(0, 2, "v:") == 0) { // v:<class>:<operator>:<length of the value | item index>:<field>
      char cls[16] = "", fld[32] = ""; int op = 0, len = 0; if (sscanf(kind.c_str(), "v:%15[^:]:%d:%d:%31s", cls, &op, &len, fld) != 4) return fm;
      if (!strcmp(cls, "raw")) {static const uint8 tail[5] = {9, 9, 1, 2, 3}; ByteBufferRef v = GetByteBufferFromPool((uint32) len, tail+(5-len)); (void) RawDataQueryFilter(fld, (uint8) op, v).SaveToArchive(*fm());}
      else if (!strcmp(cls, "str")) {static const char * vals[] = {"", "", "bc", "abc", "", "xxabc"}; (void) StringQueryFilter(fld, (uint8) op, vals[len]).SaveToArchive(*fm());}
      else (void) Int32QueryFilter(fld, (uint8) op, 3, (uint32) len).SaveToArchive(*fm());
      return fm; }
   if (kind == "what1") (void) WhatCodeQueryFilter(1).SaveToArchive(*fm());
   else if (kind == "what2") (void) WhatCodeQueryFilter(2).SaveToArchive(*fm());
   else if (kind == "string") (void) StringQueryFilter("f", StringQueryFilter::OP_SIMPLE_WILDCARD_MATCH, "*a*").SaveToArchive(*fm());
   else if (kind == "int") (void) Int32QueryFilter("i", Int32QueryFilter::OP_GREATER_THAN, 3).SaveToArchive(*fm());
   else if ((kind == "and2")||(kind == "and-kid-missing")||(kind == "and-kid-retyped")) {
      AndQueryFilter a; (void) a.GetChildren().AddTail(ConstQueryFilterRef(new WhatCodeQueryFilter(1))); (void) a.GetChildren().AddTail(ConstQueryFilterRef(new Int32QueryFilter("i", Int32QueryFilter::OP_EQUAL_TO, 1))); (void) a.SaveToArchive(*fm());
      if (kind != "and2") { // damage the first field that holds the children
         String kidField; for (MessageFieldNameIterator it = fm()->GetFieldNameIterator(B_MESSAGE_TYPE); it.HasData(); it++) {kidField = it.GetFieldName(); break;}
         if (kidField.HasChars()) {(void) fm()->RemoveName(kidField); if (kind == "and-kid-retyped") {(void) fm()->AddInt32(kidField, 7); (void) fm()->AddInt32(kidField, 8);}} } }
   else if (kind == "and-nested3") { ConstQueryFilterRef cur(new WhatCodeQueryFilter(1)); for (int d=0; d<3; d++) {AndQueryFilter * a = new AndQueryFilter; (void) a->GetChildren().AddTail(cur); (void) a->GetChildren().AddTail(ConstQueryFilterRef(new WhatCodeQueryFilter(1, 2))); cur.SetRef(a);} (void) cur()->SaveToArchive(*fm()); }
   else if (kind == "msgfilter") {MessageQueryFilter q(ConstQueryFilterRef(new WhatCodeQueryFilter(1)), ConstMessageRef(), "sub"); (void) q.SaveToArchive(*fm());}
   else if (kind == "not-a-filter") {fm()->what = 1234; (void) fm()->AddString("fn", "x");}
   else if (kind == "what-retyped") {(void) WhatCodeQueryFilter(1).SaveToArchive(*fm()); for (MessageFieldNameIterator it = fm()->GetFieldNameIterator(); it.HasData(); it++) {const String n = it.GetFieldName(); (void) fm()->RemoveName(n); (void) fm()->AddString(n, "zz"); break;}}
   else if (kind == "nest200") { // an AND archive that contains itself 200 levels deep
      AndQueryFilter a; (void) a.GetChildren().AddTail(ConstQueryFilterRef(new WhatCodeQueryFilter(1))); MessageRef proto = GetMessageFromPool(); (void) a.SaveToArchive(*proto());
      String kidField; for (MessageFieldNameIterator it = proto()->GetFieldNameIterator(B_MESSAGE_TYPE); it.HasData(); it++) {kidField = it.GetFieldName(); break;}
      MessageRef cur = GetMessageFromPool(*proto());
      for (int d=0; (d<200)&&(kidField.HasChars()); d++) {MessageRef outer = GetMessageFromPool(*proto()); (void) outer()->RemoveName(kidField); (void) outer()->AddMessage(kidField, cur); cur = outer;}
      fm = cur; }
   return fm;
}

static MessageRef NestedBatch(int depth, const MessageRef & leaf) {MessageRef cur = leaf; for (int i=0; i<depth; i++) {MessageRef b = Msg(PR_COMMAND_BATCH); (void) b()->AddMessage(PR_NAME_KEYS, cur); cur = b;} return cur;}

static void AddHostileField(Message & m, const J & f, const std::string & wroot)
{
   const std::string n = f["n"].str(), sh = f["sh"].str(), a = f["a"].str(); const char * fn = n.c_str();
   if (sh == "str") (void) m.AddString(fn, a.c_str());
   else if (sh == "strs") {(void) m.AddString(fn, "*"); (void) m.AddString(fn, "a"); (void) m.AddString(fn, "[");}
   else if (sh == "i32") (void) m.AddInt32(fn, (int32) strtoll(a.c_str(), NULL, 10));
   else if (sh == "i32s") {const int32 v = atoi(a.c_str()); (void) m.AddInt32(fn, v); (void) m.AddInt32(fn, v+1); (void) m.AddInt32(fn, -1);}
   else if (sh == "i64") (void) m.AddInt64(fn, -1);
   else if (sh == "bool") (void) m.AddBool(fn, true);
   else if (sh == "raw") (void) m.AddFlat(fn, GetByteBufferFromPool((uint32) atoi(a.c_str())));
   else if (sh == "msg") (void) m.AddMessage(fn, GetMessageFromPool());
   else if (sh == "filt") (void) m.AddMessage(fn, FilterArchive(a));
   else if (sh == "filts") {(void) m.AddMessage(fn, FilterArchive("what1")); (void) m.AddMessage(fn, FilterArchive("and-kid-retyped")); (void) m.AddMessage(fn, FilterArchive("string"));}
   else if (sh == "flags") {SetDataNodeFlags fl; fl.SetWord(0, (uint32) atoi(a.c_str())); (void) m.AddFlat(fn, fl);}
   else if (sh == "data") {MessageRef d = Msg(1); (void) d()->AddString("f", "xax"); if (a == "big") (void) d()->AddFlat("blob", GetByteBufferFromPool(200000)); (void) m.AddMessage(fn, d);}
   else if (sh == "cmds") {
      MessageRef jr = Msg(PR_COMMAND_JETTISONRESULTS); (void) jr()->AddString(PR_NAME_KEYS, "*"); (void) jr()->AddMessage(PR_NAME_FILTERS, FilterArchive("what1"));
      if (a == "jr-filter") (void) m.AddMessage(fn, jr);
      else if (a == "nest50") (void) m.AddMessage(fn, NestedBatch(50, jr));
      else if (a == "nest150") (void) m.AddMessage(fn, NestedBatch(150, jr));
      else if (a == "mixed") { MessageRef sd = Msg(PR_COMMAND_SETDATA); (void) sd()->AddMessage("n", Msg(1)); MessageRef gd = Msg(PR_COMMAND_GETDATA); (void) gd()->AddString(PR_NAME_KEYS, "/*/*/*");
         MessageRef rd = Msg(PR_COMMAND_REMOVEDATA); (void) rd()->AddString(PR_NAME_KEYS, "*"); MessageRef pg = Msg(PR_COMMAND_PING);
         (void) m.AddMessage(fn, sd); (void) m.AddMessage(fn, gd); (void) m.AddMessage(fn, jr); (void) m.AddMessage(fn, rd); (void) m.AddMessage(fn, pg); (void) m.AddMessage(fn, Msg(1234)); }
      else if (a == "self-similar") {MessageRef b = Msg(PR_COMMAND_BATCH); for (int i=0; i<3; i++) (void) b()->AddMessage(PR_NAME_KEYS, jr); MessageRef b2 = Msg(PR_COMMAND_BATCH); for (int i=0; i<3; i++) (void) b2()->AddMessage(PR_NAME_KEYS, b); MessageRef b3 = Msg(PR_COMMAND_BATCH); for (int i=0; i<3; i++) (void) b3()->AddMessage(PR_NAME_KEYS, b2); (void) m.AddMessage(fn, b3);}
   }
   (void) wroot;
}
static MessageRef BuildHostile(const J & c, const std::string & wroot)
{
   MessageRef m = Msg((uint32) (int32) c["what"].i());
   for (size_t i=0; i<c["f"].size(); i++) AddHostileField(*m(), c["f"][i], wroot);
   return m;
}

// an ordinary command of the prelude / epilogue the specification gives (HostileSpace.tla)
// payload of the nodes the hostile filters are evaluated on: a short and an empty raw field, a short and an empty string, two int32s
static MessageRef FieldedPayload(uint32 what)
{
   MessageRef p = Msg(what); static const uint8 three[3] = {1, 2, 3};
   (void) p()->AddFlat("raw", GetByteBufferFromPool(3, three)); (void) p()->AddFlat("raw0", GetByteBufferFromPool(0)); (void) p()->AddString("f", "abc"); (void) p()->AddString("s0", ""); (void) p()->AddInt32("i", 3); (void) p()->AddInt32("i", 4);
   return p;
}
static MessageRef BuildPre(const J & c)
{
   const std::string op = c["pre"].str(), p = c["p"].str(), x = c["x"].str();
   if (op == "SETDATA") {MessageRef m = Msg(PR_COMMAND_SETDATA); (void) m()->AddMessage(p.c_str(), FieldedPayload(1)); if (x == "index") {SetDataNodeFlags f; f.SetBit(SETDATANODE_FLAG_ADDTOINDEX); (void) m()->AddFlat(PR_NAME_FLAGS, f);} return m;}
   if (op == "INSERTORDEREDDATA") {MessageRef m = Msg(PR_COMMAND_INSERTORDEREDDATA); (void) m()->AddString(PR_NAME_KEYS, p.c_str()); (void) m()->AddMessage(x.c_str(), Msg(2)); return m;}
   if (op == "REORDERDATA") {MessageRef m = Msg(PR_COMMAND_REORDERDATA); (void) m()->AddString(p.c_str(), x.c_str()); return m;}
   MessageRef m = Msg(PR_COMMAND_REMOVEDATA); (void) m()->AddString(PR_NAME_KEYS, p.c_str()); return m;
}
static J g_prelude, g_epilogue;

// injects the Messages of `order` (indices into cases), `perWorld` per server instance; senders: V (valve closed, backlog) and / or B (reading)
static long g_hInjected = 0, g_hWorlds = 0, g_hPings = 0, g_hDropped = 0, g_hBacklogMax = 0;
static void HostilePass(const std::vector<std::string> & cases, const std::vector<size_t> & order, size_t perWorld, int clients, std::mt19937 & rng, const char * passName)
{
   size_t pos = 0;
   while ((pos < order.size())&&(g_violCases < 25)) {
      OqWorld ow; World & w = ow.w; g_hWorlds++;
      SetStage("running the prelude (ordinary commands that build nodes with mixed indexed / plain children)");
      for (size_t i=0; i<g_prelude.size(); i++) {w.Send(ow.V, BuildPre(g_prelude[i])); w.Send(ow.B, BuildPre(g_prelude[i])); w.Settle(2);}
      ow.V->inbox.clear(); ow.B->inbox.clear();
      const bool blocked = ow.CloseValve(ow.V);
      // a backlog for the jettison / supersede paths to walk: the victim is subscribed to the witness's small nodes, which the witness keeps changing
      if (blocked) {MessageRef s = Msg(PR_COMMAND_SETPARAMETERS); s()->AddBool((std::string("SUBSCRIBE:") + ow.W->root + "/*").c_str(), true); w.Send(ow.V, s); w.Settle(2);}
      J hist = J::Arr(); size_t n = 0;
      for (; (n < perWorld)&&(pos < order.size())&&(ow.viol.empty()); n++, pos++) {
         const J c = ParseLine(cases[order[pos]]);
         Client * sender = (clients == 1) ? ow.V : ((rng() & 1) ? ow.V : ow.B);
         if (c.has("from")) sender = (c["from"].str() == "B") ? ow.B : ow.V;     // (re-run of a reported history)
         if ((!sender->connected)||(!w.Attached(sender))||(sender->peerClosed)) {sender = (sender == ow.V) ? ow.B : ow.V; if ((!sender->connected)||(!w.Attached(sender))) {g_hDropped++; break;}}
         J h = J::Obj(); h.set("from", J::Str(sender->name)).set("case", c); hist.push(h);
         {J cur = J::Obj(); cur.set("pass", J::Str(passName)).set("valve_closed", J::Bool(blocked)).set("history", hist); SetCur(mj::ToString(cur));}
         char when[160]; snprintf(when, sizeof(when), "processing hostile Message #%lld (what %lld) from %s", (long long) c["id"].i(), (long long) c["what"].i(), sender->name.c_str()); SetStage(when);
         w.Send(sender, BuildHostile(c, ow.W->root)); g_hInjected++;
         w.Settle(2);
         if ((n % 7) == 3) { // the witness keeps its nodes changing: more updates queue up for the non-reading victim
            MessageRef sd = Msg(PR_COMMAND_SETDATA); sd()->AddMessage((rng() & 1) ? "a" : "b", Msg(1 + (rng() & 1)));
            if (rng() & 2) {SetDataNodeFlags fl; fl.SetBit(SETDATANODE_FLAG_ENABLESUPERCEDE); sd()->AddFlat(PR_NAME_FLAGS, fl);}   // NodeChangedAux then scans the non-reading subscriber's queue for the update it supersedes
            w.Send(ow.W, sd); w.Settle(2); }
         snprintf(when, sizeof(when), "answering the witness's ping after hostile Message #%lld (what %lld) from %s", (long long) c["id"].i(), (long long) c["what"].i(), sender->name.c_str());
         g_hPings++; ow.WitnessPing(when);
         ow.B->inbox.clear(); ow.W->inbox.clear(); ow.W->mirror.clear(); ow.B->mirror.clear();
         if (w.Attached(ow.V)) {const long bl = (long) ow.V->sess->OutQ()->GetNumItems(); if (bl > g_hBacklogMax) g_hBacklogMax = bl;}
      }
      // the end of every server life: the second sender removes its (mixed) nodes, the first one - still not reading - simply departs; the witness must still be served
      if (ow.viol.empty()) {
         {J cur = J::Obj(); cur.set("pass", J::Str(passName)).set("valve_closed", J::Bool(blocked)).set("history", hist).set("then", J::Str("epilogue: removal of the prelude's nodes by B, departure of V")); SetCur(mj::ToString(cur));}
         SetStage("removing the nodes of the prelude (epilogue)");
         if ((ow.B->connected)&&(w.Attached(ow.B))) for (size_t i=0; i<g_epilogue.size(); i++) {w.Send(ow.B, BuildPre(g_epilogue[i])); w.Settle(2);}
         g_hPings++; ow.WitnessPing("answering the witness's ping after the second sender removed its nodes");
         SetStage("handling the departure of the non-reading sender (its subtree is removed recursively)");
         w.Close(ow.V); w.Settle(3);
         g_hPings++; ow.WitnessPing("answering the witness's ping after the departure of the non-reading sender"); }
      if (!ow.viol.empty()) {g_violCases++; J row = J::Obj(); row.set("violations", StrList(ow.viol)).set("pass", J::Str(passName)).set("valve_closed", J::Bool(blocked)).set("history", hist); RepJ(row);}
      if (w.slowest > g_oqSlowest) g_oqSlowest = w.slowest; g_oqPumps += (long) w.pumps;
   }
}

static int HostileRun(int argc, char ** argv)
{
   // srv hostile <cases.ndjson> <report> <seed> <perWorld> <nseq> <seqlen> [shard nshards]
   if (argc < 8) return 2;
   std::vector<std::string> cases; if (!ReadLines(argv[2], cases)) {fprintf(stderr, "cannot read %s\n", argv[2]); return 3;}
   if ((!cases.empty())&&(cases[0].find("\"prelude\"") != std::string::npos)) {const J p = ParseLine(cases[0]); g_prelude = p["prelude"]; g_epilogue = p["epilogue"]; cases.erase(cases.begin());}
   if (!OpenReport(argv[3])) return 3;
   const unsigned seed = (unsigned) atoi(argv[4]); const size_t perWorld = (size_t) atoi(argv[5]); const int nseq = atoi(argv[6]); const size_t seqlen = (size_t) atoi(argv[7]);
   const size_t shard = (argc > 9) ? (size_t) atoi(argv[8]) : 0, nshards = (argc > 9) ? (size_t) atoi(argv[9]) : 1;
   std::mt19937 rng(seed*7919u + (unsigned) shard);
   const double t0 = Now();
   // pass 1: every Message of the enumeration once, from one client whose valve is closed
   {std::vector<size_t> order; for (size_t i=shard; i<cases.size(); i+=nshards) order.push_back(i); HostilePass(cases, order, perWorld, 1, rng, "every Message once, one client");}
   // pass 2: seeded random sequences from two clients
   {std::vector<size_t> order; for (int s=0; s<nseq; s++) for (size_t k=0; k<seqlen; k++) order.push_back(rng() % cases.size()); HostilePass(cases, order, seqlen, 2, rng, "random sequences, two clients");}
   J s = J::Obj(); s.set("summary", J::Bool(true)).set("cases", J::Int((int64_t) cases.size())).set("injected", J::Int(g_hInjected)).set("servers", J::Int(g_hWorlds)).set("pings_answered", J::Int(g_hPings - g_violCases)).set("violating_cases", J::Int(g_violCases))
      .set("senders_lost", J::Int(g_hDropped)).set("max_backlog", J::Int(g_hBacklogMax)).set("pumps", J::Int(g_oqPumps)).set("slowest_pump_us", J::Int((int64_t) (g_oqSlowest*1e6))).set("wall_ms", J::Int((int64_t) ((Now()-t0)*1000)));
   RepJ(s); return 0;
}
