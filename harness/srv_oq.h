static int OqReplay(int, char **) {return 2;}
static int HostileRun(int, char **) {return 2;}
