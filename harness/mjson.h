// Minimal JSON value + parser + writer for the /verif harnesses (behaviours in, verdict records out).
#ifndef VERIF_MJSON_H
#define VERIF_MJSON_H
#include <string>
#include <vector>
#include <map>
#include <cstdio>
#include <cstdlib>
#include <cstring>
#include <stdint.h>

namespace mj {

struct Value {
   enum Type {NUL, BOOL, NUM, STR, ARR, OBJ} type;
   bool b; int64_t n; double d; bool isInt;
   std::string s;
   std::vector<Value> a;
   std::vector<std::pair<std::string, Value> > o;
   Value() : type(NUL), b(false), n(0), d(0), isInt(true) {}
   static Value Int(int64_t v) {Value r; r.type = NUM; r.n = v; r.d = (double) v; return r;}
   static Value Str(const std::string & v) {Value r; r.type = STR; r.s = v; return r;}
   static Value Bool(bool v) {Value r; r.type = BOOL; r.b = v; return r;}
   static Value Arr() {Value r; r.type = ARR; return r;}
   static Value Obj() {Value r; r.type = OBJ; return r;}
   bool has(const char * k) const {for (size_t i=0; i<o.size(); i++) if (o[i].first == k) return true; return false;}
   const Value & operator[](const char * k) const {static Value nul; for (size_t i=0; i<o.size(); i++) if (o[i].first == k) return o[i].second; return nul;}
   const Value & operator[](size_t i) const {static Value nul; return (i < a.size()) ? a[i] : nul;}
   Value & set(const std::string & k, const Value & v) {for (size_t i=0; i<o.size(); i++) if (o[i].first == k) {o[i].second = v; return *this;} o.push_back(std::make_pair(k, v)); return *this;}
   Value & push(const Value & v) {a.push_back(v); return *this;}
   size_t size() const {return (type == ARR) ? a.size() : o.size();}
   int64_t i() const {return (type == NUM) ? n : (type == BOOL ? (b ? 1 : 0) : 0);}
   const std::string & str() const {return s;}
   bool truthy() const {return (type == BOOL) ? b : (type == NUM ? n != 0 : (type != NUL));}
   bool operator==(const Value & r) const
   {
      if (type != r.type) return false;
      switch(type) {
         case NUL: return true; case BOOL: return b == r.b; case NUM: return n == r.n; case STR: return s == r.s;
         case ARR: return a == r.a; case OBJ: return o == r.o; }
      return false;
   }
   bool operator!=(const Value & r) const {return !(*this == r);}
};

struct Parser {
   const char * p; const char * e; bool ok;
   Parser(const char * b, size_t n) : p(b), e(b+n), ok(true) {}
   void ws() {while ((p < e)&&((*p == ' ')||(*p == '\n')||(*p == '\t')||(*p == '\r'))) p++;}
   Value parse()
   {
      ws(); Value v;
      if (p >= e) {ok = false; return v;}
      if (*p == '{') {
         p++; v.type = Value::OBJ; ws();
         if ((p < e)&&(*p == '}')) {p++; return v;}
         while (ok) {
            ws(); Value k = parse(); if (k.type != Value::STR) {ok = false; break;}
            ws(); if ((p >= e)||(*p != ':')) {ok = false; break;} p++;
            Value x = parse(); v.o.push_back(std::make_pair(k.s, x));
            ws(); if ((p < e)&&(*p == ',')) {p++; continue;}
            if ((p < e)&&(*p == '}')) {p++; break;}
            ok = false;
         }
      } else if (*p == '[') {
         p++; v.type = Value::ARR; ws();
         if ((p < e)&&(*p == ']')) {p++; return v;}
         while (ok) {
            Value x = parse(); v.a.push_back(x);
            ws(); if ((p < e)&&(*p == ',')) {p++; continue;}
            if ((p < e)&&(*p == ']')) {p++; break;}
            ok = false;
         }
      } else if (*p == '"') {
         p++; v.type = Value::STR;
         while ((p < e)&&(*p != '"')) {
            if ((*p == '\\')&&(p+1 < e)) {
               p++;
               switch(*p) {
                  case 'n': v.s += '\n'; break; case 't': v.s += '\t'; break; case 'r': v.s += '\r'; break;
                  case 'b': v.s += '\b'; break; case 'f': v.s += '\f'; break;
                  case 'u': { if (p+4 < e) { char h[5] = {p[1],p[2],p[3],p[4],0}; unsigned c = (unsigned) strtoul(h, NULL, 16); p += 4;
                                if (c < 0x80) v.s += (char) c; else if (c < 0x800) {v.s += (char)(0xC0|(c>>6)); v.s += (char)(0x80|(c&0x3F));} else {v.s += (char)(0xE0|(c>>12)); v.s += (char)(0x80|((c>>6)&0x3F)); v.s += (char)(0x80|(c&0x3F));} } } break;
                  default: v.s += *p; break; }
               p++;
            } else v.s += *p++;
         }
         if (p < e) p++; else ok = false;
      } else if ((*p == 't')&&(e-p >= 4)&&(!strncmp(p, "true", 4)))  {p += 4; v.type = Value::BOOL; v.b = true;}
      else if ((*p == 'f')&&(e-p >= 5)&&(!strncmp(p, "false", 5))) {p += 5; v.type = Value::BOOL; v.b = false;}
      else if ((*p == 'n')&&(e-p >= 4)&&(!strncmp(p, "null", 4)))  {p += 4; v.type = Value::NUL;}
      else {
         char * end = NULL; v.type = Value::NUM; v.d = strtod(p, &end);
         if (end == p) {ok = false; return v;}
         v.n = (int64_t) strtoll(p, NULL, 10); v.isInt = true;
         for (const char * q = p; q < end; q++) if ((*q == '.')||(*q == 'e')||(*q == 'E')) v.isInt = false;
         p = end;
      }
      return v;
   }
};

inline bool Parse(const std::string & text, Value & out) {Parser ps(text.data(), text.size()); out = ps.parse(); return ps.ok;}

inline void Write(const Value & v, std::string & out)
{
   char buf[64];
   switch(v.type) {
      case Value::NUL: out += "null"; break;
      case Value::BOOL: out += v.b ? "true" : "false"; break;
      case Value::NUM: snprintf(buf, sizeof(buf), "%lld", (long long) v.n); out += buf; break;
      case Value::STR:
         out += '"';
         for (size_t i=0; i<v.s.size(); i++) { unsigned char c = (unsigned char) v.s[i];
            if (c == '"') out += "\\\""; else if (c == '\\') out += "\\\\"; else if (c == '\n') out += "\\n";
            else if (c < 0x20 || c >= 0x7F) {snprintf(buf, sizeof(buf), "\\u%04x", c); out += buf;} else out += (char) c; }
         out += '"'; break;
      case Value::ARR: out += '['; for (size_t i=0; i<v.a.size(); i++) {if (i) out += ','; Write(v.a[i], out);} out += ']'; break;
      case Value::OBJ: out += '{'; for (size_t i=0; i<v.o.size(); i++) {if (i) out += ','; Write(Value::Str(v.o[i].first), out); out += ':'; Write(v.o[i].second, out);} out += '}'; break;
   }
}
inline std::string ToString(const Value & v) {std::string s; Write(v, s); return s;}

// reads one line (any length) from f; false at EOF
inline bool ReadLine(FILE * f, std::string & line)
{
   line.clear(); char buf[65536];
   while (fgets(buf, sizeof(buf), f)) { line += buf; if ((!line.empty())&&(line[line.size()-1] == '\n')) {line.erase(line.size()-1); return true;} }
   return !line.empty();
}

}  // namespace mj
#endif
