#!/usr/bin/env python3
"""C08 helper: the Python Message codec (lang/python3/message.py) and transceiver thread behind a line protocol.

  wire_py.py serve <dir of message.py>       one long-lived process, requests on stdin, replies on stdout:
      U <hex>                    Message.SetFromFlattenedBuffer(bytes); GetFlattenedBuffer()      -> K <hex> | E <why>
      B M <what> <nfields> ...   build the content natively with message.py's Put* calls, flatten -> K <hex> | E <why>
      Q                          quit
  wire_py.py echo <dir of message.py>        MessageTransceiverThread accepting on 127.0.0.1; prints "PORT <n>" (or "SKIP <why>"),
                                             sends every Message it receives straight back; ends when stdin is closed.
content text:  M <what:8 hex digits> <nfields> { <name hex | -> <type code:8 hex digits> <nitems> { <item hex | -> | M ... } }
"""
import binascii, struct, sys, time


def unhex(h): return b"" if h == "-" else binascii.unhexlify(h)
def hexs(b): return binascii.hexlify(b).decode() if b else "-"


def build(message, toks):
    if next(toks) != "M": raise ValueError("syntax")
    m = message.Message(int(next(toks), 16))
    nf = int(next(toks))
    for _ in range(nf):
        name = unhex(next(toks)).decode("utf-8")            # message.py keeps names as Python text
        tc = int(next(toks), 16); n = int(next(toks))
        if tc == message.B_MESSAGE_TYPE:
            m.PutMessage(name, [build(message, toks) for _ in range(n)])
            continue
        raw = [unhex(next(toks)) for _ in range(n)]
        one = lambda vals: vals[0] if len(vals) == 1 else vals        # a single item may be handed over as such
        if   tc == message.B_BOOL_TYPE:   m.PutBool(name, one([b[0] != 0 for b in raw]))
        elif tc == message.B_INT8_TYPE:   m.PutInt8(name, one([struct.unpack("<b", b)[0] for b in raw]))
        elif tc == message.B_INT16_TYPE:  m.PutInt16(name, one([struct.unpack("<h", b)[0] for b in raw]))
        elif tc == message.B_INT32_TYPE:  m.PutInt32(name, one([struct.unpack("<i", b)[0] for b in raw]))
        elif tc == message.B_INT64_TYPE:  m.PutInt64(name, one([struct.unpack("<q", b)[0] for b in raw]))
        elif tc == message.B_FLOAT_TYPE:  m.PutFloat(name, one([struct.unpack("<f", b)[0] for b in raw]))
        elif tc == message.B_DOUBLE_TYPE: m.PutDouble(name, one([struct.unpack("<d", b)[0] for b in raw]))
        elif tc == message.B_POINT_TYPE:  m.PutPoint(name, [struct.unpack("<2f", b) for b in raw])
        elif tc == message.B_RECT_TYPE:   m.PutRect(name, [struct.unpack("<4f", b) for b in raw])
        elif tc == message.B_STRING_TYPE: m.PutString(name, one([b.decode("utf-8") for b in raw]))
        else:                             m.PutFieldContents(name, tc, raw)
    return m


def serve(message):
    out = sys.stdout
    for line in sys.stdin:
        line = line.rstrip("\n")
        if not line: continue
        cmd, _, rest = line.partition(" ")
        if cmd == "Q": break
        try:
            if cmd == "U":
                m = message.Message()
                m.SetFromFlattenedBuffer(unhex(rest))
                out.write("K " + hexs(m.GetFlattenedBuffer()) + "\n")
            elif cmd == "B":
                m = build(message, iter(rest.split(" ")))
                out.write("K " + hexs(m.GetFlattenedBuffer()) + "\n")
            else:
                out.write("E unknown command\n")
        except Exception as ex:
            out.write("E %s: %s\n" % (type(ex).__name__, str(ex)[:200].replace("\n", " ")))
        out.flush()


def echo(message):
    import threading
    try:
        import message_transceiver_thread as mtt
        t = mtt.MessageTransceiverThread(None, 0, "127.0.0.1")
        t.start()
        port = t.GetPort()
    except Exception as ex:
        print("SKIP %s: %s" % (type(ex).__name__, ex)); sys.stdout.flush(); return
    print("PORT %d" % port); sys.stdout.flush()
    done = threading.Event()
    threading.Thread(target=lambda: (sys.stdin.read(), done.set()), daemon=True).start()
    n = 0
    while not done.is_set():
        ev = t.GetNextIncomingEvent(False)
        if ev is None:
            time.sleep(0.0005); continue
        if isinstance(ev, message.Message):
            t.SendOutgoingMessage(ev); n += 1
    try: t.Destroy()
    except Exception: pass
    print("ECHOED %d" % n); sys.stdout.flush()


if __name__ == "__main__":
    sys.path.insert(0, sys.argv[2])
    import message
    if sys.argv[1] == "serve": serve(message)
    elif sys.argv[1] == "echo": echo(message)
