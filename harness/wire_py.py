#!/usr/bin/env python3
"""C08 helper: the Python Message codec (lang/python3/message.py) and transceiver thread behind a line protocol.

  wire_py.py serve <dir of message.py>       one long-lived process, requests on stdin, replies on stdout:
      U <hex>                    Message.SetFromFlattenedBuffer(bytes); GetFlattenedBuffer()      -> K <hex> | E <why>
      B M <what> <nfields> ...   build the content natively with message.py's Put* calls, flatten -> K <hex> | E <why>
      D <v> M <what> ...         the same content through message.py's own mutating calls, detour v = 1..5 (see put / build)
      H <what> ... / S <call>    a heap of live Message objects and one call of a WireHeap history on it -> K <size> <hex> per object
      Q                          quit
  wire_py.py echo <dir of message.py>        MessageTransceiverThread accepting on 127.0.0.1; prints "PORT <n>" (or "SKIP <why>"),
                                             sends every Message it receives straight back; ends when stdin is closed.
content text:  M <what:8 hex digits> <nfields> { <name hex | -> <type code:8 hex digits> <nitems> { <item hex | -> | M ... } }
"""
import binascii, struct, sys, time


def unhex(h): return b"" if h == "-" else binascii.unhexlify(h)
def hexs(b): return binascii.hexlify(b).decode() if b else "-"


DETOUR = [0]     # D command: 0 = every field is put once; 1..5 = the content is reached through message.py's own mutating calls:
                 #  1 junk of another type / count put under the name first, then PutFieldContents over the existing name
                 #  2 junk, RemoveName, put          3 one item put, the others appended IN PLACE to the list GetFieldContents() returns
                 #  4 sub-Messages are put EMPTY and filled afterwards through the reference the parent holds; what codes assigned afterwards
                 #  5 = 3 + 4, and FlattenedSize() / GetFlattenedBuffer() are called in the middle (a size computed early must not stick)


def put(m, message, name, tc, vals):
    d = DETOUR[0]
    if d in (1, 2):
        if tc == message.B_STRING_TYPE: m.PutInt32(name, [1, 2, 3])
        else: m.PutString(name, ["junk", ""])
        if d == 2: m.RemoveName(name)
    if d in (3, 5) and isinstance(vals, list) and len(vals) >= 2:
        m.PutFieldContents(name, tc, [vals[0]])
        if d == 5: m.FlattenedSize(); m.GetFlattenedBuffer()
        lst = m.GetFieldContents(name)
        for x in vals[1:]: lst.append(x)                  # in place, through the returned list
    else:
        m.PutFieldContents(name, tc, vals)


def build(message, toks):
    if next(toks) != "M": raise ValueError("syntax")
    what = int(next(toks), 16)
    late = DETOUR[0] in (4, 5)
    m = message.Message((what ^ 0xFFFFFFFF) if late else what)
    nf = int(next(toks))
    pending = []
    for _ in range(nf):
        rawname = unhex(next(toks))
        tc = int(next(toks), 16); n = int(next(toks))
        if tc == message.B_POINTER_TYPE:          # a non-flattenable field of the content: message.py has no such kind (its name need not even be text)
            for _ in range(n): next(toks)
            continue
        name = rawname.decode("utf-8")            # message.py keeps names as Python text
        if tc == message.B_MESSAGE_TYPE:
            if late:
                # the sub-Messages are put empty and filled afterwards, through the very objects the parent holds
                subs = [message.Message() for _ in range(n)]
                put(m, message, name, tc, subs)
                if DETOUR[0] == 5: m.FlattenedSize(); m.GetFlattenedBuffer()
                for k in range(n):
                    built = build(message, toks)
                    held = m.GetFieldContents(name)[k]
                    held.what = built.what
                    for fn in built.GetFieldNames(): held.PutFieldContents(fn, built.GetFieldType(fn), built.GetFieldContents(fn))
            else:
                put(m, message, name, tc, [build(message, toks) for _ in range(n)])
            continue
        raw = [unhex(next(toks)) for _ in range(n)]
        one = lambda vals: vals[0] if len(vals) == 1 else vals        # a single item may be handed over as such
        if DETOUR[0]:
            conv = {message.B_BOOL_TYPE: lambda b: b[0] != 0, message.B_INT8_TYPE: lambda b: struct.unpack("<b", b)[0], message.B_INT16_TYPE: lambda b: struct.unpack("<h", b)[0],
                    message.B_INT32_TYPE: lambda b: struct.unpack("<i", b)[0], message.B_INT64_TYPE: lambda b: struct.unpack("<q", b)[0], message.B_FLOAT_TYPE: lambda b: struct.unpack("<f", b)[0],
                    message.B_DOUBLE_TYPE: lambda b: struct.unpack("<d", b)[0], message.B_POINT_TYPE: lambda b: struct.unpack("<2f", b), message.B_RECT_TYPE: lambda b: struct.unpack("<4f", b),
                    message.B_STRING_TYPE: lambda b: b.decode("utf-8")}.get(tc, lambda b: b)
            put(m, message, name, tc, [conv(b) for b in raw])
        elif tc == message.B_BOOL_TYPE:   m.PutBool(name, one([b[0] != 0 for b in raw]))
        elif tc == message.B_INT8_TYPE:   m.PutInt8(name, one([struct.unpack("<b", b)[0] for b in raw]))
        elif tc == message.B_INT16_TYPE:  m.PutInt16(name, one([struct.unpack("<h", b)[0] for b in raw]))
        elif tc == message.B_INT32_TYPE:  m.PutInt32(name, one([struct.unpack("<i", b)[0] for b in raw]))
        elif tc == message.B_INT64_TYPE:  m.PutInt64(name, one([struct.unpack("<q", b)[0] for b in raw]))
        elif tc == message.B_FLOAT_TYPE:  m.PutFloat(name, one([struct.unpack("<f", b)[0] for b in raw]))
        elif tc == message.B_DOUBLE_TYPE: m.PutDouble(name, one([struct.unpack("<d", b)[0] for b in raw]))
        elif tc == message.B_POINT_TYPE:  m.PutPoint(name, [struct.unpack("<2f", b) for b in raw])
        elif tc == message.B_RECT_TYPE:   m.PutRect(name, [struct.unpack("<4f", b) for b in raw])
        elif tc == message.B_STRING_TYPE: m.PutString(name, one([b.decode("utf-8") for b in raw]))
        else:                             m.PutFieldContents(name, tc, raw)
    if late: m.what = what
    return m


def heap_reply(heap):
    # after every call every object is sized AND flattened: the transceiver builds its frame header from FlattenedSize() and the body from Flatten()
    return "K " + " ".join("%d %s" % (m.FlattenedSize(), hexs(m.GetFlattenedBuffer())) for m in heap)


def heap_step(message, heap, a):
    """the calls of WireHeap.tla on live Python objects: items are added / removed IN PLACE in the list the Message holds (the list GetFieldContents()
    returns), sub-Messages are the very Message objects of the heap (aliases), ShareName = the same list object put into a second Message"""
    op, o, name, tc, val, i, k = a[0], heap[int(a[1]) - 1], unhex(a[2]).decode("utf-8"), int(a[3], 16), unhex(a[4]), int(a[5]), int(a[6])
    def item():
        if op in ("AddRef", "PrependRef"): return heap[k - 1]
        if tc == message.B_INT16_TYPE: return struct.unpack("<h", val)[0]
        if tc == message.B_STRING_TYPE: return val.decode("utf-8")
        return val
    if op in ("AddRef", "PrependRef"): tc = message.B_MESSAGE_TYPE
    lst = o.GetFieldContents(name)
    if op in ("Add", "AddRef", "Prepend", "PrependRef"):
        if lst is None: o.PutFieldContents(name, tc, [item()])
        elif o.GetFieldType(name) == tc:
            if op.startswith("Prepend"): lst.insert(0, item())
            else: lst.append(item())
    elif op == "Remove":
        if lst is not None and i < len(lst):
            del lst[i]
            if not lst: o.RemoveName(name)              # the emptied field leaves THIS Message only
    elif op == "Replace":
        if lst is not None and o.GetFieldType(name) == tc and i < len(lst): lst[i] = item()
    elif op == "RemoveName": o.RemoveName(name)
    elif op == "Share": heap[k - 1].PutFieldContents(name, o.GetFieldType(name), lst)        # the same list object: shared, not copied
    elif op == "What": o.what = struct.unpack("<L", val)[0]
    else: raise ValueError("unknown op " + op)


def serve(message):
    heap = []
    out = sys.stdout
    for line in sys.stdin:
        line = line.rstrip("\n")
        if not line: continue
        cmd, _, rest = line.partition(" ")
        if cmd == "Q": break
        try:
            if cmd == "U":
                m = message.Message()
                m.SetFromFlattenedBuffer(unhex(rest))
                out.write("K " + hexs(m.GetFlattenedBuffer()) + "\n")
            elif cmd == "H":        # H <what hex> ...: a new heap of live Message objects (WireHeap)
                heap[:] = [message.Message(int(w, 16)) for w in rest.split(" ")]
                out.write(heap_reply(heap) + "\n")
            elif cmd == "S":        # S <op> <o> <name hex> <type code> <value hex | -> <i> <k>: one call of a WireHeap history on the live objects
                heap_step(message, heap, rest.split(" "))
                out.write(heap_reply(heap) + "\n")
            elif cmd in ("B", "D"):
                if cmd == "D": d, _, rest = rest.partition(" "); DETOUR[0] = int(d)
                else: DETOUR[0] = 0
                m = build(message, iter(rest.split(" ")))
                out.write("K " + hexs(m.GetFlattenedBuffer()) + "\n")
            else:
                out.write("E unknown command\n")
        except Exception as ex:
            out.write("E %s: %s\n" % (type(ex).__name__, str(ex)[:200].replace("\n", " ")))
        out.flush()


HIST = 0x48495354     # 'HIST': start the resend history (field n = number of frames)
ACK1 = 0x41434b31     # 'ACK1': the previous frame was received, go on


def echo(message, connect_port=None):
    import threading
    try:
        import message_transceiver_thread as mtt
        if connect_port: t = mtt.MessageTransceiverThread("127.0.0.1", connect_port)      # connecting: the transceiver's socket is non-blocking
        else: t = mtt.MessageTransceiverThread(None, 0, "127.0.0.1")
        t.start()
        port = connect_port or t.GetPort()
    except Exception as ex:
        print("SKIP %s: %s" % (type(ex).__name__, ex)); sys.stdout.flush(); return
    print("PORT %d" % port); sys.stdout.flush()
    done = threading.Event()
    hist = None
    threading.Thread(target=lambda: (sys.stdin.read(), done.set()), daemon=True).start()
    n = 0
    while not done.is_set():
        ev = t.GetNextIncomingEvent(False)
        if ev is None:
            time.sleep(0.0005); continue
        if isinstance(ev, message.Message):
            if ev.what == HIST:
                # "keep a status Message, update it, resend it": top holds mid holds leaf; every step changes leaf through its own reference (and top's own
                # counter field) and sends the SAME top object again.  The C++ side acknowledges every frame before the next change is made.
                leaf = message.Message(3); leaf.PutString("s", ["x0"])
                mid = message.Message(2); mid.PutMessage("leaf", [leaf]); mid.PutInt8("b", [1, 2])
                top = message.Message(1); top.PutMessage("mid", [mid]); top.PutInt32("k", [0])
                hist = [top, leaf, 0, ev.GetFieldItem("n", message.B_INT32_TYPE, 0)]
                t.SendOutgoingMessage(top)
            elif ev.what == ACK1 and hist is not None:
                top, leaf, k, total = hist
                k += 1; hist[2] = k
                if k < total:
                    leaf.GetFieldContents("s").append("x%d" % k * (1 + k % 3))      # in place, through the list the leaf holds
                    if k % 2: leaf.PutInt64("q", [k] * k)
                    top.PutInt32("k", [k])
                    t.SendOutgoingMessage(top)
                else: hist = None
            else:
                t.SendOutgoingMessage(ev); n += 1
    try: t.Destroy()
    except Exception: pass
    try: print("ECHOED %d" % n); sys.stdout.flush()
    except Exception: pass


if __name__ == "__main__":
    sys.path.insert(0, sys.argv[2])
    import message
    if sys.argv[1] == "serve": serve(message)
    elif sys.argv[1] == "echo": echo(message)
    elif sys.argv[1] == "echoconnect": echo(message, int(sys.argv[3]))
