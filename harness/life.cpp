// LIFECYCLE conformance harness (stage of C07 / C06): the session life cycle of reflector/ReflectServer.cpp, AbstractReflectSession.cpp,
// ReflectSessionFactory, ServerComponent, bound to spec/ServerLifecycle/LifeImpl.tla.
//
// An in-process ReflectServer is driven single-threadedly (ServerProcessLoop(0) = one iteration of the event loop) through its PUBLIC API and,
// from inside the callbacks of the logging sessions below, through the PROTECTED pass-through API of ServerComponent / AbstractReflectSession.
// No private member of the library is touched (no `#define private public`), so there is no -DVERIF_NO_PRIVATE variant to fall back to.
//
//   life replay <behaviours.ndjson> <report.ndjson>
//        spec -> code.  Each input line: {"id":..,"N":<max sessions>,"steps":[<`last` records of LifeImpl along one path of the TLC state graph>]}.
//        Driver steps (AddSock, AddBare, AddConn, AddDorm, Ext, Send, Close, PConn, PutFac, RemFac, Arm, Clock, Wp, Pump, Cleanup) are executed on the
//        real server; the steps the server takes inside one call (names starting with "i" / "c": iDetach, iPrep, iPulse, iMsg, iRdErr, iWrite, iAccept,
//        iEnd, cDet, cFac, cFree) are not executable one by one: their expected callbacks are concatenated and compared with the callbacks observed
//        during the call.  After every call: result, callback sequence (session, callback, IsAttachedToServer, IsFullyAttachedToServer, IsConnected,
//        number of sessions seen from inside) and the snapshot (GetSessions() in order, per session flags, which connection each session holds,
//        which connections the server has closed) are compared with the specification's: a difference is DRIFT.
//        Independent of the specification, a monitor checks the property-level clauses: no callback after AboutToDetachFromServer() returned,
//        AboutToDetachFromServer() at most once, every attached session detached and destroyed after Cleanup() + destruction of the server,
//        no session destroyed while attached: those are VIOLATIONS.  Every call runs under a watchdog (a hang is a VIOLATION).
//   life random <histories> <steps> <seed> <N> <report.ndjson> <trace.ndjson> <mode: sync|async>
//        code -> spec.  Seeded random histories of driver steps (scripted actions inside callbacks included); same monitor; the executed steps with the
//        observed callbacks / results / snapshots are written as a trace that TLC validates against LifeImpl (LifeTrace.tla), one line per call.
//   life fdreuse       directed, informational case of the descriptor-number-reuse finding (see FdReuse() below)
//   life show <file>   debugging aid: executes the driver steps of each input line and prints what was observed (LIFE_NO_UNIQ=1: kernel's descriptor numbers)
//   life probe         prints how a non-blocking connect to a listening / a refusing loopback port completes on this machine ({"up":"sync"|"async","down":...})
#include "reflector/ReflectServer.h"
#include "reflector/AbstractReflectSession.h"
#include "iogateway/MessageIOGateway.h"
#include "dataio/TCPSocketDataIO.h"
#include "system/SetupSystem.h"
#include "util/NetworkUtilityFunctions.h"
#include "util/TimeUtilityFunctions.h"
#include "mjson.h"
#include <map>
#include <set>
#include <vector>
#include <string>
#include <algorithm>
#include <signal.h>
#include <unistd.h>
#include <fcntl.h>
#include <poll.h>
#include <time.h>
#include <errno.h>
#include <sys/socket.h>
#include <sys/time.h>
#include <netinet/in.h>
using namespace muscle;
typedef mj::Value J;

// ---------------------------------------------------------------------------------------------------------- report, watchdog
static int g_repFd = -1, g_curFd = -1;
static char g_stage[512];
static unsigned g_watchdogSecs = 5;
static long g_cases = 0, g_violCases = 0;
static void RepLine(const std::string & s) {std::string t = s; t += '\n'; ssize_t r = write(g_repFd, t.data(), t.size()); (void) r;}
static void RepJ(const J & v) {RepLine(mj::ToString(v));}
static void SetCur(const std::string & s) {if (g_curFd >= 0) {ssize_t r = pwrite(g_curFd, s.data(), s.size(), 0); (void) r; int q = ftruncate(g_curFd, (off_t) s.size()); (void) q;}}
static void SetStage(const char * s) {strncpy(g_stage, s, sizeof(g_stage)-1); g_stage[sizeof(g_stage)-1] = 0; for (char * c = g_stage; *c; c++) if ((*c == '"')||(*c == '\\')||(*c < 0x20)) *c = '\'';}   // (goes into a JSON string from the signal handler)
static void OnAlarm(int sig)
{
   static char b[4000];
   int n = snprintf(b, sizeof(b), "{\"violations\":[\"HANG: the call into the server did not return within %u s of %s while %s\"],\"hang\":true}\n{\"summary\":true,\"hang\":true,\"cases\":%ld,\"violating_cases\":%ld}\n",
                    (sig == SIGALRM) ? g_watchdogSecs*24 : g_watchdogSecs, (sig == SIGALRM) ? "wall-clock time" : "CPU time", g_stage, g_cases, g_violCases+1);
   ssize_t r = write(g_repFd, b, (size_t) n); (void) r;
   _exit(0);
}
static void WatchdogOn() {struct itimerval it; memset(&it, 0, sizeof(it)); it.it_value.tv_sec = g_watchdogSecs; (void) setitimer(ITIMER_PROF, &it, NULL); alarm(g_watchdogSecs*24);}
static void WatchdogOff() {struct itimerval it; memset(&it, 0, sizeof(it)); (void) setitimer(ITIMER_PROF, &it, NULL); alarm(0);}
static double Now() {struct timespec ts; clock_gettime(CLOCK_MONOTONIC, &ts); return ts.tv_sec + ts.tv_nsec*1e-9;}
static bool OpenReport(const char * path)
{
   g_repFd = open(path, O_WRONLY|O_CREAT|O_TRUNC, 0644); if (g_repFd < 0) return false;
   std::string cur = std::string(path)+".cur"; g_curFd = open(cur.c_str(), O_WRONLY|O_CREAT|O_TRUNC, 0644);
   return true;
}
static J StrList(const std::vector<std::string> & v) {J a = J::Arr(); for (size_t i=0; i<v.size(); i++) a.push(J::Str(v[i])); return a;}
static std::string Itoa(long v) {char b[32]; snprintf(b, sizeof(b), "%ld", v); return b;}

// ---------------------------------------------------------------------------------------------------------- the world
static const uint64 RECONNECT_DELAY = 3600ULL*1000000ULL;   // "the delay": one hour of the server's clock; the Clock step advances the clock by two

class LSession; class LFactory;
struct Conn {                       // one socket connection between the server and the harness (the harness holds the peer's end)
   int cn; ConstSocketRef peer; bool havePeer, peerClosed, tcp, fake, awaitingIo, expectPeer; int srvFd; uint16 localPort;
   Conn() : cn(0), havePeer(false), peerClosed(false), tcp(false), fake(false), awaitingIo(false), expectPeer(false), srvFd(-1), localPort(0) {}
};
struct SessInfo {                   // what the monitor knows about one session object (kept after the object is gone)
   LSession * p; bool alive; int att, attOk, det, detReturned, after, gone, goneWhileAttached; std::vector<std::string> afterWhat;
   SessInfo() : p(NULL), alive(false), att(0), attOk(0), det(0), detReturned(0), after(0), gone(0), goneWhileAttached(0) {}
};
struct FacInfo {LFactory * p; bool alive; uint16 port; int att, det, gone; std::vector<int> pend; std::vector<std::string> modes; FacInfo() : p(NULL), alive(false), port(0), att(0), det(0), gone(0) {}};
struct Arm {bool on; int s; std::string cb, act; int t; Arm() : on(false), s(0), t(0) {}};

struct World {
   ReflectServer * srv; int N, nextId, nextCn; bool serverGone;
   std::map<int, SessInfo> ss; std::map<int, FacInfo> fs; std::map<int, Conn> cs; std::map<int, int> fd2cn;
   Arm arm; J ev;                                      // callbacks observed during the current call
   ConstSocketRef upSock, downSock, holeSock; uint16 upPort, downPort, holePort; int pendingTcp; std::vector<ConstSocketRef> holeFill;   // the harness's listener ("up") and a bound, non-listening socket ("down")
   int acceptCn;                                       // > 0 while a factory is creating the session for pending connection acceptCn
   int nextFd;                                         // every socket handed to the server gets a descriptor NUMBER never used before in this world (see Uniq())
   int64 clockOfs; std::vector<std::string> viol, drift; unsigned long calls;
   World(int n);
   ~World();
   LSession * Live(int id) {std::map<int, SessInfo>::iterator it = ss.find(id); return ((it != ss.end())&&(it->second.alive)) ? it->second.p : NULL;}
   void Log(const char * c, int s, int a, int f, int k, int n, int x) {J e = J::Obj(); e.set("c", J::Str(c)).set("s", J::Int(s)).set("a", J::Int(a)).set("f", J::Int(f)).set("k", J::Int(k)).set("n", J::Int(n)).set("x", J::Int(x)); ev.push(e);}
   void Callback(LSession * p, const char * cb, int x);       // logs + monitor
   void Fire(int s, const char * cb);
   void Do(LSession * self, const std::string & act, int t);
   int  NewCn() {return nextCn++;}
   void AcceptPending();
   J    Snapshot(bool afterPump, uint64 nextPulse);
   int  EofState(Conn & c);
};
static World * W = NULL;
static bool g_kernelNumbers = false;    // LIFE_NO_UNIQ=1 / the directed case: leave the descriptor numbers to the kernel

// ReflectServer::HandleEvents() asks the multiplexer about a socket by its descriptor NUMBER; a socket created in the middle of an iteration that gets the
// number of one closed earlier in the same iteration would inherit that one's answer (a matter of the kernel's numbering, outside the specification: see the
// check's assumptions).  The harness therefore gives every server-side socket a number that was never used before: a duplicate of the descriptor (same open
// socket, same non-blocking flag, a connect in progress goes on).
static ConstSocketRef Uniq(const ConstSocketRef & s)
{
   if ((s.GetFileDescriptor() < 0)||(g_kernelNumbers)) return s;
   const int fd = fcntl(s.GetFileDescriptor(), F_DUPFD, W->nextFd);
   if (fd < 0) {fprintf(stderr, "F_DUPFD failed (errno %d)\n", errno); exit(10);}
   W->nextFd = fd+1;
   return GetConstSocketRefFromPool(fd);
}

class LSession : public AbstractReflectSession
{
public:
   LSession(int id, bool attOk, const std::string & ccc, bool dsock) : _id(id), _attOk(attOk), _ccc(ccc), _dsock(dsock), _wantPulse(false)
   {
      SessInfo & si = W->ss[id]; si.p = this; si.alive = true;
   }
   virtual ~LSession()
   {
      SessInfo & si = W->ss[_id]; si.alive = false; si.gone++; si.p = NULL;
      if (IsAttachedToServer()) si.goneWhileAttached++;
      W->Log("Gone", _id, 0, 0, 0, 0, 0);
   }
   int Id() const {return _id;}
   virtual status_t AttachedToServer()
   {
      const status_t r = AbstractReflectSession::AttachedToServer();
      W->Callback(this, "Att", _attOk ? 1 : 0);
      W->Fire(_id, "Att");
      if (r.IsError()) return r;
      if (_attOk) {W->ss[_id].attOk++; return B_NO_ERROR;}
      return B_ERROR("scripted refusal");
   }
   virtual void AboutToDetachFromServer()
   {
      W->Callback(this, "Det", 0);
      W->Fire(_id, "Det");
      AbstractReflectSession::AboutToDetachFromServer();
      W->ss[_id].detReturned++;
   }
   virtual bool ClientConnectionClosed()
   {
      const bool r = (_ccc == "T") ? true : ((_ccc == "F") ? false : AbstractReflectSession::ClientConnectionClosed());
      W->Callback(this, "CCC", r ? 1 : 0);
      W->Fire(_id, "CCC");
      return r;
   }
   virtual void AsyncConnectCompleted()
   {
      AbstractReflectSession::AsyncConnectCompleted();
      W->Callback(this, "ACC", 0);
      W->Fire(_id, "ACC");
   }
   virtual void MessageReceivedFromGateway(const MessageRef & msg, void *)
   {
      W->Callback(this, "Msg", 0);
      if (msg()) {const String * a; int32 t = 0; (void) msg()->FindInt32("t", t); if (msg()->FindString("a", &a).IsOK()) W->Do(this, a->Cstr(), (int) t);}
   }
   virtual uint64 GetPulseTime(const PulseArgs & args) {const uint64 b = AbstractReflectSession::GetPulseTime(args); return _wantPulse ? 0 : b;}
   virtual void Pulse(const PulseArgs & args)
   {
      W->Callback(this, "Pulse", 0);
      _wantPulse = false;
      W->Fire(_id, "Pulse");
      AbstractReflectSession::Pulse(args);
   }
   virtual ConstSocketRef CreateDefaultSocket();
   virtual DataIORef CreateDataIO(const ConstSocketRef & s);
   virtual AbstractMessageIOGatewayRef CreateGateway() {W->Callback(this, "Gw", 0); return AbstractReflectSession::CreateGateway();}
   void WantPulse() {_wantPulse = true; InvalidatePulseTime();}
   // pass-throughs to the protected API (used from inside callbacks)
   status_t XAdd(const AbstractReflectSessionRef & r) {return AddNewSession(r);}
   void XQuit() {EndServer();}
   int NumSessions() const {return IsAttachedToServer() ? (int) GetSessions().GetNumItems() : -1;}
private:
   int _id; bool _attOk; std::string _ccc; bool _dsock, _wantPulse;
};

class LFactory : public ReflectSessionFactory
{
public:
   LFactory(int id) : _id(id) {FacInfo & fi = W->fs[id]; fi.p = this; fi.alive = true;}
   virtual ~LFactory() {FacInfo & fi = W->fs[_id]; fi.alive = false; fi.gone++; fi.p = NULL; W->Log("FGone", _id, 0, 0, 0, 0, 0);}
   virtual status_t AttachedToServer() {const status_t r = ReflectSessionFactory::AttachedToServer(); W->fs[_id].att++; W->Log("FAtt", _id, IsAttachedToServer(), IsFullyAttachedToServer(), 0, (int) GetSessions().GetNumItems(), 0); return r;}
   virtual void AboutToDetachFromServer() {W->fs[_id].det++; W->Log("FDet", _id, IsAttachedToServer(), IsFullyAttachedToServer(), 0, (int) GetSessions().GetNumItems(), 0); ReflectSessionFactory::AboutToDetachFromServer();}
   virtual AbstractReflectSessionRef CreateSession(const String &, const IPAddressAndPort &)
   {
      FacInfo & fi = W->fs[_id];
      std::string mode = "null"; int cn = 0;
      if (!fi.pend.empty()) {cn = fi.pend.front(); mode = fi.modes.front(); fi.pend.erase(fi.pend.begin()); fi.modes.erase(fi.modes.begin());}
      W->Log("Create", _id, IsAttachedToServer(), IsFullyAttachedToServer(), 0, (int) GetSessions().GetNumItems(), cn);
      if ((mode == "null")||(W->nextId > W->N)) return AbstractReflectSessionRef();
      W->acceptCn = cn;
      return AbstractReflectSessionRef(new LSession(W->nextId++, mode == "ok", "B", false));
   }
private:
   int _id;
};

World :: World(int n) : srv(new ReflectServer), N(n), nextId(1), nextCn(1), serverGone(false), upPort(0), downPort(0), holePort(0), pendingTcp(0), acceptCn(0), nextFd(300), clockOfs(0), calls(0)
{
   srv->SetDoLogging(false); ev = J::Arr();
   SetPerProcessRunTime64Offset(0);
}
World :: ~World() {}

void World :: Callback(LSession * p, const char * cb, int x)
{
   SessInfo & si = ss[p->Id()];
   const std::string c = cb;
   if (c == "Att") si.att++;
   if ((si.detReturned > 0)&&(c != "Gw")&&(c != "Io")&&(c != "Sock")) {si.after++; si.afterWhat.push_back(c);}
   if (c == "Det") si.det++;
   Log(cb, p->Id(), p->IsAttachedToServer() ? 1 : 0, p->IsFullyAttachedToServer() ? 1 : 0, p->IsConnected() ? 1 : 0, p->NumSessions(), x);
}

void World :: Fire(int s, const char * cb)
{
   if ((arm.on)&&(arm.s == s)&&(arm.cb == cb)) {arm.on = false; LSession * self = Live(s); if (self) Do(self, arm.act, arm.t);}
}

// the scripted actions: a session (self; NULL = the driver, between two calls of the event loop) does something to session t (0 = nobody)
void World :: Do(LSession * self, const std::string & act, int t)
{
   LSession * x = Live(t);
   const bool xAtt = ((x)&&(x->IsAttachedToServer()));
   if (act == "End")  {if (xAtt) x->EndSession();}
   else if (act == "Disc") {if (xAtt) (void) x->DisconnectSession();}
   else if (act == "Reco") {if (xAtt) (void) x->Reconnect();}
   else if ((act == "Repl")||(act == "ReplF"))
   {
      if ((xAtt)&&(nextId <= N)) {AbstractReflectSessionRef r(new LSession(nextId++, act == "Repl", "B", false)); (void) x->ReplaceSession(r);}
   }
   else if ((act == "Add")||(act == "AddF"))
   {
      if ((nextId <= N)&&((self == NULL)||(self->IsAttachedToServer())))
      {
         AbstractReflectSessionRef r(new LSession(nextId++, act == "Add", "B", false));
         if (self) (void) self->XAdd(r); else (void) srv->AddNewSession(r);
      }
   }
   else if (act == "Quit") {if (self == NULL) srv->EndServer(); else if (self->IsAttachedToServer()) self->XQuit();}
   else if (act == "Ard1") {if (x) x->SetAutoReconnectDelay(RECONNECT_DELAY);}
   else if (act == "Ard0") {if (x) x->SetAutoReconnectDelay(MUSCLE_TIME_NEVER);}
}

ConstSocketRef LSession :: CreateDefaultSocket()
{
   W->Callback(this, "Sock", _dsock ? 1 : 0);
   if (!_dsock) return ConstSocketRef();
   ConstSocketRef a, b; if (CreateConnectedSocketPair(a, b, false).IsError()) {fprintf(stderr, "socketpair failed\n"); exit(10);}
   a = Uniq(a);
   Conn & c = W->cs[W->nextCn]; c.cn = W->nextCn++; c.peer = b; c.havePeer = true; c.srvFd = a.GetFileDescriptor(); c.awaitingIo = true; W->fd2cn[c.srvFd] = c.cn;
   return a;
}

DataIORef LSession :: CreateDataIO(const ConstSocketRef & s0)
{
   W->Callback(this, "Io", 0);
   if (s0.GetFileDescriptor() < 0) return AbstractReflectSession::CreateDataIO(s0);
   std::map<int, int>::iterator it = W->fd2cn.find(s0.GetFileDescriptor());
   if ((it != W->fd2cn.end())&&(W->cs[it->second].srvFd == s0.GetFileDescriptor())&&(W->cs[it->second].awaitingIo))
   {
      W->cs[it->second].awaitingIo = false;    // a socket pair the harness made (AddSock, CreateDefaultSocket): already has its unique number
      return AbstractReflectSession::CreateDataIO(s0);
   }
   // a socket the library made or accepted
   struct sockaddr_storage sa; socklen_t sl = sizeof(sa); memset(&sa, 0, sizeof(sa));
   const bool isUnix = ((getsockname(s0.GetFileDescriptor(), (struct sockaddr *) &sa, &sl) == 0)&&(sa.ss_family == AF_UNIX));
   const uint16 localPort = isUnix ? 0 : GetSocketBindAddress(s0).GetPort();
   const ConstSocketRef s = Uniq(s0);
   const int fd = s.GetFileDescriptor();
   if (W->acceptCn > 0) {Conn & c = W->cs[W->acceptCn]; c.srvFd = fd; W->fd2cn[fd] = c.cn; W->acceptCn = 0;}   // the connection a peer made to the factory's port
   else
   {
      // an outgoing TCP connection (the harness's listener will accept its other end) or the broken stand-in socket pair
      Conn & c = W->cs[W->nextCn]; c.cn = W->nextCn++; c.srvFd = fd; W->fd2cn[fd] = c.cn;
      if (isUnix) c.fake = true;
      else {c.tcp = true; c.localPort = localPort; if (GetAsyncConnectDestination().GetPort() == W->upPort) {c.expectPeer = true; W->pendingTcp++;}}   // only a connection to the listener ever arrives
   }
   return AbstractReflectSession::CreateDataIO(s);
}

// accepts, on the harness's listener, the outgoing connections the server has started, and hands each to the Conn it belongs to (matched by port)
void World :: AcceptPending()
{
   if (upSock() == NULL) return;
   const double t0 = Now();
   while (pendingTcp > 0)
   {
      ConstSocketRef a = Accept(upSock);
      if (a() == NULL)
      {
         // not there (yet): a connection to the refusing port never arrives; one to the listener arrives within microseconds
         if (Now()-t0 > 2.0) {drift.push_back("harness: an outgoing connection did not arrive at the listener within 2 s"); pendingTcp = 0; break;}
         struct pollfd p; p.fd = upSock.GetFileDescriptor(); p.events = POLLIN; p.revents = 0; (void) poll(&p, 1, 5);
         continue;
      }
      (void) SetSocketBlockingEnabled(a, false);
      struct sockaddr_storage sa; socklen_t sl = sizeof(sa); memset(&sa, 0, sizeof(sa)); uint16 port = 0;
      if (getpeername(a.GetFileDescriptor(), (struct sockaddr *) &sa, &sl) == 0) port = (sa.ss_family == AF_INET6) ? ntohs(((struct sockaddr_in6 *) &sa)->sin6_port) : ntohs(((struct sockaddr_in *) &sa)->sin_port);
      for (std::map<int, Conn>::reverse_iterator it = cs.rbegin(); it != cs.rend(); ++it)
         if ((it->second.expectPeer)&&(!it->second.havePeer)&&(it->second.localPort == port)) {it->second.peer = a; it->second.havePeer = true; pendingTcp--; break;}
   }
}

// 1 = the server has closed its end (the harness's end reads end-of-file / reset), 0 = open, -1 = cannot tell (the harness has no end of it, or has closed it)
int World :: EofState(Conn & c)
{
   if ((!c.havePeer)||(c.peerClosed)||(c.peer() == NULL)) return -1;
   char b[64];
   const ssize_t r = recv(c.peer.GetFileDescriptor(), b, sizeof(b), MSG_DONTWAIT|MSG_PEEK);
   if (r == 0) return 1;
   if (r < 0) return ((errno == EAGAIN)||(errno == EWOULDBLOCK)||(errno == EINTR)) ? 0 : 1;
   return 0;
}

J World :: Snapshot(bool afterPump, uint64 nextPulse)
{
   J o = J::Obj();
   J tbl = J::Arr(); std::set<int> inTbl;
   if (!serverGone)
   {
      for (ConstHashtableIterator<const String *, AbstractReflectSessionRef> it(srv->GetSessions()); it.HasData(); it++)
      {
         const LSession * p = dynamic_cast<const LSession *>(it.GetValue()());
         tbl.push(J::Int(p ? p->Id() : -1)); if (p) inTbl.insert(p->Id());
      }
      // "these two tables should always have the same contents" (ReflectServer.h)
      if (srv->GetSessionsByIDNumber().GetNumItems() != srv->GetSessions().GetNumItems()) drift.push_back("GetSessionsByIDNumber() has "+Itoa(srv->GetSessionsByIDNumber().GetNumItems())+" entries, GetSessions() has "+Itoa(srv->GetSessions().GetNumItems()));
      for (ConstHashtableIterator<uint32, AbstractReflectSessionRef> it(srv->GetSessionsByIDNumber()); it.HasData(); it++)
      {
         const LSession * p = dynamic_cast<const LSession *>(it.GetValue()());
         if ((p == NULL)||(inTbl.count(p->Id()) == 0)||(p->GetSessionID() != it.GetKey())) drift.push_back("GetSessionsByIDNumber() and GetSessions() disagree");
      }
   }
   o.set("tbl", tbl);
   J sa = J::Arr();
   for (int id=1; id<=N; id++)
   {
      J r = J::Arr();
      LSession * p = Live(id);
      if (p)
      {
         const int fd = p->GetSessionReadSelectSocket().GetFileDescriptor();
         int cn = 0; if (fd >= 0) {std::map<int, int>::iterator it = fd2cn.find(fd); if (it != fd2cn.end()) cn = it->second;}
         r.push(J::Int(p->IsAttachedToServer() ? 1 : 0)).push(J::Int(p->IsFullyAttachedToServer() ? 1 : 0)).push(J::Int(p->IsConnected() ? 1 : 0)).push(J::Int(p->IsConnectingAsync() ? 1 : 0))
          .push(J::Int(p->WasConnected() ? 1 : 0)).push(J::Int(p->GetGateway()() ? 1 : 0)).push(J::Int(cn)).push(J::Int((p->GetAutoReconnectDelay() != MUSCLE_TIME_NEVER) ? 1 : 0));
         // IsAttachedToServer() and membership of GetSessions() must agree between two calls
         if ((!serverGone)&&(p->IsAttachedToServer() != (inTbl.count(id) > 0))) drift.push_back("session "+Itoa(id)+": IsAttachedToServer() disagrees with GetSessions()");
      }
      sa.push(r);
   }
   o.set("ss", sa);
   J ce = J::Arr();
   for (int c=1; c<nextCn; c++) ce.push(J::Int(EofState(cs[c])));
   o.set("ce", ce);
   o.set("np", J::Int(afterPump ? ((nextPulse != MUSCLE_TIME_NEVER) ? 1 : 0) : -1));
   return o;
}

// ---------------------------------------------------------------------------------------------------------- executing one driver step
static MessageRef ActionMessage(const std::string & act, int t) {MessageRef m = GetMessageFromPool(1); m()->AddString("a", act.c_str()); m()->AddInt32("t", t); return m;}
static std::string Wire(const Message & m)
{
   const uint32 n = m.FlattenedSize(); std::string f(n, '\0'); m.FlattenToBytes((uint8 *) &f[0], n);
   std::string b(8, '\0'); const uint32 ln = B_HOST_TO_LENDIAN_INT32((uint32) f.size()); const uint32 e = B_HOST_TO_LENDIAN_INT32((uint32) MUSCLE_MESSAGE_ENCODING_DEFAULT); memcpy(&b[0], &ln, 4); memcpy(&b[4], &e, 4);
   return b+f;
}
static void EnsureTargets()
{
   if (W->upSock() == NULL)
   {
      W->upSock = CreateAcceptingSocket(0, 64, &W->upPort, localhostIP); if (W->upSock() == NULL) {fprintf(stderr, "cannot listen\n"); exit(10);}
      (void) SetSocketBlockingEnabled(W->upSock, false);
      // "down": a port that is bound (nobody else can take it) but not listening: a connect to it is refused
      const int fd = socket(AF_INET6, SOCK_STREAM, 0); struct sockaddr_in6 sa; memset(&sa, 0, sizeof(sa)); sa.sin6_family = AF_INET6; sa.sin6_addr = in6addr_loopback;
      if ((fd < 0)||(bind(fd, (struct sockaddr *) &sa, sizeof(sa)) != 0)) {fprintf(stderr, "cannot bind\n"); exit(10);}
      socklen_t sl = sizeof(sa); (void) getsockname(fd, (struct sockaddr *) &sa, &sl); W->downPort = ntohs(sa.sin6_port);
      W->downSock = GetConstSocketRefFromPool(fd);
   }
}
// "hole" (directed case only): a listener whose accept queue is full: a connect to it stays in progress (the SYN is dropped and retransmitted for minutes)
static void EnsureHole()
{
   if (W->holeSock()) return;
   const int fd = socket(AF_INET6, SOCK_STREAM, 0); struct sockaddr_in6 sa; memset(&sa, 0, sizeof(sa)); sa.sin6_family = AF_INET6; sa.sin6_addr = in6addr_loopback;
   if ((fd < 0)||(bind(fd, (struct sockaddr *) &sa, sizeof(sa)) != 0)||(listen(fd, 0) != 0)) {fprintf(stderr, "cannot make the hole\n"); exit(10);}
   socklen_t sl = sizeof(sa); (void) getsockname(fd, (struct sockaddr *) &sa, &sl); W->holePort = ntohs(sa.sin6_port); W->holeSock = GetConstSocketRefFromPool(fd);
   for (int i=0; i<4; i++) {bool rdy = false; ConstSocketRef c = ConnectAsync(IPAddressAndPort(localhostIP, W->holePort), rdy); W->holeFill.push_back(c);}
   usleep(20000);
}
static IPAddressAndPort Dest(const std::string & d) {EnsureTargets(); if (d == "hole") {EnsureHole(); return IPAddressAndPort(localhostIP, W->holePort);} return IPAddressAndPort(localhostIP, (d == "up") ? W->upPort : W->downPort);}

// executes the driver step st; returns {"r":result,"ev":[callbacks],"snap":{...}}
static J Exec(const J & st)
{
   const std::string a = st["a"].str();
   W->ev = J::Arr(); W->calls++;
   int r = 0; bool pumped = false; uint64 nextPulse = MUSCLE_TIME_NEVER;
   char stage[400]; snprintf(stage, sizeof(stage), "executing step %s of case %ld", mj::ToString(st).substr(0, 300).c_str(), g_cases); SetStage(stage);
   WatchdogOn();
   if ((a == "AddSock")||(a == "AddBare")||(a == "AddConn")||(a == "AddDorm"))
   {
      const int id = (int) st["s"].i();
      if (id != W->nextId) W->drift.push_back("harness: session id "+Itoa(id)+" requested, next is "+Itoa(W->nextId));
      W->nextId = id+1;
      AbstractReflectSessionRef ref(new LSession(id, st["ok"].i() != 0, st["ccc"].str(), st["ds"].i() != 0));
      status_t ret;
      if (a == "AddSock")
      {
         ConstSocketRef x, y; if (CreateConnectedSocketPair(x, y, false).IsError()) {fprintf(stderr, "socketpair failed\n"); exit(10);}
         x = Uniq(x);
         Conn & c = W->cs[W->nextCn]; c.cn = W->nextCn++; c.peer = y; c.havePeer = true; c.srvFd = x.GetFileDescriptor(); c.awaitingIo = true; W->fd2cn[c.srvFd] = c.cn;
         ret = W->srv->AddNewSession(ref, x);
      }
      else if (a == "AddBare") ret = W->srv->AddNewSession(ref);
      else
      {
         const uint64 ard = (st["ard"].i() != 0) ? RECONNECT_DELAY : MUSCLE_TIME_NEVER;
         ret = (a == "AddConn") ? W->srv->AddNewConnectSession(ref, Dest(st["dest"].str()), ard) : W->srv->AddNewDormantConnectSession(ref, Dest(st["dest"].str()), ard);
      }
      r = ret.IsOK() ? 1 : 0;
      ref.Reset();
   }
   else if (a == "Ext") W->Do(NULL, st["op"].str(), (int) st["t"].i());
   else if (a == "Send")
   {
      Conn & c = W->cs[(int) st["c"].i()];
      if ((c.havePeer)&&(!c.peerClosed)) {const std::string w = Wire(*ActionMessage(st["act"].str(), (int) st["t"].i())()); const ssize_t n = send(c.peer.GetFileDescriptor(), w.data(), w.size(), MSG_NOSIGNAL|MSG_DONTWAIT); r = (n == (ssize_t) w.size()) ? 1 : 0;}
   }
   else if (a == "Close") {Conn & c = W->cs[(int) st["c"].i()]; if (c.havePeer) {c.peer.Reset(); c.peerClosed = true; r = 1;}}
   else if (a == "PutFac")
   {
      const int f = (int) st["f"].i(); ReflectSessionFactoryRef fr(new LFactory(f)); uint16 port = 0;
      r = W->srv->PutAcceptFactory(0, fr, localhostIP, &port).IsOK() ? 1 : 0; W->fs[f].port = port;
   }
   else if (a == "RemFac") {const int f = (int) st["f"].i(); r = W->srv->RemoveAcceptFactory(W->fs[f].port, localhostIP).IsOK() ? 1 : 0;}
   else if (a == "PConn")
   {
      const int f = (int) st["f"].i(); FacInfo & fi = W->fs[f];
      ConstSocketRef s = Connect(IPAddressAndPort(localhostIP, fi.port), NULL, NULL, true, SecondsToMicros(5));
      if (s()) {(void) SetSocketBlockingEnabled(s, false); Conn & c = W->cs[W->nextCn]; c.cn = W->nextCn++; c.peer = s; c.havePeer = true; c.tcp = true; fi.pend.push_back(c.cn); fi.modes.push_back(st["m"].str()); r = 1;}
   }
   else if (a == "Arm") {W->arm.on = true; W->arm.s = (int) st["s"].i(); W->arm.cb = st["cb"].str(); W->arm.act = st["act"].str(); W->arm.t = (int) st["t"].i();}
   else if (a == "Clock") {W->clockOfs += (int64) (2*RECONNECT_DELAY); SetPerProcessRunTime64Offset(W->clockOfs);}
   else if (a == "Wp") {LSession * p = W->Live((int) st["s"].i()); if (p) p->WantPulse();}
   else if (a == "Pump") {r = W->srv->ServerProcessLoop(0, &nextPulse).IsOK() ? 1 : 0; pumped = true;}
   else if (a == "Cleanup")
   {
      W->srv->Cleanup();
      // the server goes away with the harness's last reference: anything it still holds goes with it
      delete W->srv; W->srv = NULL; W->serverGone = true;
   }
   else {fprintf(stderr, "unknown step %s\n", a.c_str()); exit(12);}
   WatchdogOff();
   W->AcceptPending();
   J out = J::Obj(); out.set("r", J::Int(r)); out.set("ev", W->ev); out.set("snap", W->Snapshot(pumped, nextPulse));
   return out;
}

// the property-level clauses, judged on the real code alone (no specification involved)
static void Monitor(bool atEnd)
{
   for (std::map<int, SessInfo>::iterator it = W->ss.begin(); it != W->ss.end(); ++it)
   {
      SessInfo & si = it->second; const std::string id = Itoa(it->first);
      if (si.det > 1) {W->viol.push_back("session "+id+": AboutToDetachFromServer() called "+Itoa(si.det)+" times"); si.det = 1;}
      if (si.after > 0) {W->viol.push_back("session "+id+" received "+si.afterWhat[0]+"() after its AboutToDetachFromServer() had returned ("+Itoa(si.after)+" callbacks)"); si.after = 0;}
      if (si.goneWhileAttached > 0) {W->viol.push_back("session "+id+" was destroyed while still attached to the server"); si.goneWhileAttached = 0;}
      if (si.gone > 1) {W->viol.push_back("session "+id+" destroyed twice"); si.gone = 1;}
      if (atEnd)
      {
         if ((si.attOk > 0)&&(si.det == 0)) W->viol.push_back("session "+id+" was attached but AboutToDetachFromServer() was never called although the server was cleaned up and destroyed");
         if (si.alive) W->viol.push_back("session "+id+" was never destroyed although the server was cleaned up and destroyed (leak)");
      }
   }
   for (std::map<int, FacInfo>::iterator it = W->fs.begin(); it != W->fs.end(); ++it)
   {
      FacInfo & fi = it->second; const std::string id = Itoa(it->first);
      if (fi.det > fi.att) {W->viol.push_back("factory "+id+": AboutToDetachFromServer() called more often than AttachedToServer()"); fi.det = fi.att;}
      if (atEnd)
      {
         if (fi.det < fi.att) W->viol.push_back("factory "+id+" was attached but never detached although the server was cleaned up and destroyed");
         if (fi.alive) W->viol.push_back("factory "+id+" was never destroyed although the server was cleaned up and destroyed (leak)");
      }
   }
}

static bool IsInner(const std::string & a) {return (a.size() > 1)&&((a[0] == 'i')||(a[0] == 'c'))&&(a[1] >= 'A')&&(a[1] <= 'Z');}

static bool EvEq(const J & a, const J & b)
{
   static const char * f[] = {"s", "a", "f", "k", "n", "x"};
   if (a["c"].str() != b["c"].str()) return false;
   for (int i=0; i<6; i++) if (a[f[i]].i() != b[f[i]].i()) return false;
   return true;
}
static std::string DiffEvents(const J & want, const J & got)
{
   const size_t n = std::min(want.size(), got.size());
   for (size_t i=0; i<n; i++) if (!EvEq(want[i], got[i])) return "callback #"+Itoa((long) i+1)+": specification "+mj::ToString(want[i])+", code "+mj::ToString(got[i]);
   if (want.size() != got.size()) return "specification expects "+Itoa((long) want.size())+" callbacks, code made "+Itoa((long) got.size())+"; first extra/missing: "+mj::ToString((want.size() > got.size()) ? want[n] : got[n]);
   return "";
}
static std::string DiffSnap(const J & want, const J & got)
{
   if (want["tbl"] != got["tbl"]) return "GetSessions(): specification "+mj::ToString(want["tbl"])+", code "+mj::ToString(got["tbl"]);
   if (want["ss"] != got["ss"]) return "session flags [attached, fully attached, connected, connecting, was connected, has gateway, connection, auto-reconnect]: specification "+mj::ToString(want["ss"])+", code "+mj::ToString(got["ss"]);
   const J & wc = want["ce"]; const J & gc = got["ce"];
   for (size_t i=0; i<std::max(wc.size(), gc.size()); i++)
   {
      const int64_t w = (i < wc.size()) ? wc[i].i() : -1, g = (i < gc.size()) ? gc[i].i() : -1;
      if ((w >= 0)&&(g >= 0)&&(w != g)) return "connection "+Itoa((long) i+1)+" closed by the server: specification "+Itoa((long) w)+", code "+Itoa((long) g);
   }
   if ((want["np"].i() >= 0)&&(got["np"].i() >= 0)&&(want["np"].i() != got["np"].i())) return "a Pulse() is scheduled: specification "+Itoa((long) want["np"].i())+", code "+Itoa((long) got["np"].i());
   return "";
}

static void FinishWorld(bool cleaned)
{
   // whatever the behaviour did, the server is cleaned up and destroyed at the end, and then everything must be gone
   if (!cleaned) {J c = J::Obj(); c.set("a", J::Str("Cleanup")); (void) Exec(c);}
   Monitor(true);
}

struct CaseStream {
   FILE * f; explicit CaseStream(const char * path) : f(fopen(path, "r")) {} ~CaseStream() {if (f) fclose(f);}
   bool Ok() const {return f != NULL;}
   bool Next(J & v) {std::string line; while (mj::ReadLine(f, line)) {if (line.empty()) continue; if (!mj::Parse(line, v)) {fprintf(stderr, "bad JSON line\n"); exit(12);} return true;} return false;}
};

static int Replay(int argc, char ** argv)
{
   if (argc < 4) return 2;
   CaseStream in(argv[2]); if ((!in.Ok())||(!OpenReport(argv[3]))) return 2;
   long behaviours = 0, followed = 0, drifted = 0, steps = 0, calls = 0, callbacks = 0, sessions = 0;
   J b;
   while (in.Next(b))
   {
      g_cases++; behaviours++;
      SetCur(mj::ToString(b));
      World w((int) b["N"].i()); W = &w;
      const J & st = b["steps"]; bool cleaned = false; std::string firstDrift; size_t i = 0;
      while ((i < st.size())&&(firstDrift.empty())&&(w.viol.empty()))
      {
         const J & s = st[i]; const std::string a = s["a"].str();
         if (IsInner(a)) {firstDrift = "harness: behaviour has inner step "+a+" without a call"; break;}
         // the callbacks the specification expects during this call: the driver step's own and those of the inner steps that follow it
         J want = J::Arr(); for (size_t k=0; k<s["ev"].size(); k++) want.push(s["ev"][k]);
         size_t j = i+1; while ((j < st.size())&&(IsInner(st[j]["a"].str()))) {for (size_t k=0; k<st[j]["ev"].size(); k++) want.push(st[j]["ev"][k]); j++;}
         const J & lastOfCall = st[j-1];
         const bool complete = (lastOfCall["pc"].str() == "idle")||(lastOfCall["pc"].str() == "done");   // the path may end in the middle of a call
         const J got = Exec(s); steps += (long) (j-i); calls++;
         callbacks += (long) got["ev"].size();
         if (a == "Cleanup") cleaned = true;
         Monitor(false);
         std::string d;
         if (complete) d = DiffEvents(want, got["ev"]);
         else {J pre = J::Arr(); for (size_t k=0; (k<want.size())&&(k<got["ev"].size()); k++) pre.push(got["ev"][k]); if (got["ev"].size() < want.size()) pre = got["ev"]; d = DiffEvents(want, pre);}
         if ((d.empty())&&(complete)&&(s["r"].i() != got["r"].i())&&(a != "Send")&&(a != "Close")&&(a != "PConn")) d = "result of the call: specification "+Itoa((long) s["r"].i())+", code "+Itoa((long) got["r"].i());
         if ((d.empty())&&(complete)) d = DiffSnap(lastOfCall["snap"], got["snap"]);
         if ((d.empty())&&(!w.drift.empty())) d = w.drift[0];
         if (!d.empty()) firstDrift = "step "+Itoa((long) i+1)+" ("+a+"): "+d;
         i = j;
      }
      FinishWorld(cleaned);
      sessions += (long) w.ss.size();
      if (!w.viol.empty()) {g_violCases++; J r = J::Obj(); r.set("behaviour", b["id"]).set("violations", StrList(w.viol)).set("steps", st); RepJ(r);}
      else if (!firstDrift.empty()) {drifted++; J r = J::Obj(); std::vector<std::string> dv; dv.push_back(firstDrift); r.set("behaviour", b["id"]).set("drift", StrList(dv)).set("steps", st); RepJ(r);}
      else followed++;
      W = NULL;
      if (g_violCases >= 25) break;
   }
   J s = J::Obj(); s.set("summary", J::Bool(true)).set("behaviours", J::Int(behaviours)).set("followed", J::Int(followed)).set("drifted", J::Int(drifted)).set("violating_cases", J::Int(g_violCases))
                  .set("steps", J::Int(steps)).set("calls", J::Int(calls)).set("callbacks", J::Int(callbacks)).set("sessions", J::Int(sessions));
   RepJ(s);
   return 0;
}

// ---------------------------------------------------------------------------------------------------------- random histories (code -> spec)
struct Rng {uint64 s; explicit Rng(uint64 seed) : s(seed*0x9E3779B97F4A7C15ULL+0x1234567) {} uint32 Next() {s ^= s << 13; s ^= s >> 7; s ^= s << 17; return (uint32) (s >> 16);} int Below(int n) {return (n <= 0) ? 0 : (int) (Next()%(uint32) n);} bool Chance(int pct) {return Below(100) < pct;}};
static J Step(const char * a) {J s = J::Obj(); s.set("a", J::Str(a)); return s;}

static int Random(int argc, char ** argv)
{
   if (argc < 9) return 2;
   const long nh = atol(argv[2]); const int ns = atoi(argv[3]); const uint64 seed = (uint64) atoll(argv[4]); const int N = atoi(argv[5]);
   if (!OpenReport(argv[6])) return 2;
   FILE * tf = fopen(argv[7], "w"); if (!tf) return 2;
   const std::string mode = argv[8];        // how an outgoing connection to the listener completes on this machine: sync | async | none (no TCP steps)
   static const char * acts[] = {"End", "Disc", "Reco", "Repl", "ReplF", "Add", "AddF", "Quit", "Ard1", "Ard0"};
   static const char * cbs[] = {"Att", "Det", "CCC", "ACC", "Pulse"};
   static const char * cccs[] = {"B", "T", "F"};
   long histories = 0, clean = 0, steps = 0, callbacks = 0, lines = 0, sessions = 0, nested = 0;
   for (long h=0; h<nh; h++)
   {
      g_cases++; histories++;
      Rng rng(seed*1000003ULL+(uint64) h);
      World w(N); W = &w;
      J hist = J::Arr(); bool cleaned = false; int nfac = 0; const int maxFac = 1;
      std::vector<J> rows;
      for (int k=0; (k<ns)&&(!cleaned)&&(w.viol.empty()); k++)
      {
         // the sessions and connections that exist right now
         std::vector<int> live, att; for (int id=1; id<=N; id++) {LSession * p = w.Live(id); if (p) {live.push_back(id); if (p->IsAttachedToServer()) att.push_back(id);}}
         std::vector<int> open; for (int c=1; c<w.nextCn; c++) if ((w.cs[c].havePeer)&&(!w.cs[c].peerClosed)&&(w.EofState(w.cs[c]) == 0)) open.push_back(c);
         J st; bool have = false;
         if ((w.arm.on)&&(rng.Chance(40)))
         {
            LSession * ap = w.Live(w.arm.s);
            if ((ap)&&(ap->IsAttachedToServer()))
            {
               const int afd = ap->GetSessionReadSelectSocket().GetFileDescriptor(); int acn = 0;
               if (afd >= 0) {std::map<int, int>::iterator it = w.fd2cn.find(afd); if (it != w.fd2cn.end()) acn = it->second;}
               if (w.arm.cb == "Pulse") {st = Step("Wp"); st.set("s", J::Int(w.arm.s)); have = true;}
               else if (w.arm.cb == "Det") {st = Step("Ext"); st.set("op", J::Str("End")).set("t", J::Int(w.arm.s)); have = true;}
               else if ((w.arm.cb == "CCC")&&(acn > 0)&&(w.cs[acn].havePeer)&&(!w.cs[acn].peerClosed)) {st = Step("Close"); st.set("c", J::Int(acn)); have = true;}
               else if (w.arm.cb == "CCC") {st = Step("Ext"); st.set("op", J::Str("Disc")).set("t", J::Int(w.arm.s)); have = true;}
            }
         }
         for (int tries=0; (tries<20)&&(!have); tries++)
         {
            const int pick = rng.Below(100);
            if (pick < 16)
            {
               if (w.nextId > N) continue;
               const int kind = rng.Below((mode == "none") ? 2 : 4);
               st = Step(kind == 0 ? "AddSock" : (kind == 1 ? "AddBare" : (kind == 2 ? "AddConn" : "AddDorm")));
               st.set("s", J::Int(w.nextId)).set("ok", J::Int(rng.Chance(85) ? 1 : 0)).set("ccc", J::Str(cccs[rng.Below(3)])).set("ds", J::Int(rng.Chance(30) ? 1 : 0));
               if (kind >= 2) st.set("dest", J::Str(rng.Chance(65) ? "up" : "down")).set("ard", J::Int(rng.Chance(50) ? 1 : 0));
               have = true;
            }
            else if (pick < 34)
            {
               if (open.empty()) continue;
               const int tsel = rng.Below(N+1);
               st = Step("Send"); st.set("c", J::Int(open[rng.Below((int) open.size())])).set("act", J::Str(rng.Chance(25) ? "None" : acts[rng.Below(10)])).set("t", J::Int(tsel)); have = true;
            }
            else if (pick < 42) {if (open.empty()) continue; st = Step("Close"); st.set("c", J::Int(open[rng.Below((int) open.size())])); have = true;}
            else if (pick < 54) {if (att.empty()) continue; st = Step("Ext"); st.set("op", J::Str(acts[rng.Below(10)])).set("t", J::Int(att[rng.Below((int) att.size())])); have = true;}
            else if (pick < 62)
            {
               if (w.arm.on) continue;
               // mostly an armed action that has a chance to run: AttachedToServer() of the session that will be added next, another callback of an attached session
               int as = 1+rng.Below(N); const char * cb = cbs[rng.Below(5)];
               if (rng.Chance(75))
               {
                  if ((w.nextId <= N)&&((att.empty())||(rng.Chance(35)))) {as = w.nextId; cb = "Att";}
                  else if (!att.empty()) {as = att[rng.Below((int) att.size())]; cb = cbs[1+rng.Below(4)];}
               }
               int at = rng.Below(N+1); if ((rng.Chance(50))&&(!att.empty())) at = rng.Chance(50) ? as : att[rng.Below((int) att.size())];
               st = Step("Arm"); st.set("s", J::Int(as)).set("cb", J::Str(cb)).set("act", J::Str(acts[rng.Below(10)])).set("t", J::Int(at)); have = true;
            }
            else if (pick < 66) {st = Step("Clock"); have = true;}
            else if (pick < 70) {if (att.empty()) continue; st = Step("Wp"); st.set("s", J::Int(att[rng.Below((int) att.size())])); have = true;}
            else if (pick < 74)
            {
               if (mode == "none") continue;
               if ((nfac < maxFac)&&(w.fs.empty())) {st = Step("PutFac"); st.set("f", J::Int(1)); nfac++; have = true;}
               else if ((!w.fs.empty())&&(w.fs[1].alive)&&(w.fs[1].det < w.fs[1].att)) {if (rng.Chance(80)) {st = Step("PConn"); st.set("f", J::Int(1)).set("m", J::Str(rng.Chance(60) ? "ok" : (rng.Chance(50) ? "null" : "bad")));} else {st = Step("RemFac"); st.set("f", J::Int(1));} have = true;}
            }
            else if (pick < 98) {st = Step("Pump"); have = true;}
            else {st = Step("Cleanup"); have = true;}
         }
         if (!have) st = Step("Pump");
         const std::string a = st["a"].str();
         const bool armedBefore = w.arm.on;
         hist.push(st); SetCur(mj::ToString(hist));        // (before the call: a watchdog / crash report must name the step that did it)
         const J got = Exec(st); steps++; callbacks += (long) got["ev"].size();
         if ((armedBefore)&&(!w.arm.on)) nested++;
         if (a == "Cleanup") cleaned = true;
         Monitor(false);
         J row = st; row.set("r", got["r"]).set("ev", got["ev"]).set("snap", got["snap"]).set("h", J::Int(h)).set("k", J::Int(k));
         rows.push_back(row);
      }
      FinishWorld(cleaned);
      if (!cleaned) {J row = Step("Cleanup"); row.set("r", J::Int(0)).set("ev", w.ev).set("snap", w.Snapshot(false, MUSCLE_TIME_NEVER)).set("h", J::Int(h)).set("k", J::Int(ns)); rows.push_back(row);}
      sessions += (long) w.ss.size();
      if (!w.viol.empty()) {g_violCases++; J r = J::Obj(); r.set("history", J::Int(h)).set("violations", StrList(w.viol)).set("steps", hist); RepJ(r);}
      else
      {
         clean++;
         if (!w.drift.empty()) {J r = J::Obj(); r.set("history", J::Int(h)).set("drift", StrList(w.drift)).set("steps", hist); RepJ(r);}
         J reset = J::Obj(); reset.set("a", J::Str("Reset")).set("N", J::Int(N)).set("h", J::Int(h));
         fprintf(tf, "%s\n", mj::ToString(reset).c_str()); lines++;
         for (size_t i=0; i<rows.size(); i++) {fprintf(tf, "%s\n", mj::ToString(rows[i]).c_str()); lines++;}
      }
      W = NULL;
      if (g_violCases >= 25) break;
   }
   fclose(tf);
   J s = J::Obj(); s.set("summary", J::Bool(true)).set("histories", J::Int(histories)).set("clean", J::Int(clean)).set("violating_cases", J::Int(g_violCases)).set("steps", J::Int(steps))
                  .set("callbacks", J::Int(callbacks)).set("trace_lines", J::Int(lines)).set("sessions", J::Int(sessions)).set("nested_actions_fired", J::Int(nested));
   RepJ(s);
   return 0;
}

// ---------------------------------------------------------------------------------------------------------- show (debugging aid)
static int Show(int argc, char ** argv)
{
   if (argc < 3) return 2;
   CaseStream in(argv[2]); if (!in.Ok()) return 2;
   g_repFd = 2;
   J b;
   while (in.Next(b))
   {
      World w((int) b["N"].i()); W = &w; bool cleaned = false;
      for (size_t i=0; i<b["steps"].size(); i++)
      {
         const J & s = b["steps"][i]; if (IsInner(s["a"].str())) continue;
         J q = J::Obj(); for (size_t k=0; k<s.o.size(); k++) if ((s.o[k].first != "ev")&&(s.o[k].first != "snap")&&(s.o[k].first != "pc")) q.set(s.o[k].first, s.o[k].second);
         const J got = Exec(s); if (s["a"].str() == "Cleanup") cleaned = true; Monitor(false);
         printf("%s\n   -> r=%lld ev=%s\n   snap=%s\n", mj::ToString(q).c_str(), (long long) got["r"].i(), mj::ToString(got["ev"]).c_str(), mj::ToString(got["snap"]).c_str());
      }
      FinishWorld(cleaned);
      printf("end: ev=%s viol=%s drift=%s\n\n", mj::ToString(w.ev).c_str(), mj::ToString(StrList(w.viol)).c_str(), mj::ToString(StrList(w.drift)).c_str());
      W = NULL;
   }
   return 0;
}

// ---------------------------------------------------------------------------------------------------------- directed case: descriptor-number reuse (informational)
// s1's asynchronous connect is refused; in the same iteration s2 (later in the table) calls Reconnect() from its Pulse() towards a listener whose accept queue is
// full (the connect stays in progress).  Documented (Reconnect()): "the connection result will be reported back later, either via a call to AsyncConnectCompleted()
// (if the connection succeeds) or a call to ClientConnectionClosed() (if the connection fails)".  With the kernel's numbering s2's new socket gets the number of s1's
// socket, closed a moment before, HandleEvents() takes the multiplexer's answer about THAT socket for s2's and reports the connect in progress as failed.
static int FdReuse()
{
   int counts[2] = {0, 0};
   for (int k=0; k<2; k++)
   {
      g_kernelNumbers = (k == 1);
      World w(3); W = &w;
      const char * steps[] = {"{\"a\":\"AddConn\",\"s\":1,\"ok\":1,\"ccc\":\"B\",\"ds\":0,\"dest\":\"down\",\"ard\":0}", "{\"a\":\"AddDorm\",\"s\":2,\"ok\":1,\"ccc\":\"F\",\"ds\":0,\"dest\":\"hole\",\"ard\":0}",
                              "{\"a\":\"Arm\",\"s\":2,\"cb\":\"Pulse\",\"act\":\"Reco\",\"t\":2}", "{\"a\":\"Wp\",\"s\":2}", "{\"a\":\"Pump\"}", "{\"a\":\"Pump\"}"};
      for (size_t i=0; i<6; i++) {J st; (void) mj::Parse(steps[i], st); const J got = Exec(st); for (size_t e=0; e<got["ev"].size(); e++) if ((got["ev"][e]["c"].str() == "CCC")&&(got["ev"][e]["s"].i() == 2)) counts[k]++;}
      FinishWorld(false); W = NULL;
   }
   g_kernelNumbers = false;
   printf("{\"ccc_of_the_reconnecting_session_with_unique_numbers\":%d,\"with_the_kernels_numbers\":%d}\n", counts[0], counts[1]);
   return 0;
}

// ---------------------------------------------------------------------------------------------------------- probe
static int Probe()
{
   // how does a non-blocking connect() to the loopback device complete here?
   World w(4); W = &w; EnsureTargets();
   std::string up = "?", down = "?";
   for (int i=0; i<2; i++)
   {
      bool ready = false; ConstSocketRef s = ConnectAsync(IPAddressAndPort(localhostIP, (i == 0) ? w.upPort : w.downPort), ready);
      std::string & o = (i == 0) ? up : down;
      o = (s() == NULL) ? "refused" : (ready ? "sync" : "async");
   }
   printf("{\"up\":\"%s\",\"down\":\"%s\"}\n", up.c_str(), down.c_str());
   delete w.srv; w.srv = NULL; W = NULL;
   return 0;
}

int main(int argc, char ** argv)
{
   CompleteSetupSystem css; SetConsoleLogLevel(MUSCLE_LOG_CRITICALERROR); setvbuf(stdout, NULL, _IONBF, 0);
   signal(SIGALRM, OnAlarm); signal(SIGPROF, OnAlarm); signal(SIGPIPE, SIG_IGN);
   if (getenv("LIFE_WATCHDOG")) g_watchdogSecs = (unsigned) atoi(getenv("LIFE_WATCHDOG"));
   SetStage("starting");
   if (getenv("LIFE_NO_UNIQ")) g_kernelNumbers = true;
   const std::string mode = (argc > 1) ? argv[1] : "";
   int rc = -1;
   if (mode == "probe")  rc = Probe();
   if (mode == "replay") rc = Replay(argc, argv);
   if (mode == "random") rc = Random(argc, argv);
   if (mode == "show")   rc = Show(argc, argv);
   if (mode == "fdreuse") {g_repFd = 2; rc = FdReuse();}
   if (rc >= 0) {fflush(NULL); return rc;}
   fprintf(stderr, "usage: life replay|random|probe ...\n"); return 2;
}
