/* C02 conformance harness for the C "mini" codec (MiniMessage.c + MiniMessageGateway.c), AddressSanitizer + UBSan build.
 * (MiniMessage.c and MicroMessage.c define the same global symbols: one program per codec; built by checks/c02.py with explicit gcc commands.)
 *
 *   mut_mini <cases.txt> <report.ndjson> <start index> <cursor file>
 *
 * cases.txt, one case per line:  <index> <enc> <verdict> <hex of the bytes | -> <hex of the valid base Message | ->
 *   enc = msg:   MMUnflattenMessage on an exact-size heap copy of the bytes, and the bytes framed (8-byte header) through MGDoInput
 *   enc = frame: the bytes are a frame stream for MGDoInput (all at once, byte at a time, boundary cuts)
 * Monitors: sanitizer report / signal (the process dies, the check reads the cursor file), watchdog (exit status 3), peak of live heap bytes
 * while MMUnflattenMessage parses a complete N-byte buffer <= 64*N + 64 KiB, verdict envelope ("A" must be accepted and re-flatten to the
 * same bytes, "R" must be rejected; "RB" and "E" are free: MiniMessage.c keeps no budget per node for sub-Messages, it checks every length
 * against the supplied buffer), accepted inputs re-flatten and re-parse to themselves, after a failure the same MMessage parses the valid
 * base encoding, every object is freed.
 */
#include <stdio.h>
#include <stdlib.h>
#include <string.h>
#include <signal.h>
#include <unistd.h>
#include <fcntl.h>
#include "MiniMessage.h"
#include "MiniMessageGateway.h"

static volatile int g_measure = 0;
static size_t g_cur = 0, g_peak = 0, g_cum = 0;
size_t __sanitizer_get_allocated_size(const volatile void *) __attribute__((weak));
void __sanitizer_malloc_hook(const volatile void * p, size_t n) {(void) p; if (g_measure) {g_cum += n; g_cur += n; if (g_cur > g_peak) g_peak = g_cur;}}
void __sanitizer_free_hook(const volatile void * p) {if ((g_measure)&&(p)&&(__sanitizer_get_allocated_size)) {const size_t n = __sanitizer_get_allocated_size(p); g_cur = (g_cur > n) ? (g_cur-n) : 0;}}

static FILE * g_rep = NULL; static int g_curfd = -1; static long long g_index = -1; static const char * g_target = ""; static char g_desc[128];
static unsigned g_viol = 0, g_lenient = 0; static unsigned long long g_runs = 0; static size_t g_worstPeak = 0, g_worstN = 0;
static void SetCursor(long long i) {char b[32]; int n; g_index = i; n = snprintf(b, sizeof(b), "%-20lld\n", i); if (g_curfd >= 0) (void) !pwrite(g_curfd, b, n, 0);}
static void Note(const char * kind, const char * what, const unsigned char * bytes, size_t n)
{
   size_t i; if (!strcmp(kind, "violations")) g_viol++;
   fprintf(g_rep, "{\"index\":%lld,\"case\":\"%s\",\"target\":\"%s\",\"%s\":[\"%s\"],\"bytes\":\"", g_index, g_desc, g_target, kind, what);
   for (i=0; (i<n)&&(i<2048); i++) fprintf(g_rep, "%02x", bytes[i]);
   fprintf(g_rep, "\"}\n"); fflush(g_rep);
}
static void OnAlarm(int s) {char b[300]; int n = snprintf(b, sizeof(b), "{\"index\":%lld,\"case\":\"%s\",\"target\":\"%s\",\"hang\":true}\n", g_index, g_desc, g_target); (void) s; (void) !write(fileno(g_rep), b, n); _exit(3);}
static int hexv(int c) {return (c <= '9') ? c-'0' : c-'a'+10;}
static unsigned char * UnHex(const char * h, size_t * n) {size_t L = (h[0] == '-') ? 0 : strlen(h)/2, i; unsigned char * b = (unsigned char *) malloc(L ? L : 1); for (i=0; i<L; i++) b[i] = (unsigned char)(hexv(h[2*i])*16+hexv(h[2*i+1])); *n = L; return b;}
static uint32 R32(const unsigned char * b) {return ((uint32) b[0]) | (((uint32) b[1])<<8) | (((uint32) b[2])<<16) | (((uint32) b[3])<<24);}

/* returns 1 iff accepted */
static int Parse(const char * v, const unsigned char * bytes, size_t n, const unsigned char * base, size_t bn, MMessage * reuse)
{
   unsigned char * x = (unsigned char *) malloc(n ? n : 1); c_status_t r; char t[300];
   if (n) memcpy(x, bytes, n);
   g_target = "MMUnflattenMessage"; g_runs++; alarm(40);
   g_cur = g_peak = g_cum = 0; g_measure = 1; r = MMUnflattenMessage(reuse, x, (uint32) n); g_measure = 0;
   if (g_peak > g_worstPeak) {g_worstPeak = g_peak; g_worstN = n;}
   if (g_peak > 64*n + 65536) {snprintf(t, sizeof(t), "MMUnflattenMessage: peak of %zu live heap bytes (%zu allocated in total) while parsing a complete %zu-byte buffer; budget 64*N+64KiB = %zu", g_peak, g_cum, n, 64*n+65536); Note("violations", t, bytes, n);}
   if (r == CB_NO_ERROR)
   {
      const uint32 fs = MMGetFlattenedSize(reuse); unsigned char * y = (unsigned char *) malloc(fs ? fs : 1); MMessage * z = MMAllocMessage(0);
      MMFlattenMessage(reuse, y);
      if (!strcmp(v, "R")) Note("violations", "accepted although the buffer does not contain what its words declare", bytes, n);
      else if (!strcmp(v, "RB")) g_lenient++;
      else if ((!strcmp(v, "A"))&&((fs != n)||(memcmp(y, bytes, n) != 0))) Note("violations", "a valid encoding was accepted but re-flattens to different bytes", bytes, n);
      if (MMUnflattenMessage(z, y, fs) != CB_NO_ERROR) Note("violations", "accepted, but its own re-flattening is rejected", bytes, n);
      else
      {
         const uint32 fs2 = MMGetFlattenedSize(z); unsigned char * y2 = (unsigned char *) malloc(fs2 ? fs2 : 1); MMFlattenMessage(z, y2);
         if ((fs2 != fs)||(memcmp(y, y2, fs) != 0)) Note("violations", "accepted, but re-flatten / re-parse is not a fixed point", bytes, n);
         if (!MMAreMessagesEqual(reuse, z)) Note("violations", "accepted, but the re-parsed MMessage compares unequal", bytes, n);
         free(y2);
      }
      MMFreeMessage(z); free(y);
   }
   else
   {
      if (!strcmp(v, "A")) Note("violations", "a valid encoding was rejected", bytes, n);
      if (bn > 0)
      {
         unsigned char * bx = (unsigned char *) malloc(bn); memcpy(bx, base, bn);
         if (MMUnflattenMessage(reuse, bx, (uint32) bn) != CB_NO_ERROR) Note("violations", "after a failed parse the same MMessage rejects a valid encoding", bytes, n);
         else {const uint32 fs = MMGetFlattenedSize(reuse); unsigned char * y = (unsigned char *) malloc(fs ? fs : 1); MMFlattenMessage(reuse, y); if ((fs != bn)||(memcmp(y, base, bn) != 0)) Note("violations", "after a failed parse the same MMessage parses a valid encoding to something else", bytes, n); free(y);}
         free(bx);
      }
   }
   {MMessage * h = MMAllocMessage(0); (void) MMUnflattenMessage(h, x, (uint32) n); MMFreeMessage(h);}
   alarm(0); free(x);
   return (r == CB_NO_ERROR);
}

typedef struct {const unsigned char * d; size_t n, pos; int mode; size_t cuts[8]; int ncuts;} Feed;
static size_t SegEnd(const Feed * f) {if (f->mode == 1) return f->pos+1; if (f->mode == 2) {int i; for (i=0; i<f->ncuts; i++) if (f->cuts[i] > f->pos) return f->cuts[i];} return f->n;}
static int32 Recv(uint8 * buf, uint32 numBytes, void * arg)     /* a short read ends the MGDoInput call: the next segment arrives with the next call */
{
   Feed * f = (Feed *) arg; size_t lim, c;
   if (f->pos >= f->n) return 0;
   lim = SegEnd(f); if (lim > f->n) lim = f->n;
   c = lim - f->pos; if (c > numBytes) c = numBytes;
   memcpy(buf, f->d+f->pos, c); f->pos += c;
   return (int32) c;
}
/* frame stream through MGDoInput; want/wn = the Message that must come out first (verdict A), nothing for R / I */
static void Gateway(const char * v, const unsigned char * s, size_t n, const unsigned char * want, size_t wn, int mode)
{
   MMessageGateway * gw = MGAllocMessageGateway(); Feed f; int got = 0, calls = 0, err = 0, firstOK = 0;
   const size_t c[] = {1, 7, 8, 9, 12, 20, (n > 1) ? n-1 : 0}; size_t i;
   memset(&f, 0, sizeof(f)); f.d = s; f.n = n; f.mode = mode;
   for (i=0; i<sizeof(c)/sizeof(c[0]); i++) if ((c[i] > 0)&&(c[i] < n)&&((f.ncuts == 0)||(c[i] > f.cuts[f.ncuts-1]))) f.cuts[f.ncuts++] = c[i];
   g_target = "MGDoInput"; g_runs++; alarm(40);
   while(calls++ < 100000)
   {
      MMessage * m = NULL; const int32 r = MGDoInput(gw, ~((uint32) 0), Recv, &f, &m);
      if (m)
      {
         if (got == 0) {const uint32 fs = MMGetFlattenedSize(m); unsigned char * y = (unsigned char *) malloc(fs ? fs : 1); MMFlattenMessage(m, y); firstOK = ((fs == wn)&&(memcmp(y, want, wn) == 0)); free(y);}
         got++; MMFreeMessage(m);
      }
      if (r < 0) {err = 1; break;}
      if ((r == 0)&&(f.pos >= f.n)&&(m == NULL)) break;
   }
   if ((!strcmp(v, "A"))&&((got == 0)||(!firstOK))) Note("violations", "MGDoInput: a valid stream was not handed over as the Message it encodes", s, n);
   if (((!strcmp(v, "R"))||(!strcmp(v, "I")))&&(got > 0)) Note("violations", "MGDoInput: a Message was handed over although the stream does not contain one", s, n);
   (void) err;
   MGFreeMessageGateway(gw);
   alarm(0);
}

int main(int argc, char ** argv)
{
   FILE * fc; char * line = NULL; size_t cap = 0; ssize_t len; long long start; unsigned long long n = 0; int stopped = 0; MMessage * reuse;
   if (argc < 5) {fprintf(stderr, "usage: mut_mini cases.txt report.ndjson start cursor\n"); return 2;}
   fc = fopen(argv[1], "r"); g_rep = fopen(argv[2], "a"); start = atoll(argv[3]); g_curfd = open(argv[4], O_WRONLY|O_CREAT, 0644);
   if ((fc == NULL)||(g_rep == NULL)) {fprintf(stderr, "cannot open files\n"); return 2;}
   signal(SIGALRM, OnAlarm);
   reuse = MMAllocMessage(0);
   while((len = getline(&line, &cap, fc)) > 0)
   {
      long long idx; char enc[16], v[8]; char * hb, * hbase; size_t nb, nbase; unsigned char * b, * base; int consumed = 0;
      if (sscanf(line, "%lld %15s %7s %n", &idx, enc, v, &consumed) < 3) continue;
      hb = line + consumed; hbase = strchr(hb, ' '); if (hbase == NULL) continue; *hbase++ = '\0'; {char * e = strchr(hbase, '\n'); if (e) *e = '\0';}
      if (idx < start) continue;
      SetCursor(idx); snprintf(g_desc, sizeof(g_desc), "%s case %lld -> %s", enc, idx, v);
      b = UnHex(hb, &nb); base = UnHex(hbase, &nbase);
      if (!strcmp(enc, "msg"))
      {
         const int acc = Parse(v, b, nb, base, nbase, reuse);
         unsigned char * fr = (unsigned char *) malloc(nb+8); fr[0] = nb&0xFF; fr[1] = (nb>>8)&0xFF; fr[2] = (nb>>16)&0xFF; fr[3] = (nb>>24)&0xFF; fr[4] = 0x30; fr[5] = 0x63; fr[6] = 0x6e; fr[7] = 0x45; memcpy(fr+8, b, nb);
         Gateway(v, fr, nb+8, b, nb, (idx%5 == 0) ? 1 : 0);
         (void) acc; free(fr);
      }
      else if (!strcmp(enc, "frame"))
      {
         /* a declared body of 16 MB .. 2 GB makes the gateway allocate twice that before the body arrives (by design); only the first base does it */
         const int huge = (nb >= 4)&&(R32(b) >= (1u<<24));
         const unsigned char * want = (nb >= 8) ? b+8 : b; const size_t wn = ((!strcmp(v, "A"))&&(nb >= 8)) ? R32(b) : 0;
         int mode; for (mode=0; mode<3; mode++) if ((!huge)||((nbase > 0)&&(base[4] == 1)&&(mode == 0))) Gateway(v, b, nb, want, wn, mode);
      }
      free(b); free(base); n++;
      if (g_viol >= 25) {stopped = 1; break;}
   }
   MMFreeMessage(reuse);
   SetCursor(-1);
   fprintf(g_rep, "{\"summary\":true,\"mode\":\"mini\",\"cases\":%llu,\"violating\":%u,\"lenient_RB_accepted\":%u,\"stopped_early\":%s,\"parser_runs\":%llu,\"worst_peak_bytes\":%zu,\"worst_peak_input_bytes\":%zu,\"bytes_still_allocated\":%u}\n",
           n, g_viol, g_lenient, stopped ? "true" : "false", g_runs, g_worstPeak, g_worstN, (unsigned) MGetNumBytesAllocated());
   fclose(g_rep);
   return 0;
}
