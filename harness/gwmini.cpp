// C03 conformance program for the C MiniMessageGateway against the C++ MessageIOGateway (both directions), same behaviours, same random runs
// and same logs as gw.cpp (see gwcommon.h).  MiniMessage.c and MicroMessage.c define the same global symbols, hence one program each.
//   configurations: mini_tx (C MMessageGateway sends, C++ MessageIOGateway receives), mini_rx (the other way round)
#include "gwcommon.h"
#include "iogateway/MessageIOGateway.h"
extern "C" {
#include "lang/c/minimessage/MiniMessage.h"
#include "lang/c/minimessage/MiniMessageGateway.h"
}
using namespace muscle;
using namespace gwh;

class ScriptIO : public DataIO
{
public:
   ScriptIO(Pipe * rd, Script * rs, Pipe * wr, Script * ws) : _rd(rd), _rs(rs), _wr(wr), _ws(ws) {}
   virtual io_status_t Read(void * b, uint32 n) {if (_rd == NULL) return io_status_t(0); const uint32 c = _rs->Serve(n, _rd->got, _rd->avail()); (void) _rd->pop(b, c); return io_status_t((int32) c);}
   virtual io_status_t Write(const void * b, uint32 n) {if (_wr == NULL) return io_status_t((int32) n); const uint32 c = _ws->Serve(n, _wr->put, NOAVAIL); _wr->push(b, c); return io_status_t((int32) c);}
   virtual void FlushOutput() {}
   virtual void Shutdown() {}
   virtual const ConstSocketRef & GetReadSelectSocket() const {return GetNullSocket();}
   virtual const ConstSocketRef & GetWriteSelectSocket() const {return GetNullSocket();}
private:
   Pipe * _rd; Script * _rs; Pipe * _wr; Script * _ws;
};

struct CEnd {Pipe * p; Script * s;};
static int32 CSend(const uint8 * buf, uint32 n, void * arg) {CEnd * e = (CEnd *) arg; const uint32 c = e->s->Serve(n, e->p->put, NOAVAIL); e->p->push(buf, c); return (int32) c;}
static int32 CRecv(uint8 * buf, uint32 n, void * arg) {CEnd * e = (CEnd *) arg; const uint32 c = e->s->Serve(n, e->p->got, e->p->avail()); (void) e->p->pop(buf, c); return (int32) c;}

class MiniLink : public Link
{
public:
   bool cSends; MMessageGateway * cgw; MessageIOGateway cpp; QueueGatewayMessageReceiver q; CEnd end; bool cErr;
   MiniLink(bool cs) : cSends(cs), cgw(MGAllocMessageGateway()), cErr(false) {
      if (cSends) {cpp.SetDataIO(DataIORef(new ScriptIO(&fwd, &rs, NULL, NULL))); end.p = &fwd; end.s = &ws;}
             else {cpp.SetDataIO(DataIORef(new ScriptIO(NULL, NULL, &fwd, &ws))); end.p = &fwd; end.s = &rs;}
   }
   virtual ~MiniLink() {MGFreeMessageGateway(cgw);}
   virtual bool Queue(const MsgSpec & s) {
      MessageRef m = Build(s);
      if (!cSends) return cpp.AddOutgoingMessage(m).IsOK();
      const Bytes f = Flat(*m());
      MMessage * mm = MMAllocMessage(0); if (mm == NULL) return false;
      bool ok = (MMUnflattenMessage(mm, f.data(), (uint32) f.size()) == CB_NO_ERROR)&&(MGAddOutgoingMessage(cgw, mm) == CB_NO_ERROR);
      MMFreeMessage(mm);
      return ok;
   }
   virtual int64_t DoOutput(uint32_t maxBytes) {
      if (cSends) {if (cErr) return -1; const int32 r = MGDoOutput(cgw, maxBytes, CSend, &end); if (r < 0) cErr = true; return r;}
      const io_status_t r = cpp.DoOutput(maxBytes); return ((r.IsError())||(cpp.GetUnrecoverableErrorStatus().IsError())) ? -1 : r.GetByteCount();
   }
   virtual int64_t DoInput(uint32_t maxBytes, std::vector<Bytes> & items) {
      if (cSends) {
         const io_status_t r = cpp.DoInput(q, maxBytes);
         MessageRef m; while(q.RemoveHead(m).IsOK()) if (m()) items.push_back(Flat(*m()));
         return ((r.IsError())||(cpp.GetUnrecoverableErrorStatus().IsError())) ? -1 : r.GetByteCount();
      }
      if (cErr) return -1;
      MMessage * rm = NULL;
      const int32 r = MGDoInput(cgw, maxBytes, CRecv, &end, &rm);
      if (rm) {const uint32 n = MMGetFlattenedSize(rm); Bytes f(n, '\0'); MMFlattenMessage(rm, &f[0]); items.push_back(f); MMFreeMessage(rm);}
      if (r < 0) cErr = true;
      return r;
   }
   virtual bool TxIdle() {return cSends ? (MGHasBytesToOutput(cgw) == MFalse) : !cpp.HasBytesToOutput();}
   virtual void SizeCases(std::vector<SizeCase> & out, bool big);
};

static Link * MakeLink(const std::string & cfg)
{
   if (cfg == "mini_tx") {MiniLink * l = new MiniLink(true);  l->name = cfg; return l;}
   if (cfg == "mini_rx") {MiniLink * l = new MiniLink(false); l->name = cfg; return l;}
   return NULL;
}

// thresholds of MiniMessageGateway.c (MGDoInput): the input buffer starts with the 8 header bytes, is replaced by one of 2 x (header + body) bytes
// when a frame does not fit, and by one of 64 KiB after a Message when it has grown beyond 64 KiB
static const uint32_t kMiniHeader = 8, kMiniShrink = 64 * 1024;
void MiniLink :: SizeCases(std::vector<SizeCase> & out, bool big)
{
   const MsgSpec small = MenuMessage(FAM_BIN, 0, 1, true, false);
   // the C++ side's scratch receive buffer (2048 - 8) and compression-free small frames, as in gw.cpp
   for (uint32_t n = 2030; n <= 2060; n++) out.push_back(Case1(Fmt("scratch receive buffer of the C++ side: Message of %u bytes", n), SizedBin(n, true), &small));
   for (uint32_t n = 12; n <= 44; n++) {if ((n > 12)&&(n < 27)) continue; const MsgSpec m = SizedBin(n, false); out.push_back(Case1(Fmt("small Message of %u bytes, twice", n), m, &m));}
   // buffer doubling: a first frame of f1 bytes leaves a buffer of 2 x f1 bytes; the next frame is one of 2 x f1 - 2 .. 2 x f1 + 2 bytes, and so on
   for (uint32_t f1 = 1008; f1 <= 1009; f1++) for (int d = -2; d <= 2; d++) {
      SizeCase c; c.what = Fmt("buffer doubling: frames of %u, %u, %u bytes", f1, 2 * f1 + d, 2 * (2 * f1 + d) + d);
      c.msgs.push_back(SizedBin(f1 - kMiniHeader, true)); c.msgs.push_back(SizedBin(2 * f1 + d - kMiniHeader, true)); c.msgs.push_back(SizedBin(2 * (2 * f1 + d) + d - kMiniHeader, false)); c.msgs.push_back(small); out.push_back(c);
   }
   // the 64 KiB shrink: a frame that makes the buffer larger than 64 KiB, then frames of 64 KiB - 3 .. + 3 bytes (fit exactly / need a new buffer), and the frame sizes at which the shrink starts
   const uint32_t firsts[] = {40000, 70000};
   for (size_t i=0; i<2; i++) for (int d = -3; d <= 3; d++) {
      SizeCase c; c.what = Fmt("64 KiB shrink: frame of %u bytes, then %u bytes, then %u bytes", firsts[i], kMiniShrink + d, kMiniShrink + d);
      c.msgs.push_back(SizedBin(firsts[i] - kMiniHeader, true)); c.msgs.push_back(SizedBin(kMiniShrink + d - kMiniHeader, true)); c.msgs.push_back(SizedBin(kMiniShrink + d - kMiniHeader, false)); c.msgs.push_back(small); out.push_back(c);
   }
   for (int d = -2; d <= 2; d++) {SizeCase c; c.what = Fmt("64 KiB shrink: buffer of 2 x %u bytes", kMiniShrink / 2 + d); c.msgs.push_back(SizedBin(kMiniShrink / 2 + d - kMiniHeader, true)); c.msgs.push_back(small); c.msgs.push_back(SizedBin(kMiniShrink / 2 + d - kMiniHeader, false)); out.push_back(c);}
   if (big) {const uint32_t bs[] = {1048576, 3000000}; for (size_t i=0; i<2; i++) out.push_back(Case1(Fmt("large Message of %u bytes", bs[i]), SizedBin(bs[i], true), &small));}
}

int main(int argc, char ** argv)
{
   CompleteSetupSystem css; SetConsoleLogLevel(MUSCLE_LOG_NONE);
   if ((argc > 1)&&(!strcmp(argv[1], "configs"))) {printf("mini_tx\nmini_rx\n"); return 0;}
   const int r = CommonMain(argc, argv, MakeLink);
   if (r >= 0) return r;
   fprintf(stderr, "usage: gwmini replay|explore|menu|configs ...\n");
   return 3;
}
