// C03 conformance program for the C MiniMessageGateway against the C++ MessageIOGateway (both directions), same behaviours, same random runs
// and same logs as gw.cpp (see gwcommon.h).  MiniMessage.c and MicroMessage.c define the same global symbols, hence one program each.
//   configurations: mini_tx (C MMessageGateway sends, C++ MessageIOGateway receives), mini_rx (the other way round)
#include "gwcommon.h"
#include "iogateway/MessageIOGateway.h"
extern "C" {
#include "lang/c/minimessage/MiniMessage.h"
#include "lang/c/minimessage/MiniMessageGateway.h"
}
using namespace muscle;
using namespace gwh;

class ScriptIO : public DataIO
{
public:
   ScriptIO(Pipe * rd, Script * rs, Pipe * wr, Script * ws) : _rd(rd), _rs(rs), _wr(wr), _ws(ws) {}
   virtual io_status_t Read(void * b, uint32 n) {if (_rd == NULL) return io_status_t(0); const uint32 c = _rs->Serve(n, _rd->got, _rd->avail()); (void) _rd->pop(b, c); return io_status_t((int32) c);}
   virtual io_status_t Write(const void * b, uint32 n) {if (_wr == NULL) return io_status_t((int32) n); const uint32 c = _ws->Serve(n, _wr->put, NOAVAIL); _wr->push(b, c); return io_status_t((int32) c);}
   virtual void FlushOutput() {}
   virtual void Shutdown() {}
   virtual const ConstSocketRef & GetReadSelectSocket() const {return GetNullSocket();}
   virtual const ConstSocketRef & GetWriteSelectSocket() const {return GetNullSocket();}
private:
   Pipe * _rd; Script * _rs; Pipe * _wr; Script * _ws;
};

struct CEnd {Pipe * p; Script * s;};
static int32 CSend(const uint8 * buf, uint32 n, void * arg) {CEnd * e = (CEnd *) arg; const uint32 c = e->s->Serve(n, e->p->put, NOAVAIL); e->p->push(buf, c); return (int32) c;}
static int32 CRecv(uint8 * buf, uint32 n, void * arg) {CEnd * e = (CEnd *) arg; const uint32 c = e->s->Serve(n, e->p->got, e->p->avail()); (void) e->p->pop(buf, c); return (int32) c;}

class MiniLink : public Link
{
public:
   bool cSends; MMessageGateway * cgw; MessageIOGateway cpp; QueueGatewayMessageReceiver q; CEnd end; bool cErr;
   MiniLink(bool cs) : cSends(cs), cgw(MGAllocMessageGateway()), cErr(false) {
      if (cSends) {cpp.SetDataIO(DataIORef(new ScriptIO(&fwd, &rs, NULL, NULL))); end.p = &fwd; end.s = &ws;}
             else {cpp.SetDataIO(DataIORef(new ScriptIO(NULL, NULL, &fwd, &ws))); end.p = &fwd; end.s = &rs;}
   }
   virtual ~MiniLink() {MGFreeMessageGateway(cgw);}
   virtual bool Queue(const MsgSpec & s) {
      MessageRef m = Build(s);
      if (!cSends) return cpp.AddOutgoingMessage(m).IsOK();
      const Bytes f = Flat(*m());
      MMessage * mm = MMAllocMessage(0); if (mm == NULL) return false;
      bool ok = (MMUnflattenMessage(mm, f.data(), (uint32) f.size()) == CB_NO_ERROR)&&(MGAddOutgoingMessage(cgw, mm) == CB_NO_ERROR);
      MMFreeMessage(mm);
      return ok;
   }
   virtual int64_t DoOutput(uint32_t maxBytes) {
      if (cSends) {if (cErr) return -1; const int32 r = MGDoOutput(cgw, maxBytes, CSend, &end); if (r < 0) cErr = true; return r;}
      const io_status_t r = cpp.DoOutput(maxBytes); return ((r.IsError())||(cpp.GetUnrecoverableErrorStatus().IsError())) ? -1 : r.GetByteCount();
   }
   virtual int64_t DoInput(uint32_t maxBytes, std::vector<Bytes> & items) {
      if (cSends) {
         const io_status_t r = cpp.DoInput(q, maxBytes);
         MessageRef m; while(q.RemoveHead(m).IsOK()) if (m()) items.push_back(Flat(*m()));
         return ((r.IsError())||(cpp.GetUnrecoverableErrorStatus().IsError())) ? -1 : r.GetByteCount();
      }
      if (cErr) return -1;
      MMessage * rm = NULL;
      const int32 r = MGDoInput(cgw, maxBytes, CRecv, &end, &rm);
      if (rm) {const uint32 n = MMGetFlattenedSize(rm); Bytes f(n, '\0'); MMFlattenMessage(rm, &f[0]); items.push_back(f); MMFreeMessage(rm);}
      if (r < 0) cErr = true;
      return r;
   }
   virtual bool TxIdle() {return cSends ? (MGHasBytesToOutput(cgw) == MFalse) : !cpp.HasBytesToOutput();}
};

static Link * MakeLink(const std::string & cfg)
{
   if (cfg == "mini_tx") {MiniLink * l = new MiniLink(true);  return l;}
   if (cfg == "mini_rx") {MiniLink * l = new MiniLink(false); return l;}
   return NULL;
}

int main(int argc, char ** argv)
{
   CompleteSetupSystem css; SetConsoleLogLevel(MUSCLE_LOG_NONE);
   if ((argc > 1)&&(!strcmp(argv[1], "configs"))) {printf("mini_tx\nmini_rx\n"); return 0;}
   const int r = CommonMain(argc, argv, MakeLink);
   if (r >= 0) return r;
   fprintf(stderr, "usage: gwmini replay|explore|menu|configs ...\n");
   return 3;
}
