// C11 conformance harness: a real muscle::Thread (owner <-> internal thread Message queues) under the controlled scheduler.
//   th explore <iterations> <seed> <sockets 0|1> <report.ndjson> [tracefile [ntraces]]
//   th free    <iterations> <seed> <sockets 0|1> <report.ndjson>       (no scheduler: real blocking, real signals; see below)
// Seeded random owner programs (sends before the start, start, sends mixed with polls, blocking waits for replies that are
// certain to come, shutdown + join, optional restart), an optional extra sender thread, the internal thread echoing every
// Message (what+100); every hooked operation is a pre-emption point.  The ChanAbs monitor checks exactly-once / in-order in
// both directions and that everything queued before the shutdown request was handled; the deadlock detector decides "lost
// wake-up" / "shutdown does not complete".  Recorded traces are validated by TLC against spec/ThreadQueue/ThreadImpl.tla.
#ifndef VERIF_NO_PRIVATE
# define private public
# define protected public
#endif
#include "system/Thread.h"
#undef private
#undef protected
#include "system/SetupSystem.h"
#include "util/NetworkUtilityFunctions.h"
#include "util/SocketMultiplexer.h"
#include "vsched.h"
#include "mjson.h"
#include <set>
using namespace muscle;

struct TraceLine {std::string e; char t; int d; long a, b, c;};   // d: 0 = "int", 1 = "own", -1 = none
static std::vector<TraceLine> g_trace; static bool g_record = false;
static void TL(const char * e, char t, int d, long a = 0, long b = 0, long c = 0) {if (g_record) {TraceLine l; l.e = e; l.t = t; l.d = d; l.a = a; l.b = b; l.c = c; g_trace.push_back(l);}}

static int g_ownerTid = -1, g_senderTid = -1;
static char TName(int tid) {return (tid == g_ownerTid) ? 'O' : ((tid == g_senderTid) ? 'S' : 'I');}

// ChanAbs monitor ----------------------------------------------------------------------------------------
struct Mon {
   std::vector<uint32> enqInt, enqOwn;   // enqueue order per direction (0 = NULL Message), from the code's Enqueue events + the sender's current Message
   std::vector<uint32> handled;          // what the internal thread's handler saw, in order
   std::vector<uint32> replies;          // what the owner received, in order
   std::vector<std::string> violations;
   volatile bool nullQueued;
   long qlen[2];                         // current length of the two queues (from the events emitted inside the queue critical sections)
   void Reset() {enqInt.clear(); enqOwn.clear(); handled.clear(); replies.clear(); violations.clear(); nullQueued = false; qlen[0] = qlen[1] = 0;}
   void V(const std::string & s) {if (violations.size() < 5) violations.push_back(s);}
};
static Mon M;
// what the harness itself did through the public API (no events of the code involved): the property is judged on this; where the code's own
// Enqueue events disagree with it, that is drift
#include <atomic>
struct Api {
   std::vector<uint32> ownerSent, senderSent; std::vector<long> senderEnd; std::atomic<long> clock; std::atomic<long> lastShutBegin; std::atomic<bool> shutBegan; std::vector<std::string> drifts;
   Api() : clock(0), lastShutBegin(0), shutBegan(false) {}
   void Reset() {ownerSent.clear(); senderSent.clear(); senderEnd.clear(); clock = 0; lastShutBegin = 0; shutBegan = false; drifts.clear();}
   void OwnerShutdownBegins() {lastShutBegin = ++clock; shutBegan = true;}
};
static Api A;
static thread_local uint32 tl_curMsg = 0;     // the Message the calling thread is sending (0 = NULL)

static const uint64 FAR_FUTURE = ((uint64)1)<<60;   // "timed": a real deadline that never passes by itself; the scheduler decides when it fires
static bool g_timedLoop = false; static int g_loopKind = 0;    // 0 the library's default loop, 1 waits with a deadline, 3 event-driven
class EchoThread : public Thread {
public:
   EchoThread(bool sockets) : Thread(sockets) {}
protected:
   // the default loop waits without a deadline; the second variant is the loop of testthread.cpp: waits with a deadline, goes round on B_TIMED_OUT;
   // the third is event-driven like testserverthread.cpp: select() on the wake-up socket FIRST, then poll until the queue is empty
   virtual void InternalThreadEntry()
   {
#ifndef VERIF_NO_PRIVATE
      if (g_loopKind == 3) {
         SocketMultiplexer mux; bool quit = false;
         while(!quit) {
            const int fd = GetInternalThreadWakeupSocket().GetFileDescriptor(); if (fd < 0) break;
            // this select() is the harness's own, not on a hooked path of the library: announce it to the scheduler the way the library's hook would
            (void) vs::Yield(vs::YIELD_SOCK_WAIT, &_threadData[MESSAGE_THREAD_INTERNAL], 0);
            (void) mux.RegisterSocketForReadReady(fd);
            if (mux.WaitForEvents().IsError()) break;
            while(true) {MessageRef m; uint32 left = 0; if (WaitForNextMessageFromOwner(m, 0, &left).IsError()) break; if (MessageReceivedFromOwner(m, left).IsError()) {quit = true; break;}}
         }
         return;
      }
#endif
      if (!g_timedLoop) {Thread::InternalThreadEntry(); return;}
      while(true) {
         MessageRef m; uint32 left = 0;
         const status_t r = WaitForNextMessageFromOwner(m, FAR_FUTURE, &left);
         if (r.IsError()) {if (r == B_TIMED_OUT) continue; else break;}
         if (MessageReceivedFromOwner(m, left).IsError()) break;
      }
   }
   virtual status_t MessageReceivedFromOwner(const MessageRef & m, uint32)
   {
      if (m() == NULL) return B_SHUTTING_DOWN;
      M.handled.push_back(m()->what);
      tl_curMsg = m()->what+100;
      (void) SendMessageToOwner(GetMessageFromPool(m()->what+100));
      return B_NO_ERROR;
   }
};
static EchoThread * g_t = NULL;

static void ObserveEvent(const vs::Event & e)
{
   const char t = TName(e.tid);
   if (e.name == "Enqueue") {
      const int d = (e.a[0] == 0) ? 0 : 1;
      const uint32 m = e.a[3] ? tl_curMsg : 0;
      if (d == 0) {M.enqInt.push_back(m); if (m == 0) M.nullQueued = true;} else M.enqOwn.push_back(m);
      M.qlen[d] = e.a[1];
      TL("Enq", t, d, (long) m, e.a[1], e.a[2]);
   }
   else if (e.name == "Dequeue") {M.qlen[(e.a[0] == 0) ? 0 : 1] = e.a[2]; TL("Deq", t, (e.a[0] == 0) ? 0 : 1, e.a[1], e.a[2]);}
   else if (e.name == "Signal")  TL("Signal", t, (e.a[0] == 1) ? 0 : 1, e.a[1]);
   else if (e.name == "EntryCheck") TL("Entry", 'I', -1, e.a[0]);
   else if (e.name == "StartCheck") TL("OStartChk", 'O', -1, e.a[0]);
}
#ifdef VERIF_NO_PRIVATE
static int DirOfTSD(const void *) {return -1;}
static int DirOfWC(const void *) {return -1;}
#else
static int DirOfTSD(const void * obj) {return (obj == &g_t->_threadData[Thread::MESSAGE_THREAD_INTERNAL]) ? 0 : ((obj == &g_t->_threadData[Thread::MESSAGE_THREAD_OWNER]) ? 1 : -1);}
static int DirOfWC(const void * obj)
{
   if (g_t->_useMessagingSockets) return -1;
   if (obj == &g_t->_threadData[Thread::MESSAGE_THREAD_INTERNAL]._waitCondition.GetObject()) return 0;
   if (obj == &g_t->_threadData[Thread::MESSAGE_THREAD_OWNER]._waitCondition.GetObject()) return 1;
   return -1;
}
#endif
static void ObserveYield(vs::LThread * me, int kind, const void * obj, long)
{
   if (kind == vs::YIELD_SOCK_DRAIN) {const int d = DirOfTSD(obj); if (d >= 0) TL("Drain", TName(me->id), d);}
   else if (kind == vs::YIELD_SOCK_CLOSE) TL("Close", 'I', -1);
   else if (kind == vs::YIELD_THREAD_CREATED) TL("OStart", 'O', -1);     // sockets allocated, _threadRunning set, thread spawned
}
static void ObserveResume(vs::LThread * me, int kind, const void * obj, int result)
{
   if (kind == vs::YIELD_SOCK_WAIT) {const int d = DirOfTSD(obj); if (d >= 0) TL(result ? "WakeTimeout" : "Wake", TName(me->id), d);}
   else if (kind == vs::YIELD_WC_WAIT) {const int d = DirOfWC(obj); if (d >= 0) TL(result ? "WakeTimeout" : "Wake", TName(me->id), d);}
}

// a wait with a deadline returned B_TIMED_OUT.  Deadlines are far away: when the scheduler had to fire one because no thread could run
// otherwise and a Message is queued for this receiver, the receiver was not woken for it - it would have slept until its deadline.
static void ObserveTimeout(vs::LThread * me)
{
   if ((!me->stuckPick)||(me->willIntr)) return;
   const char t = TName(me->id); const int d = (t == 'O') ? 1 : 0;
   if ((t != 'S')&&(M.qlen[d] > 0)) {char b[200]; snprintf(b, sizeof(b), "LOST WAKE-UP: %s is blocked in a wait with a deadline although %ld Message(s) are queued for it, and nothing else can run: it sleeps until its deadline", (t == 'O') ? "the owner" : "the internal thread", M.qlen[d]); M.V(b);}
}
struct Plan {int nMsgs; int preSends; int rounds; int nExtra; std::vector<int> pollAfter; uint32 rnd; bool timedLoop; bool ownerTimed; int intr; bool stuckOnly;};
static Plan g_plan;

static void DrainReplies(int mode)     // 0 = poll, 1 = wait without a deadline (only when a reply is certain), 2 = wait with a deadline
{
   MessageRef r;
   if (mode == 2) {
      TL("OWaitTimed", 'O', -1);
      const status_t s = g_t->GetNextReplyFromInternalThread(r, FAR_FUTURE);
      if (s.IsOK()) M.replies.push_back(r()->what);
      else if (s != B_TIMED_OUT) M.V(std::string("GetNextReplyFromInternalThread with a deadline returned ")+s());
   } else if (mode == 1) {
      TL("OWait", 'O', -1);
      const status_t s = g_t->GetNextReplyFromInternalThread(r, MUSCLE_TIME_NEVER);
      if (s.IsOK()) M.replies.push_back(r()->what);
      else if (s != B_TIMED_OUT) M.V(std::string("blocking GetNextReplyFromInternalThread returned ")+s());
   } else {
      TL("OPoll", 'O', -1);
      if (g_t->GetNextReplyFromInternalThread(r, 0).IsOK()) M.replies.push_back(r()->what);
   }
}
static size_t NonNullSent() {size_t n = 0; for (size_t i=0; i<M.enqInt.size(); i++) if (M.enqInt[i]) n++; return n;}

static void OwnerMain()
{
   vs::ThreadBegin();
   std::mt19937 gen(g_plan.rnd);
   for (int round=1; round<=g_plan.rounds; round++) {
      int sent = 0;
      if (round == 1) for (; sent<g_plan.preSends; sent++) {const uint32 m = 10+sent+1; tl_curMsg = m; A.ownerSent.push_back(m); TL("OSend", 'O', -1, m); (void) g_t->SendMessageToInternalThread(GetMessageFromPool(m)); vs::OpBoundary();}
      if (g_t->StartInternalThread().IsError()) M.V("StartInternalThread failed");
      vs::OpBoundary();
      while (sent < g_plan.nMsgs) {
         const uint32 m = round*10+sent+1; sent++; tl_curMsg = m; A.ownerSent.push_back(m); TL("OSend", 'O', -1, m);
         (void) g_t->SendMessageToInternalThread(GetMessageFromPool(m)); vs::OpBoundary();
         const int k = (int)(gen()%(g_plan.ownerTimed ? 4 : 3));
         if (k == 0) {DrainReplies(0); vs::OpBoundary();}
         else if ((k == 1)&&(NonNullSent() > M.replies.size())) {DrainReplies(1); vs::OpBoundary();}
         else if (k == 3) {DrainReplies(2); vs::OpBoundary();}
      }
      if (gen()%2) while (NonNullSent() > M.replies.size()) {DrainReplies(((g_plan.ownerTimed)&&(gen()%2)) ? 2 : 1); vs::OpBoundary();}    // sometimes wait for all replies before shutting down
      tl_curMsg = 0; A.OwnerShutdownBegins();
      if (gen()%3 == 0) {
         // the two-call form: ask the thread to quit now, collect it later
         TL("OShutdownNoWait", 'O', -1); g_t->ShutdownInternalThread(false); vs::OpBoundary();
         if (gen()%2) {DrainReplies(((g_plan.ownerTimed)&&(gen()%2)) ? 2 : 0); vs::OpBoundary();}
         TL("OWaitExit", 'O', -1); (void) g_t->WaitForInternalThreadToExit();
      } else {
         TL("OShutdown", 'O', -1);
         g_t->ShutdownInternalThread(true);
      }
      vs::ForgetAllSockets();    // CloseSockets() ran inside the join
      TL("OJoin", 'O', -1);
      vs::OpBoundary();
   }
   // after the join everything that was handled has its reply queued: collect the rest without blocking
   for (int i=0; i<64; i++) {MessageRef r; TL("OPoll", 'O', -1); if (g_t->GetNextReplyFromInternalThread(r, 0).IsOK()) M.replies.push_back(r()->what); else break;}
   vs::ThreadEnd();
}
static void SenderMain()
{
   vs::ThreadBegin();
   for (int k=0; k<g_plan.nExtra; k++) {
      vs::OpBoundary();
      if (A.shutBegan) break;      // the property is about Messages sent before the shutdown request
      const uint32 m = 50+k+1; tl_curMsg = m; TL("SSend", 'S', -1, m);
      A.senderSent.push_back(m);
      (void) g_t->SendMessageToInternalThread(GetMessageFromPool(m));
      A.senderEnd.push_back(++A.clock);
   }
   vs::ThreadEnd();
}

static void Judge()
{
   char b[256];
   // ---- the property at the level of the public API: what the owner / the extra sender passed to SendMessageToInternalThread(), what the
   // handler was given, what GetNextReplyFromInternalThread() returned
   std::set<uint32> fromSender(A.senderSent.begin(), A.senderSent.end()), seen;
   std::vector<uint32> hOwner, hSender;
   for (size_t i=0; i<M.handled.size(); i++) {
      const uint32 m = M.handled[i];
      if (!seen.insert(m).second) {snprintf(b, sizeof(b), "Message %u was handed to the internal thread's handler twice", m); M.V(b);}
      if (fromSender.count(m)) hSender.push_back(m); else hOwner.push_back(m);
   }
   // every Message the owner sent precedes its own shutdown request of that round: all of them are handled, in the order sent
   if (hOwner != A.ownerSent) { snprintf(b, sizeof(b), "the owner sent %zu Messages before its shutdown requests, the handler was given %zu of its Messages (first difference at position %zu): lost, duplicated or out of order", A.ownerSent.size(), hOwner.size(), (size_t) (std::mismatch(hOwner.begin(), hOwner.begin()+std::min(hOwner.size(), A.ownerSent.size()), A.ownerSent.begin()).first-hOwner.begin())); M.V(b); }
   // the other sender's Messages: in its order, without gaps (the queue is FIFO), and at least those whose send call had returned before the owner began its last shutdown request
   size_t must = 0; for (size_t i=0; i<A.senderEnd.size(); i++) if (A.senderEnd[i] < A.lastShutBegin.load()) must = i+1;
   const bool prefix = (hSender.size() <= A.senderSent.size())&&(std::equal(hSender.begin(), hSender.end(), A.senderSent.begin()));
   if (!prefix) M.V("the second sender's Messages were handled out of order or with a gap");
   else if (hSender.size() < must) { snprintf(b, sizeof(b), "%zu Messages of the second sender had been sent (the call had returned) before the owner began its last shutdown request, only %zu were handled", must, hSender.size()); M.V(b); }
   std::vector<uint32> expReplies; for (size_t i=0; i<M.handled.size(); i++) expReplies.push_back(M.handled[i]+100);
   if (M.replies != expReplies) { snprintf(b, sizeof(b), "owner received %zu replies, expected %zu in handling order", M.replies.size(), expReplies.size()); M.V(b); }
   // ---- the same through the code's own Enqueue events (exact about sends that overlap the shutdown request); on their own they are drift
   std::vector<uint32> expect; size_t lastNull = 0; bool anyNull = false;
   for (size_t i=0; i<M.enqInt.size(); i++) if (M.enqInt[i] == 0) {lastNull = i; anyNull = true;}
   for (size_t i=0; i<M.enqInt.size(); i++) if ((M.enqInt[i])&&((!anyNull)||(i < lastNull))) expect.push_back(M.enqInt[i]);
   if (M.handled != expect) { snprintf(b, sizeof(b), "internal thread handled %zu Messages, the code's Enqueue events say %zu were queued before the shutdown request (first difference at %zu)", M.handled.size(), expect.size(), (size_t) (std::mismatch(M.handled.begin(), M.handled.begin()+std::min(M.handled.size(), expect.size()), expect.begin()).first-M.handled.begin())); if (M.violations.empty()) A.drifts.push_back(b); else M.V(b); }
   if (M.enqOwn != expReplies) { if (M.violations.empty()) A.drifts.push_back("the code's Enqueue events for replies do not list one reply per handled Message in handling order"); else M.V("replies were not queued once each in the order the Messages were handled"); }
}

// ------------------------------------------------------------------------------------------------------
// free-running mode: no scheduler.  Real blocking in select() / the real WaitCondition, real memory ordering, timing noise at the hooks,
// real signals (a no-op SIGUSR1 handler without SA_RESTART) interrupting the internal thread's select().  The monitor is the same
// ChanAbs (the Enqueue events are emitted inside the queue critical sections, so their order is the queue order); lost wake-ups show
// as "a receiver had a Message queued for seconds and did not take it" (watchdog), never by timing alone.
#include <atomic>
#include <chrono>
#include <signal.h>
#include <pthread.h>
static std::atomic<long> f_progress(0); static std::atomic<bool> f_done(false); static std::atomic<unsigned long> f_itid(0); static std::atomic<int> f_handledN(0);
static std::mutex f_vm; static void FV(const std::string & s) {std::lock_guard<std::mutex> g(f_vm); M.V(s);}
static thread_local uint32_t f_rng = 1;
static inline uint32_t FR() {f_rng ^= f_rng << 13; f_rng ^= f_rng >> 17; f_rng ^= f_rng << 5; return f_rng;}
static int NoiseYield(int, const void *, long) {const uint32_t r = FR()%12; if (r == 0) std::this_thread::yield(); else if (r == 1) {for (volatile int i=0; i<300; i++) {}} return 0;}
static std::atomic<uint64_t> f_nonEmptySince[2];     // when the queue last became non-empty (0 = it is empty); written with the queue's lock held
static void FreeEvent(const char * name, const void *, long a0, long a1, long a2, long a3)
{
   // both events are emitted with the queue's lock held: per direction they are serialised
   if (!strcmp(name, "Dequeue")) {if (a2 == 0) f_nonEmptySince[(a0 == 0) ? 0 : 1] = 0; return;}
   if (strcmp(name, "Enqueue")) return;
   const uint32 m = a3 ? tl_curMsg : 0; const int d = (a0 == 0) ? 0 : 1;
   if (d == 0) {M.enqInt.push_back(m); if (m == 0) M.nullQueued = true;} else M.enqOwn.push_back(m);
   if (a1 == 1) f_nonEmptySince[d] = GetRunTime64();
   f_progress++;
}
// a wait with a LONG deadline returned B_TIMED_OUT: the queue was empty when the call looked (or it would have returned the Message), so
// if it has been non-empty for seconds since, the sleeping receiver was not woken for it
static void JudgeLongTimeout(int d, const char * who)
{
   const uint64_t since = f_nonEmptySince[d].load();
   if ((since)&&(GetRunTime64() > since+SecondsToMicros(3))) FV(std::string("LOST WAKE-UP (free-running): ")+who+" slept in a wait with a deadline for more than 3 s while a Message was queued for it, and returned B_TIMED_OUT");
}
static void NoopHandler(int) {}
class FreeEchoThread : public Thread {
public:
   FreeEchoThread(bool sockets, int loopKind) : Thread(sockets), _timedLoop(loopKind == 1), _loopKind(loopKind) {}
   bool _timedLoop; int _loopKind;     // 0 the library's default loop, 1 waits with a deadline (testthread.cpp), 2 a registered always-writable socket: the wait also returns B_IO_READY (SimulatedMulticastDataIO's loop), 3 event-driven: select() on the wake-up socket first, then poll (testserverthread.cpp)
protected:
   virtual void InternalThreadEntry()
   {
      f_rng = 0x9e3779b9u ^ (uint32_t) f_progress.load(); if (f_rng == 0) f_rng = 1;
      f_itid = (unsigned long) pthread_self();
      if (_loopKind == 2) {
         ConstSocketRef a, b;
         if ((CreateConnectedSocketPair(a, b).IsOK())&&(RegisterInternalThreadSocket(a, SOCKET_SET_WRITE).IsOK())) {
            while(true) {
               MessageRef m; uint32 left = 0;
               const status_t r = WaitForNextMessageFromOwner(m, MUSCLE_TIME_NEVER, &left);
               if (r.IsOK()) {if (MessageReceivedFromOwner(m, left).IsError()) break;}
               else if ((r == B_IO_READY)||(r == B_TIMED_OUT)) {if ((FR()%4) == 0) std::this_thread::yield(); continue;}     // "my socket is writable" (it always is): nothing to write, wait again
               else break;
            }
            (void) UnregisterInternalThreadSocket(a, SOCKET_SET_WRITE);
         }
         f_itid = 0; return;
      }
      if (_loopKind == 3) {
         SocketMultiplexer mux; bool quit = false;
         while(!quit) {
            const int fd = GetInternalThreadWakeupSocket().GetFileDescriptor(); if (fd < 0) break;
            (void) mux.RegisterSocketForReadReady(fd);
            if (mux.WaitForEvents().IsError()) break;
            while(true) {MessageRef m; uint32 left = 0; if (WaitForNextMessageFromOwner(m, 0, &left).IsError()) break; if (MessageReceivedFromOwner(m, left).IsError()) {quit = true; break;}}
         }
         f_itid = 0; return;
      }
      if (!_timedLoop) {Thread::InternalThreadEntry(); f_itid = 0; return;}
      while(true) {
         MessageRef m; uint32 left = 0;
         const bool longWait = (FR()%2) == 0;
         const status_t r = WaitForNextMessageFromOwner(m, GetRunTime64()+(longWait ? SecondsToMicros(6) : MillisToMicros(20+(FR()%60))), &left);
         if (r.IsError()) {if (r == B_TIMED_OUT) {if (longWait) JudgeLongTimeout(0, "the internal thread"); continue;} else break;}
         if (MessageReceivedFromOwner(m, left).IsError()) break;
      }
      f_itid = 0;
   }
   virtual status_t MessageReceivedFromOwner(const MessageRef & m, uint32)
   {
      if (m() == NULL) return B_SHUTTING_DOWN;
      M.handled.push_back(m()->what); f_handledN++;
      tl_curMsg = m()->what+100;
      (void) SendMessageToOwner(GetMessageFromPool(m()->what+100));
      f_progress++;
      return B_NO_ERROR;
   }
};
struct FreePlan {int rounds, nMsgs, preSends, nExtra; bool timedLoop, signals; uint32 rnd; int loopKind;};
static FreePlan FP; static FreeEchoThread * f_t = NULL; static std::atomic<long> f_ownerSent(0);
static void FreeTake(int mode)     // 0 poll, 1 wait for ever (only when a reply is certain), 2 wait with a real deadline
{
   MessageRef r; status_t s;
   if (mode == 0) s = f_t->GetNextReplyFromInternalThread(r, 0);
   else if (mode == 1) s = f_t->GetNextReplyFromInternalThread(r, MUSCLE_TIME_NEVER);
   else if (mode == 3) s = f_t->GetNextReplyFromInternalThread(r, GetRunTime64()+SecondsToMicros(6));
   else s = f_t->GetNextReplyFromInternalThread(r, GetRunTime64()+MillisToMicros(1+(FR()%40)));
   if ((mode == 3)&&(s == B_TIMED_OUT)) JudgeLongTimeout(1, "the owner");
   if (s.IsOK()) {M.replies.push_back(r()->what); f_progress++;}
   else if (s != B_TIMED_OUT) FV(std::string("GetNextReplyFromInternalThread returned ")+s());
}
static void FreeOwner()
{
   f_rng = FP.rnd|1;
   long sentTotal = 0;
   for (int round=1; round<=FP.rounds; round++) {
      int sent = 0;
      if (round == 1) for (; sent<FP.preSends; sent++) {const uint32 m = 1000+sent+1; tl_curMsg = m; A.ownerSent.push_back(m); (void) f_t->SendMessageToInternalThread(GetMessageFromPool(m)); sentTotal++;}
      if (f_t->StartInternalThread().IsError()) FV("StartInternalThread failed");
      while (sent < FP.nMsgs) {
         const uint32 m = round*1000+sent+1; sent++; tl_curMsg = m; A.ownerSent.push_back(m); (void) f_t->SendMessageToInternalThread(GetMessageFromPool(m)); sentTotal++;
         const uint32 k = FR()%8;
         if (k == 0) FreeTake(0);
         else if ((k == 1)&&(sentTotal > (long) M.replies.size())) FreeTake((FR()%2) ? 1 : 3);
         else if (k == 2) FreeTake(2);
         else if (k == 3) std::this_thread::yield();
         else if ((k == 4)&&(FP.signals)&&(f_handledN.load() > 0)) {const unsigned long tid = f_itid.load(); if (tid) (void) pthread_kill((pthread_t) tid, SIGUSR1);}    // the thread is alive: it is joined only below, by us
      }
      if (FR()%2) while (sentTotal > (long) M.replies.size()) FreeTake(1+(int)(FR()%3));
      tl_curMsg = 0; A.OwnerShutdownBegins();
      if (FR()%3 == 0) {f_t->ShutdownInternalThread(false); if (FR()%2) FreeTake(0); (void) f_t->WaitForInternalThreadToExit();}
      else f_t->ShutdownInternalThread(true);
      f_progress++;
   }
   for (int i=0; i<100000; i++) {MessageRef r; if (f_t->GetNextReplyFromInternalThread(r, 0).IsOK()) M.replies.push_back(r()->what); else break;}
   f_done = true;
}
static void FreeSender()
{
   for (int k=0; k<FP.nExtra; k++) {
      if (A.shutBegan) break;
      const uint32 m = 500000+k+1; tl_curMsg = m;
      A.senderSent.push_back(m);
      (void) f_t->SendMessageToInternalThread(GetMessageFromPool(m));
      A.senderEnd.push_back(++A.clock);
      if ((k%4) == 0) std::this_thread::yield();
   }
}
static int Free(uint32 iters, uint32 seed0, bool sockets, const char * outFile)
{
   FILE * out = fopen(outFile, "w"); if (!out) return 2;
   muscle::verif::YieldFuncRef() = NoiseYield; muscle::verif::EventFuncRef() = FreeEvent;
   struct sigaction sa; memset(&sa, 0, sizeof(sa)); sa.sa_handler = NoopHandler; sigemptyset(&sa.sa_mask); sa.sa_flags = 0; (void) sigaction(SIGUSR1, &sa, NULL);
   long execs = 0, violated = 0, hung = 0, msgs = 0;
   for (uint32 it=0; (it<iters)&&(violated < 6)&&(hung == 0); it++) {
      const uint32 seed = seed0*1000003u+it; std::mt19937 gen(seed*2654435761u+11);
      FP.rounds = 1+(int)(gen()%2); FP.nMsgs = 1+(int)(gen()%60); FP.preSends = (int)(gen()%4) % (FP.nMsgs+1); FP.nExtra = (int)(gen()%3)*20; FP.loopKind = (int)(gen()%(sockets ? 6 : 3)); if (FP.loopKind >= 4) FP.loopKind = 0; if ((!sockets)&&(FP.loopKind == 2)) FP.loopKind = 1; FP.timedLoop = (FP.loopKind == 1); FP.signals = (sockets)&&(FP.loopKind != 3)&&((gen()%2) == 0); FP.rnd = gen();
      M.Reset(); A.Reset(); f_progress = 0; f_done = false; f_itid = 0; f_handledN = 0; f_nonEmptySince[0] = 0; f_nonEmptySince[1] = 0;
      f_t = new FreeEchoThread(sockets, FP.loopKind);
      std::thread owner(FreeOwner); std::thread sender; if (FP.nExtra > 0) sender = std::thread(FreeSender);
      long last = -1; int idle = 0;
      while (!f_done.load()) { std::this_thread::sleep_for(std::chrono::milliseconds(2)); const long p = f_progress.load(); if (p != last) {last = p; idle = 0;} else if (++idle > 15000) break; }
      execs++;
      const bool stuck = !f_done.load();
      if (stuck) {hung++; FV("STRANDED (free-running): the owner made no progress for 30 s - a receiver was not woken for a queued Message, or the shutdown does not complete");}
      else { owner.join(); if (sender.joinable()) sender.join(); Judge(); msgs += (long) M.handled.size(); }
      if (!M.violations.empty()) {
         violated++;
         mj::Value rec = mj::Value::Obj(); rec.set("free", mj::Value::Bool(true)).set("seed", mj::Value::Int(seed)).set("iteration", mj::Value::Int(it)).set("sockets", mj::Value::Bool(sockets));
         mj::Value va = mj::Value::Arr(); for (size_t k=0; k<M.violations.size(); k++) va.push(mj::Value::Str(M.violations[k])); rec.set("violations", va);
         mj::Value pl = mj::Value::Obj(); pl.set("msgs", mj::Value::Int(FP.nMsgs)).set("pre_start_sends", mj::Value::Int(FP.preSends)).set("rounds", mj::Value::Int(FP.rounds)).set("extra_sender_msgs", mj::Value::Int(FP.nExtra)).set("internal_loop_waits_with_deadline", mj::Value::Bool(FP.timedLoop)).set("internal_loop_kind", mj::Value::Int(FP.loopKind)).set("signals", mj::Value::Bool(FP.signals)); rec.set("plan", pl);
         rec.set("handled_count", mj::Value::Int((int64_t) M.handled.size())).set("replies_count", mj::Value::Int((int64_t) M.replies.size()));
         fprintf(out, "%s\n", mj::ToString(rec).c_str());
      }
      if (stuck) {owner.detach(); if (sender.joinable()) sender.detach();} else delete f_t;
   }
   mj::Value sum = mj::Value::Obj();
   sum.set("summary", mj::Value::Bool(true)).set("executions", mj::Value::Int(execs)).set("violated", mj::Value::Int(violated)).set("stranded", mj::Value::Int(hung)).set("messages_handled", mj::Value::Int(msgs));
   fprintf(out, "%s\n", mj::ToString(sum).c_str()); fclose(out); printf("%s\n", mj::ToString(sum).c_str()); fflush(stdout);
   if (hung) _exit(0);
   return 0;
}

int main(int argc, char ** argv)
{
   CompleteSetupSystem css;
   if ((argc >= 6)&&(!strcmp(argv[1], "free"))) return Free((uint32) atol(argv[2]), (uint32) atol(argv[3]), atoi(argv[4]) != 0, argv[5]);
   vs::Install();
   if ((argc < 6)||(strcmp(argv[1], "explore"))) {fprintf(stderr, "usage: th explore <iters> <seed> <sockets 0|1> <report> [trace [n]]\n"); return 2;}
   const uint32 iters = (uint32) atol(argv[2]), seed0 = (uint32) atol(argv[3]); const bool sockets = atoi(argv[4]) != 0;
   FILE * out = fopen(argv[5], "w"); FILE * tf = (argc > 6) ? fopen(argv[6], "w") : NULL; const uint32 ntraces = (argc > 7) ? (uint32) atol(argv[7]) : 50;
   long execs = 0, violated = 0, stranded = 0, nevents = 0, tracesWritten = 0, traceLines = 0, ndrift = 0; unsigned long ysteps = 0; std::set<std::string> distinct;
   for (uint32 it=0; it<iters; it++) {
      const uint32 seed = seed0*1000003u+it; std::mt19937 gen(seed*2654435761u+7);
      g_plan.nMsgs = 1+(int)(gen()%3); g_plan.preSends = (int)(gen()%3) % (g_plan.nMsgs+1); g_plan.rounds = 1+(int)(gen()%2); g_plan.nExtra = (int)(gen()%3); g_plan.rnd = gen();
      g_plan.timedLoop = (gen()%3) == 0; g_plan.ownerTimed = (gen()%2) == 0; g_plan.intr = (sockets) ? (int)(gen()%3) : 0; g_plan.stuckOnly = (gen()%4) != 0; g_timedLoop = g_plan.timedLoop;
      g_loopKind = g_plan.timedLoop ? 1 : 0;
#ifndef VERIF_NO_PRIVATE
      if ((sockets)&&((gen()%4) == 0)) {g_loopKind = 3; g_plan.timedLoop = false; g_timedLoop = false; g_plan.intr = 0;}     // event-driven internal thread (its own select() is not interrupted: that would be the harness's business)
#endif
      char key[64]; snprintf(key, sizeof(key), "%d/%d/%d/%d/%u/%d%d%d", g_plan.nMsgs, g_plan.preSends, g_plan.rounds, g_plan.nExtra, g_plan.rnd%8, g_loopKind, (int) g_plan.ownerTimed, g_plan.intr); distinct.insert(key);
      g_t = new EchoThread(sockets);
      g_record = (tf != NULL)&&(tracesWritten < (long) ntraces); g_trace.clear();
#ifdef VERIF_NO_PRIVATE
      g_record = false;     // trace lines need the addresses of the two ThreadSpecificData objects
#endif
      vs::Reset(seed, vs::RANDOM); vs::S.onEvent = ObserveEvent; vs::S.onYield = ObserveYield; vs::S.onResume = ObserveResume; vs::S.onTimeout = ObserveTimeout; vs::S.stickiness = (int)(gen()%3)*35;
      vs::S.timeoutsWhenStuckOnly = g_plan.stuckOnly; vs::S.intrBudget = g_plan.intr; vs::S.intrOneIn = 4;
      vs::S.atomicLocks = g_record;   // recorded executions keep queue critical sections atomic, as the specification does
      M.Reset(); A.Reset();
      std::vector<std::thread> ths;
      ths.emplace_back(OwnerMain); vs::WaitRegistered(1); g_ownerTid = 0; g_senderTid = -1;
      if (g_plan.nExtra > 0) {ths.emplace_back(SenderMain); vs::WaitRegistered(2); g_senderTid = 1;}
      const bool ok = vs::RunAllRandom(ths.size());
      execs++; ysteps += vs::S.steps; nevents += (long) vs::S.events.size();
      if (!ok) {stranded++; M.V(std::string("STRANDED (lost wake-up or shutdown that does not complete): no thread can run:")+vs::S.blockedDesc);}
      else Judge();
      if ((M.violations.empty())&&(!A.drifts.empty())&&(ndrift++ < 3)) {mj::Value rec = mj::Value::Obj(); rec.set("seed", mj::Value::Int(seed)).set("iteration", mj::Value::Int(it)); mj::Value da = mj::Value::Arr(); for (size_t k=0; k<A.drifts.size(); k++) da.push(mj::Value::Str(A.drifts[k])); rec.set("monitor_drift", da); fprintf(out, "%s\n", mj::ToString(rec).c_str());}
      if (!M.violations.empty()) {
         violated++;
         mj::Value rec = mj::Value::Obj(); rec.set("seed", mj::Value::Int(seed)).set("iteration", mj::Value::Int(it)).set("sockets", mj::Value::Bool(sockets));
         mj::Value va = mj::Value::Arr(); for (size_t k=0; k<M.violations.size(); k++) va.push(mj::Value::Str(M.violations[k])); rec.set("violations", va);
         mj::Value pl = mj::Value::Obj(); pl.set("msgs", mj::Value::Int(g_plan.nMsgs)).set("pre_start_sends", mj::Value::Int(g_plan.preSends)).set("rounds", mj::Value::Int(g_plan.rounds)).set("extra_sender_msgs", mj::Value::Int(g_plan.nExtra)).set("internal_loop_waits_with_deadline", mj::Value::Bool(g_plan.timedLoop)).set("internal_loop_kind", mj::Value::Int(g_loopKind)).set("owner_waits_with_deadline", mj::Value::Bool(g_plan.ownerTimed)).set("interrupted_selects", mj::Value::Int(g_plan.intr)); rec.set("plan", pl);
         mj::Value h = mj::Value::Arr(); for (size_t k=0; k<M.handled.size(); k++) h.push(mj::Value::Int(M.handled[k])); rec.set("handled", h);
         mj::Value q = mj::Value::Arr(); for (size_t k=0; k<M.enqInt.size(); k++) q.push(mj::Value::Int(M.enqInt[k])); rec.set("enqueued_for_internal", q);
         mj::Value r = mj::Value::Arr(); for (size_t k=0; k<M.replies.size(); k++) r.push(mj::Value::Int(M.replies[k])); rec.set("replies", r);
         if (violated <= 20) fprintf(out, "%s\n", mj::ToString(rec).c_str());
      }
      if ((g_record)&&(ok)) {
         fprintf(tf, "{\"e\":\"Reset\",\"tl\":%d}\n", g_loopKind);
         for (size_t k=0; k<g_trace.size(); k++) {const TraceLine & l = g_trace[k]; fprintf(tf, "{\"e\":\"%s\",\"t\":\"%c\",\"d\":\"%s\",\"a\":%ld,\"b\":%ld,\"c\":%ld}\n", l.e.c_str(), l.t, (l.d == 0) ? "int" : ((l.d == 1) ? "own" : "none"), l.a, l.b, l.c);}
         tracesWritten++; traceLines += (long) g_trace.size()+1;
      }
      if (!ok) {for (size_t k=0; k<ths.size(); k++) ths[k].detach(); if ((stranded >= 10)||(vs::S.hung)) break;}     // parked for ever: leak them and the Thread object (and stop before descriptors run out)
      else {for (size_t k=0; k<ths.size(); k++) ths[k].join(); delete g_t;}
      vs::Deactivate();
      if (violated >= 25) break;
   }
   mj::Value sum = mj::Value::Obj();
   sum.set("summary", mj::Value::Bool(true)).set("executions", mj::Value::Int(execs)).set("distinct_plans", mj::Value::Int((int64_t) distinct.size())).set("violated", mj::Value::Int(violated)).set("stranded", mj::Value::Int(stranded))
      .set("events", mj::Value::Int(nevents)).set("yields", mj::Value::Int((int64_t) ysteps)).set("traces_written", mj::Value::Int(tracesWritten)).set("trace_lines", mj::Value::Int(traceLines));
   fprintf(out, "%s\n", mj::ToString(sum).c_str()); fclose(out); if (tf) fclose(tf);
   printf("%s\n", mj::ToString(sum).c_str()); fflush(stdout);
   if ((stranded > 0)||(vs::S.hung)) _exit(0);    // parked / blocked threads cannot be joined
   return 0;
}
