// C04 / C13 conformance harness: an in-process ReflectServer with StorageReflectSession sessions over socket pairs, pumped
// single-threadedly with ServerProcessLoop(0).  Every client keeps (a) a mirror of the node tree built from the
// PR_RESULT_DATAITEMS Messages it receives (removals first, then sets) and (b) index mirrors built from the
// PR_RESULT_INDEXUPDATED opcodes.  After EVERY command the clauses of TreeAbs / IndexAbs are evaluated on the clients'
// reconstructions AND directly on the server's state (walk of GetGlobalRoot(), DataNode::GetSubscribers(), GetIndex()).
//
//   refl replay   <behaviours.ndjson> <report.ndjson>
//        every line is one behaviour of spec/Reflector/SubsImpl.tla or IndexImpl.tla: {"id", "sessions": [...], "steps": [{"cmd": {...},
//        "exp": expected mirrors, ...}]}.  The commands are executed on a fresh server; differences between the specification's
//        expectation and the code are DRIFT unless a property clause fails too (VIOLATION).
//   refl explore  <c04|c13> <histories> <commands> <seed> <report.ndjson> [<trace.ndjson> <ntraces>]
//        seeded random histories (3-4 sessions, larger name sets, BATCH Messages, wildcard removals, disconnect / reconnect, quiet
//        flags, ordered inserts / reorders / clones / restores), the same oracle after every command; the first <ntraces>
//        histories are logged command by command with the update Messages every client received, for validation by TLC
//        (TreeTrace.tla / IndexTrace.tla).
//   refl directed <report.ndjson>
//        the directed cases: F27 (known finding: aliased subscription spellings), F34 (repaired; judged normally), set-then-remove
//        inside one handler.
//
// Protected operations (CloneDataNodeSubtree, SaveNodeTreeToMessage / RestoreNodeTreeFromMessage, several SetDataNode /
// RemoveDataNodes calls in one handler) are executed from INSIDE MessageReceivedFromGateway of the session subclass on private
// what-codes, exactly as a server-side subclass would: outside a handler the subscriber updates would stay unflushed.
// No private member of the library is touched: the harness uses the public API and, from the session subclass, the protected one
// (a renaming of private members cannot break it; checks build it with vlib.make_with_fallback all the same).  The generated-name
// counter of a new DataNode starts at 0 since the repair of F40 (DataNode::Init), which is what IndexImpl assumes.
#include "reflector/ReflectServer.h"
#include "reflector/StorageReflectSession.h"
#include "reflector/StorageReflectConstants.h"
#include "iogateway/MessageIOGateway.h"
#include "dataio/TCPSocketDataIO.h"
#include "regex/QueryFilter.h"
#include "regex/StringMatcher.h"
#include "system/SetupSystem.h"
#include "util/NetworkUtilityFunctions.h"
#include "mjson.h"
#include <map>
#include <set>
#include <vector>
#include <string>
#include <random>
#include <algorithm>
#include <signal.h>
#include <unistd.h>
using namespace muscle;
typedef mj::Value J;
typedef std::vector<std::string> SV;

enum {WHAT_CLONE = 0x434c4f4e, WHAT_SAVERESTORE = 0x53415645, WHAT_MULTI = 0x4d554c54};
static const char * REMOVE_FROM_INDEX = PR_NAME_REMOVE_FROM_INDEX;

class TSession : public StorageReflectSession
{
public:
   DataNode & Root() {return GetGlobalRoot();}
   String MyRoot() const {return GetSessionRootPath();}
   virtual void MessageReceivedFromGateway(const MessageRef & msg, void * ud)
   {
      if (msg()->what == WHAT_CLONE) { DataNode * n = GetDataNode(msg()->GetString("f")); if (n) (void) CloneDataNodeSubtree(*n, msg()->GetString("t")); }
      else if (msg()->what == WHAT_SAVERESTORE)
      {
         DataNode * n = GetDataNode(msg()->GetString("f"));
         if (n) { Message m; if (SaveNodeTreeToMessage(m, n, "", true).IsOK()) (void) RestoreNodeTreeFromMessage(m, msg()->GetString("t"), true); }
      }
      else if (msg()->what == WHAT_MULTI)
      {
         MessageRef sub;
         for (int32 i=0; msg()->FindMessage("ops", i, sub).IsOK(); i++)
         {
            if (sub()->what == 1) (void) SetDataNode(sub()->GetString("p"), GetMessageFromPool((uint32) sub()->GetInt32("v")));
                             else (void) RemoveDataNodes(sub()->GetString("k"));
         }
      }
      else StorageReflectSession::MessageReceivedFromGateway(msg, ud);
   }
};

// ------------------------------------------------------------------------------------------------------------
// small helpers
static SV Split(const std::string & p, char sep) { SV v; size_t b=0; while(true) { size_t s=p.find(sep,b); v.push_back(p.substr(b, s==std::string::npos?std::string::npos:s-b)); if (s==std::string::npos) break; b=s+1; } return v; }
// the alternatives of one clause of a path pattern: split at unescaped commas, backslash escapes removed ("q\\(1\\)" names the node q(1));
// the only wildcard generated is a clause that is exactly "*"
static SV ClauseAlts(const std::string & pat)
{
   SV alts; std::string cur;
   for (size_t i=0; i<pat.size(); i++) { if ((pat[i] == '\\')&&(i+1 < pat.size())) cur += pat[++i]; else if (pat[i] == ',') { alts.push_back(cur); cur.clear(); } else cur += pat[i]; }
   alts.push_back(cur); return alts;
}
static bool ClauseMatch(const std::string & pat, const std::string & s) { if (pat == "*") return true; SV alts = ClauseAlts(pat); for (size_t i=0; i<alts.size(); i++) if (alts[i] == s) return true; return false; }
// spelling of a subscription path: relative spellings get */*/ prepended; (path) is an absolute node path "/host/id/a/b"
static bool PathMatch(const std::string & spelling, const std::string & path)
{
   if ((path.size() < 2)||(spelling.empty())) return false;
   SV pc = Split(spelling[0]=='/' ? spelling.substr(1) : "*/*/"+spelling, '/'), nc = Split(path.substr(1), '/');
   if (pc.size() != nc.size()) return false;
   for (size_t i=0; i<pc.size(); i++) if (!ClauseMatch(pc[i], nc[i])) return false;
   return true;
}
static std::string Join(const SV & v, const char * sep) { std::string r; for (size_t i=0; i<v.size(); i++) {if (i) r += sep; r += v[i];} return r; }
static J JStrs(const SV & v) { J a = J::Arr(); for (size_t i=0; i<v.size(); i++) a.push(J::Str(v[i])); return a; }
static MessageRef FilterMsg(int k) { WhatCodeQueryFilter f((uint32) k); MessageRef fm = GetMessageFromPool(); (void) f.SaveToArchive(*fm()); return fm; }

struct Sub { std::string sp; int f; };
struct Upd { SV rem; std::vector<std::pair<std::string,uint32> > set; };
struct IdxOp { char op; uint32 pos; std::string key; };
struct IdxUpd { std::string node; std::vector<IdxOp> ops; };

struct Client {
   std::string name;                      // the specification's name of this slot (W1, S, ...); random histories: base#incarnation, a new name after every disconnect
   std::string base; int inc;
   ConstSocketRef sock; MessageIOGateway * gw; QueueGatewayMessageReceiver rx;
   TSession * sess; uint32 sid; std::string root; bool connected;
   std::map<std::string,uint32> mirror;                   // absolute path -> payload (what-code)
   std::map<std::string,SV> idx;                          // node path -> index mirror
   std::set<std::string> untracked;                       // nodes whose index this client cannot know (C13 precondition)
   std::set<std::string> unclaimed;                       // nodes touched quietly since the client last heard of them (C04)
   std::vector<Sub> subs;                                 // the SUBSCRIBE: parameters as the client set them
   std::vector<Upd> upds; std::vector<IdxUpd> iupds;      // received during the current command
   std::set<std::string> snapshots;                       // nodes for which a 'c' opcode arrived during the current command
   SV idxFaults;                                          // index opcodes that cannot be applied (position beyond the mirror, name mismatch)
   Client() : inc(1), gw(NULL), sess(NULL), sid(0), connected(false) {}
   bool PathSubscribed(const std::string & p) const { for (size_t i=0; i<subs.size(); i++) if (PathMatch(subs[i].sp, p)) return true; return false; }
   bool Selected(const std::string & p, uint32 v) const { for (size_t i=0; i<subs.size(); i++) if ((PathMatch(subs[i].sp, p))&&((subs[i].f == 0)||((uint32)subs[i].f == v))) return true; return false; }
   bool Owns(const std::string & p) const { return (connected)&&((p == root)||(p.compare(0, root.size()+1, root+"/") == 0)); }
};

struct Node { uint32 what; bool hasIndex; SV index; SV kids; std::map<uint32,uint32> marks; DataNode * ptr; };
typedef std::map<std::string, Node> Tree;

static FILE * g_report = NULL;
static std::string g_context;
static long g_commands = 0, g_msgs = 0, g_checks = 0;
static void OnAlarm(int)
{
   char ctx[320]; size_t k = 0; for (; (k<sizeof(ctx)-1)&&(k<g_context.size()); k++) { const char ch = g_context[k]; ctx[k] = ((ch == '"')||(ch == '\\')||((unsigned char) ch < 0x20)) ? '\'' : ch; } ctx[k] = '\0';
   char b[600]; int n = snprintf(b, sizeof(b), "{\"case\":\"watchdog\",\"violations\":[\"the server did not come back within the watchdog time (hang): %s\"]}\n{\"summary\":true,\"hang\":true}\n", ctx);
   if (g_report) { fflush(g_report); if (write(fileno(g_report), b, n) < 0) {} }
   _exit(0);
}

// ------------------------------------------------------------------------------------------------------------
struct World {
   ReflectServer * srv;
   std::vector<Client*> cs;
   std::map<std::string, std::string> idToName;    // session id string -> specification name (dead incarnations: name~id)
   SV violations04, violations13, drift;
   Tree before;                                    // the server's state before the last command
   bool uniqueNames;                               // every incarnation of a client slot gets its own name (traces given to TLC: a path names one node for ever)
   int limit;                                      // the server's per-node child limit (0 = none)
   World() : srv(NULL), uniqueNames(false), limit(0) {}
   ~World() { Close(); }

   void Open(const SV & names, int childLimit = 0)      // childLimit: PR_NAME_MAX_CHILDREN_PER_NODE of the server (muscled maxchildrenpernode=N), 0 = none
   {
      srv = new ReflectServer; srv->SetDoLogging(false); limit = childLimit;
      if (childLimit > 0) (void) srv->GetCentralState().AddInt32(PR_NAME_MAX_CHILDREN_PER_NODE, childLimit);
      for (size_t i=0; i<names.size(); i++) { Client * c = new Client; c->base = names[i]; c->name = uniqueNames ? (names[i] + "#1") : names[i]; cs.push_back(c); }
   }
   void Close()
   {
      if (srv == NULL) return;
      for (size_t i=0; i<cs.size(); i++) if (cs[i]->gw) { cs[i]->gw->SetDataIO(DataIORef()); cs[i]->sock.Reset(); }
      Pump();
      srv->Cleanup();
      for (size_t i=0; i<cs.size(); i++) { delete cs[i]->gw; delete cs[i]; }
      cs.clear(); delete srv; srv = NULL;
   }
   Client * ByName(const std::string & n) { for (size_t i=0; i<cs.size(); i++) if (cs[i]->name == n) return cs[i]; return NULL; }

   void Connect(Client & c)
   {
      ConstSocketRef a, b; (void) CreateConnectedSocketPair(a, b, false);
      TSession * s = new TSession; AbstractReflectSessionRef ref(s);
      (void) srv->AddNewSession(ref, a);
      delete c.gw; c.gw = new MessageIOGateway; c.rx.GetMessages().Clear();
      c.sock = b; c.gw->SetDataIO(DataIORef(new TCPSocketDataIO(b, false)));
      c.sess = s; c.sid = s->GetSessionID(); c.root = s->MyRoot()(); c.connected = true;
      c.mirror.clear(); c.idx.clear(); c.untracked.clear(); c.unclaimed.clear(); c.subs.clear();
      for (std::map<std::string,std::string>::iterator it = idToName.begin(); it != idToName.end(); ++it) if (it->second == c.name) it->second = c.name + "~" + it->first;
      idToName[s->GetSessionIDString()()] = c.name;
   }
   void Disconnect(Client & c) { c.gw->SetDataIO(DataIORef()); c.sock.Reset(); c.connected = false; c.sess = NULL; c.subs.clear(); c.mirror.clear(); c.idx.clear(); c.untracked.clear(); c.unclaimed.clear(); }

   // "/host/id/a/b" -> [name, a, b]
   J SpecPath(const std::string & p) const
   {
      SV nc = Split(p.substr(1), '/'); J a = J::Arr();
      if (nc.size() >= 2) { std::map<std::string,std::string>::const_iterator it = idToName.find(nc[1]); a.push(J::Str(it == idToName.end() ? ("?"+nc[1]) : it->second)); }
      for (size_t i=2; i<nc.size(); i++) a.push(J::Str(nc[i]));
      return a;
   }
   std::string SpecPathStr(const std::string & p) const { J a = SpecPath(p); std::string r; for (size_t i=0; i<a.a.size(); i++) {if (i) r += "/"; r += a.a[i].s;} return r; }

   // --------------------------------------------------------------------------------------------------------
   void Receive(Client & c)
   {
      if ((!c.connected)||(c.gw == NULL)) return;
      while(c.gw->DoInput(c.rx).GetByteCount() > 0) {}
      MessageRef m;
      while(c.rx.GetMessages().RemoveHead(m).IsOK())
      {
         g_msgs++;
         if (m()->what == PR_RESULT_DATAITEMS)
         {
            Upd u; const String * r;
            for (int i=0; m()->FindString(PR_NAME_REMOVED_DATAITEMS, i, &r).IsOK(); i++) u.rem.push_back(r->Cstr());
            for (MessageFieldNameIterator it = m()->GetFieldNameIterator(B_MESSAGE_TYPE); it.HasData(); it++) { MessageRef sub; for (int i=0; m()->FindMessage(it.GetFieldName(), i, sub).IsOK(); i++) u.set.push_back(std::make_pair(std::string(it.GetFieldName()()), sub()->what)); }
            // the client protocol: removals first, then sets
            for (size_t i=0; i<u.rem.size(); i++) { c.mirror.erase(u.rem[i]); c.unclaimed.erase(u.rem[i]); }
            for (size_t i=0; i<u.set.size(); i++) { c.mirror[u.set[i].first] = u.set[i].second; c.unclaimed.erase(u.set[i].first); }
            c.upds.push_back(u);
         }
         else if (m()->what == PR_RESULT_INDEXUPDATED)
         {
            for (MessageFieldNameIterator it = m()->GetFieldNameIterator(B_STRING_TYPE); it.HasData(); it++)
            {
               IdxUpd iu; iu.node = it.GetFieldName()(); const String * s;
               SV & v = c.idx[iu.node];
               for (int i=0; m()->FindString(it.GetFieldName(), i, &s).IsOK(); i++)
               {
                  const char * t = s->Cstr(); IdxOp o; o.op = t[0]; o.pos = 0;
                  if (o.op != INDEX_OP_CLEARED) { o.pos = (uint32) atol(t+1); const char * colon = strchr(t, ':'); o.key = colon ? colon+1 : ""; }
                  iu.ops.push_back(o);
                  if (o.op == INDEX_OP_CLEARED) { v.clear(); c.untracked.erase(iu.node); c.snapshots.insert(iu.node); continue; }
                  if (c.untracked.count(iu.node)) continue;
                  char b[300];
                  if (o.op == INDEX_OP_ENTRYINSERTED)
                  {
                     if (o.pos > v.size()) { snprintf(b, sizeof(b), "%s: index of %s: insert of %s at position %u beyond the replayed length %u", c.name.c_str(), SpecPathStr(iu.node).c_str(), o.key.c_str(), o.pos, (unsigned) v.size()); c.idxFaults.push_back(b); v.push_back(o.key); }
                     else v.insert(v.begin()+o.pos, o.key);
                  }
                  else if (o.op == INDEX_OP_ENTRYREMOVED)
                  {
                     if ((o.pos >= v.size())||(v[o.pos] != o.key)) { snprintf(b, sizeof(b), "%s: index of %s: removal of %s at position %u does not fit the replayed index [%s]", c.name.c_str(), SpecPathStr(iu.node).c_str(), o.key.c_str(), o.pos, Join(v, " ").c_str()); c.idxFaults.push_back(b); }
                     else v.erase(v.begin()+o.pos);
                  }
                  else { snprintf(b, sizeof(b), "%s: unknown index opcode '%c'", c.name.c_str(), o.op); c.idxFaults.push_back(b); }
               }
               c.iupds.push_back(iu);
            }
         }
      }
   }
   void Pump()
   {
      int idle = 0;
      for (int round=0; (round<400)&&(idle<2); round++)
      {
         bool act = false;
         for (size_t i=0; i<cs.size(); i++) if ((cs[i]->gw)&&(cs[i]->connected)) { int g=0; while((cs[i]->gw->HasBytesToOutput())&&(g++ < 1000)) { if (cs[i]->gw->DoOutput().GetByteCount() <= 0) break; act = true; } }
         (void) srv->ServerProcessLoop(0);
         for (size_t i=0; i<cs.size(); i++) { size_t a = cs[i]->upds.size()+cs[i]->iupds.size(); uint32 q = cs[i]->rx.GetMessages().GetNumItems(); Receive(*cs[i]); if ((cs[i]->upds.size()+cs[i]->iupds.size() != a)||(q)) act = true; }
         if (act) idle = 0; else idle++;
         if (round < 2) idle = 0;      // the server needs a pass to notice a closed socket / to flush its output
      }
   }
   void Send(Client & c, const MessageRef & m) { if ((c.connected)&&(c.gw)) (void) c.gw->AddOutgoingMessage(m); }

   // --------------------------------------------------------------------------------------------------------
   // the server's state
   void WalkAux(DataNode & n, Tree & t)
   {
      String np; (void) n.GetNodePath(np);
      Node & x = t[np()];
      x.what = n.GetData()() ? n.GetData()()->what : 0; x.ptr = &n;
      x.hasIndex = (n.GetIndex() != NULL);
      if (n.GetIndex()) for (uint32 i=0; i<n.GetIndex()->GetNumItems(); i++) x.index.push_back((*n.GetIndex())[i]()->GetNodeName()());
      for (ConstHashtableIterator<uint32,uint32> it(n.GetSubscribers()); it.HasData(); it++) x.marks[it.GetKey()] = it.GetValue();
      for (DataNodeRefIterator it = n.GetChildIterator(); it.HasData(); it++) { x.kids.push_back(it.GetKey()->Cstr()); }
      for (DataNodeRefIterator it = n.GetChildIterator(); it.HasData(); it++) WalkAux(*it.GetValue()(), t);
   }
   void Walk(Tree & t) { t.clear(); for (size_t i=0; i<cs.size(); i++) if ((cs[i]->connected)&&(cs[i]->sess)) { WalkAux(cs[i]->sess->Root(), t); return; } }
   static int Depth(const std::string & p) { if (p == "/") return 0; int d = 0; for (size_t i=0; i<p.size(); i++) if (p[i] == '/') d++; return d; }

   void V04(const std::string & s) { if (violations04.size() < 6) violations04.push_back(s); }
   void V13(const std::string & s) { if (violations13.size() < 6) violations13.push_back(s); }

   // TreeAbs and IndexAbs, evaluated after every command
   void Check(const Tree & t)
   {
      g_checks++;
      char b[500];
      for (size_t ci=0; ci<cs.size(); ci++)
      {
         Client & c = *cs[ci]; if (!c.connected) continue;
         // (1) mirror restricted to other sessions' nodes = the nodes its subscriptions select, with the current payload
         for (Tree::const_iterator it = t.begin(); it != t.end(); ++it)
         {
            const std::string & p = it->first;
            if ((Depth(p) < 2)||(c.Owns(p))||(c.unclaimed.count(p))) continue;
            const bool want = c.Selected(p, it->second.what);
            std::map<std::string,uint32>::const_iterator m = c.mirror.find(p);
            if ((want)&&(m == c.mirror.end())) { snprintf(b, sizeof(b), "mirror of %s misses %s=%u which its subscriptions select", c.name.c_str(), SpecPathStr(p).c_str(), it->second.what); V04(b); }
            else if ((want)&&(m->second != it->second.what)) { snprintf(b, sizeof(b), "mirror of %s holds stale %s=%u, the server has %u", c.name.c_str(), SpecPathStr(p).c_str(), m->second, it->second.what); V04(b); }
            else if ((!want)&&(m != c.mirror.end())) { snprintf(b, sizeof(b), "mirror of %s holds %s=%u which none of its subscriptions selects (server payload %u)", c.name.c_str(), SpecPathStr(p).c_str(), m->second, it->second.what); V04(b); }
         }
         for (std::map<std::string,uint32>::const_iterator m = c.mirror.begin(); m != c.mirror.end(); ++m)
            if ((!c.Owns(m->first))&&(!c.unclaimed.count(m->first))&&(t.find(m->first) == t.end())) { snprintf(b, sizeof(b), "mirror of %s holds %s=%u, a node that does not exist on the server", c.name.c_str(), SpecPathStr(m->first).c_str(), m->second); V04(b); }
         // (2) index mirrors of the tracked nodes = the server's index
         for (size_t i=0; i<c.idxFaults.size(); i++) V13(c.idxFaults[i]);
         c.idxFaults.clear();
         for (Tree::const_iterator it = t.begin(); it != t.end(); ++it)
         {
            const std::string & p = it->first;
            if ((Depth(p) < 2)||(c.untracked.count(p))||(!c.PathSubscribed(p))) continue;
            std::map<std::string,SV>::const_iterator m = c.idx.find(p);
            const SV & mine = (m == c.idx.end()) ? SV() : m->second;
            if (mine != it->second.index) { snprintf(b, sizeof(b), "index of %s replayed by %s is [%s], the server's is [%s]", SpecPathStr(p).c_str(), c.name.c_str(), Join(mine, " ").c_str(), Join(it->second.index, " ").c_str()); V13(b); }
         }
         for (std::map<std::string,SV>::const_iterator m = c.idx.begin(); m != c.idx.end(); ++m)
            if ((!m->second.empty())&&(!c.untracked.count(m->first))&&(c.PathSubscribed(m->first))&&(t.find(m->first) == t.end())) { snprintf(b, sizeof(b), "index of %s replayed by %s is [%s] but the node does not exist on the server", SpecPathStr(m->first).c_str(), c.name.c_str(), Join(m->second, " ").c_str()); V13(b); }
      }
      // (3) the server's own state: subscriber marks = recomputed path-match counts; index entries are children, none twice
      for (Tree::const_iterator it = t.begin(); it != t.end(); ++it)
      {
         const std::string & p = it->first; const Node & n = it->second;
         std::map<uint32,uint32> want;
         for (size_t ci=0; ci<cs.size(); ci++) if (cs[ci]->connected) { uint32 cnt = 0; for (size_t k=0; k<cs[ci]->subs.size(); k++) if (PathMatch(cs[ci]->subs[k].sp, p)) cnt++; if (cnt) want[cs[ci]->sid] = cnt; }
         if (want != n.marks)
         {
            bool sameSet = (want.size() == n.marks.size()); if (sameSet) for (std::map<uint32,uint32>::const_iterator w = want.begin(); w != want.end(); ++w) if (!n.marks.count(w->first)) sameSet = false;
            std::string a, e; for (std::map<uint32,uint32>::const_iterator w = n.marks.begin(); w != n.marks.end(); ++w) {snprintf(b, sizeof(b), "%u:%u ", w->first, w->second); a += b;} for (std::map<uint32,uint32>::const_iterator w = want.begin(); w != want.end(); ++w) {snprintf(b, sizeof(b), "%u:%u ", w->first, w->second); e += b;}
            snprintf(b, sizeof(b), "subscriber table of %s is {%s}, the sessions' subscriptions give {%s}", SpecPathStr(p).empty() ? p.c_str() : SpecPathStr(p).c_str(), a.c_str(), e.c_str());
            if (sameSet) { if (drift.size() < 6) drift.push_back(std::string("reference counts: ")+b); } else V04(b);
         }
         if (n.hasIndex)
         {
            std::set<std::string> seen;
            for (size_t i=0; i<n.index.size(); i++)
            {
               if (seen.count(n.index[i])) { snprintf(b, sizeof(b), "server index of %s lists %s twice: [%s]", SpecPathStr(p).c_str(), n.index[i].c_str(), Join(n.index, " ").c_str()); V13(b); }
               seen.insert(n.index[i]);
               if (std::find(n.kids.begin(), n.kids.end(), n.index[i]) == n.kids.end()) { snprintf(b, sizeof(b), "server index of %s lists %s which is not a child (children: %s)", SpecPathStr(p).c_str(), n.index[i].c_str(), Join(n.kids, " ").c_str()); V13(b); }
            }
         }
      }
   }

   // --------------------------------------------------------------------------------------------------------
   // commands
   static std::string RelPath(const J & q) { SV v; for (size_t i=0; i<q.a.size(); i++) v.push_back(q.a[i].s); return Join(v, "/"); }
   MessageRef BuildServerMessage(const J & cmd)      // the wire form of a data command (also used for the parts of a PR_COMMAND_BATCH)
   {
      const std::string op = cmd["op"].s; MessageRef m;
      if (op == "set")
      {
         m = GetMessageFromPool(PR_COMMAND_SETDATA);
         (void) m()->AddMessage(RelPath(cmd["q"]).c_str(), GetMessageFromPool((uint32) cmd["v"].i()));
         uint32 fl = 0;
         if (cmd["quiet"].truthy()) fl |= (1u<<SETDATANODE_FLAG_QUIET);
         if (cmd["idx"].truthy()) fl |= (1u<<SETDATANODE_FLAG_ADDTOINDEX);
         if (cmd["nocreate"].truthy()) fl |= (1u<<SETDATANODE_FLAG_DONTCREATENODE);
         if (cmd["nooverwrite"].truthy()) fl |= (1u<<SETDATANODE_FLAG_DONTOVERWRITEDATA);
         if (cmd["supersede"].truthy()) fl |= (1u<<SETDATANODE_FLAG_ENABLESUPERCEDE);
         if (fl) (void) m()->AddInt32(PR_NAME_FLAGS, (int32) fl);
      }
      else if (op == "remove")
      {
         m = GetMessageFromPool(PR_COMMAND_REMOVEDATA);
         if (cmd.has("keys")) for (size_t i=0; i<cmd["keys"].a.size(); i++) (void) m()->AddString(PR_NAME_KEYS, cmd["keys"].a[i].s.c_str());
                         else (void) m()->AddString(PR_NAME_KEYS, cmd["key"].s.c_str());
         if (cmd["quiet"].truthy()) (void) m()->AddBool(PR_NAME_REMOVE_QUIETLY, true);
      }
      else if (op == "insert")
      {
         m = GetMessageFromPool(PR_COMMAND_INSERTORDEREDDATA);
         (void) m()->AddString(PR_NAME_KEYS, cmd["key"].s.c_str());
         (void) m()->AddMessage(cmd["before"].s.c_str(), GetMessageFromPool((uint32) cmd["v"].i()));
      }
      else if (op == "reorder")
      {
         m = GetMessageFromPool(PR_COMMAND_REORDERDATA);
         (void) m()->AddString(cmd["path"].s.c_str(), cmd["before"].s.c_str());
      }
      else if (op == "multi")
      {
         m = GetMessageFromPool(WHAT_MULTI);
         for (size_t i=0; i<cmd["ops"].a.size(); i++)
         {
            const J & o = cmd["ops"].a[i]; MessageRef s;
            if (o["op"].s == "set") { s = GetMessageFromPool(1); (void) s()->AddString("p", RelPath(o["q"]).c_str()); (void) s()->AddInt32("v", (int32) o["v"].i()); }
                               else { s = GetMessageFromPool(2); (void) s()->AddString("k", o["key"].s.c_str()); }
            (void) m()->AddMessage("ops", s);
         }
      }
      else if (op == "subscribe")
      {
         m = GetMessageFromPool(PR_COMMAND_SETPARAMETERS);
         for (size_t i=0; i<cmd["subs"].a.size(); i++)
         {
            const String fn = String("SUBSCRIBE:") + cmd["subs"].a[i]["sp"].s.c_str(); const int f = (int) cmd["subs"].a[i]["f"].i();
            if (f) (void) m()->AddMessage(fn, FilterMsg(f)); else (void) m()->AddBool(fn, true);
         }
         if (cmd["quiet"].truthy()) (void) m()->AddBool(PR_NAME_SUBSCRIBE_QUIETLY, true);
      }
      else if (op == "getdata")
      {
         m = GetMessageFromPool(PR_COMMAND_GETDATA);
         (void) m()->AddString(PR_NAME_KEYS, cmd["sp"].s.c_str());
         if (cmd["f"].i()) (void) m()->AddMessage(PR_NAME_FILTERS, FilterMsg((int) cmd["f"].i()));
      }
      else if (op == "unsubscribe") { m = GetMessageFromPool(PR_COMMAND_REMOVEPARAMETERS); (void) m()->AddString(PR_NAME_KEYS, String("SUBSCRIBE:") + EscapeRegexTokens(cmd["sp"].s.c_str())); }
      else if (op == "maxitems") { m = GetMessageFromPool(PR_COMMAND_SETPARAMETERS); (void) m()->AddInt32(PR_NAME_MAX_UPDATE_MESSAGE_ITEMS, (int32) cmd["n"].i()); }
      else if (op == "clone")   { m = GetMessageFromPool(WHAT_CLONE);       (void) m()->AddString("f", cmd["from"].s.c_str()); (void) m()->AddString("t", cmd["to"].s.c_str()); }
      else if (op == "restore") { m = GetMessageFromPool(WHAT_SAVERESTORE); (void) m()->AddString("f", cmd["from"].s.c_str()); (void) m()->AddString("t", cmd["to"].s.c_str()); }
      else if (op == "batch")
      {
         m = GetMessageFromPool(PR_COMMAND_BATCH);
         for (size_t i=0; i<cmd["cmds"].a.size(); i++) { MessageRef s = BuildServerMessage(cmd["cmds"].a[i]); if (s()) (void) m()->AddMessage(PR_NAME_KEYS, s); }
      }
      return m;
   }

   // executes one command, pumps until the server is quiescent, applies the received updates and the client-side rules
   // ---- commands that change the client's own view (subscriptions, explicit requests): wire form, and the client-side rules around them
   static bool IsClientOp(const std::string & op) { return (op == "subscribe")||(op == "getdata")||(op == "unsubscribe")||(op == "maxitems"); }
   struct Pre { std::vector<Sub> add; std::set<std::string> needSnapshot, mustSnapshot, quietNew, newlyMatched; };

   // before the command is sent (ref = the server's tree at the moment the command will be executed)
   void ClientPre(Client & c, const J & cmd, const Tree & ref, Pre & pre, bool markUntracked = true)
   {
      const std::string op = cmd["op"].s; const bool quiet = cmd["quiet"].truthy();
      if (op == "subscribe")
      {
         for (size_t i=0; i<cmd["subs"].a.size(); i++) { Sub s; s.sp = cmd["subs"].a[i]["sp"].s; s.f = (int) cmd["subs"].a[i]["f"].i(); pre.add.push_back(s); }
         // C13 precondition: a node that comes into view with a non-empty index is tracked only once its snapshot has arrived
         // quietNew: what a quietly ADDED subscription matches - the client is not told (a quiet filter change of an existing one is reported in full)
         for (Tree::const_iterator it = ref.begin(); it != ref.end(); ++it)
         {
            const std::string & p = it->first; if (Depth(p) < 2) continue;
            bool nowPath = false, sel = false;
            for (size_t i=0; i<pre.add.size(); i++) if (PathMatch(pre.add[i].sp, p)) { nowPath = true; if ((pre.add[i].f == 0)||((uint32)pre.add[i].f == it->second.what)) sel = true; }
            if (!nowPath) continue;
            if (quiet) for (size_t i=0; i<pre.add.size(); i++) if (PathMatch(pre.add[i].sp, p)) { bool isNew = true; for (size_t k=0; k<c.subs.size(); k++) if (c.subs[k].sp == pre.add[i].sp) isNew = false; if (isNew) pre.quietNew.insert(p); }
            if (!c.PathSubscribed(p)) { pre.newlyMatched.insert(p); c.untracked.erase(p); if (!it->second.index.empty()) pre.needSnapshot.insert(p); }     // coming into view: decided afresh
            if ((sel)&&(!quiet)&&(!it->second.index.empty())&&(!c.Owns(p))) pre.mustSnapshot.insert(p);
         }
         for (size_t i=0; i<pre.add.size(); i++) { bool found = false; for (size_t k=0; k<c.subs.size(); k++) if (c.subs[k].sp == pre.add[i].sp) { c.subs[k].f = pre.add[i].f; found = true; } if (!found) c.subs.push_back(pre.add[i]); }
         if (markUntracked) for (std::set<std::string>::iterator it = pre.needSnapshot.begin(); it != pre.needSnapshot.end(); ++it) { c.untracked.insert(*it); c.idx.erase(*it); }
      }
      else if (op == "getdata")
      {
         const int f = (int) cmd["f"].i();
         for (Tree::const_iterator it = ref.begin(); it != ref.end(); ++it)
            if ((Depth(it->first) >= 2)&&(PathMatch(cmd["sp"].s, it->first))&&((f == 0)||((uint32)f == it->second.what))&&(!it->second.index.empty())&&(!c.Owns(it->first))) pre.mustSnapshot.insert(it->first);
      }
      else if (op == "unsubscribe") { for (size_t k=0; k<c.subs.size(); k++) if (c.subs[k].sp == cmd["sp"].s) { c.subs.erase(c.subs.begin()+k); break; } }
   }
   // after the server is quiescent again
   void ClientPost(Client & c, const J & cmd, Pre & pre, bool judgeSnapshot)
   {
      const std::string op = cmd["op"].s; char b[300];
      if (op == "subscribe")
      {
         for (std::set<std::string>::iterator it = pre.quietNew.begin(); it != pre.quietNew.end(); ++it) c.unclaimed.insert(*it);
         if (judgeSnapshot) for (std::set<std::string>::iterator it = pre.mustSnapshot.begin(); it != pre.mustSnapshot.end(); ++it)
            if (!c.snapshots.count(*it)) { snprintf(b, sizeof(b), "%s subscribed to %s (selected, index not empty) but the initial result carries no index snapshot", c.name.c_str(), SpecPathStr(*it).c_str()); V13(b); }
      }
      else if (op == "getdata")
      {
         if (judgeSnapshot) for (std::set<std::string>::iterator it = pre.mustSnapshot.begin(); it != pre.mustSnapshot.end(); ++it)
            if (!c.snapshots.count(*it)) { snprintf(b, sizeof(b), "%s requested %s (index not empty) but the result carries no index snapshot", c.name.c_str(), SpecPathStr(*it).c_str()); V13(b); }
         // the client keeps only what its subscriptions select (the same rule as after removing a subscription)
         for (std::map<std::string,uint32>::iterator it = c.mirror.begin(); it != c.mirror.end(); ) { if (c.Selected(it->first, it->second)) ++it; else c.mirror.erase(it++); }
         // a snapshot of a node the client is not path-subscribed to is not followed by updates: not tracked
         for (std::set<std::string>::iterator it = c.snapshots.begin(); it != c.snapshots.end(); ++it) if (!c.PathSubscribed(*it)) c.idx.erase(*it);
      }
      else if (op == "unsubscribe")
      {
         // client protocol (ii): drop what no remaining subscription selects (path and filter, on the mirrored payload)
         for (std::map<std::string,uint32>::iterator it = c.mirror.begin(); it != c.mirror.end(); ) { if (c.Selected(it->first, it->second)) ++it; else c.mirror.erase(it++); }
         for (std::map<std::string,SV>::iterator it = c.idx.begin(); it != c.idx.end(); ) { if (c.PathSubscribed(it->first)) ++it; else c.idx.erase(it++); }
         for (std::set<std::string>::iterator it = c.untracked.begin(); it != c.untracked.end(); ) { if (c.PathSubscribed(*it)) ++it; else c.untracked.erase(it++); }
         for (std::set<std::string>::iterator it = c.unclaimed.begin(); it != c.unclaimed.end(); ) { if (c.PathSubscribed(*it)) ++it; else c.unclaimed.erase(it++); }
      }
   }
   // a subscribe that is the LAST part of a BATCH: the tree it saw is the tree after the batch; nothing but its own initial result
   // can have arrived for the nodes it brings into view, so the tracking decision can be taken afterwards
   void ClientDeferred(Client & c, const J & cmd, const Tree & after)
   {
      const std::string op = cmd["op"].s;
      if (op == "subscribe")
      {
         Pre pre; ClientPre(c, cmd, after, pre, false);
         for (std::set<std::string>::iterator it = pre.needSnapshot.begin(); it != pre.needSnapshot.end(); ++it) if (!c.snapshots.count(*it)) { c.untracked.insert(*it); c.idx.erase(*it); }   // came into view with entries and without a snapshot
         for (std::set<std::string>::iterator it = pre.quietNew.begin(); it != pre.quietNew.end(); ++it) c.unclaimed.insert(*it);
      }
      else { Pre pre; ClientPre(c, cmd, after, pre); ClientPost(c, cmd, pre, false); }
   }

   // executes one command, pumps until the server is quiescent, applies the received updates and the client-side rules
   void Exec(const J & cmd)
   {
      g_commands++;
      const std::string op = cmd["op"].s;
      Client * cp = ByName(cmd["s"].s);
      for (size_t i=0; i<cs.size(); i++) { cs[i]->upds.clear(); cs[i]->iupds.clear(); cs[i]->snapshots.clear(); }
      before.clear();
      if (cp == NULL) return;
      Client & c = *cp;
      if (op == "connect") { Walk(before); if (!c.connected) { Connect(c); Pump(); } return; }
      if (!c.connected) return;
      if (op == "disconnect") { Walk(before); Disconnect(c); Pump(); if (uniqueNames) c.name = c.base + "#" + std::to_string((long long) ++c.inc); return; }

      Walk(before);
      const bool quiet = cmd["quiet"].truthy();
      if (IsClientOp(op))
      {
         Pre pre; ClientPre(c, cmd, before, pre);
         Send(c, BuildServerMessage(cmd)); Pump();
         ClientPost(c, cmd, pre, true);
         return;
      }
      MessageRef m = BuildServerMessage(cmd);
      if (m() == NULL) return;
      // a BATCH may carry commands of the client-side kind as its FIRST part (executed on the tree as it is now) and as its LAST part
      const J * first = NULL; const J * lastPart = NULL; Pre pre;
      if (op == "batch")
      {
         const std::vector<J> & parts = cmd["cmds"].a;
         if ((!parts.empty())&&(IsClientOp(parts[0]["op"].s))) first = &parts[0];
         if ((parts.size() > 1)&&(IsClientOp(parts[parts.size()-1]["op"].s))) lastPart = &parts[parts.size()-1];
         if (first) ClientPre(c, *first, before, pre);
      }
      Send(c, m); Pump();
      if (lastPart) { Tree after; Walk(after); ClientDeferred(c, *lastPart, after); }
      if (first) ClientPost(c, *first, pre, false);      // (the pruning rules look at the subscriptions as they are after the whole batch)
      // quiet operations: what they touched is outside the claims until the clients hear of it again
      bool anyQuiet = quiet;
      if (op == "batch") for (size_t i=0; i<cmd["cmds"].a.size(); i++) if ((cmd["cmds"].a[i]["quiet"].truthy())&&(!IsClientOp(cmd["cmds"].a[i]["op"].s))) anyQuiet = true;
      if (anyQuiet)
      {
         Tree after; Walk(after);
         std::set<std::string> touched;
         for (Tree::const_iterator it = before.begin(); it != before.end(); ++it) { Tree::const_iterator a = after.find(it->first); if ((a == after.end())||(a->second.what != it->second.what)||(a->second.ptr != it->second.ptr)) touched.insert(it->first); if (((a != after.end())&&(a->second.index != it->second.index))||((a == after.end())&&(!it->second.index.empty()))) touched.insert(it->first+"\x01"); }
         for (Tree::const_iterator it = after.begin(); it != after.end(); ++it) if (before.find(it->first) == before.end()) touched.insert(it->first);
         // a quiet set of an existing node with the same payload changes nothing visible; a quiet set is named by the command too
         if (op == "set") touched.insert(c.root + "/" + RelPath(cmd["q"]));
         if (op == "batch") for (size_t i=0; i<cmd["cmds"].a.size(); i++) if ((cmd["cmds"].a[i]["op"].s == "set")&&(cmd["cmds"].a[i]["quiet"].truthy())) touched.insert(c.root + "/" + RelPath(cmd["cmds"].a[i]["q"]));
         for (std::set<std::string>::iterator it = touched.begin(); it != touched.end(); ++it)
            for (size_t k=0; k<cs.size(); k++) if (cs[k]->connected)
            {
               if ((!it->empty())&&((*it)[it->size()-1] == '\x01')) { std::string p = it->substr(0, it->size()-1); if (cs[k]->PathSubscribed(p)) { cs[k]->untracked.insert(p); cs[k]->idx.erase(p); } }
               else cs[k]->unclaimed.insert(*it);
            }
      }
   }

   // what every client received during the last command, in the specification's vocabulary (for the TLC trace)
   J Received()
   {
      J all = J::Obj();
      for (size_t i=0; i<cs.size(); i++)
      {
         Client & c = *cs[i]; if (!c.connected) continue;
         J us = J::Arr();
         for (size_t k=0; k<c.upds.size(); k++)
         {
            J u = J::Obj(); J rem = J::Arr(), set = J::Arr();
            for (size_t r=0; r<c.upds[k].rem.size(); r++) rem.push(SpecPath(c.upds[k].rem[r]));
            for (size_t r=0; r<c.upds[k].set.size(); r++) { J pr = J::Arr(); pr.push(SpecPath(c.upds[k].set[r].first)); pr.push(J::Int(c.upds[k].set[r].second)); set.push(pr); }
            u.set("rem", rem); u.set("set", set); us.push(u);
         }
         all.set(c.name, us);
      }
      return all;
   }
   J ReceivedIdx()
   {
      J all = J::Obj();
      for (size_t i=0; i<cs.size(); i++)
      {
         Client & c = *cs[i]; if (!c.connected) continue;
         J us = J::Arr();
         for (size_t k=0; k<c.iupds.size(); k++)
         {
            J u = J::Obj(); u.set("n", SpecPath(c.iupds[k].node)); J ops = J::Arr();
            for (size_t r=0; r<c.iupds[k].ops.size(); r++) { J o = J::Arr(); o.push(J::Str(std::string(1, c.iupds[k].ops[r].op))); o.push(J::Int(c.iupds[k].ops[r].pos)); o.push(J::Str(c.iupds[k].ops[r].key)); ops.push(o); }
            u.set("ops", ops); us.push(u);
         }
         all.set(c.name, us);
      }
      return all;
   }
};

static J Cmd2(const char * op, const std::string & s) { J c = J::Obj(); c.set("op", J::Str(op)); c.set("s", J::Str(s)); return c; }
static void Emit(const J & v) { std::string s = mj::ToString(v); fprintf(g_report, "%s\n", s.c_str()); }
static J JV(const SV & v) { return JStrs(v); }

// ------------------------------------------------------------------------------------------------------------
// replay of TLC-generated behaviours
static std::string PairKey(const J & path) { std::string r; for (size_t i=0; i<path.a.size(); i++) {if (i) r += "/"; r += path.a[i].s;} return r; }

static int Replay(const char * behFile, const char * repFile)
{
   FILE * in = fopen(behFile, "r"); if (in == NULL) { fprintf(stderr, "cannot open %s\n", behFile); return 2; }
   g_report = fopen(repFile, "w"); if (g_report == NULL) return 2;
   std::string line; long nb = 0, followed = 0, steps = 0, drifted = 0, violating = 0, expcmp = 0;
   while((mj::ReadLine(in, line))&&(violating < 25))
   {
      J b; if (!mj::Parse(line, b)) { fprintf(stderr, "bad behaviour line\n"); return 2; }
      nb++; alarm(60);
      World w; SV names; for (size_t i=0; i<b["sessions"].a.size(); i++) names.push_back(b["sessions"].a[i].s);
      w.Open(names, (int) b["maxkids"].i());
      const bool isIndex = (b["kind"].s == "index");
      J held; bool haveHeld = false;        // the first half of a two-command BATCH (IndexImpl: hold)
      for (size_t i=0; i<b["connect"].a.size(); i++) { Client * c = w.ByName(b["connect"].a[i].s); if (c) { w.Connect(*c); w.Pump(); } }
      SV dr; size_t si = 0; bool bad = false; J executed = J::Arr();
      for (; (si<b["steps"].a.size())&&(!bad); si++)
      {
         const J & st = b["steps"].a[si]; steps++;
         g_context = "behaviour " + std::to_string((long long) b["id"].i()) + " step " + std::to_string((long long) si) + " " + mj::ToString(st["cmd"]);
         if ((st["cmd"]["hold"].truthy())&&(si+1 < b["steps"].a.size())) { held = st["cmd"]; haveHeld = true; executed.push(J::Str("(held for the batch below)")); continue; }     // sent together with the next command; judged after both
         if (haveHeld) { J bc = Cmd2("batch", st["cmd"]["s"].s); J parts = J::Arr(); parts.push(held); parts.push(st["cmd"]); bc.set("cmds", parts); haveHeld = false; executed.push(bc); w.Exec(bc); }
         else { executed.push(st["cmd"]); w.Exec(st["cmd"]); }
         Tree t; w.Walk(t);
         w.Check(t);
         // the specification's expectation
         if (!isIndex)
         {
            for (size_t k=0; k<st["exp"].o.size(); k++)
            {
               Client * c = w.ByName(st["exp"].o[k].first); if ((c == NULL)||(!c->connected)) continue;
               std::set<std::string> unc; const J & u = st["unc"][c->name.c_str()]; for (size_t x=0; x<u.a.size(); x++) unc.insert(PairKey(u.a[x]));
               std::map<std::string,long> want, got;
               const J & e = st["exp"].o[k].second; for (size_t x=0; x<e.a.size(); x++) { std::string key = PairKey(e.a[x].a[0]); if (!unc.count(key)) want[key] = (long) e.a[x].a[1].i(); }
               for (std::map<std::string,uint32>::iterator m = c->mirror.begin(); m != c->mirror.end(); ++m) if (!c->Owns(m->first)) { std::string key = w.SpecPathStr(m->first); if (!unc.count(key)) got[key] = m->second; }
               expcmp++;
               // the number of update Messages (algorithm level; several operations in one handler may interleave sets and removals in another order)
               if ((st["cmd"]["op"].s != "multi")&&(st["nmsg"].has(c->name.c_str()))&&((size_t) st["nmsg"][c->name.c_str()].i() != c->upds.size()))
                  dr.push_back("step " + std::to_string((long long) si) + ": " + c->name + " received " + std::to_string((long long) c->upds.size()) + " update Messages, the specification expects " + std::to_string((long long) st["nmsg"][c->name.c_str()].i()));
               if (want != got)
               {
                  std::string a, x; char bb[100];
                  for (std::map<std::string,long>::iterator q = want.begin(); q != want.end(); ++q) {snprintf(bb, sizeof(bb), "%s=%ld ", q->first.c_str(), q->second); x += bb;}
                  for (std::map<std::string,long>::iterator q = got.begin(); q != got.end(); ++q) {snprintf(bb, sizeof(bb), "%s=%ld ", q->first.c_str(), q->second); a += bb;}
                  dr.push_back("step " + std::to_string((long long) si) + ": mirror of " + c->name + " is {" + a + "}, the specification expects {" + x + "}");
               }
            }
         }
         else
         {
            Client * o = w.ByName(st["owner"].s);
            for (size_t k=0; (o)&&(k<st["idx"].o.size()); k++)
            {
               const std::string np = o->root + "/" + st["idx"].o[k].first; SV want; const J & e = st["idx"].o[k].second; for (size_t x=0; x<e.a.size(); x++) want.push_back(e.a[x].s);
               Tree::iterator it = t.find(np); SV got = (it == t.end()) ? SV() : it->second.index; expcmp++;
               if (want != got) dr.push_back("step " + std::to_string((long long) si) + ": server index of " + st["idx"].o[k].first + " is [" + Join(got, " ") + "], the specification expects [" + Join(want, " ") + "]");
               SV wk; const J & ek = st["kids"][st["idx"].o[k].first.c_str()]; for (size_t x=0; x<ek.a.size(); x++) wk.push_back(ek.a[x].s);
               SV gk = (it == t.end()) ? SV() : it->second.kids; std::sort(gk.begin(), gk.end()); std::sort(wk.begin(), wk.end());
               if (wk != gk) dr.push_back("step " + std::to_string((long long) si) + ": children of " + st["idx"].o[k].first + " are [" + Join(gk, " ") + "], the specification expects [" + Join(wk, " ") + "]");
            }
            // (while the owner's session is away its node paths name nothing: the index mirrors are judged by Check() only)
            for (size_t k=0; (o)&&(o->connected)&&(k<st["imir"].o.size()); k++)
            {
               Client * c = w.ByName(st["imir"].o[k].first); if ((c == NULL)||(!c->connected)) continue;
               const J & per = st["imir"].o[k].second;
               for (size_t x=0; x<per.o.size(); x++)
               {
                  const std::string np = o->root + "/" + per.o[x].first; const J & e = per.o[x].second; expcmp++;
                  const bool specTracked = (e.type == J::ARR);
                  const bool codeTracked = (c->PathSubscribed(np))&&(!c->untracked.count(np));
                  if (specTracked != codeTracked) { dr.push_back("step " + std::to_string((long long) si) + ": " + c->name + (codeTracked ? " tracks " : " does not track ") + per.o[x].first + ", the specification says otherwise"); continue; }
                  if (!specTracked) continue;
                  SV want; for (size_t y=0; y<e.a.size(); y++) want.push_back(e.a[y].s);
                  SV got = c->idx.count(np) ? c->idx[np] : SV();
                  if (want != got) dr.push_back("step " + std::to_string((long long) si) + ": index of " + per.o[x].first + " replayed by " + c->name + " is [" + Join(got, " ") + "], the specification expects [" + Join(want, " ") + "]");
               }
            }
         }
         if ((!w.violations04.empty())||(!w.violations13.empty())||(!dr.empty())) bad = true;
      }
      alarm(0);
      if (bad)
      {
         J r = J::Obj(); r.set("behaviour", J::Int(b["id"].i())); r.set("kind", b["kind"]); r.set("step", J::Int((long) si-1));
         if (!w.violations04.empty()) r.set("violations04", JV(w.violations04));
         if (!w.violations13.empty()) r.set("violations13", JV(w.violations13));
         if ((!w.violations04.empty())||(!w.violations13.empty())) violating++;
         if (!dr.empty()) { r.set("drift", JV(dr)); drifted++; }
         if (!w.drift.empty()) r.set("countdrift", JV(w.drift));
         J cmds = J::Arr(); for (size_t k=0; k<executed.a.size(); k++) if (executed.a[k].type == J::OBJ) cmds.push(executed.a[k]); r.set("commands", cmds); r.set("sessions", b["sessions"]); r.set("maxkids", b["maxkids"]);
         Emit(r);
      }
      else { followed++; if (!w.drift.empty()) { J r = J::Obj(); r.set("behaviour", J::Int(b["id"].i())); r.set("countdrift", JV(w.drift)); Emit(r); drifted++; } }
   }
   J s = J::Obj(); s.set("summary", J::Bool(true)); s.set("behaviours", J::Int(nb)); s.set("followed", J::Int(followed)); s.set("steps", J::Int(steps)); s.set("drifted", J::Int(drifted));
   s.set("violating", J::Int(violating)); s.set("expectations_compared", J::Int(expcmp)); s.set("oracle_evaluations", J::Int(g_checks)); s.set("messages_received", J::Int(g_msgs));
   Emit(s); fclose(g_report); fclose(in);
   return 0;
}

// ------------------------------------------------------------------------------------------------------------
// the trace given to TLC (TreeTrace.tla / IndexTrace.tla)
static J PatternJ(const std::string & rel) { J p = J::Arr(); SV cl = Split(rel, '/'); for (size_t i=0; i<cl.size(); i++) p.push(JStrs(cl[i] == "*" ? SV(1, "*") : ClauseAlts(cl[i]))); return p; }
// the clauses of a subscription spelling below the session level (host and session clauses are wildcards in everything generated)
static J SubPatternJ(const std::string & sp)
{
   SV cl = Split(sp[0] == '/' ? sp.substr(1) : "*/*/"+sp, '/'); J p = J::Arr();
   for (size_t i=2; i<cl.size(); i++) p.push(JStrs(cl[i] == "*" ? SV(1, "*") : ClauseAlts(cl[i])));
   return p;
}
static bool AbstractData(const J & cmd, J & out)       // set / remove in the vocabulary of TreeTrace; false: the effect on the tree is not determined by the command alone
{
   const std::string op = cmd["op"].s;
   if (op == "set")
   {
      if (cmd["idx"].truthy()) return false;
      out = J::Obj(); out.set("op", J::Str("set")); out.set("q", cmd["q"]); out.set("v", cmd["v"]); out.set("nc", J::Bool(cmd["nocreate"].truthy())); out.set("no", J::Bool(cmd["nooverwrite"].truthy()));
      return true;
   }
   if (op == "remove")
   {
      out = J::Obj(); out.set("op", J::Str("remove")); J keys = J::Arr();
      if (cmd.has("keys")) for (size_t i=0; i<cmd["keys"].a.size(); i++) keys.push(PatternJ(cmd["keys"].a[i].s)); else keys.push(PatternJ(cmd["key"].s));
      out.set("keys", keys); return true;
   }
   if ((op == "reorder")||(op == "maxitems")) { out = J::Obj(); out.set("op", J::Str("none")); return true; }
   if (op == "subscribe")
   {
      out = J::Obj(); out.set("op", J::Str("subscribe")); J subs = J::Arr();
      for (size_t i=0; i<cmd["subs"].a.size(); i++) { J e = J::Obj(); e.set("sp", cmd["subs"].a[i]["sp"]); e.set("cl", SubPatternJ(cmd["subs"].a[i]["sp"].s)); e.set("f", cmd["subs"].a[i]["f"]); subs.push(e); }
      out.set("subs", subs); return true;
   }
   if (op == "unsubscribe") { out = J::Obj(); out.set("op", J::Str("unsubscribe")); out.set("sp", cmd["sp"]); return true; }
   if (op == "getdata") { out = J::Obj(); out.set("op", J::Str("getdata")); return true; }
   return false;
}
static J AbstractCmd(const J & cmd, bool & calc)
{
   const std::string op = cmd["op"].s; J t = J::Obj(); calc = true;
   if ((op == "set")||(op == "remove")||(op == "reorder")) { if (!AbstractData(cmd, t)) { t = J::Obj(); t.set("op", J::Str("other")); calc = false; } }
   else if ((op == "multi")||(op == "batch"))
   {
      const J & subs = cmd[op == "multi" ? "ops" : "cmds"]; J ops = J::Arr();
      for (size_t i=0; i<subs.a.size(); i++) { J o; if (!AbstractData(subs.a[i], o)) { calc = false; o = J::Obj(); o.set("op", J::Str("none")); } ops.push(o); }
      t.set("op", J::Str("seq")); t.set("ops", ops);       // (calc = false: the tree follows the observed change, the subscription parts still count)
   }
   else if ((op == "subscribe")||(op == "unsubscribe")||(op == "getdata")||(op == "maxitems")) (void) AbstractData(cmd, t);
   else if ((op == "connect")||(op == "disconnect")) t.set("op", J::Str(op));
   else { t.set("op", J::Str("other")); calc = false; }      // insert, clone, restore: generated names / subtree copies
   t.set("s", cmd["s"]);
   return t;
}
static J TraceLine(World & w, const J & cmd, const Tree & after)
{
   J r = J::Obj(); r.set("e", J::Str("cmd")); r.set("c", cmd);
   bool calc; r.set("t", AbstractCmd(cmd, calc));
   if ((w.limit > 0)&&((cmd["op"].s == "set")||(cmd["op"].s == "multi")||(cmd["op"].s == "batch"))) calc = false;      // a server with a child limit refuses some sets
   r.set("calc", J::Bool(calc));
   // the change of the tree the harness observed on the server
   J d = J::Obj(); J ds = J::Arr(), dd = J::Arr();
   for (Tree::const_iterator it = w.before.begin(); it != w.before.end(); ++it) if ((World::Depth(it->first) >= 2)&&(after.find(it->first) == after.end())) dd.push(w.SpecPath(it->first));
   for (Tree::const_iterator it = after.begin(); it != after.end(); ++it) if (World::Depth(it->first) >= 2) { Tree::const_iterator b = w.before.find(it->first); if ((b == w.before.end())||(b->second.what != it->second.what)) { J pr = J::Arr(); pr.push(w.SpecPath(it->first)); pr.push(J::Int(it->second.what)); ds.push(pr); } }
   d.set("set", ds); d.set("del", dd); r.set("d", d);
   r.set("u", w.Received()); r.set("x", w.ReceivedIdx());
   // the server's indices and children after the command, and which nodes each client tracks (IndexTrace)
   J srv = J::Arr();
   for (Tree::const_iterator it = after.begin(); it != after.end(); ++it) if ((World::Depth(it->first) >= 2)&&(it->second.hasIndex)) { J n = J::Obj(); n.set("n", w.SpecPath(it->first)); n.set("idx", JStrs(it->second.index)); n.set("kids", JStrs(it->second.kids)); srv.push(n); }
   r.set("srv", srv);
   J trk = J::Obj(), unc = J::Obj(), untr = J::Obj();
   for (size_t ci=0; ci<w.cs.size(); ci++) if (w.cs[ci]->connected)
   {
      Client & c = *w.cs[ci];
      J a = J::Arr(); for (Tree::const_iterator it = after.begin(); it != after.end(); ++it) if ((World::Depth(it->first) >= 2)&&(c.PathSubscribed(it->first))&&(!c.untracked.count(it->first))&&((it->second.hasIndex)||((c.idx.count(it->first))&&(!c.idx[it->first].empty())))) a.push(w.SpecPath(it->first));
      for (std::map<std::string,SV>::iterator it = c.idx.begin(); it != c.idx.end(); ++it) if ((!it->second.empty())&&(after.find(it->first) == after.end())&&(c.PathSubscribed(it->first))&&(!c.untracked.count(it->first))) a.push(w.SpecPath(it->first));
      trk.set(c.name, a);
      if (!c.untracked.empty()) { J b = J::Arr(); for (std::set<std::string>::iterator it = c.untracked.begin(); it != c.untracked.end(); ++it) b.push(w.SpecPath(*it)); untr.set(c.name, b); }
      if (!c.unclaimed.empty()) { J b = J::Arr(); for (std::set<std::string>::iterator it = c.unclaimed.begin(); it != c.unclaimed.end(); ++it) b.push(w.SpecPath(*it)); unc.set(c.name, b); }
   }
   r.set("trk", trk); r.set("unc", unc); r.set("untr", untr);
   return r;
}

// ------------------------------------------------------------------------------------------------------------
// random histories
static std::mt19937 rng;
static uint32 R(uint32 n) { return n ? (uint32)(rng() % n) : 0; }
static J Cmd(const char * op, const std::string & s) { J c = J::Obj(); c.set("op", J::Str(op)); c.set("s", J::Str(s)); return c; }
static J PathJ(const SV & v) { return JStrs(v); }

struct Gen {
   bool idxHeavy; SV names; SV pnames; SV pats; SV subpats;
   Gen(bool ih) : idxHeavy(ih)
   {
      // the third name contains characters that are operators in a pattern: every pattern names it in its escaped form (EscapeRegexTokens style)
      const char * n[] = {"a", "b", "q(1)"}; names.assign(n, n+3);
      const char * e[] = {"a", "b", "q\\(1\\)"}; pnames.assign(e, e+3);
      const char * p[] = {"a", "b", "*", "a/*", "*/b", "a,b", "*/*", "a/b", "q\\(1\\)/*", "*/a,q\\(1\\)", "q\\(1\\)", "a/q\\(1\\)"}; pats.assign(p, p+12);
      const char * q[] = {"a", "b", "*", "a/*", "*/b", "a,b", "*/*", "/*/*/q\\(1\\)", "/*/*", "/*/*/a/b", "q\\(1\\)/*", "/*/*/*/a,q\\(1\\)", "a/q\\(1\\)", "b,q\\(1\\)"}; subpats.assign(q, q+14);
   }
   J RandSet(const std::string & s)
   {
      J c = Cmd("set", s); SV q; q.push_back(names[R(3)]); if (R(2)) { q.push_back(names[R(3)]); if (R(6) == 0) q.push_back(names[R(3)]); }
      c.set("q", PathJ(q)); c.set("v", J::Int(1+R(2)));
      const uint32 f = R(24);
      if (f == 0) c.set("quiet", J::Bool(true)); else if (f == 1) c.set("nocreate", J::Bool(true)); else if (f == 2) c.set("nooverwrite", J::Bool(true)); else if (f == 3) c.set("supersede", J::Bool(true));
      else if ((f <= 5)&&(q.size() >= 2)) c.set("idx", J::Bool(true));
      return c;
   }
   J RandRemove(const std::string & s)
   {
      J c = Cmd("remove", s);
      if (R(5) == 0) { J k = J::Arr(); k.push(J::Str(pats[R((uint32)pats.size())])); k.push(J::Str(pats[R((uint32)pats.size())])); c.set("keys", k); } else c.set("key", J::Str(pats[R((uint32)pats.size())]));
      if (R(16) == 0) c.set("quiet", J::Bool(true));
      return c;
   }
   std::string Gname() { return std::string("I") + std::to_string(R(4)); }
   J RandInsert(const std::string & s) { J c = Cmd("insert", s); c.set("key", J::Str(R(4) ? pnames[R(3)] : std::string(R(2) ? "*" : "a/*"))); c.set("before", J::Str(R(2) ? Gname() : std::string("zz"))); c.set("v", J::Int(1+R(2))); return c; }
   J RandReorder(const std::string & s)
   {
      J c = Cmd("reorder", s); std::string child = R(5) ? Gname() : (R(2) ? std::string("*") : pnames[R(3)]);
      c.set("path", J::Str(pnames[R(3)] + "/" + child)); const uint32 k = R(6); c.set("before", J::Str(k == 0 ? std::string("zz") : k == 1 ? std::string(REMOVE_FROM_INDEX) : k == 2 ? names[R(3)] : Gname())); return c;
   }
   J RandRemoveChild(const std::string & s) { J c = Cmd("remove", s); c.set("key", J::Str(pnames[R(3)] + "/" + (R(4) ? Gname() : std::string("*")))); return c; }
   J RandSubscribe(Client & c, uint32 nf)
   {
      const std::string & s = c.name;
      J cmd = Cmd("subscribe", s); J subs = J::Arr();
      for (uint32 i=0; i<nf; i++)
      {
         std::string sp;
         // one spelling per path per session (F27): skip a spelling whose normalised form the session already uses under another spelling
         for (int tries=0; tries<20; tries++)
         {
            sp = subpats[R((uint32)subpats.size())]; const std::string norm = (sp[0] == '/') ? sp.substr(1) : "*/*/"+sp; bool clash = false;
            for (size_t x=0; x<c.subs.size(); x++) { const std::string & o = c.subs[x].sp; if ((o != sp)&&(((o[0] == '/') ? o.substr(1) : "*/*/"+o) == norm)) clash = true; }
            for (size_t x=0; x<subs.a.size(); x++) { const std::string & o = subs.a[x]["sp"].s; if (((o[0] == '/') ? o.substr(1) : "*/*/"+o) == norm) clash = true; }
            if (!clash) break; sp.clear();
         }
         if (sp.empty()) continue;
         J e = J::Obj(); e.set("sp", J::Str(sp)); e.set("f", J::Int(R(3))); subs.push(e);
      }
      if (subs.a.empty()) return Cmd("noop", s);
      cmd.set("subs", subs); if (R(12) == 0) cmd.set("quiet", J::Bool(true));
      return cmd;
   }
   J Next(World & w, Client & c)
   {
      const std::string & s = c.name;
      const uint32 k = R(100);
      const uint32 dataW = idxHeavy ? 20 : 36, remW = idxHeavy ? 8 : 14, subW = 16, unsubW = 5, idxW = idxHeavy ? 30 : 9, cloneW = idxHeavy ? 8 : 3, miscW = 4, batchW = idxHeavy ? 4 : 8;
      uint32 a = dataW;
      if (k < a) return RandSet(s);
      if (k < (a += remW)) return RandRemove(s);
      if (k < (a += subW)) return RandSubscribe(c, (R(5) == 0) ? 2 : 1);
      if (k < (a += unsubW)) { if (c.subs.empty()) return RandSet(s); J cmd = Cmd("unsubscribe", s); cmd.set("sp", J::Str(c.subs[R((uint32)c.subs.size())].sp)); return cmd; }
      if (k < (a += idxW)) { const uint32 j = R(10); if (j < 5) return RandInsert(s); if (j < 8) return RandReorder(s); return RandRemoveChild(s); }
      if (k < (a += cloneW)) { const bool clone = (R(3) != 0); J cmd = Cmd(clone ? "clone" : "restore", s); const uint32 f = R(3); const uint32 t = clone ? (f+1+R(2))%3 : R(3); cmd.set("from", J::Str(names[f])); cmd.set("to", J::Str(names[t])); return cmd; }
      if (k < (a += miscW)) { if (R(2)) { J cmd = Cmd("maxitems", s); cmd.set("n", J::Int(R(2) ? 1+R(3) : 50)); return cmd; } J cmd = Cmd("getdata", s); cmd.set("sp", J::Str(subpats[R((uint32)subpats.size())])); cmd.set("f", J::Int(R(4) ? 0 : 1)); return cmd; }
      if (k < (a += batchW))
      {
         J cmd = Cmd("batch", s); J cmds = J::Arr(); const uint32 n = 2+R(3);
         for (uint32 i=0; i<n; i++) { const uint32 j = R(8); J e = (j < 4) ? RandSet(s) : (j < 6) ? RandRemove(s) : (j == 6) ? RandInsert(s) : RandReorder(s);
                                        if (e.has("quiet")) e.set("quiet", J::Bool(false));   // quiet parts of a BATCH are not generated: what they touch cannot be told from outside
                                        cmds.push(e); }
         // a request / subscription change as the first or the last part (e.g. a re-sync right after the changes)
         const uint32 cp = R(4);
         if (cp < 2)
         {
            J e; const uint32 j = R(4);
            if (j < 2) { e = Cmd("getdata", s); e.set("sp", J::Str(R(2) ? pnames[R(3)] : subpats[R((uint32)subpats.size())])); e.set("f", J::Int(R(4) ? 0 : 1)); }
            else if ((j == 2)&&(!c.subs.empty())) { e = Cmd("unsubscribe", s); e.set("sp", J::Str(c.subs[R((uint32)c.subs.size())].sp)); }
            else { e = RandSubscribe(c, 1); if (e.has("quiet")) e.set("quiet", J::Bool(false)); }
            if (e["op"].s != "noop") { if (cp == 0) cmds.a.insert(cmds.a.begin(), e); else cmds.push(e); }
         }
         cmd.set("cmds", cmds); return cmd;
      }
      if (k < (a += 3)) { J cmd = Cmd("multi", s); J ops = J::Arr(); const uint32 n = 2+R(2); for (uint32 i=0; i<n; i++) { J o = J::Obj(); if (R(2)) { SV q; q.push_back(names[R(3)]); if (R(2)) q.push_back(names[R(3)]); o.set("op", J::Str("set")); o.set("q", PathJ(q)); o.set("v", J::Int(1+R(2))); } else { o.set("op", J::Str("remove")); o.set("key", J::Str(pats[R((uint32)pats.size())])); } ops.push(o); } cmd.set("ops", ops); return cmd; }
      (void) w;
      return Cmd("disconnect", s);
   }
};

static int Explore(int argc, char ** argv)
{
   const bool idxHeavy = (std::string(argv[2]) == "c13");
   const long histories = atol(argv[3]); const int ncmds = atoi(argv[4]); const uint32 seed = (uint32) atol(argv[5]);
   g_report = fopen(argv[6], "w"); if (g_report == NULL) return 2;
   FILE * trace = (argc > 7) ? fopen(argv[7], "w") : NULL; const long ntraces = (argc > 8) ? atol(argv[8]) : 0;
   long violating = 0, done = 0, traced = 0, tracelines = 0, drifting = 0; std::map<std::string,long> opcount;
   long sel = 0, filteredOut = 0, idxCompared = 0, limited = 0;
   for (long h=0; (h<histories)&&(violating<25); h++)
   {
      rng.seed(seed*1000003u + (uint32) h*7919u + (idxHeavy ? 17u : 0u));
      const int ns = 3 + (int) R(2);
      SV names; const char * nm[] = {"A", "B", "C", "D"}; for (int i=0; i<ns; i++) names.push_back(nm[i]);
      const int limit = (R(3) == 0) ? (2 + (int) R(3)) : 0;        // a third of the histories: a server with a per-node child limit of 2..4 (refusals at every depth)
      World w; w.uniqueNames = true; w.Open(names, limit); Gen g(idxHeavy); if (limit) limited++;
      const bool logit = (trace)&&(h < ntraces);
      if (logit) { J r = J::Obj(); r.set("e", J::Str("Reset")); r.set("h", J::Int(h)); fprintf(trace, "%s\n", mj::ToString(r).c_str()); tracelines++; }
      J hist = J::Arr(); bool bad = false; int step = 0;
      alarm(120);
      for (int i=0; i<ns; i++) { J c = Cmd("connect", w.cs[i]->name); w.Exec(c); hist.push(c); if (logit) { Tree t; w.Walk(t); fprintf(trace, "%s\n", mj::ToString(TraceLine(w, c, t)).c_str()); tracelines++; } }
      for (step=0; (step<ncmds)&&(!bad); step++)
      {
         Client & c = *w.cs[R((uint32)ns)];
         J cmd;
         if (!c.connected) { if (R(3)) continue; cmd = Cmd("connect", c.name); }
         else cmd = g.Next(w, c);
         if (cmd["op"].s == "noop") continue;
         if ((cmd["op"].s == "disconnect")&&(R(2))) continue;
         g_context = "history " + std::to_string((long long) h) + " step " + std::to_string((long long) step) + " " + mj::ToString(cmd);
         opcount[cmd["op"].s]++;
         hist.push(cmd);
         w.Exec(cmd);
         Tree t; w.Walk(t);
         w.Check(t);
         for (size_t ci=0; ci<w.cs.size(); ci++) if (w.cs[ci]->connected) for (Tree::iterator it = t.begin(); it != t.end(); ++it) if ((World::Depth(it->first) >= 2)&&(!w.cs[ci]->Owns(it->first))&&(w.cs[ci]->PathSubscribed(it->first))) { if (w.cs[ci]->Selected(it->first, it->second.what)) sel++; else filteredOut++; if ((!it->second.index.empty())&&(!w.cs[ci]->untracked.count(it->first))) idxCompared++; }
         if (logit) { fprintf(trace, "%s\n", mj::ToString(TraceLine(w, cmd, t)).c_str()); tracelines++; }
         if ((!w.violations04.empty())||(!w.violations13.empty())) bad = true;
      }
      alarm(0);
      done++; if (logit) traced++;
      if ((bad)||(!w.drift.empty()))
      {
         J r = J::Obj(); r.set("history", J::Int(h)); r.set("seed", J::Int(seed)); r.set("step", J::Int(step-1));
         if (!w.violations04.empty()) r.set("violations04", JV(w.violations04));
         if (!w.violations13.empty()) r.set("violations13", JV(w.violations13));
         if (!w.drift.empty()) { r.set("countdrift", JV(w.drift)); drifting++; }
         if (bad) { violating++; r.set("sessions", JStrs(names)); r.set("commands", hist); r.set("maxkids", J::Int(limit)); }
         Emit(r);
      }
   }
   if (trace) fclose(trace);
   J s = J::Obj(); s.set("summary", J::Bool(true)); s.set("histories", J::Int(done)); s.set("commands", J::Int(g_commands)); s.set("violating", J::Int(violating)); s.set("drifting", J::Int(drifting));
   s.set("oracle_evaluations", J::Int(g_checks)); s.set("messages_received", J::Int(g_msgs)); s.set("traces_written", J::Int(traced)); s.set("trace_lines", J::Int(tracelines));
   s.set("histories_with_child_limit", J::Int(limited)); s.set("selected_node_checks", J::Int(sel)); s.set("filtered_out_node_checks", J::Int(filteredOut)); s.set("index_mirror_checks", J::Int(idxCompared));
   J oc = J::Obj(); for (std::map<std::string,long>::iterator it = opcount.begin(); it != opcount.end(); ++it) oc.set(it->first, J::Int(it->second)); s.set("ops", oc);
   Emit(s); fclose(g_report);
   return 0;
}

// ------------------------------------------------------------------------------------------------------------
// directed cases
static J Sub1(const char * sp, int f) { J e = J::Obj(); e.set("sp", J::Str(sp)); e.set("f", J::Int(f)); return e; }
static J SetCmd(const char * s, const char * n, int v) { J c = Cmd("set", s); SV q; q.push_back(n); c.set("q", PathJ(q)); c.set("v", J::Int(v)); return c; }
static J SubCmd(const char * s, const J & a, const J * b = NULL) { J c = Cmd("subscribe", s); J subs = J::Arr(); subs.push(a); if (b) subs.push(*b); c.set("subs", subs); return c; }

static int Directed(const char * repFile)
{
   g_report = fopen(repFile, "w"); if (g_report == NULL) return 2;
   long cases = 0;
   SV names; names.push_back("W"); names.push_back("S");
   {  // F27: the same path under two spellings; removing one kills both (known finding)
      alarm(30); g_context = "directed f27"; cases++;
      World w; w.Open(names); for (int i=0; i<2; i++) { w.Connect(*w.cs[i]); w.Pump(); }
      J hist = J::Arr(); J c;
      c = SetCmd("W", "a", 1); w.Exec(c); hist.push(c);
      c = SubCmd("S", Sub1("a", 0)); w.Exec(c); hist.push(c);
      c = SubCmd("S", Sub1("/*/*/a", 0)); w.Exec(c); hist.push(c);
      { Tree t; w.Walk(t); w.Check(t); }
      const bool cleanBefore = (w.violations04.empty());     // two parameters, ONE mark: the count differs from the recomputed one (drift), nothing else
      w.drift.clear();
      c = Cmd("unsubscribe", "S"); c.set("sp", J::Str("a")); w.Exec(c); hist.push(c);
      c = SetCmd("W", "a", 2); w.Exec(c); hist.push(c);
      Tree t; w.Walk(t); w.Check(t);
      J r = J::Obj(); r.set("case", J::Str("f27")); r.set("commands", hist); r.set("sessions", JStrs(names));
      const std::string na = w.cs[0]->root + "/a";
      const bool stale = (w.cs[1]->mirror.count(na))&&(w.cs[1]->mirror[na] == 1)&&(t.count(na))&&(t[na].what == 2)&&(t[na].marks.empty());
      if ((stale)&&(cleanBefore)) { SV k; k.push_back("F27 aliased-subscription-spellings: after REMOVEPARAMETERS SUBSCRIBE:a the node carries no mark for S although SUBSCRIBE:/*/*/a is still set; S's mirror keeps a=1 while the server has a=2"); r.set("known", JV(k)); }
      else if ((w.violations04.empty())&&(cleanBefore)) r.set("note", J::Str("F27 not reproduced: the remaining spelling kept the subscription alive"));
      else r.set("violations04", JV(w.violations04));
      Emit(r); alarm(0);
   }
   {  // F34 (repaired): one SETPARAMETERS with a filter change and a new subscription, both orders; judged like everything else
      for (int order=0; order<2; order++)
      {
         alarm(30); g_context = "directed f34"; cases++;
         World w; w.Open(names); for (int i=0; i<2; i++) { w.Connect(*w.cs[i]); w.Pump(); }
         J hist = J::Arr(); J c; bool bad = false;
         c = SetCmd("W", "a", 1); w.Exec(c); hist.push(c);
         c = SubCmd("S", Sub1("a", 1)); w.Exec(c); hist.push(c); { Tree t; w.Walk(t); w.Check(t); }
         J x = Sub1("a", 2), y = Sub1("*", 0);
         c = order ? SubCmd("S", y, &x) : SubCmd("S", x, &y); w.Exec(c); hist.push(c); { Tree t; w.Walk(t); w.Check(t); }
         c = SetCmd("W", "a", 2); w.Exec(c); hist.push(c); { Tree t; w.Walk(t); w.Check(t); }
         bad = !w.violations04.empty();
         if (bad) { J r = J::Obj(); r.set("case", J::Str(order ? "f34-new-first" : "f34-change-first")); r.set("commands", hist); r.set("sessions", JStrs(names)); r.set("violations04", JV(w.violations04)); Emit(r); }
         alarm(0);
      }
   }
   {  // a set and a remove of the same node inside one handler: two Messages (flush-before-remove), whatever the max-items parameter
      for (int mx=0; mx<3; mx++)
      {
         alarm(30); g_context = "directed setremove"; cases++;
         World w; w.Open(names); for (int i=0; i<2; i++) { w.Connect(*w.cs[i]); w.Pump(); }
         J hist = J::Arr(); J c;
         c = SubCmd("S", Sub1("*", 0)); w.Exec(c); hist.push(c);
         if (mx) { c = Cmd("maxitems", "S"); c.set("n", J::Int(mx == 1 ? 1 : 2)); w.Exec(c); hist.push(c); }
         c = Cmd("multi", "W"); J ops = J::Arr(); { J o = J::Obj(); o.set("op", J::Str("set")); SV q; q.push_back("a"); o.set("q", PathJ(q)); o.set("v", J::Int(1)); ops.push(o); } { J o = J::Obj(); o.set("op", J::Str("remove")); o.set("key", J::Str("a")); ops.push(o); } c.set("ops", ops);
         w.Exec(c); hist.push(c); Tree t; w.Walk(t); w.Check(t);
         bool setThenRemove = false;
         for (size_t u=0; u<w.cs[1]->upds.size(); u++) for (size_t a=0; a<w.cs[1]->upds[u].set.size(); a++) for (size_t b=0; b<w.cs[1]->upds[u].rem.size(); b++) if (w.cs[1]->upds[u].set[a].first == w.cs[1]->upds[u].rem[b]) setThenRemove = true;
         if ((!w.violations04.empty())||(setThenRemove)) { J r = J::Obj(); r.set("case", J::Str("set-then-remove")); r.set("commands", hist); r.set("sessions", JStrs(names)); SV v = w.violations04; if (setThenRemove) v.push_back("one update Message carries a set and a removal of the same node"); r.set("violations04", JV(v)); Emit(r); }
         alarm(0);
      }
   }
   J s = J::Obj(); s.set("summary", J::Bool(true)); s.set("cases", J::Int(cases)); s.set("commands", J::Int(g_commands)); Emit(s); fclose(g_report);
   return 0;
}

// refl run <case.json> : re-executes the "sessions" / "commands" of a report line (a violation replay file) and prints what happens
static int Run(const char * file)
{
   FILE * in = fopen(file, "r"); if (in == NULL) return 2;
   std::string all, line; while(mj::ReadLine(in, line)) all += line; fclose(in);
   J b; if (!mj::Parse(all, b)) return 2;
   if (b.has("replay")) { J r = b["replay"]; b = r; }
   g_report = stdout;
   World w; SV names; for (size_t i=0; i<b["sessions"].a.size(); i++) names.push_back(b["sessions"].a[i].s);
   for (size_t i=0; i<b["commands"].a.size(); i++) if (b["commands"].a[i]["s"].s.find('#') != std::string::npos) w.uniqueNames = true;
   w.Open(names, (int) b["maxkids"].i());
   bool explicitConnect = false; for (size_t i=0; i<b["commands"].a.size(); i++) if (b["commands"].a[i]["op"].s == "connect") explicitConnect = true;
   if (!explicitConnect) for (size_t i=0; i<w.cs.size(); i++) { w.Connect(*w.cs[i]); w.Pump(); }
   for (size_t i=0; i<b["commands"].a.size(); i++)
   {
      alarm(30);
      w.Exec(b["commands"].a[i]); Tree t; w.Walk(t); w.Check(t);
      printf("%3u %s\n      data %s\n      index %s\n", (unsigned) i, mj::ToString(b["commands"].a[i]).c_str(), mj::ToString(w.Received()).c_str(), mj::ToString(w.ReceivedIdx()).c_str());
      for (size_t k=0; k<w.violations04.size(); k++) printf("      VIOLATION C04: %s\n", w.violations04[k].c_str());
      for (size_t k=0; k<w.violations13.size(); k++) printf("      VIOLATION C13: %s\n", w.violations13[k].c_str());
      for (size_t k=0; k<w.drift.size(); k++) printf("      drift: %s\n", w.drift[k].c_str());
      if ((!w.violations04.empty())||(!w.violations13.empty()))
      {
         for (Tree::iterator it = t.begin(); it != t.end(); ++it) if (World::Depth(it->first) >= 2) printf("      server %s = %u index [%s]%s kids [%s]\n", w.SpecPathStr(it->first).c_str(), it->second.what, Join(it->second.index, " ").c_str(), it->second.hasIndex ? "" : " (none)", Join(it->second.kids, " ").c_str());
         for (size_t k=0; k<w.cs.size(); k++) if (w.cs[k]->connected) { printf("      %s subs:", w.cs[k]->name.c_str()); for (size_t x=0; x<w.cs[k]->subs.size(); x++) printf(" %s(f=%d)", w.cs[k]->subs[x].sp.c_str(), w.cs[k]->subs[x].f); printf("  mirror:"); for (std::map<std::string,uint32>::iterator m = w.cs[k]->mirror.begin(); m != w.cs[k]->mirror.end(); ++m) printf(" %s=%u", w.SpecPathStr(m->first).c_str(), m->second); printf("\n"); }
         break;
      }
   }
   alarm(0);
   return 0;
}

int main(int argc, char ** argv)
{
   CompleteSetupSystem css; SetConsoleLogLevel(MUSCLE_LOG_CRITICALERROR);
   signal(SIGALRM, OnAlarm); signal(SIGPIPE, SIG_IGN);
   if ((argc >= 4)&&(std::string(argv[1]) == "replay")) return Replay(argv[2], argv[3]);
   if ((argc >= 7)&&(std::string(argv[1]) == "explore")) return Explore(argc, argv);
   if ((argc >= 3)&&(std::string(argv[1]) == "directed")) return Directed(argv[2]);
   if ((argc >= 3)&&(std::string(argv[1]) == "run")) return Run(argv[2]);
   fprintf(stderr, "usage: refl replay <behaviours> <report> | refl explore <c04|c13> <histories> <commands> <seed> <report> [<trace> <ntraces>] | refl directed <report>\n");
   return 2;
}
