// C18 conformance harness: real threads on a real ReaderWriterMutex under the controlled scheduler.
//   rw replay  <behaviours.ndjson> <preferWriters 0|1> <report.ndjson>
//        every line of the input is one behaviour of spec/RWLock/RWImpl.tla (list of steps); each step is executed by
//        resuming the named thread from its stop point to the next one; the events the code emits at its
//        linearization points are compared with the step (DRIFT if different) and fed to the RWAbs monitor
//        (VIOLATION if the property itself is broken: exclusion, counts, deadline, overtaking, stranded thread).
//   rw explore <iterations> <threads> <ops> <seed> <preferWriters 0|1|2=both> <report.ndjson> [tracefile [ntraces]]
//        seeded random programs under seeded random schedules (every hooked operation is a pre-emption point),
//        same monitor, deadlock detector; optionally records event traces for validation by TLC (RWTrace.tla).
//   rw free <iterations> <threads> <ops> <seed> <report.ndjson>
//        real threads without the scheduler (real blocking, real memory ordering, timing noise at the hooks); exclusion is
//        checked by the holders themselves, progress by a watchdog.
#ifndef VERIF_NO_PRIVATE
# define private public      // the harness needs the addresses of _stateMutex and of the pool's mutex (stop points); no layout change
#endif
#include "util/ObjectPool.h"
#include "system/ReaderWriterMutex.h"
#undef private
#include "system/SetupSystem.h"
#include "vsched.h"
#include "mjson.h"
#include <set>
using namespace muscle;

enum {OP_LR, OP_LRTRY, OP_LRTIMED, OP_LW, OP_LWTRY, OP_LWTIMED, OP_UR, OP_UW, OP_QUIT, OP_NONE};
static const char * OPN[] = {"LR", "LRtry", "LRtimed", "LW", "LWtry", "LWtimed", "UR", "UW", "QUIT", "none"};
static int OpByName(const std::string & s) {for (int i=0; i<=OP_NONE; i++) if (s == OPN[i]) return i; return -1;}
static bool IsTry(int op) {return (op == OP_LRTRY)||(op == OP_LWTRY);}
static bool IsTimed(int op) {return (op == OP_LRTIMED)||(op == OP_LWTIMED);}

// ------------------------------------------------------------------------------------------------------
// RWAbs monitor: the property, evaluated on the events emitted inside the _stateMutex critical sections
struct Monitor {
   bool prefer; int nt;
   std::vector<int> rd, wr;                  // per thread: read / write holds
   std::vector<long> callStart;              // event-sequence number at which the thread's current public call began
   std::map<int,long> queuedWriters;         // waiting writer -> sequence number of its QueueW
   std::vector<int> curOp; std::vector<bool> expired; std::vector<int> rdAtStart, wrAtStart;
   long seq;
   std::vector<std::string> violations, known, drifts;
   std::vector<int> apiR, apiW;              // per thread: holds according to what the public calls RETURNED (no events involved)
   void D(const std::string & s) {if (drifts.size() < 3) drifts.push_back(s);}
   // does the public API agree that thread o may hold the lock right now?  (a thread inside a call may have taken / given up a hold already)
   // (a thread inside an unlock call may have given the hold up already; a thread inside a lock call may have taken it already)
   std::vector<int> acqRIn, acqWIn;          // acquisitions announced by events during the call that is in flight
   bool ApiMayHoldRead(int o) const  {return (apiR[o]-((curOp[o] == OP_UR) ? 1 : 0) > 0)||((curOp[o] != OP_NONE)&&(acqRIn[o] > 0));}
   bool ApiMayHoldWrite(int o) const {return (apiW[o]-((curOp[o] == OP_UW) ? 1 : 0) > 0)||((curOp[o] != OP_NONE)&&(acqWIn[o] > 0));}
   void Reset(int n, bool p) {nt = n; prefer = p; apiR.assign(n, 0); apiW.assign(n, 0); acqRIn.assign(n, 0); acqWIn.assign(n, 0); drifts.clear(); evViolations.clear(); rd.assign(n, 0); wr.assign(n, 0); callStart.assign(n, 0); queuedWriters.clear(); curOp.assign(n, OP_NONE); expired.assign(n, false); rdAtStart.assign(n, 0); wrAtStart.assign(n, 0); seq = 0; violations.clear(); known.clear();}
   void V(const std::string & s) {if (violations.size() < 5) violations.push_back(s);}
   // a violation that rests on the code's own events (holds and queue positions as announced by RelR / AcqR / QueueW ...): it stands only if
   // in this execution the events' bookkeeping never disagreed with the results of the public calls (see Finalize)
   std::vector<std::string> evViolations;
   void VE(const std::string & s) {if (evViolations.size() < 5) evViolations.push_back(s);}
   void Finalize() {for (size_t i=0; i<evViolations.size(); i++) {if (drifts.empty()) V(evViolations[i]); else if (drifts.size() < 6) drifts.push_back(evViolations[i]+" (according to the code's events, whose bookkeeping disagrees with the results of the calls in this execution)");} evViolations.clear();}
   void OpBegin(int t, int op) {acqRIn[t] = acqWIn[t] = 0; curOp[t] = op; expired[t] = false; rdAtStart[t] = rd[t]; wrAtStart[t] = wr[t]; callStart[t] = seq;}
   void OpEnd(int t, int op, bool ok)
   {
      char b[200];
      int erd = rdAtStart[t], ewr = wrAtStart[t];
      if (ok) { if (op <= OP_LRTIMED) erd++; else if (op <= OP_LWTIMED) ewr++; else if (op == OP_UR) erd--; else if (op == OP_UW) ewr--; }
      // the holds the code's events announce differ from what the call's result implies: bookkeeping of the EVENTS, not of the public API - drift
      if ((rd[t] != erd)||(wr[t] != ewr)) { snprintf(b, sizeof(b), "T%d %s returned %s but the code's events say it holds (read %d, write %d), the results of its calls imply (%d, %d)", t+1, OPN[op], ok?"OK":"error", rd[t], wr[t], erd, ewr); D(b); }
      // ---- the property at the level of the public API (no events involved) ----
      if ((!ok)&&((op == OP_LR)||(op == OP_LW))) { snprintf(b, sizeof(b), "T%d: %s (no deadline) failed", t+1, OPN[op]); V(b); }
      if ((!ok)&&(op == OP_UR)&&(apiR[t] > 0)) { snprintf(b, sizeof(b), "T%d: UnlockReadOnly failed although its calls so far left it with %d read lock(s)", t+1, apiR[t]); V(b); }
      if ((!ok)&&(op == OP_UW)&&(apiW[t] > 0)) { snprintf(b, sizeof(b), "T%d: UnlockReadWrite failed although its calls so far left it with %d write lock(s)", t+1, apiW[t]); V(b); }
      if (ok) {
         if (op <= OP_LRTIMED) {
            // another thread holds WRITE by the results of its calls and is not inside a call that could be giving it up
            if (apiW[t] == 0) for (int o=0; o<nt; o++) if ((o != t)&&(apiW[o] > 0)&&(curOp[o] == OP_NONE)) {snprintf(b, sizeof(b), "T%d's %s returned OK while T%d holds the lock for writing (by the results of its own calls) and is outside any call", t+1, OPN[op], o+1); V(b);}
            apiR[t]++;
         }
         else if (op <= OP_LWTIMED) {
            for (int o=0; o<nt; o++) if ((o != t)&&(curOp[o] == OP_NONE)&&((apiW[o] > 0)||(apiR[o] > 0))) {snprintf(b, sizeof(b), "T%d's %s returned OK while T%d holds the lock (read %d, write %d by the results of its own calls) and is outside any call", t+1, OPN[op], o+1, apiR[o], apiW[o]); V(b);}
            apiW[t]++;
         }
         else if (op == OP_UR) {if (apiR[t] > 0) apiR[t]--;}
         else if (op == OP_UW) {if (apiW[t] > 0) apiW[t]--;}
      }
      curOp[t] = OP_NONE; expired[t] = false;
   }
   void OnEvent(int t, const std::string & n, long site)
   {
      char b[200]; seq++;
      if ((t < 0)||(t >= nt)) return;
      if (n == "AcqR") {
         for (int o=0; o<nt; o++) if ((o != t)&&(wr[o] > 0)) {snprintf(b, sizeof(b), "T%d acquired READ while T%d holds WRITE", t+1, o+1); if (ApiMayHoldWrite(o)) VE(b); else D(std::string(b)+" according to the code's events only (T's calls have all returned and left it without a hold)");}
         if ((prefer)&&(rd[t] == 0)&&(wr[t] == 0)) for (std::map<int,long>::iterator it = queuedWriters.begin(); it != queuedWriters.end(); ++it) if ((it->first != t)&&(it->second < callStart[t])) {snprintf(b, sizeof(b), "T%d acquired READ (call began at %ld) overtaking writer T%d waiting since %ld, with writer preference", t+1, callStart[t], it->first+1, it->second); VE(b);}
         rd[t]++; acqRIn[t]++;
      }
      else if (n == "AcqW") {
         for (int o=0; o<nt; o++) if (o != t) { if (wr[o] > 0) {snprintf(b, sizeof(b), "T%d acquired WRITE while T%d holds WRITE", t+1, o+1); if (ApiMayHoldWrite(o)) VE(b); else D(std::string(b)+" according to the code's events only");} if (rd[o] > 0) {snprintf(b, sizeof(b), "T%d acquired WRITE while T%d holds READ", t+1, o+1); if (ApiMayHoldRead(o)) VE(b); else D(std::string(b)+" according to the code's events only");} }
         wr[t]++; acqWIn[t]++; queuedWriters.erase(t);
      }
      else if (n == "RelR") { if (rd[t] <= 0) {snprintf(b, sizeof(b), "T%d's events release a READ hold that its events never took", t+1); D(b);} else rd[t]--; }
      else if (n == "RelW") { if (wr[t] <= 0) {snprintf(b, sizeof(b), "T%d's events release a WRITE hold that its events never took", t+1); D(b);} else wr[t]--; }
      else if (n == "QueueW") queuedWriters[t] = seq;
      else if (n == "FailW") queuedWriters.erase(t);
      (void) site;
   }
   // the thread is about to block in Wait(): allowed only while its call's deadline has not passed
   void OnBlock(int t)
   {
      if ((t < 0)||(t >= nt)||(curOp[t] == OP_NONE)) return;
      char b[200];
      if ((IsTry(curOp[t]))||(expired[t])) {
         snprintf(b, sizeof(b), "T%d blocks in Wait() inside %s %s", t+1, OPN[curOp[t]], IsTry(curOp[t])?"(a try call)":"after its deadline passed");
         // known finding F8timed: restore phase of a *timed* LockReadWrite upgrade by a thread that held read locks
         if ((curOp[t] == OP_LWTIMED)&&(expired[t])&&(apiR[t] > 0)&&(apiW[t] == 0)) {if (known.size() < 3) known.push_back(std::string("F8timed: ")+b);}     // (holds by the results of the thread's calls: they do not change while a call is in flight)
         else V(b);
      }
   }
};
static Monitor M;

// ------------------------------------------------------------------------------------------------------
struct Puppet {
   int id; volatile int cmd; volatile int lastOp; volatile int lastOk; int ro, rw; volatile bool draining; std::vector<int> program; size_t ip;
   Puppet() : id(0), cmd(OP_NONE), lastOp(OP_NONE), lastOk(-1), ro(0), rw(0), draining(false), ip(0) {}
};
static ReaderWriterMutex * g_m = NULL;
static const uint64 FAR_FUTURE = ((uint64)1)<<60;   // "timed": a real deadline that never passes by itself; the scheduler decides when it fires

static bool DoOp(Puppet & p, int op)
{
   status_t r;
   M.OpBegin(p.id, op);
   switch(op) {
      case OP_LR:      r = g_m->LockReadOnly(); break;
      case OP_LRTRY:   r = g_m->TryLockReadOnly(); break;
      case OP_LRTIMED: r = g_m->LockReadOnly(FAR_FUTURE); break;
      case OP_LW:      r = g_m->LockReadWrite(); break;
      case OP_LWTRY:   r = g_m->TryLockReadWrite(); break;
      case OP_LWTIMED: r = g_m->LockReadWrite(FAR_FUTURE); break;
      case OP_UR:      r = g_m->UnlockReadOnly(); break;
      case OP_UW:      r = g_m->UnlockReadWrite(); break; }
   const bool ok = r.IsOK();
   if (ok) { if (op <= OP_LRTIMED) p.ro++; else if (op <= OP_LWTIMED) p.rw++; else if (op == OP_UR) p.ro--; else p.rw--; }
   M.OpEnd(p.id, op, ok);
   p.lastOp = op; p.lastOk = ok ? 1 : 0;
   return ok;
}

// directed mode: the controller hands out one call at a time; when draining the thread releases everything and ends
static void PuppetMain(Puppet * p)
{
   vs::ThreadBegin();
   while(true) {
      vs::OpBoundary();
      if (p->draining) { while (p->rw > 0) if (!DoOp(*p, OP_UW)) break; while (p->ro > 0) if (!DoOp(*p, OP_UR)) break; break; }     // (an unlock that fails is recorded by the monitor; do not spin on it)
      const int op = p->cmd; p->cmd = OP_NONE;
      if (op == OP_QUIT) break;
      if (op == OP_NONE) continue;
      (void) DoOp(*p, op);
   }
   vs::ThreadEnd();
}
// random mode: run a fixed program, then release everything
static void ProgramMain(Puppet * p)
{
   vs::ThreadBegin();
   for (size_t i=0; i<p->program.size(); i++) {
      int op = p->program[i];
      if ((op == OP_UR)&&(p->ro == 0)) continue;
      if ((op == OP_UW)&&(p->rw == 0)) continue;
      (void) DoOp(*p, op);
      vs::OpBoundary();
   }
   while (p->rw > 0) if (!DoOp(*p, OP_UW)) break;
   while (p->ro > 0) if (!DoOp(*p, OP_UR)) break;
   vs::ThreadEnd();
}

static void ObserveYield(vs::LThread * me, int kind, const void *, long)
{
   if (kind == vs::YIELD_WC_WAIT) M.OnBlock(me->id);
}
static void ObserveTimeout(vs::LThread * me) {if ((me->id >= 0)&&(me->id < M.nt)) M.expired[me->id] = true;}
static std::vector<int> g_evOp;   // public call in progress when event k was emitted (parallel to vs::S.events)
static void NoteOp() {while (g_evOp.size() < vs::S.events.size()) {const int t = vs::S.events[g_evOp.size()].tid; g_evOp.push_back(((t >= 0)&&(t < M.nt)) ? M.curOp[t] : OP_NONE);}}
// steps the code does not log itself (Wait() returning; the wait-condition going back to its pool) are observed by the scheduler
static const void * g_poolMutex = NULL; static bool g_logSilent = false;
static void ObserveResume(vs::LThread * me, int kind, const void * obj, int result)
{
   if (!g_logSilent) return;
   const char * n = NULL;
   if (kind == vs::YIELD_WC_WAIT) n = result ? "WaitTimeout" : "WaitOK";
   else if ((kind == vs::YIELD_MUTEX_LOCK)&&(obj == g_poolMutex)) n = (me->depth == 1) ? "RelWC" : "ObtainWC";   // depth 2 = inside the _stateMutex critical section that queues the thread
   if (n) {vs::Event e; e.tid = me->id; e.name = n; e.obj = obj; e.a[0] = e.a[1] = e.a[2] = e.a[3] = 0; vs::S.events.push_back(e); NoteOp();}
}
static size_t g_evSeen = 0;
static void ObserveEvent(const vs::Event & e) {NoteOp(); M.OnEvent(e.tid, e.name, e.a[0]);}
static void FeedMonitor() {}

// every thread has finished and released what its calls gave it: a fresh thread must get the lock for writing at once (public API only)
static void QuiescenceProbe(int nt)
{
   for (int t=0; t<nt; t++) if ((M.rd[t] != 0)||(M.wr[t] != 0)) M.D("the code's events leave a finished thread with a hold");
   bool apiClean = true; for (int t=0; t<nt; t++) if ((M.apiR[t] != 0)||(M.apiW[t] != 0)) apiClean = false;
   if (!apiClean) return;      // an unlock failed (already reported): the probe would only repeat it
   const bool was = vs::S.active; vs::S.active = false;       // the probe is the harness's own call: not part of the recorded execution
   const bool got = g_m->TryLockReadWrite().IsOK(); if (got) (void) g_m->UnlockReadWrite();
   vs::S.active = was;
   if (!got) M.V("after every thread released everything its calls had given it, a fresh TryLockReadWrite() fails: a hold is stuck in the lock");
}
static const char * PcOfStop(vs::LThread * l)
{
   if (l->finished) return "finished";
   if (l->kind == vs::KIND_OP_BOUNDARY) return "idle";
   if (l->kind == vs::YIELD_WC_WAIT) return "wait";
   if (l->kind == vs::YIELD_MUTEX_LOCK) return "lock";
   return "other";
}
static const char * PcClass(const std::string & pc) { if (pc == "idle") return "idle"; if ((pc == "RWait")||(pc == "WWait")) return "wait"; return "lock"; }

static int Replay(const char * inFile, bool prefer, const char * outFile)
{
   FILE * in = fopen(inFile, "r"); FILE * out = fopen(outFile, "w");
   if ((!in)||(!out)) {fprintf(stderr, "cannot open files\n"); return 2;}
   std::string line; long nb = 0, followed = 0, drifted = 0, violated = 0, steps = 0, nevents = 0, knownHits = 0, stranded = 0; unsigned long ysteps = 0;
   while (mj::ReadLine(in, line)) {
      mj::Value beh; if (!mj::Parse(line, beh)) {fprintf(stderr, "bad json\n"); return 2;}
      const mj::Value & st = beh["steps"];
      int nt = 0; for (size_t i=0; i<st.size(); i++) if ((int) st[i]["t"].i() > nt) nt = (int) st[i]["t"].i();
      nb++;
      ReaderWriterMutex * m = new ReaderWriterMutex(prefer); g_m = m;
#ifdef VERIF_NO_PRIVATE
      const void * stateMutex = NULL; const void * poolMutex = NULL; fprintf(stderr, "replay needs the private mutex addresses\n"); return 3;
#else
      const void * stateMutex = &m->_stateMutex; const void * poolMutex = &m->_waitConditionPool._mutex;
#endif
      vs::Reset((unsigned) nb, vs::DIRECTED); vs::S.atomicLocks = false;
      vs::S.stopPred = [stateMutex, poolMutex](vs::LThread * me, int kind, const void * obj, long) {return (kind == vs::KIND_OP_BOUNDARY)||(kind == vs::YIELD_WC_WAIT)||((kind == vs::YIELD_MUTEX_LOCK)&&((obj == stateMutex)||(obj == poolMutex))&&(me->depth == 0));};
      vs::S.onYield = ObserveYield; vs::S.onTimeout = ObserveTimeout; vs::S.onEvent = ObserveEvent; vs::S.onResume = nullptr;
      M.Reset(nt, prefer); g_evSeen = 0; g_evOp.clear();
      std::vector<Puppet *> ps; std::vector<std::thread> ths;
      for (int t=0; t<nt; t++) {Puppet * p = new Puppet; p->id = t; ps.push_back(p);}
      for (int t=0; t<nt; t++) {ths.emplace_back(PuppetMain, ps[t]); vs::WaitRegistered(t+1);}   // registration order = thread id
      for (int t=0; t<nt; t++) (void) vs::Step(t);    // to the first op boundary
      std::string drift; size_t failStep = 0; bool cannotFollow = false;
      for (size_t i=0; (i<st.size())&&(!cannotFollow); i++) {
         const mj::Value & s = st[i]; const int t = (int) s["t"].i()-1; const std::string a = s["a"].str();
         const size_t ev0 = vs::S.events.size(); steps++;
         vs::StepResult r = vs::STEP_STOPPED;
         if ((a == "Start")||(a == "Cleanup")) {
            ps[t]->cmd = OpByName(s["op"].str()); ps[t]->lastOk = -1;
            r = vs::Step(t);                                    // up to "about to lock _stateMutex"
            if ((r == vs::STEP_STOPPED)&&(vs::S.LT[t]->kind == vs::YIELD_MUTEX_LOCK)) r = vs::Step(t);
         }
         else if (a == "WaitTimeout") { r = vs::Step(t, true); if (r == vs::STEP_STOPPED || r == vs::STEP_BLOCKED) M.expired[t] = true; }
         else r = vs::Step(t);
         FeedMonitor();
         char b[300];
         if ((r == vs::STEP_NOT_RUNNABLE)||(r == vs::STEP_CANNOT_TIMEOUT)) { snprintf(b, sizeof(b), "step %zu (%s by T%d): the code cannot take this step (%s)", i, a.c_str(), t+1, (r == vs::STEP_NOT_RUNNABLE)?"thread not runnable: no notification pending":"Wait() would not time out: a notification is pending"); drift = b; failStep = i; cannotFollow = true; break; }
         // compare the events with the step
         const std::string wantEv = s["ev"].str();
         std::string gotEv = "none"; long gs = 0, gex = -1, gwr = -1, gww = -1; size_t nev = 0;
         for (size_t k=ev0; k<vs::S.events.size(); k++) if (vs::S.events[k].tid == t) {nev++; gotEv = vs::S.events[k].name; gs = vs::S.events[k].a[0]; gex = vs::S.events[k].a[1]; gwr = vs::S.events[k].a[2]; gww = vs::S.events[k].a[3];}
         nevents += nev;
         bool same = (gotEv == wantEv)&&(nev <= 1);
         if ((same)&&(wantEv != "none")) {
            if (gs != s["site"].i()) same = false;
            // RelR / RelW / UpgradeBegin are emitted before the tables change; the others after
            if ((wantEv != "RelR")&&(wantEv != "RelW")&&(wantEv != "UpgradeBegin")&&((gex != s["ex"].i())||(gwr != s["wr"].i())||(gww != s["ww"].i()))) same = false;
         }
         if ((same)&&(strcmp(PcOfStop(vs::S.LT[t]), PcClass(s["pc"].str())) != 0)) same = false;
         if ((same)&&(s["pc"].str() == "idle")&&(s["res"].str() != "na")&&(ps[t]->lastOk >= 0)&&((ps[t]->lastOk == 1) != (s["res"].str() == "ok"))) same = false;
         if (!same) { snprintf(b, sizeof(b), "step %zu (%s %s by T%d): spec expects event %s/%ld tables (%ld,%ld,%ld) stop %s result %s; code did %s/%ld (%ld,%ld,%ld) stop %s result %d [%zu events]", i, a.c_str(), s["op"].str().c_str(), t+1, wantEv.c_str(), (long) s["site"].i(), (long) s["ex"].i(), (long) s["wr"].i(), (long) s["ww"].i(), s["pc"].str().c_str(), s["res"].str().c_str(), gotEv.c_str(), gs, gex, gwr, gww, PcOfStop(vs::S.LT[t]), (int) ps[t]->lastOk, nev); drift = b; failStep = i; cannotFollow = true; }
      }
      bool strandedNow = false;
      if (!cannotFollow) {
         for (int t=0; t<nt; t++) {ps[t]->cmd = OP_QUIT; (void) vs::Step(t);}
         bool allDone = true; for (int t=0; t<nt; t++) if (!vs::S.LT[t]->finished) allDone = false;
         if (!allDone) {drift = "behaviour complete in the spec but a thread of the code has not finished"; cannotFollow = true;}
         else { followed++; QuiescenceProbe(nt); }
      }
      if (cannotFollow) {
         // leave the schedule: everybody finishes its current call, releases everything; the deadlock detector decides "stranded"
         for (int t=0; t<nt; t++) ps[t]->draining = true;
         const bool ok = vs::Drain(); FeedMonitor();
         if (!ok) {strandedNow = true; stranded++; M.V(std::string("STRANDED: every thread released what it held, yet no thread can run:") + vs::S.blockedDesc);}
         drifted++;
      }
      ysteps += vs::S.steps;
      M.Finalize();
      if ((!M.violations.empty())||(cannotFollow)||(!M.known.empty())||(!M.drifts.empty())) {
         mj::Value rec = mj::Value::Obj(); rec.set("behaviour", mj::Value::Int(beh["id"].i())); rec.set("prefer", mj::Value::Bool(prefer));
         if (!M.drifts.empty()) {mj::Value da = mj::Value::Arr(); for (size_t k=0; k<M.drifts.size(); k++) da.push(mj::Value::Str(M.drifts[k])); rec.set("monitor_drift", da);}
         if (!M.violations.empty()) {violated++; mj::Value va = mj::Value::Arr(); for (size_t k=0; k<M.violations.size(); k++) va.push(mj::Value::Str(M.violations[k])); rec.set("violations", va);}
         if (!M.known.empty()) {knownHits++; mj::Value ka = mj::Value::Arr(); for (size_t k=0; k<M.known.size(); k++) ka.push(mj::Value::Str(M.known[k])); rec.set("known", ka);}
         if (cannotFollow) {rec.set("drift", mj::Value::Str(drift)); rec.set("step", mj::Value::Int((int64_t) failStep));}
         rec.set("steps", st);
         fprintf(out, "%s\n", mj::ToString(rec).c_str());
      }
      if (strandedNow) { for (size_t k=0; k<ths.size(); k++) ths[k].detach(); }     // parked for ever: leak them (and the mutex)
      else { for (size_t k=0; k<ths.size(); k++) ths[k].join(); delete m; for (size_t k=0; k<ps.size(); k++) delete ps[k]; }
      vs::Deactivate();
      if ((stranded >= 200)||(violated >= 500)||(vs::S.hung)) break;     // enough evidence; parked threads are leaked
   }
   mj::Value sum = mj::Value::Obj();
   sum.set("summary", mj::Value::Bool(true)).set("behaviours", mj::Value::Int(nb)).set("followed", mj::Value::Int(followed)).set("drifted", mj::Value::Int(drifted)).set("violated", mj::Value::Int(violated))
      .set("known", mj::Value::Int(knownHits)).set("stranded", mj::Value::Int(stranded)).set("steps", mj::Value::Int(steps)).set("events", mj::Value::Int(nevents)).set("yields", mj::Value::Int((int64_t) ysteps));
   fprintf(out, "%s\n", mj::ToString(sum).c_str()); fclose(out); fclose(in);
   printf("%s\n", mj::ToString(sum).c_str()); fflush(stdout);
   if ((stranded > 0)||(vs::S.hung)) _exit(0);
   return 0;
}

static int Explore(uint32 iters, int nt, int nops, uint32 seed0, int preferSel, const char * outFile, const char * traceFile, uint32 ntraces)
{
   FILE * out = fopen(outFile, "w"); FILE * tf = traceFile ? fopen(traceFile, "w") : NULL;
   long execs = 0, violated = 0, stranded = 0, knownHits = 0, nevents = 0; unsigned long ysteps = 0; std::set<std::string> distinctPrograms; uint32 tracesWritten = 0;
   for (uint32 it=0; it<iters; it++) {
      const uint32 seed = seed0*1000003u + it;
      std::mt19937 gen(seed*7919u+13);
      for (int prefer=0; prefer<2; prefer++) {
         if ((preferSel != 2)&&(preferSel != prefer)) continue;
         ReaderWriterMutex * m = new ReaderWriterMutex(prefer == 1); g_m = m;
         vs::Reset(seed, vs::RANDOM);
#ifdef VERIF_NO_PRIVATE
         g_poolMutex = NULL; g_logSilent = false; tf = NULL; vs::S.onResume = nullptr;      // no trace recording without the pool mutex address
#else
         g_poolMutex = &m->_waitConditionPool._mutex; g_logSilent = (tf != NULL); vs::S.onResume = ObserveResume;
#endif
         vs::S.atomicLocks = (tf != NULL)&&(tracesWritten < ntraces);   // executions recorded for TLC keep critical sections atomic (see DESIGN C18); the others are pre-empted everywhere
         vs::S.stopPred = nullptr; vs::S.onYield = ObserveYield; vs::S.onTimeout = ObserveTimeout; vs::S.onEvent = ObserveEvent; vs::S.stickiness = (int)(gen()%3)*40;
         M.Reset(nt, prefer == 1); g_evSeen = 0; g_evOp.clear();
         std::vector<Puppet *> ps; std::vector<std::thread> ths; std::string progKey;
         for (int t=0; t<nt; t++) {
            Puppet * p = new Puppet; p->id = t; int ro = 0, rw = 0;
            for (int k=0; k<nops; k++) { int op = (int)(gen()%8); if ((op == OP_UR)&&(ro == 0)) op = OP_LR; if ((op == OP_UW)&&(rw == 0)) op = OP_LW; p->program.push_back(op); progKey += (char)('a'+op); if (op <= OP_LRTIMED) ro++; else if (op <= OP_LWTIMED) rw++; else if (op == OP_UR) ro--; else rw--; }
            progKey += '|'; ps.push_back(p);
         }
         distinctPrograms.insert(progKey);
         for (int t=0; t<nt; t++) {ths.emplace_back(ProgramMain, ps[t]); vs::WaitRegistered(t+1);}
         const bool ok = vs::RunAllRandom(nt);
         FeedMonitor(); execs++; ysteps += vs::S.steps; nevents += (long) vs::S.events.size();
         if (!ok) {stranded++; M.V(std::string("STRANDED: no thread can run although every finished thread released what it held:") + vs::S.blockedDesc);}
         else QuiescenceProbe(nt);
         M.Finalize();
         if ((!M.violations.empty())||(!M.known.empty())||(!M.drifts.empty())) {
            mj::Value rec = mj::Value::Obj(); rec.set("seed", mj::Value::Int(seed)).set("prefer", mj::Value::Bool(prefer == 1)).set("threads", mj::Value::Int(nt));
            if (!M.drifts.empty()) {mj::Value da = mj::Value::Arr(); for (size_t k=0; k<M.drifts.size(); k++) da.push(mj::Value::Str(M.drifts[k])); rec.set("monitor_drift", da);}
            if (!M.violations.empty()) {violated++; mj::Value va = mj::Value::Arr(); for (size_t k=0; k<M.violations.size(); k++) va.push(mj::Value::Str(M.violations[k])); rec.set("violations", va);}
            if (!M.known.empty()) {knownHits++; mj::Value ka = mj::Value::Arr(); for (size_t k=0; k<M.known.size(); k++) ka.push(mj::Value::Str(M.known[k])); rec.set("known", ka);}
            mj::Value pa = mj::Value::Arr(); for (int t=0; t<nt; t++) {mj::Value q = mj::Value::Arr(); for (size_t k=0; k<ps[t]->program.size(); k++) q.push(mj::Value::Str(OPN[ps[t]->program[k]])); pa.push(q);} rec.set("programs", pa);
            mj::Value ea = mj::Value::Arr(); for (size_t k=(vs::S.events.size() > 40 ? vs::S.events.size()-40 : 0); k<vs::S.events.size(); k++) {char b[64]; snprintf(b, sizeof(b), "T%d %s/%ld", vs::S.events[k].tid+1, vs::S.events[k].name.c_str(), vs::S.events[k].a[0]); ea.push(mj::Value::Str(b));} rec.set("last_events", ea);
            if ((violated <= 20)||(M.violations.empty())) fprintf(out, "%s\n", mj::ToString(rec).c_str());
         }
         if ((tf)&&(tracesWritten < ntraces)&&(ok)) {
            // one execution = Reset line + one line per event (total order = order of emission; one thread runs at a time)
            fprintf(tf, "{\"e\":\"Reset\",\"nt\":%d,\"prefer\":%s}\n", nt, (prefer == 1) ? "true" : "false");
            for (size_t k=0; k<vs::S.events.size(); k++) { const vs::Event & e = vs::S.events[k]; fprintf(tf, "{\"e\":\"%s\",\"t\":%d,\"op\":\"%s\",\"site\":%ld,\"ex\":%ld,\"wr\":%ld,\"ww\":%ld}\n", e.name.c_str(), e.tid+1, OPN[(k < g_evOp.size()) ? g_evOp[k] : OP_NONE], e.a[0], e.a[1], e.a[2], e.a[3]); }
            tracesWritten++;
         }
         if (!ok) { for (size_t k=0; k<ths.size(); k++) ths[k].detach(); }
         else { for (size_t k=0; k<ths.size(); k++) ths[k].join(); delete m; for (size_t k=0; k<ps.size(); k++) delete ps[k]; }
         vs::Deactivate();
         if ((stranded >= 50)||(violated >= 200)||(vs::S.hung)) {it = iters; break;}
      }
   }
   mj::Value sum = mj::Value::Obj();
   sum.set("summary", mj::Value::Bool(true)).set("executions", mj::Value::Int(execs)).set("distinct_programs", mj::Value::Int((int64_t) distinctPrograms.size())).set("violated", mj::Value::Int(violated)).set("stranded", mj::Value::Int(stranded))
      .set("known", mj::Value::Int(knownHits)).set("events", mj::Value::Int(nevents)).set("yields", mj::Value::Int((int64_t) ysteps)).set("traces_written", mj::Value::Int(tracesWritten));
   fprintf(out, "%s\n", mj::ToString(sum).c_str()); fclose(out); if (tf) fclose(tf);
   printf("%s\n", mj::ToString(sum).c_str()); fflush(stdout);
   if ((stranded > 0)||(vs::S.hung)) _exit(0);
   return 0;
}

// ------------------------------------------------------------------------------------------------------
// free-running mode: real threads, no scheduler (real blocking in the real WaitCondition, real memory ordering); the hooks only
// inject timing noise.  Oracle = the property itself, evaluated by the threads while they hold the lock: a thread that holds WRITE
// sees no other holder, a thread that holds READ sees no writer; a failed try/timed call changes nothing; everybody finishes.
#include <atomic>
#include <chrono>
static std::atomic<int> f_readers(0), f_writer(-1), f_done(0); static std::atomic<long> f_progress(0);
static std::atomic<int> f_nviol(0); static std::mutex f_vm; static std::vector<std::string> f_viol;
static void FV(const char * s) {f_nviol++; std::lock_guard<std::mutex> g(f_vm); if (f_viol.size() < 10) f_viol.push_back(s);}
static thread_local uint32_t f_rng = 1;
static inline uint32_t FR() {f_rng ^= f_rng << 13; f_rng ^= f_rng >> 17; f_rng ^= f_rng << 5; return f_rng;}
static int NoiseYield(int, const void *, long) {const uint32_t r = FR()%16; if (r == 0) std::this_thread::yield(); else if (r == 1) {for (volatile int i=0; i<200; i++) {}} return 0;}
struct FreeArg {int id; int nops; uint32_t seed; bool prefer;};
static void FreeMain(FreeArg a)
{
   f_rng = a.seed*2654435761u + 12345u + (uint32_t) a.id*977u; if (f_rng == 0) f_rng = 1;
   int ro = 0, rw = 0; char b[200];
   for (int k=0; k<a.nops; k++) {
      int op = (int)(FR()%8);
      if ((op == OP_UR)&&(ro == 0)) op = OP_LR;
      if ((op == OP_UW)&&(rw == 0)) op = OP_LW;
      if ((ro+rw >= 6)&&(op <= OP_LWTIMED)) op = (rw > 0) ? OP_UW : OP_UR;
      const bool upgrade = (op >= OP_LW)&&(op <= OP_LWTIMED)&&(rw == 0)&&(ro > 0);
      if (upgrade) f_readers -= ro;          // an upgrade may give up the read holds for a while: do not count them during the call
      if (op == OP_UR) { if (rw == 0) { const int w = f_writer.load(); if (w >= 0) {snprintf(b, sizeof(b), "T%d holds READ while T%d holds WRITE", a.id+1, w+1); FV(b);} } f_readers--; }
      if ((op == OP_UW)&&(rw == 1)) {
         const int w = f_writer.load(); const int r = f_readers.load();
         if (w != a.id) {snprintf(b, sizeof(b), "T%d holds WRITE but the writer on record is T%d", a.id+1, w+1); FV(b);}
         if (r != ro) {snprintf(b, sizeof(b), "T%d holds WRITE while %d read holds of other threads exist", a.id+1, r-ro); FV(b);}
         f_writer = -1;
      }
      status_t r;
      const uint64 dl = GetRunTime64() + (FR()%300);
      switch(op) {
         case OP_LR:      r = g_m->LockReadOnly(); break;
         case OP_LRTRY:   r = g_m->TryLockReadOnly(); break;
         case OP_LRTIMED: r = g_m->LockReadOnly(dl); break;
         case OP_LW:      r = g_m->LockReadWrite(); break;
         case OP_LWTRY:   r = g_m->TryLockReadWrite(); break;
         case OP_LWTIMED: r = g_m->LockReadWrite(dl); break;
         case OP_UR:      r = g_m->UnlockReadOnly(); break;
         case OP_UW:      r = g_m->UnlockReadWrite(); break; }
      const bool ok = r.IsOK();
      if (upgrade) f_readers += ro;
      if (op <= OP_LRTIMED) {
         if (ok) { ro++; f_readers++; if (rw == 0) { const int w = f_writer.load(); if (w >= 0) {snprintf(b, sizeof(b), "T%d acquired READ while T%d holds WRITE", a.id+1, w+1); FV(b);} } }
         else if (op == OP_LR) {snprintf(b, sizeof(b), "T%d: untimed LockReadOnly failed", a.id+1); FV(b);}
      }
      else if (op <= OP_LWTIMED) {
         if (ok) {
            if (rw == 0) { int exp = -1; if (!f_writer.compare_exchange_strong(exp, a.id)) {snprintf(b, sizeof(b), "T%d acquired WRITE while T%d holds WRITE", a.id+1, exp+1); FV(b);}
                           const int rr = f_readers.load(); if (rr != ro) {snprintf(b, sizeof(b), "T%d acquired WRITE while %d read holds of other threads exist", a.id+1, rr-ro); FV(b);} }
            rw++;
         }
         else if (op == OP_LW) {snprintf(b, sizeof(b), "T%d: untimed LockReadWrite failed", a.id+1); FV(b);}
      }
      else if (op == OP_UR) { if (ok) ro--; else {f_readers++; snprintf(b, sizeof(b), "T%d: UnlockReadOnly failed although it holds %d read locks", a.id+1, ro); FV(b);} }
      else { if (ok) rw--; else {snprintf(b, sizeof(b), "T%d: UnlockReadWrite failed although it holds %d write locks", a.id+1, rw); FV(b);} }
      if ((rw > 0)||(ro > 0)) { const uint32_t w = FR()%8; if (w == 0) std::this_thread::yield(); else if (w < 3) {for (volatile int i=0; i<300; i++) {}} }
      f_progress++;
      if (f_nviol.load() > 20) break;
   }
   while (rw > 0) { if (rw == 1) f_writer = -1; if (g_m->UnlockReadWrite().IsOK()) rw--; else {FV("final UnlockReadWrite failed"); break;} }
   while (ro > 0) { f_readers--; if (g_m->UnlockReadOnly().IsOK()) ro--; else {FV("final UnlockReadOnly failed"); break;} }
   f_done++;
}
static int Free(uint32 iters, int nt, int nops, uint32 seed0, const char * outFile)
{
   FILE * out = fopen(outFile, "w"); if (!out) return 2;
   muscle::verif::YieldFuncRef() = NoiseYield;
   long execs = 0, violated = 0, hung = 0, ops = 0;
   for (uint32 it=0; (it<iters)&&(violated < 20)&&(hung == 0); it++) {
      const bool prefer = (it%2) == 1;
      ReaderWriterMutex * m = new ReaderWriterMutex(prefer); g_m = m;
      f_readers = 0; f_writer = -1; f_done = 0; f_nviol = 0; f_viol.clear(); f_progress = 0;
      std::vector<std::thread> ths;
      for (int t=0; t<nt; t++) {FreeArg a; a.id = t; a.nops = nops; a.seed = seed0*1000003u + it*31u; a.prefer = prefer; ths.emplace_back(FreeMain, a);}
      // watchdog: every compliant thread releases what it holds, so everybody must finish; 40 s without any progress = stranded
      long last = -1; int idle = 0;
      while (f_done.load() < nt) { std::this_thread::sleep_for(std::chrono::milliseconds(5)); const long p = f_progress.load(); if (p != last) {last = p; idle = 0;} else if (++idle > 8000) break; }
      execs++; ops += f_progress.load();
      const bool stuck = (f_done.load() < nt);
      if (stuck) { hung++; char b[200]; snprintf(b, sizeof(b), "STRANDED (free-running): %d of %d threads did not finish although every thread releases what it holds; no progress for 40 s", nt-f_done.load(), nt); FV(b); }
      if (f_nviol.load() > 0) {
         violated++;
         mj::Value rec = mj::Value::Obj(); rec.set("free", mj::Value::Bool(true)).set("iteration", mj::Value::Int(it)).set("prefer", mj::Value::Bool(prefer)).set("threads", mj::Value::Int(nt)).set("seed", mj::Value::Int(seed0));
         mj::Value va = mj::Value::Arr(); {std::lock_guard<std::mutex> g(f_vm); for (size_t k=0; k<f_viol.size(); k++) va.push(mj::Value::Str(f_viol[k]));} rec.set("violations", va);
         fprintf(out, "%s\n", mj::ToString(rec).c_str());
      }
      if (stuck) { for (size_t k=0; k<ths.size(); k++) ths[k].detach(); }
      else { for (size_t k=0; k<ths.size(); k++) ths[k].join(); delete m; }
   }
   mj::Value sum = mj::Value::Obj();
   sum.set("summary", mj::Value::Bool(true)).set("executions", mj::Value::Int(execs)).set("violated", mj::Value::Int(violated)).set("stranded", mj::Value::Int(hung)).set("operations", mj::Value::Int(ops)).set("threads", mj::Value::Int(nt));
   fprintf(out, "%s\n", mj::ToString(sum).c_str()); fclose(out);
   printf("%s\n", mj::ToString(sum).c_str()); fflush(stdout);
   if (hung) _exit(0);
   return 0;
}

int main(int argc, char ** argv)
{
   CompleteSetupSystem css;
   if ((argc >= 7)&&(!strcmp(argv[1], "free"))) return Free((uint32) atol(argv[2]), atoi(argv[3]), atoi(argv[4]), (uint32) atol(argv[5]), argv[6]);
   vs::Install();
   if ((argc >= 5)&&(!strcmp(argv[1], "replay"))) return Replay(argv[2], atoi(argv[3]) != 0, argv[4]);
   if ((argc >= 8)&&(!strcmp(argv[1], "explore"))) return Explore((uint32) atol(argv[2]), atoi(argv[3]), atoi(argv[4]), (uint32) atol(argv[5]), atoi(argv[6]), argv[7], (argc > 8) ? argv[8] : NULL, (argc > 9) ? (uint32) atol(argv[9]) : 50);
   fprintf(stderr, "usage: rw replay <behaviours> <prefer> <report> | rw explore <iters> <threads> <ops> <seed> <prefer 0|1|2> <report> [trace [n]]\n");
   return 2;
}
