/* C02 conformance harness for the C "micro" codec (MicroMessage.c + MicroMessageGateway.c), AddressSanitizer build in RECOVER mode
 * (-fsanitize-recover=address, ASAN_OPTIONS=halt_on_error=0:handle_segv=0): the harness counts the reports per case through
 * __asan_set_error_report_callback and survives SIGSEGV / SIGBUS inside the reader with siglongjmp (the reader allocates nothing).
 * Built by checks/c02.py with explicit gcc commands (MiniMessage.c and MicroMessage.c define the same global symbols).
 *
 *   mut_micro <cases.txt> <report.ndjson> <start index> <cursor file> <pass>
 *
 * cases.txt, one case per line:  <index> <enc> <verdict> <hex of the bytes | -> <expected number of fields | -1>
 *   pass = valid:   only the cases with verdict A (a complete valid Message): UMInitializeWithExistingData, iteration over all fields,
 *                   UMFind* / UMGet* of every item of every field, recursively into sub-Messages; judged normally: ANY report, signal or
 *                   wrong field count is a violation.  enc = frame: the stream goes through UGDoInput (three segmentations) and the
 *                   UMessage that comes out must be the Message.
 *   pass = hostile: the cases with another verdict.  KNOWN FINDING F19 (micro-reader-unchecked): the reader validates only the 12-byte
 *                   header, so on an input that is not a complete valid Message it can read outside the buffer; reports and signals are
 *                   counted as reproductions of F19 (AddressSanitizer reports every faulting instruction only once in recover mode, which
 *                   is why the valid cases run in a process of their own).  UGDoInput itself does not walk the fields and is judged normally.
 */
#include <stdio.h>
#include <stdlib.h>
#include <string.h>
#include <signal.h>
#include <setjmp.h>
#include <unistd.h>
#include <fcntl.h>
#include "MicroMessage.h"
#include "MicroMessageGateway.h"

void __asan_set_error_report_callback(void (*cb)(const char *)) __attribute__((weak));
static volatile unsigned g_reportsThisCase = 0; static char g_firstReport[200];
static void OnReport(const char * text) {if (g_reportsThisCase++ == 0) {const char * p = strstr(text, "ERROR: "); size_t i = 0; if (p == NULL) p = text; while((p[i])&&(p[i] != '\n')&&(i < sizeof(g_firstReport)-1)) {g_firstReport[i] = (p[i] == '"') ? '\'' : p[i]; i++;} g_firstReport[i] = '\0';}}
static sigjmp_buf g_jmp; static volatile int g_inReader = 0; static volatile int g_sig = 0;
static void OnSegv(int s) {if (g_inReader) {g_sig = s; siglongjmp(g_jmp, 1);} signal(s, SIG_DFL); raise(s);}

static FILE * g_rep = NULL; static int g_curfd = -1; static long long g_index = -1; static const char * g_target = ""; static char g_desc[128];
static unsigned g_viol = 0, g_known = 0, g_knownSignals = 0; static unsigned long long g_runs = 0, g_fieldsWalked = 0, g_itemsRead = 0;
static void SetCursor(long long i) {char b[32]; int n; g_index = i; n = snprintf(b, sizeof(b), "%-20lld\n", i); if (g_curfd >= 0) (void) !pwrite(g_curfd, b, n, 0);}
static void Note(const char * kind, const char * what, const unsigned char * bytes, size_t n)
{
   size_t i; if (!strcmp(kind, "violations")) g_viol++; else g_known++;
   if ((strcmp(kind, "known") == 0)&&(g_known > 40)) return;
   fprintf(g_rep, "{\"index\":%lld,\"case\":\"%s\",\"target\":\"%s\",\"%s\":[\"%s\"],\"bytes\":\"", g_index, g_desc, g_target, kind, what);
   for (i=0; (i<n)&&(i<2048); i++) fprintf(g_rep, "%02x", bytes[i]);
   fprintf(g_rep, "\"}\n"); fflush(g_rep);
}
static void OnAlarm(int s) {char b[300]; int n = snprintf(b, sizeof(b), "{\"index\":%lld,\"case\":\"%s\",\"target\":\"%s\",\"hang\":true}\n", g_index, g_desc, g_target); (void) s; (void) !write(fileno(g_rep), b, n); _exit(3);}
static int hexv(int c) {return (c <= '9') ? c-'0' : c-'a'+10;}
static unsigned char * UnHex(const char * h, size_t * n) {size_t L = (h[0] == '-') ? 0 : strlen(h)/2, i; unsigned char * b = (unsigned char *) malloc(L ? L : 1); for (i=0; i<L; i++) b[i] = (unsigned char)(hexv(h[2*i])*16+hexv(h[2*i+1])); *n = L; return b;}
static uint32 R32(const unsigned char * b) {return ((uint32) b[0]) | (((uint32) b[1])<<8) | (((uint32) b[2])<<16) | (((uint32) b[3])<<24);}

static volatile unsigned g_sink = 0;
/* every reader entry point on every field and item; returns the number of fields seen */
static uint32 Walk(const UMessage * m, int depth)
{
   UMessageFieldNameIterator it; uint32 nf = 0; unsigned guard = 0;
   (void) UMGetWhatCode(m); (void) UMGetNumFields(m); (void) UMGetFlattenedSize(m);
   UMIteratorInitialize(&it, m, B_ANY_TYPE);
   while(guard++ < 100000)
   {
      uint32 cnt = 0, tc = 0, i; const char * fn = UMIteratorGetCurrentFieldName(&it, &cnt, &tc);
      if (fn == NULL) break;
      nf++; g_fieldsWalked++;
      const int isVar = !((tc == B_BOOL_TYPE)||(tc == B_INT8_TYPE)||(tc == B_INT16_TYPE)||(tc == B_INT32_TYPE)||(tc == B_INT64_TYPE)||(tc == B_FLOAT_TYPE)||(tc == B_DOUBLE_TYPE)||(tc == B_POINT_TYPE)||(tc == B_RECT_TYPE)||(tc == B_MESSAGE_TYPE));
      g_sink += (unsigned) strlen(fn);
      (void) UMGetNumItemsInField(m, fn, tc); (void) UMGetFieldTypeCode(m, fn);
      for (i=0; (i<cnt)&&(i<64); i++)
      {
         const void * d = NULL; uint32 nb = 0; g_itemsRead++;
         switch(tc)
         {
            case B_BOOL_TYPE:   g_sink += UMGetBool(m, fn, i); break;
            case B_INT8_TYPE:   g_sink += (unsigned) UMGetInt8(m, fn, i); break;
            case B_INT16_TYPE:  g_sink += (unsigned) UMGetInt16(m, fn, i); break;
            case B_INT32_TYPE:  g_sink += (unsigned) UMGetInt32(m, fn, i); break;
            case B_INT64_TYPE:  g_sink += (unsigned) UMGetInt64(m, fn, i); break;
            case B_FLOAT_TYPE:  {float f = UMGetFloat(m, fn, i); g_sink += (unsigned) sizeof(f);} break;
            case B_DOUBLE_TYPE: {double f = UMGetDouble(m, fn, i); g_sink += (unsigned) sizeof(f);} break;
            case B_POINT_TYPE:  {UPoint p = UMGetPoint(m, fn, i); g_sink += (unsigned) sizeof(p);} break;
            case B_RECT_TYPE:   {URect r = UMGetRect(m, fn, i); g_sink += (unsigned) sizeof(r);} break;
            case B_STRING_TYPE: {const char * s = UMGetString(m, fn, i); if (s) g_sink += (unsigned) strlen(s);} break;
            case B_MESSAGE_TYPE: {UMessage sub; if ((depth < 8)&&(UMFindMessage(m, fn, i, &sub) == CB_NO_ERROR)) (void) Walk(&sub, depth+1);} break;
            default: break;
         }
         /* UMFindData is the accessor of the variable-size types (count word + length-prefixed blobs); it does not look at the type itself */
         if ((isVar)&&(UMFindData(m, fn, tc, i, &d, &nb) == CB_NO_ERROR)&&(d)) {uint32 k; for (k=0; k<nb; k++) g_sink += ((const unsigned char *) d)[k];}   /* touch every byte handed out */
      }
      /* one past the last item: must fail cleanly */
      if (isVar) {const void * d = NULL; uint32 nb = 0; (void) UMFindData(m, fn, tc, cnt, &d, &nb);}
      UMIteratorAdvance(&it);
   }
   {const void * d = NULL; uint32 nb = 0; (void) UMFindData(m, "no such field", B_ANY_TYPE, 0, &d, &nb);}
   return nf;
}

/* returns the number of fields, or -1 if UMInitializeWithExistingData refuses the buffer */
static int Read(const unsigned char * bytes, size_t n, int * crashed)
{
   unsigned char * x = (unsigned char *) malloc(n ? n : 1); UMessage m; volatile int nf = -1;
   if (n) memcpy(x, bytes, n);
   *crashed = 0; g_runs++; alarm(40);
   g_inReader = 1;
   if (sigsetjmp(g_jmp, 1) == 0)
   {
      if ((UMInitializeWithExistingData(&m, x, (uint32) n) == CB_NO_ERROR)&&(UMIsMessageValid(&m))) nf = (int) Walk(&m, 0);
   }
   else *crashed = g_sig;
   g_inReader = 0;
   alarm(0); free(x);
   return nf;
}

typedef struct {const unsigned char * d; size_t n, pos; int mode; size_t cuts[8]; int ncuts;} Feed;
static size_t SegEnd(const Feed * f) {if (f->mode == 1) return f->pos+1; if (f->mode == 2) {int i; for (i=0; i<f->ncuts; i++) if (f->cuts[i] > f->pos) return f->cuts[i];} return f->n;}
static int32 Recv(uint8 * buf, uint32 numBytes, void * arg)
{
   Feed * f = (Feed *) arg; size_t lim, c;
   if (f->pos >= f->n) return 0;
   lim = SegEnd(f); if (lim > f->n) lim = f->n;
   c = lim - f->pos; if (c > numBytes) c = numBytes;
   memcpy(buf, f->d+f->pos, c); f->pos += c;
   return (int32) c;
}
static void Gateway(const char * v, const unsigned char * s, size_t n, const unsigned char * want, size_t wn, int mode, uint32 IN)
{
   unsigned char * inbuf = (unsigned char *) malloc(IN), * outbuf = (unsigned char *) malloc(64);
   UMessageGateway gw; Feed f; int got = 0, calls = 0, firstOK = 0; const size_t c[] = {1, 7, 8, 9, 12, 20, (n > 1) ? n-1 : 0}; size_t i;
   memset(&f, 0, sizeof(f)); f.d = s; f.n = n; f.mode = mode;
   for (i=0; i<sizeof(c)/sizeof(c[0]); i++) if ((c[i] > 0)&&(c[i] < n)&&((f.ncuts == 0)||(c[i] > f.cuts[f.ncuts-1]))) f.cuts[f.ncuts++] = c[i];
   UGGatewayInitialize(&gw, inbuf, IN, outbuf, 64);
   g_target = "UGDoInput"; g_runs++; alarm(40);
   while(calls++ < 100000)
   {
      UMessage m; const int32 r = UGDoInput(&gw, ~((uint32) 0), Recv, &f, &m);
      if (UMIsMessageValid(&m)) {if (got == 0) firstOK = ((UMGetFlattenedSize(&m) == wn)&&(memcmp(UMGetFlattenedBuffer(&m), want, wn) == 0)); got++;}
      if (r < 0) break;
      if ((r == 0)&&(f.pos >= f.n)) break;
   }
   if ((!strcmp(v, "A"))&&(wn <= IN)&&((got == 0)||(!firstOK))) Note("violations", "UGDoInput: a valid stream was not handed over as the Message it encodes", s, n);
   if ((!strcmp(v, "A"))&&(wn > IN)&&(got > 0)) Note("violations", "UGDoInput: a Message larger than the input buffer was handed over", s, n);
   if ((!strcmp(v, "I"))&&(got > 0)) Note("violations", "UGDoInput: a UMessage was handed over although the frame is incomplete", s, n);
   alarm(0); free(inbuf); free(outbuf);
}

int main(int argc, char ** argv)
{
   FILE * fc; char * line = NULL; size_t cap = 0; ssize_t len; long long start; unsigned long long n = 0; int stopped = 0, valid;
   if (argc < 6) {fprintf(stderr, "usage: mut_micro cases.txt report.ndjson start cursor valid|hostile\n"); return 2;}
   fc = fopen(argv[1], "r"); g_rep = fopen(argv[2], "a"); start = atoll(argv[3]); g_curfd = open(argv[4], O_WRONLY|O_CREAT, 0644); valid = !strcmp(argv[5], "valid");
   if ((fc == NULL)||(g_rep == NULL)) {fprintf(stderr, "cannot open files\n"); return 2;}
   signal(SIGALRM, OnAlarm); signal(SIGSEGV, OnSegv); signal(SIGBUS, OnSegv);
   if (__asan_set_error_report_callback) __asan_set_error_report_callback(OnReport);
   while((len = getline(&line, &cap, fc)) > 0)
   {
      long long idx; char enc[16], v[8]; char * hb, * rest; size_t nb; unsigned char * b; int consumed = 0, expectNF, isA;
      if (sscanf(line, "%lld %15s %7s %n", &idx, enc, v, &consumed) < 3) continue;
      hb = line + consumed; rest = strchr(hb, ' '); if (rest == NULL) continue; *rest++ = '\0'; expectNF = atoi(rest);
      isA = !strcmp(v, "A");
      if ((idx < start)||(isA != valid)) continue;
      SetCursor(idx); snprintf(g_desc, sizeof(g_desc), "%s case %lld -> %s", enc, idx, v);
      b = UnHex(hb, &nb);
      if (!strcmp(enc, "msg"))
      {
         int crashed = 0, nf; char t[400];
         g_target = "micro reader (UMInitializeWithExistingData, field iterator, UMFind*/UMGet*)";
         g_reportsThisCase = 0; nf = Read(b, nb, &crashed);
         if (valid)
         {
            if (g_reportsThisCase > 0) {snprintf(t, sizeof(t), "sanitizer report while reading a complete valid Message: %s", g_firstReport); Note("violations", t, b, nb);}
            if (crashed) {snprintf(t, sizeof(t), "signal %d while reading a complete valid Message", crashed); Note("violations", t, b, nb);}
            if ((!crashed)&&(nf != expectNF)) {snprintf(t, sizeof(t), "the reader sees %d fields in a complete valid Message of %d fields", nf, expectNF); Note("violations", t, b, nb);}
         }
         else
         {
            if (g_reportsThisCase > 0) {snprintf(t, sizeof(t), "F19: %s", g_firstReport); Note("known", t, b, nb);}
            if (crashed) {g_knownSignals++; snprintf(t, sizeof(t), "F19: signal %d in the reader", crashed); Note("known", t, b, nb);}
         }
         if (valid)
         {
            unsigned char * fr = (unsigned char *) malloc(nb+8); fr[0] = nb&0xFF; fr[1] = (nb>>8)&0xFF; fr[2] = (nb>>16)&0xFF; fr[3] = (nb>>24)&0xFF; fr[4] = 0x30; fr[5] = 0x63; fr[6] = 0x6e; fr[7] = 0x45; memcpy(fr+8, b, nb);
            g_reportsThisCase = 0;
            Gateway(v, fr, nb+8, b, nb, (int)(idx%3), 4096);
            Gateway(v, fr, nb+8, b, nb, 0, (uint32) nb);                      /* the body fills the input buffer exactly: allowed */
            if (nb > 12) Gateway(v, fr, nb+8, b, nb, 0, (uint32) nb-1);      /* one byte too large: must be refused, nothing may be written behind the buffer */
            if (g_reportsThisCase > 0) {char t2[400]; snprintf(t2, sizeof(t2), "sanitizer report in UGDoInput: %s", g_firstReport); Note("violations", t2, fr, nb+8);}
            free(fr);
         }
      }
      else if (!strcmp(enc, "frame"))
      {
         const unsigned char * want = (nb >= 8) ? b+8 : b; const size_t wn = ((isA)&&(nb >= 8)) ? R32(b) : 0; int mode;
         g_reportsThisCase = 0;
         for (mode=0; mode<3; mode++) Gateway(v, b, nb, want, wn, mode, 4096);
         if (isA) {Gateway(v, b, nb, want, wn, 0, (uint32) wn); if (wn > 12) Gateway(v, b, nb, want, wn, 0, (uint32) wn-1);}
         if (g_reportsThisCase > 0) {char t[400]; snprintf(t, sizeof(t), "sanitizer report in UGDoInput: %s", g_firstReport); Note("violations", t, b, nb);}
      }
      free(b); n++;
      if (g_viol >= 25) {stopped = 1; break;}
   }
   SetCursor(-1);
   fprintf(g_rep, "{\"summary\":true,\"mode\":\"micro-%s\",\"cases\":%llu,\"violating\":%u,\"known\":%u,\"known_signals\":%u,\"stopped_early\":%s,\"parser_runs\":%llu,\"fields_walked\":%llu,\"items_read\":%llu}\n",
           argv[5], n, g_viol, g_known, g_knownSignals, stopped ? "true" : "false", g_runs, g_fieldsWalked, g_itemsRead);
   fclose(g_rep);
   return (int)(g_sink & 0);
}
