// C16 conformance harness: muscle::Queue<ItemType> against the ideal sequence of spec/Deque/Deque.tla.
//
//   qu replay <behaviours.ndjson> <report.ndjson> [int|String|Tok]
//        spec -> code.  Every behaviour (a list of step records of Deque.tla produced by TLC + path cover) is replayed on a real
//        Queue of each item type, from each start configuration; after EVERY step the status / result / iterator output / contents
//        of the other queue / full contents are compared with the record.
//   qu random <type> <seed> <runs> <ops> <trace.ndjson> <report.ndjson>
//        code -> spec.  A seeded driver makes long call sequences (ring episodes: positions the head offset by alternating
//        head/tail adds and removes, then a multi-insert / grow / Normalize / ...; mixed with calls drawn from the whole menu) and
//        logs every call with arguments, result and full contents; TLC validates the log line by line (DequeTrace.tla).
//   qu directed <case> <report.ndjson>
//        the directed cases of the known findings.
//
// In every mode, after every call: the contents are read through every public route (operator[], GetItemAt, Head/Tail,
// const and non-const iterators forwards and backwards, the two GetArrayPointer pieces) and the routes must agree; for owning
// item types every slot of the internal array outside the window (read through GetRawArrayPointer) must hold the default
// item ("never exposes stale items": a removed owning item must be gone); the ring position (capacity, head offset, size)
// every call met is recorded and reported as coverage.  Item types: int (trivially copyable), String (owning, move = swap),
// Tok (owning, copy-only: std::move() degrades to a copy, as for any class written before C++11), uint8 and uint16 (trivially copyable; their inline buffer
// has 8 / 4 slots, not SMALL_QUEUE_SIZE: ACTUAL_SMALL_QUEUE_SIZE depends on sizeof(ItemType)).
#include "util/Queue.h"
#include "util/String.h"
#include "system/SetupSystem.h"
#include "mjson.h"
#include <vector>
#include <string>
#include <map>
#include <set>
#include <algorithm>
#include <signal.h>
#include <unistd.h>

using namespace muscle;

typedef std::vector<int> IV;
static const int NOLIMIT = 99;     // Deque.tla's NoLimit: stands for MUSCLE_NO_LIMIT
// Deque.tla's codes for the boundary values of the argument type: 95 = 0x7FFFFFFF, 96 = 0x80000000, 97 = 0xFFFFFFFE, 99 = 0xFFFFFFFF; as a stride 95 / -95 = INT32_MAX / INT32_MIN
static inline uint32 U(int x) {return (x >= 98) ? MUSCLE_NO_LIMIT : ((x == 95) ? 0x7FFFFFFFu : ((x == 96) ? 0x80000000u : ((x == 97) ? 0xFFFFFFFEu : (uint32)(int32) x)));}
static inline int32 I32(int x) {return (x >= 95) ? 0x7FFFFFFF : ((x <= -95) ? (int32)(-0x7FFFFFFF-1) : (int32) x);}

// ---------------------------------------------------------------------------------------------------------------------------
// item types

struct Tok   // owning, copy-only; carries a serial number that takes no part in comparisons (makes the stability of Sort observable)
{
   int * p; int tag;
   Tok() : p(NULL), tag(0) {}
   explicit Tok(int v) : p(v ? new int(v) : NULL), tag(NextTag()) {}
   Tok(const Tok & r) : p(r.p ? new int(*r.p) : NULL), tag(r.tag) {}
   Tok & operator=(const Tok & r) {if (this != &r) {int * n = r.p ? new int(*r.p) : NULL; delete p; p = n; tag = r.tag;} return *this;}
   ~Tok() {delete p; p = NULL;}
   static int NextTag() {static int n = 0; return ++n;}
   int val() const {return p ? *p : 0;}
   bool operator==(const Tok & r) const {return val() == r.val();}
   bool operator!=(const Tok & r) const {return val() != r.val();}
   bool operator<(const Tok & r) const {return val() < r.val();}
};

template<class T> struct IT;
template<> struct IT<int>
{
   enum {OWNING = 0, MOVABLE = 1};
   static const char * Name() {return "int";}
   static int Make(int v) {return v;}
   static int Val(const int & x) {return x;}
   static int Tag(const int &) {return 0;}
};
// item types whose inline buffer is NOT SMALL_QUEUE_SIZE slots long (ACTUAL_SMALL_QUEUE_SIZE depends on sizeof(ItemType): 8 slots for 1-byte items, 4 for 2-byte items)
template<> struct IT<uint8>
{
   enum {OWNING = 0, MOVABLE = 1};
   static const char * Name() {return "uint8";}
   static uint8 Make(int v) {return (uint8) v;}
   static int Val(const uint8 & x) {return x;}
   static int Tag(const uint8 &) {return 0;}
};
template<> struct IT<uint16>
{
   enum {OWNING = 0, MOVABLE = 1};
   static const char * Name() {return "uint16";}
   static uint16 Make(int v) {return (uint16) v;}
   static int Val(const uint16 & x) {return x;}
   static int Tag(const uint16 &) {return 0;}
};
template<> struct IT<String>
{
   enum {OWNING = 1, MOVABLE = 1};
   static const char * Name() {return "String";}
   // 0 = the default item; even values are long enough to live on the heap; the first character orders them like the integers
   static String Make(int v) {String s; if (v != 0) {const int n = (v%2 == 0) ? 24 : 1; for (int i=0; i<n; i++) s += (char)('0'+v);} return s;}
   static int Val(const String & x) {if (x.Length() == 0) return 0; const int c = x[0]-'0'; return ((c >= 1)&&(c <= 9)&&(x == Make(c))) ? c : -7777;}
   static int Tag(const String &) {return 0;}
};
template<> struct IT<Tok>
{
   enum {OWNING = 1, MOVABLE = 0};
   static const char * Name() {return "Tok";}
   static Tok Make(int v) {return Tok(v);}
   static int Val(const Tok & x) {return x.val();}
   static int Tag(const Tok & x) {return x.tag;}
};

// ---------------------------------------------------------------------------------------------------------------------------
// calls

#define OPS(X) \
   X(AddTail) X(AddTailDefault) X(AddTailGet) X(AddTailGetV) X(AddTailOwn) X(AddTailIfAbsent) \
   X(AddHead) X(AddHeadDefault) X(AddHeadGet) X(AddHeadGetV) X(AddHeadOwn) X(AddHeadIfAbsent) \
   X(AddTailMulti) X(AddTailMultiArr) X(AddTailMultiSelf) X(AddTailMultiOwnArr) \
   X(AddHeadMulti) X(AddHeadMultiArr) X(AddHeadMultiSelf) X(AddHeadMultiOwnArr) \
   X(InsertItemAt) X(InsertItemAtDefault) X(InsertItemAtOwn) X(InsertItemsAt) X(InsertItemsAtArr) X(InsertItemsAtSelf) X(InsertSorted) \
   X(RemoveHead) X(RemoveHeadRet) X(RemoveHeadDef) X(RemoveHeadMulti) X(RemoveTail) X(RemoveTailRet) X(RemoveTailDef) X(RemoveTailMulti) \
   X(RemoveItemAt) X(RemoveItemAtRet) X(RemoveItemAtDef) X(RemoveFirst) X(RemoveLast) X(RemoveAll) X(RemoveAllOwn) X(RemoveDup) X(RemoveSortedDup) \
   X(GetItemAt) X(GetItemPtr) X(GetWithDefault) X(GetWithDefaultV) X(HeadWithDefault) X(TailWithDefault) \
   X(ReplaceItemAt) X(ReplaceItemAtDefault) X(ReplaceAll) \
   X(Clear) X(FastClear) X(EnsureSize) X(EnsureSizeSet) X(EnsureSizeX) X(EnsureSizeSetX) X(EnsureCanAdd) X(ShrinkToFit) X(Normalize) \
   X(IndexOf) X(LastIndexOf) X(Contains) X(StartsWith) X(EndsWith) X(StartsWithQ) X(EndsWithQ) X(Cmp) X(CmpSelf) X(Iter) \
   X(Swap) X(Reverse) X(Sort) \
   X(SwapContents) X(SwapContentsRev) X(CopyFrom) X(Assign) X(CopyCtor) X(AssignSelf) X(CopyFromSelf) X(MoveAssign) X(Plunder) X(MoveCtor) X(MoveAway) X(Adopt) X(Release)

enum Op {
#define X(n) OP_##n,
   OPS(X)
#undef X
   OP_COUNT
};
static const char * OPNAME[] = {
#define X(n) #n,
   OPS(X)
#undef X
   "?"
};
static int OpByName(const std::string & s) {static std::map<std::string, int> m; if (m.empty()) for (int i=0; i<OP_COUNT; i++) m[OPNAME[i]] = i; std::map<std::string, int>::const_iterator it = m.find(s); return (it == m.end()) ? -1 : it->second;}

// groups of calls whose meeting with every ring position is reported (and required) as coverage
enum Group {G_MULTI, G_GROW, G_NORMALIZE, G_REMOVEAT, G_INSERTAT, G_SORT, G_REVERSE, G_SETSIZE, G_WHOLE, G_OTHER, G_COUNT};
static const char * GROUPNAME[] = {"multi", "grow", "normalize", "removeat", "insertat", "sort", "reverse", "setsize", "whole", "other"};
static int GroupOf(int op)
{
   switch(op) {
      case OP_AddTailMulti: case OP_AddTailMultiArr: case OP_AddTailMultiSelf: case OP_AddTailMultiOwnArr:
      case OP_AddHeadMulti: case OP_AddHeadMultiArr: case OP_AddHeadMultiSelf: case OP_AddHeadMultiOwnArr:
      case OP_InsertItemsAt: case OP_InsertItemsAtArr: case OP_InsertItemsAtSelf: return G_MULTI;
      case OP_Normalize: return G_NORMALIZE;
      case OP_RemoveItemAt: case OP_RemoveItemAtRet: case OP_RemoveItemAtDef: case OP_RemoveFirst: case OP_RemoveLast: case OP_RemoveAll: case OP_RemoveAllOwn: return G_REMOVEAT;
      case OP_InsertItemAt: case OP_InsertItemAtDefault: case OP_InsertItemAtOwn: case OP_InsertSorted: return G_INSERTAT;
      case OP_Sort: case OP_RemoveDup: return G_SORT;
      case OP_Reverse: return G_REVERSE;
      case OP_EnsureSizeSet: case OP_EnsureSizeSetX: case OP_RemoveHeadMulti: case OP_RemoveTailMulti: return G_SETSIZE;
      case OP_SwapContents: case OP_SwapContentsRev: case OP_CopyFrom: case OP_Assign: case OP_CopyCtor: case OP_MoveAssign: case OP_Plunder: case OP_MoveCtor: case OP_MoveAway: return G_WHOLE;
      default: return G_OTHER;
   }
}

struct Call {int op; int a, b, c, v; IV src; Call() : op(0), a(0), b(0), c(0), v(0) {}};
struct Obs
{
   std::string st; int r; IV rs, o, q;     // observed status, integer result, iterator output, other queue's contents, contents
   std::vector<std::string> bad;           // the Queue contradicts itself / keeps a removed owning item / is not normalized after Normalize()
   int staleRepaired;                      // known finding "QswapStale": this many slots of the inline buffer outside the window held copies left behind; they have been reset
   Obs() : r(0), staleRepaired(0) {}
};

static const char * S(const status_t & s) {return s.IsOK() ? "ok" : ((s == B_DATA_NOT_FOUND) ? "notfound" : ((s == B_BAD_ARGUMENT) ? "badarg" : "error"));}

static void AppendIV(std::string & out, const IV & v) {char b[24]; out += '['; for (size_t i=0; i<v.size(); i++) {snprintf(b, sizeof(b), i ? ",%d" : "%d", v[i]); out += b;} out += ']';}
static std::string IVStr(const IV & v) {std::string s; AppendIV(s, v); return s;}
static IV ToIV(const mj::Value & a) {IV v; for (size_t i=0; i<a.size(); i++) v.push_back((int) a[i].i()); return v;}

static bool FirstLess(const std::pair<int, int> & x, const std::pair<int, int> & y) {return x.first < y.first;}

struct Rng
{
   uint64 s;
   explicit Rng(uint64 seed) : s(seed*0x9E3779B97F4A7C15ULL + 0x1234567ULL) {for (int i=0; i<4; i++) (void) Next();}
   uint32 Next() {s ^= s << 13; s ^= s >> 7; s ^= s << 17; return (uint32)(s >> 16);}
   uint32 Below(uint32 n) {return n ? (Next()%n) : 0;}
   bool Chance(uint32 pct) {return Below(100) < pct;}
};

// ---------------------------------------------------------------------------------------------------------------------------
// coverage of ring positions

struct RingPos {uint32 cap, head, size; bool inl, wrapped, allocated;};
struct Coverage
{
   std::set<uint64> tuples;                 // (cap, head, size, op)
   std::map<uint32, long> cells;            // (cap in caps, head, group[, wrapped]) -> calls
   long wrappedCalls, calls, grows, inlineCalls, heapCalls;
   std::set<int> opsOnWrapped, opsSeen;
   // the capacities the classes are about are MEASURED on the library as compiled (they depend on SMALL_QUEUE_SIZE, sizeof(ItemType) and the growth policy):
   // caps[0] = the inline buffer, caps[1] = what EnsureSize(inline+1) allocates, caps[2] = what adding inline+1 items one by one grows to
   std::vector<uint32> caps; uint32 inlineCap;
   // exchanges between an inline-buffer Queue and a heap Queue: (this Queue inline / heap, its number of items 0..inline capacity, other Queue inline / heap, call) -> calls
   std::map<uint32, long> swapCells;
   static int SwapOpIndex(int op) {return (op == OP_SwapContents) ? 0 : ((op == OP_SwapContentsRev) ? 1 : ((op == OP_Plunder) ? 2 : ((op == OP_MoveAssign) ? 3 : ((op == OP_MoveAway) ? 4 : -1))));}
   static const char * SwapOpName(int i) {const char * n[] = {"SwapContents", "SwapContentsRev", "Plunder", "MoveAssign", "MoveAway"}; return n[i];}
   static uint32 SwapCell(bool qInline, uint32 k, bool oInline, int opi) {return ((qInline?0u:1u)<<24)|(k<<16)|((oInline?0u:1u)<<8)|(uint32) opi;}
   void NoteSwap(const RingPos & before, bool otherInline, bool otherAllocated, int op)
   {
      const int opi = SwapOpIndex(op); if ((opi < 0)||(before.size > inlineCap)||(!before.allocated)||(!otherAllocated)) return;
      swapCells[SwapCell(before.inl, before.size, otherInline, opi)]++;
   }
   Coverage() : wrappedCalls(0), calls(0), grows(0), inlineCalls(0), heapCalls(0), inlineCap(0) {}
   bool IsCap(uint32 c) const {for (size_t i=0; i<caps.size(); i++) if (caps[i] == c) return true; return false;}
   // the head offsets wanted for a capacity: all of them, or (large capacities) the ones next to the two ends and in the middle
   static std::vector<uint32> HeadsOf(uint32 cap)
   {
      std::vector<uint32> h;
      if (cap <= 12) {for (uint32 i=0; i<cap; i++) h.push_back(i);}
      else {const uint32 m = cap/2; const uint32 pick[] = {0, 1, 2, 3, m-1, m, m+1, cap-3, cap-2, cap-1}; for (int i=0; i<10; i++) h.push_back(pick[i]);}
      return h;
   }
   static uint32 Cell(uint32 cap, uint32 head, int group, bool wrapped) {return (cap<<16)|(head<<8)|((uint32)group<<1)|(wrapped?1:0);}
   void Note(const RingPos & before, uint32 capAfter, int op)
   {
      calls++; opsSeen.insert(op);
      if (before.inl) inlineCalls++; else if (before.allocated) heapCalls++;
      if (before.wrapped) {wrappedCalls++; opsOnWrapped.insert(op);}
      if ((before.cap < 64)&&(before.size < 64)) tuples.insert((((uint64) before.cap)<<40)|(((uint64) before.head)<<24)|(((uint64) before.size)<<8)|(uint64) op);
      const bool grew = (capAfter > before.cap)&&(before.size > 0);
      if (grew) grows++;
      if ((before.size > 0)&&(before.cap < 250)&&(IsCap(before.cap))) {
         cells[Cell(before.cap, before.head, GroupOf(op), false)]++;
         if (before.wrapped) cells[Cell(before.cap, before.head, GroupOf(op), true)]++;
         if (grew) cells[Cell(before.cap, before.head, G_GROW, false)]++;
      }
   }
   void Merge(const Coverage & c)
   {
      tuples.insert(c.tuples.begin(), c.tuples.end()); for (std::map<uint32, long>::const_iterator it = c.cells.begin(); it != c.cells.end(); ++it) cells[it->first] += it->second;
      if (caps.empty()) {caps = c.caps; inlineCap = c.inlineCap;}
      for (std::map<uint32, long>::const_iterator it = c.swapCells.begin(); it != c.swapCells.end(); ++it) swapCells[it->first] += it->second;
      wrappedCalls += c.wrappedCalls; calls += c.calls; grows += c.grows; inlineCalls += c.inlineCalls; heapCalls += c.heapCalls;
      opsOnWrapped.insert(c.opsOnWrapped.begin(), c.opsOnWrapped.end()); opsSeen.insert(c.opsSeen.begin(), c.opsSeen.end());
   }
   long Get(uint32 cap, uint32 head, int group, bool wrapped) const {std::map<uint32, long>::const_iterator it = cells.find(Cell(cap, head, group, wrapped)); return (it == cells.end()) ? 0 : it->second;}
   void Report(mj::Value & sum) const
   {
      sum.set("calls", mj::Value::Int(calls)).set("ring_tuples", mj::Value::Int((int64_t) tuples.size())).set("calls_on_wrapped_ring", mj::Value::Int(wrappedCalls))
         .set("distinct_ops", mj::Value::Int((int64_t) opsSeen.size())).set("distinct_ops_on_wrapped_ring", mj::Value::Int((int64_t) opsOnWrapped.size()))
         .set("reallocations_growing", mj::Value::Int(grows)).set("calls_on_inline_buffer", mj::Value::Int(inlineCalls)).set("calls_on_heap_array", mj::Value::Int(heapCalls));
      // the classes the property worries about: every head offset of the inline capacity and of the two first heap capacities met by a multi-item insert,
      // by a growing reallocation, by Normalize (on a wrapped ring where the offset allows one), ...
      mj::Value missing = mj::Value::Arr(); long want = 0, hit = 0;
      mj::Value table = mj::Value::Obj(); mj::Value cj = mj::Value::Arr();
      for (size_t ci=0; ci<caps.size(); ci++) {
         cj.push(mj::Value::Int(caps[ci]));
         const std::vector<uint32> heads = HeadsOf(caps[ci]);
         for (size_t hi=0; hi<heads.size(); hi++) {
            const uint32 h = heads[hi]; mj::Value row = mj::Value::Obj();
            for (int g=0; g<G_OTHER; g++) {
               const bool needWrapped = (g == G_NORMALIZE)&&(h > 0);
               const long n = Get(caps[ci], h, g, needWrapped);
               row.set(GROUPNAME[g], mj::Value::Int(n));
               want++; if (n > 0) hit++; else {char b[64]; snprintf(b, sizeof(b), "cap%u/head%u/%s", caps[ci], h, GROUPNAME[g]); missing.push(mj::Value::Str(b));}
            }
            char k[32]; snprintf(k, sizeof(k), "cap%u_head%u", caps[ci], h); table.set(k, row);
         }
      }
      long swant = 0, shit = 0;
      for (int qi=0; qi<2; qi++) for (uint32 k=0; k<=inlineCap; k++) for (int oi=0; oi<2; oi++) for (int opi=0; opi<5; opi++) {
         std::map<uint32, long>::const_iterator it = swapCells.find(SwapCell(qi == 0, k, oi == 0, opi)); const long n = (it == swapCells.end()) ? 0 : it->second;
         swant++; want++; if (n > 0) {shit++; hit++;} else {char b[96]; snprintf(b, sizeof(b), "exchange/%s%u/%s/%s", qi ? "heap" : "inline", k, oi ? "heap" : "inline", SwapOpName(opi)); missing.push(mj::Value::Str(b));}
      }
      sum.set("inline_capacity", mj::Value::Int(inlineCap)).set("ring_capacities", cj).set("exchange_classes_wanted", mj::Value::Int(swant)).set("exchange_classes_hit", mj::Value::Int(shit));
      sum.set("ring_classes_wanted", mj::Value::Int(want)).set("ring_classes_hit", mj::Value::Int(hit)).set("ring_classes_missing", missing).set("ring_classes", table);
   }
};

// ---------------------------------------------------------------------------------------------------------------------------
// one Queue under test

template<class T> struct Subject
{
   typedef Queue<T> Q;
   typedef IT<T> I;
   Q * q;
   bool plainOther;         // build the other Queue without pre-allocating (so that its storage follows from its length alone)
   bool inlineMayBeStale;   // the known finding about copy-only owning items has been triggered on this Queue object
   uint32 otherCounter;
   Coverage * cov;

   Subject(int startConfig, Coverage * c) : q(NULL), plainOther(false), inlineMayBeStale(false), otherCounter(0), cov(c)
   {
      switch(startConfig & 3) {
         case 0: q = new Q; break;                                                                      // nothing allocated yet
         case 1: q = new Q(PreallocatedItemSlotsCount(InlineCap()+1)); break;                            // the smallest heap array
         case 2: q = new Q; (void) q->AddTail(I::Make(7)); (void) q->AddTail(I::Make(8)); (void) q->RemoveHead(); (void) q->RemoveHead(); break;   // inline buffer, used before
         default: q = new Q(PreallocatedItemSlotsCount(2*(InlineCap()+1))); break;                       // a larger heap array
      }
   }
   ~Subject() {delete q;}

   // measured, not assumed: the capacity of the inline buffer, of the array EnsureSize(inline+1) allocates, of the array that adding inline+1 items grows to
   static uint32 InlineCap() {static uint32 c = 0; if (c == 0) {Q x; (void) x.EnsureSize(1); c = x.GetNumAllocatedItemSlots();} return c;}
   static void MeasureCaps(Coverage & cov)
   {
      const uint32 s = InlineCap(); cov.inlineCap = s; cov.caps.clear(); cov.caps.push_back(s);
      {Q x; (void) x.EnsureSize(s+1); const uint32 c = x.GetNumAllocatedItemSlots(); if ((!cov.IsCap(c))&&(c < 250)) cov.caps.push_back(c);}
      {Q x; for (uint32 i=0; i<=s; i++) (void) x.AddTail(I::Make(1)); const uint32 c = x.GetNumAllocatedItemSlots(); if ((!cov.IsCap(c))&&(c < 250)) cov.caps.push_back(c);}
   }
   // a number of slots "that cannot be had" (codes 95..99): the runs are made with a 4 GB allocation limit (vlib's ASAN_OPTIONS), under which 0x7FFFFFFF, 0x80000000
   // and 0xFFFFFFFE items CAN be had when an item is smaller than 4 bytes (and success would be as documented as failure); for those item types the value
   // that stands for the class is 0xFFFFFFFF, which the library refuses without trying
   static uint32 USlots(int x) {return ((x >= 95)&&(sizeof(T) < 4)) ? MUSCLE_NO_LIMIT : U(x);}
   static bool IsInline(const Q & x) {const char * r = (const char *) x.GetRawArrayPointer(); const char * o = (const char *) &x; return (r != NULL)&&(r >= o)&&(r < o+sizeof(Q));}
   static RingPos PosOf(const Q & x)
   {
      RingPos p; p.cap = x.GetNumAllocatedItemSlots(); p.size = x.GetNumItems(); p.inl = IsInline(x); p.allocated = (x.GetRawArrayPointer() != NULL);
      uint32 l0 = 0, l1 = 0; const T * p0 = x.GetArrayPointer(0, l0); const T * p1 = x.GetArrayPointer(1, l1);
      p.head = p0 ? (uint32)(p0-x.GetRawArrayPointer()) : 0; p.wrapped = (p1 != NULL);
      return p;
   }

   // the contents, through every public route; disagreements go to (bad)
   static void ReadAll(Q & x, IV & out, std::vector<std::string> & bad, const char * who)
   {
      const Q & cx = x; char b[256];
      const uint32 n = cx.GetNumItems(); out.clear();
      if (n > 100000) {snprintf(b, sizeof(b), "%s: GetNumItems() = %u", who, n); bad.push_back(b); return;}
      for (uint32 i=0; i<n; i++) out.push_back(I::Val(cx[i]));
      if ((cx.IsEmpty() != (n == 0))||(cx.HasItems() != (n > 0))||(cx.GetLastValidIndex() != ((int32) n)-1)||(cx.IsIndexValid(n))||((n > 0)&&(!cx.IsIndexValid(n-1))))
         {snprintf(b, sizeof(b), "%s: GetNumItems() = %u but IsEmpty/HasItems/GetLastValidIndex/IsIndexValid say otherwise", who, n); bad.push_back(b);}
      if ((cx.GetNumAllocatedItemSlots() < n)||(cx.GetNumUnusedItemSlots() != cx.GetNumAllocatedItemSlots()-n)) {snprintf(b, sizeof(b), "%s: %u items in %u slots (%u unused)", who, n, cx.GetNumAllocatedItemSlots(), cx.GetNumUnusedItemSlots()); bad.push_back(b);}
      IV r2, r3, r4, r5, r6;
      for (uint32 i=0; i<n; i++) {T t = I::Make(9); if (cx.GetItemAt(i, t).IsError()) r2.push_back(-1); else r2.push_back(I::Val(t)); const T * p = cx.GetItemAt(i); r3.push_back(p ? I::Val(*p) : -1);}
      {T t = I::Make(9); if ((cx.GetItemAt(n, t) != B_BAD_ARGUMENT)||(cx.GetItemAt(n) != NULL)) {snprintf(b, sizeof(b), "%s: GetItemAt(%u) succeeds on a Queue of %u items", who, n, n); bad.push_back(b);}}
      uint32 guard = 0;
      for (ConstQueueIterator<T> it = cx.GetIterator(); (it.HasData())&&(guard++ < n+2); it++) {r4.push_back(I::Val(it.GetValue())); if (it.GetIndex() != r4.size()-1) r4.back() = -2;}
      guard = 0;
      for (QueueIterator<T> it = x.GetBackwardIterator(); (it.HasData())&&(guard++ < n+2); it++) r5.push_back(I::Val(*it));
      std::reverse(r5.begin(), r5.end());
      uint32 l0 = 0, l1 = 0; const T * p0 = cx.GetArrayPointer(0, l0); const T * p1 = cx.GetArrayPointer(1, l1);
      if ((l0 <= n)&&(l1 <= n)) {for (uint32 i=0; (p0)&&(i<l0); i++) r6.push_back(I::Val(p0[i])); for (uint32 i=0; (p1)&&(i<l1); i++) r6.push_back(I::Val(p1[i]));} else r6.push_back(-3);
      if (r2 != out) {bad.push_back(std::string(who) + ": GetItemAt(i, ret) gives " + IVStr(r2) + ", operator[] gives " + IVStr(out));}
      if (r3 != out) {bad.push_back(std::string(who) + ": GetItemAt(i) gives " + IVStr(r3) + ", operator[] gives " + IVStr(out));}
      if (r4 != out) {bad.push_back(std::string(who) + ": the forward iterator gives " + IVStr(r4) + ", operator[] gives " + IVStr(out));}
      if (r5 != out) {bad.push_back(std::string(who) + ": the backward iterator gives (reversed) " + IVStr(r5) + ", operator[] gives " + IVStr(out));}
      if (r6 != out) {bad.push_back(std::string(who) + ": GetArrayPointer(0)+(1) give " + IVStr(r6) + ", operator[] gives " + IVStr(out));}
      if (cx.IsNormalized() != (p1 == NULL)) {bad.push_back(std::string(who) + ": IsNormalized() disagrees with GetArrayPointer(1)");}
      if (n > 0) {
         if ((I::Val(cx.Head()) != out[0])||(I::Val(cx.Tail()) != out[n-1])||(cx.HeadPointer() != &cx[0])||(cx.TailPointer() != &cx[n-1])) {bad.push_back(std::string(who) + ": Head()/Tail()/HeadPointer()/TailPointer() are not the first/last item of " + IVStr(out));}
      }
      else if ((cx.HeadPointer() != NULL)||(cx.TailPointer() != NULL)) bad.push_back(std::string(who) + ": HeadPointer()/TailPointer() of an empty Queue are not NULL");
   }

   // owning item types: a slot outside the window must hold the default item
   static bool HiddenSlotsClean(const Q & x, std::string & why, const char * who)
   {
      if (!I::OWNING) return true;
      const T * raw = x.GetRawArrayPointer(); const uint32 cap = x.GetNumAllocatedItemSlots(); if ((raw == NULL)||(cap == 0)||(cap > 100000)) return true;
      const RingPos p = PosOf(x); const T & def = x.GetDefaultItem();
      for (uint32 i=0; i<cap; i++) {
         const uint32 rel = (i >= p.head) ? (i-p.head) : (i+cap-p.head);     // position relative to the head
         if ((p.size > 0)&&(rel < p.size)) continue;
         if (!(raw[i] == def)) {char b[256]; snprintf(b, sizeof(b), "%s: slot %u of the internal array (capacity %u, head offset %u, %u items) lies outside the window but still holds item %d instead of the default item", who, i, cap, p.head, p.size, I::Val(raw[i])); why = b; return false;}
      }
      return true;
   }

   Q * MakeOther(const IV & src)
   {
      Q * o = new Q; uint32 variant = (otherCounter++) & 3; const uint32 n = (uint32) src.size(); if ((plainOther)&&(variant == 2)) variant = 0;
      switch(variant) {
         case 0: for (uint32 i=0; i<n; i++) (void) o->AddTail(I::Make(src[i])); break;
         case 1: for (uint32 i=n; i>0; i--) (void) o->AddHead(I::Make(src[i-1])); break;                 // head offset at the end of the array
         case 2: (void) o->EnsureSize(n+2); (void) o->AddTail(I::Make(7)); (void) o->AddTail(I::Make(7)); for (uint32 i=0; i<n; i++) {if (i == n/2) {(void) o->RemoveHead(); (void) o->RemoveHead();} (void) o->AddTail(I::Make(src[i]));} if (n == 0) o->Clear(); break;   // wrapped when n >= 2
         default: {std::vector<T> arr; for (uint32 i=0; i<n; i++) arr.push_back(I::Make(src[i])); if (n) (void) o->AddTailMulti(&arr[0], n);} break;
      }
      return o;
   }

   // performs one call and observes everything it returns; false = the call cannot be made as described (caller's mistake)
   bool Exec(const Call & c, Obs & ob)
   {
      const RingPos before = PosOf(*q);
      Q * other = NULL; std::vector<T> arr; bool readOther = false; const uint32 ns = (uint32) c.src.size();
      ob = Obs();
      switch(c.op) {
         case OP_AddTail:         ob.st = S(q->AddTail(I::Make(c.v))); break;
         case OP_AddTailDefault:  ob.st = S(q->AddTail()); break;
         case OP_AddTailGet:      {T * p = q->AddTailAndGet(); ob.r = ((p)&&(p == q->TailPointer())) ? 1 : 0; if ((p)&&(!I::OWNING)) *p = T();} break;   // "for POD ItemTypes, the appended item will be in an uninitialized state"
         case OP_AddTailGetV:     {T * p = q->AddTailAndGet(I::Make(c.v)); ob.r = ((p)&&(p == q->TailPointer())) ? 1 : 0;} break;
         case OP_AddTailOwn:      if ((uint32) c.a >= q->GetNumItems()) return false; ob.st = S(q->AddTail((*q)[c.a])); break;
         case OP_AddTailIfAbsent: ob.st = S(q->AddTailIfNotAlreadyPresent(I::Make(c.v))); break;
         case OP_AddHead:         ob.st = S(q->AddHead(I::Make(c.v))); break;
         case OP_AddHeadDefault:  ob.st = S(q->AddHead()); break;
         case OP_AddHeadGet:      {T * p = q->AddHeadAndGet(); ob.r = ((p)&&(p == q->HeadPointer())) ? 1 : 0; if ((p)&&(!I::OWNING)) *p = T();} break;
         case OP_AddHeadGetV:     {T * p = q->AddHeadAndGet(I::Make(c.v)); ob.r = ((p)&&(p == q->HeadPointer())) ? 1 : 0;} break;
         case OP_AddHeadOwn:      if ((uint32) c.a >= q->GetNumItems()) return false; ob.st = S(q->AddHead((*q)[c.a])); break;
         case OP_AddHeadIfAbsent: ob.st = S(q->AddHeadIfNotAlreadyPresent(I::Make(c.v))); break;

         case OP_AddTailMulti:    other = MakeOther(c.src); readOther = true; ob.st = S(q->AddTailMulti(*other, U(c.a), U(c.b))); break;
         case OP_AddHeadMulti:    other = MakeOther(c.src); readOther = true; ob.st = S(q->AddHeadMulti(*other, U(c.a), U(c.b))); break;
         case OP_AddTailMultiArr: case OP_AddHeadMultiArr: case OP_InsertItemsAtArr: {
            for (uint32 i=0; i<ns; i++) arr.push_back(I::Make(c.src[i]));
            if (arr.empty()) arr.push_back(I::Make(9));   // a valid pointer even for zero items
            ob.st = S((c.op == OP_AddTailMultiArr) ? q->AddTailMulti(&arr[0], ns) : ((c.op == OP_AddHeadMultiArr) ? q->AddHeadMulti(&arr[0], ns) : q->InsertItemsAt(U(c.a), &arr[0], ns)));
            for (uint32 i=0; i<ns; i++) ob.o.push_back(I::Val(arr[i]));   // the caller's array is not to be touched
         } break;
         case OP_AddTailMultiSelf: ob.st = S(q->AddTailMulti(*q, U(c.a), U(c.b))); break;
         case OP_AddHeadMultiSelf: ob.st = S(q->AddHeadMulti(*q, U(c.a), U(c.b))); break;
         case OP_AddTailMultiOwnArr: case OP_AddHeadMultiOwnArr: {
            // an array that lies inside the Queue's own storage: items a .. a+b-1 must be contiguous in memory
            if ((c.b < 1)||((uint32)(c.a+c.b) > q->GetNumItems())||(&(*q)[c.a+c.b-1] != &(*q)[c.a]+(c.b-1))) return false;
            ob.st = S((c.op == OP_AddTailMultiOwnArr) ? q->AddTailMulti(&(*q)[c.a], (uint32) c.b) : q->AddHeadMulti(&(*q)[c.a], (uint32) c.b));
         } break;

         case OP_InsertItemAt:        ob.st = S(q->InsertItemAt(U(c.a), I::Make(c.v))); break;
         case OP_InsertItemAtDefault: ob.st = S(q->InsertItemAt(U(c.a))); break;
         case OP_InsertItemAtOwn:     if ((uint32) c.b >= q->GetNumItems()) return false; ob.st = S(q->InsertItemAt(U(c.a), (*q)[c.b])); break;
         case OP_InsertItemsAt:       other = MakeOther(c.src); readOther = true; ob.st = S(q->InsertItemsAt(U(c.a), *other, U(c.b), U(c.c))); break;
         case OP_InsertItemsAtSelf:   ob.st = S(q->InsertItemsAt(U(c.a), *q, U(c.b), U(c.c))); break;
         case OP_InsertSorted:        ob.r = q->InsertItemAtSortedPosition(I::Make(c.v)); break;

         case OP_RemoveHead:      ob.st = S(q->RemoveHead()); break;
         case OP_RemoveHeadRet:   {T t = I::Make(9); ob.st = S(q->RemoveHead(t)); ob.r = (ob.st == "ok") ? I::Val(t) : 0;} break;
         case OP_RemoveHeadDef:   ob.r = I::Val(q->RemoveHeadWithDefault()); break;
         case OP_RemoveHeadMulti: ob.r = (int) q->RemoveHeadMulti(U(c.a)); break;
         case OP_RemoveTail:      ob.st = S(q->RemoveTail()); break;
         case OP_RemoveTailRet:   {T t = I::Make(9); ob.st = S(q->RemoveTail(t)); ob.r = (ob.st == "ok") ? I::Val(t) : 0;} break;
         case OP_RemoveTailDef:   ob.r = I::Val(q->RemoveTailWithDefault()); break;
         case OP_RemoveTailMulti: ob.r = (int) q->RemoveTailMulti(U(c.a)); break;
         case OP_RemoveItemAt:    ob.st = S(q->RemoveItemAt(U(c.a))); break;
         case OP_RemoveItemAtRet: {T t = I::Make(9); ob.st = S(q->RemoveItemAt(U(c.a), t)); ob.r = (ob.st == "ok") ? I::Val(t) : 0;} break;
         case OP_RemoveItemAtDef: ob.r = I::Val(q->RemoveItemAtWithDefault(U(c.a))); break;
         case OP_RemoveFirst:     ob.st = S(q->RemoveFirstInstanceOf(I::Make(c.v))); break;
         case OP_RemoveLast:      ob.st = S(q->RemoveLastInstanceOf(I::Make(c.v))); break;
         case OP_RemoveAll:       ob.r = (int) q->RemoveAllInstancesOf(I::Make(c.v)); break;
         case OP_RemoveAllOwn:    if ((uint32) c.a >= q->GetNumItems()) return false; ob.r = (int) q->RemoveAllInstancesOf((*q)[c.a]); break;
         case OP_RemoveDup:       ob.r = (int) q->RemoveDuplicateItems(); break;
         case OP_RemoveSortedDup: ob.r = (int) q->RemoveSortedDuplicateItems(); break;

         case OP_GetItemAt:       {T t = I::Make(9); ob.st = S(((const Q *) q)->GetItemAt(U(c.a), t)); ob.r = (ob.st == "ok") ? I::Val(t) : 0;} break;
         case OP_GetItemPtr:      {const T * p = ((const Q *) q)->GetItemAt(U(c.a)); T * p2 = q->GetItemAt(U(c.a)); ob.r = (p == p2) ? (p ? I::Val(*p) : -1) : -2;} break;
         case OP_GetWithDefault:  ob.r = I::Val(q->GetWithDefault(U(c.a))); break;
         case OP_GetWithDefaultV: ob.r = I::Val(q->GetWithDefault(U(c.a), I::Make(c.v))); break;
         case OP_HeadWithDefault: ob.r = I::Val(q->HeadWithDefault()); break;
         case OP_TailWithDefault: ob.r = I::Val(q->TailWithDefault()); break;
         case OP_ReplaceItemAt:        ob.st = S(q->ReplaceItemAt(U(c.a), I::Make(c.v))); break;
         case OP_ReplaceItemAtDefault: ob.st = S(q->ReplaceItemAt(U(c.a))); break;
         case OP_ReplaceAll:           q->ReplaceAllItems(I::Make(c.v)); break;

         case OP_Clear:         q->Clear(c.a != 0); break;
         case OP_FastClear:     if (I::OWNING) return false; q->FastClear(); break;
         case OP_EnsureSize:    ob.st = S(q->EnsureSize(USlots(c.a))); break;
         case OP_EnsureSizeSet: ob.st = S(q->EnsureSize(USlots(c.a), true)); break;
         case OP_EnsureSizeX:   ob.st = S(q->EnsureSize(USlots(c.a), false, USlots(c.b), c.c != 0)); break;
         case OP_EnsureSizeSetX: ob.st = S(q->EnsureSize(USlots(c.a), true, USlots(c.b), c.c != 0)); break;
         case OP_EnsureCanAdd:  ob.st = S(q->EnsureCanAdd(USlots(c.a))); break;
         case OP_ShrinkToFit:   ob.st = S(q->ShrinkToFit(USlots(c.a))); break;
         case OP_Normalize: {
            q->Normalize(); uint32 l0 = 0, l1 = 0; (void) q->GetArrayPointer(0, l0);
            if ((!q->IsNormalized())||(q->GetArrayPointer(1, l1) != NULL)||(l0 != q->GetNumItems())) ob.bad.push_back("after Normalize() the items are not contiguous in memory (IsNormalized() / GetArrayPointer)");
         } break;

         case OP_IndexOf:     ob.r = q->IndexOf(I::Make(c.v), U(c.a), U(c.b)); break;
         case OP_LastIndexOf: ob.r = q->LastIndexOf(I::Make(c.v), U(c.a), U(c.b)); break;
         case OP_Contains:    ob.r = q->Contains(I::Make(c.v), U(c.a), U(c.b)) ? 1 : 0; break;
         case OP_StartsWith:  ob.r = q->StartsWith(I::Make(c.v)) ? 1 : 0; break;
         case OP_EndsWith:    ob.r = q->EndsWith(I::Make(c.v)) ? 1 : 0; break;
         case OP_StartsWithQ: other = MakeOther(c.src); readOther = true; ob.r = q->StartsWith(*other) ? 1 : 0; break;
         case OP_EndsWithQ:   other = MakeOther(c.src); readOther = true; ob.r = q->EndsWith(*other) ? 1 : 0; break;
         case OP_Cmp: case OP_CmpSelf: {
            if (c.op == OP_Cmp) {other = MakeOther(c.src); readOther = true;}
            const Q & x = *q; const Q & y = (c.op == OP_Cmp) ? *other : *q;
            const bool lt = (x < y), gt = (x > y), eq = (x == y), ne = (x != y), le = (x <= y), ge = (x >= y);
            ob.r = lt ? -1 : (gt ? 1 : 0);
            if (((lt)&&(gt))||(eq != (ob.r == 0))||(ne == eq)||(le != (ob.r <= 0))||(ge != (ob.r >= 0))) ob.r = 77;    // the six operators do not describe one ordering
         } break;
         case OP_Iter: {
            uint32 guard = 0; IV r2;
            for (ConstQueueIterator<T> it(*((const Q *) q), U(c.a), I32(c.b)); (it.HasData())&&(guard++ < 1000); it++) ob.rs.push_back(I::Val(*it));
            guard = 0; for (QueueIterator<T> it(*q, U(c.a), I32(c.b)); (it.HasData())&&(guard++ < 1000); it++) r2.push_back(I::Val(it.GetValue()));
            if (r2 != ob.rs) ob.bad.push_back("QueueIterator and ConstQueueIterator return different items");
         } break;

         case OP_Swap:    if (((uint32) c.a >= q->GetNumItems())||((uint32) c.b >= q->GetNumItems())) return false; q->Swap(U(c.a), U(c.b)); break;
         case OP_Reverse: q->ReverseItemOrdering(U(c.a), U(c.b)); break;
         case OP_Sort: {
            // "Does an in-place, stable sort": items that compare equal keep their order (observable through the serial numbers of Tok items)
            std::vector<std::pair<int, int> > want; for (uint32 i=0; i<q->GetNumItems(); i++) want.push_back(std::make_pair(I::Val((*q)[i]), I::Tag((*q)[i])));
            const uint32 hi = (U(c.b) < q->GetNumItems()) ? U(c.b) : q->GetNumItems();
            if (U(c.a) < hi) std::stable_sort(want.begin()+U(c.a), want.begin()+hi, FirstLess);
            q->Sort(U(c.a), U(c.b));
            bool same = (want.size() == q->GetNumItems()); for (uint32 i=0; (same)&&(i<q->GetNumItems()); i++) if ((want[i].first == I::Val((*q)[i]))&&(want[i].second != I::Tag((*q)[i]))) same = false;
            if (!same) ob.bad.push_back("Sort() changed the order of items that compare equal (documented: stable sort)");
         } break;

         case OP_SwapContents: case OP_SwapContentsRev: case OP_MoveAssign: case OP_Plunder: {
            other = MakeOther(c.src); readOther = true;
            if (cov) cov->NoteSwap(before, IsInline(*other), other->GetRawArrayPointer() != NULL, c.op);
            // known finding (copy-only owning items): the inline buffer of the Queue that hands its items over keeps copies of them
            if ((I::OWNING)&&(!I::MOVABLE)&&(IsInline(*q))&&(q->HasItems())&&(!IsInline(*other))) inlineMayBeStale = true;
            if (c.op == OP_SwapContents) q->SwapContents(*other); else if (c.op == OP_SwapContentsRev) other->SwapContents(*q); else if (c.op == OP_MoveAssign) *q = std::move(*other); else q->Plunder(*other);
         } break;
         case OP_CopyFrom:     other = MakeOther(c.src); readOther = true; ob.st = S(q->CopyFrom(*other)); break;
         case OP_Assign:       other = MakeOther(c.src); readOther = true; *q = *other; break;
         case OP_CopyCtor:     {other = q; readOther = true; q = new Q(*((const Q *) other)); inlineMayBeStale = false;} break;
         case OP_AssignSelf:   {Q & alias = *q; *q = alias;} break;
         case OP_CopyFromSelf: ob.st = S(q->CopyFrom(*q)); break;
         case OP_MoveCtor:     {other = q; readOther = true; q = new Q(std::move(*other)); inlineMayBeStale = false;} break;
         case OP_MoveAway:     other = MakeOther(c.src); readOther = true; if (cov) cov->NoteSwap(before, IsInline(*other), other->GetRawArrayPointer() != NULL, c.op); *other = std::move(*q); q->Clear(); break;    // what a moved-from Queue holds is not documented: it is cleared before it is used again
         case OP_Adopt: {
            if ((c.a < (int) ns)||(c.a > 100000)) return false;
            // the array handed over: the items of src as far as they are declared valid, default items in the room to grow (what its owner must leave there
            // for an owning item type; the documentation does not say what becomes of anything else)
            T * a = new T[c.a]; for (uint32 i=0; i<(uint32) c.a; i++) a[i] = ((i < ns)&&(i < U(c.b))) ? I::Make(c.src[i]) : T();
            q->AdoptRawDataArray((uint32) c.a, a, U(c.b));
            ob.o = c.src;    // nothing to observe about the argument
         } break;
         case OP_Release: {
            uint32 len = 7777; const uint32 capBefore = q->GetNumAllocatedItemSlots(); T * a = q->ReleaseRawDataArray(&len);
            if (len != capBefore) ob.bad.push_back("ReleaseRawDataArray() reports an array length that is not GetNumAllocatedItemSlots()");
            if ((a == NULL)&&(capBefore > 0)) ob.bad.push_back("ReleaseRawDataArray() returned NULL");
            delete [] a;     // "the caller becomes the owner of the returned data-array and should call delete[] on it"
         } break;
         default: return false;
      }

      ReadAll(*q, ob.q, ob.bad, "the Queue");
      std::string why; bool stale = !HiddenSlotsClean(*q, why, "the Queue");
      if (other) {
         if (readOther) ReadAll(*other, ob.o, ob.bad, "the other Queue");
         std::string why2; if (!HiddenSlotsClean(*other, why2, "the other Queue")) ob.bad.push_back(why2);
         delete other;
      }
      if (stale) {
         if ((inlineMayBeStale)&&(IsInline(*q))) {
            // known finding QswapStale, exactly: this Queue object handed its items over out of its inline buffer earlier and is back in it now.
            // The slots outside the window are counted and reset (GetRawArrayPointer() gives write access) so that everything else is judged normally.
            T * raw = q->GetRawArrayPointer(); const RingPos p = PosOf(*q);
            for (uint32 i=0; i<p.cap; i++) {const uint32 rel = (i >= p.head) ? (i-p.head) : (i+p.cap-p.head); if (((p.size == 0)||(rel >= p.size))&&(!(raw[i] == q->GetDefaultItem()))) {raw[i] = T(); ob.staleRepaired++;}}
            inlineMayBeStale = false;
         }
         else ob.bad.push_back(why);
      }
      else if ((inlineMayBeStale)&&(IsInline(*q))&&(I::OWNING)) inlineMayBeStale = false;    // back in the inline buffer and nothing was left behind
      if (cov) cov->Note(before, q->GetNumAllocatedItemSlots(), c.op);
      return true;
   }
};

// ---------------------------------------------------------------------------------------------------------------------------
// death note: which call was in progress when a sanitizer stopped the program

static char g_now[600] = "";
static volatile long g_progress = 0; static long g_lastSeen = -1;
// watchdog: a single call takes microseconds; if the same call is still in progress a whole tick (20 s) later it does not return
static void OnTick(int)
{
   if (g_progress == g_lastSeen) {
      const char * m = "\nQU-CALL-DOES-NOT-RETURN: "; (void) !write(2, m, strlen(m)); (void) !write(2, g_now, strlen(g_now)); (void) !write(2, "\n", 1);
      _exit(68);
   }
   g_lastSeen = g_progress; alarm(20);
}
extern "C" void __sanitizer_set_death_callback(void (*)(void)) __attribute__((weak));
// an assertion of the library (MASSERT -> Crash() -> abort) while a call is in progress: say which call, leave with exit code 70
static void OnAbort(int) {const char * m = "\nQU-ABORTED-IN: "; (void) !write(2, m, strlen(m)); (void) !write(2, g_now, strlen(g_now)); (void) !write(2, "\n", 1); _exit(70);}
static void OnDeath() {fprintf(stderr, "\nQU-IN-PROGRESS: %s\n", g_now); fflush(stderr);}
static void NoteNow(const char * mode, const char * type, long run, long step, const Call & c)
{
   g_progress++;
   snprintf(g_now, sizeof(g_now), "%s type=%s run/behaviour=%ld step=%ld call=%s(a=%d,b=%d,c=%d,v=%d,src=%s)", mode, type, run, step, OPNAME[c.op], c.a, c.b, c.c, c.v, IVStr(c.src).c_str());
}

static mj::Value CallJson(const Call & c) {mj::Value v = mj::Value::Obj(); v.set("op", mj::Value::Str(OPNAME[c.op])).set("a", mj::Value::Int(c.a)).set("b", mj::Value::Int(c.b)).set("c", mj::Value::Int(c.c)).set("v", mj::Value::Int(c.v)); mj::Value s = mj::Value::Arr(); for (size_t i=0; i<c.src.size(); i++) s.push(mj::Value::Int(c.src[i])); v.set("src", s); return v;}
static mj::Value IVJson(const IV & x) {mj::Value s = mj::Value::Arr(); for (size_t i=0; i<x.size(); i++) s.push(mj::Value::Int(x[i])); return s;}
static mj::Value ObsJson(const Obs & o) {mj::Value v = mj::Value::Obj(); v.set("st", mj::Value::Str(o.st)).set("r", mj::Value::Int(o.r)).set("rs", IVJson(o.rs)).set("o", IVJson(o.o)).set("q", IVJson(o.q)); return v;}

// ---------------------------------------------------------------------------------------------------------------------------
// spec -> code

struct ReplayTotals {long runs, followed, violated, known, cutShort, steps; ReplayTotals() : runs(0), followed(0), violated(0), known(0), cutShort(0), steps(0) {}};

template<class T> static void ReplayOne(const mj::Value & beh, int startConfig, FILE * out, ReplayTotals & tot, Coverage & cov)
{
   const mj::Value & steps = beh["steps"]; Subject<T> sub(startConfig, &cov); tot.runs++;
   for (size_t k=0; k<steps.size(); k++) {
      const mj::Value & s = steps[k]; Call c; c.op = OpByName(s["op"].str());
      if (c.op < 0) {fprintf(stderr, "unknown op %s\n", s["op"].str().c_str()); exit(2);}
      if ((c.op == OP_FastClear)&&(IT<T>::OWNING)) return;     // documented to leave owning items behind: not bound for them
      c.a = (int) s["a"].i(); c.b = (int) s["b"].i(); c.c = (int) s["c"].i(); c.v = (int) s["v"].i(); c.src = ToIV(s["src"]);
      NoteNow("replay", IT<T>::Name(), (long) beh["id"].i(), (long) k, c);
      Obs ob; tot.steps++; const bool mayBeStaleBefore = sub.inlineMayBeStale;
      if (!sub.Exec(c, ob)) {fprintf(stderr, "behaviour %ld step %zu: %s cannot be called as described\n", (long) beh["id"].i(), k, OPNAME[c.op]); exit(2);}
      if (ob.staleRepaired) {
         if (tot.known == 0) {mj::Value rec = mj::Value::Obj(); mj::Value ka = mj::Value::Arr(); ka.push(mj::Value::Str(std::string("Queue<") + IT<T>::Name() + "> " + OPNAME[c.op] + ": slots of the inline buffer outside the window held items left behind by an earlier SwapContents/Plunder/move")); rec.set("known", ka).set("behaviour", beh["id"]).set("step", mj::Value::Int((int64_t) k)).set("call", CallJson(c)); fprintf(out, "%s\n", mj::ToString(rec).c_str());}
         tot.known++;
      }
      std::vector<std::string> diffs = ob.bad; char b[400];
      const std::string wantSt = s["st"].str();
      if (!((wantSt == ob.st)||((wantSt == "err")&&(ob.st != "ok")&&(ob.st != ""))||((wantSt == "okerr")&&(ob.st != "")))) {snprintf(b, sizeof(b), "status: the ideal sequence says \"%s\", the Queue returned \"%s\"", wantSt.c_str(), ob.st.c_str()); diffs.push_back(b);}
      if ((ob.r < s["lo"].i())||(ob.r > s["hi"].i())) {snprintf(b, sizeof(b), "result: the ideal sequence says %ld..%ld, the Queue returned %d", (long) s["lo"].i(), (long) s["hi"].i(), ob.r); diffs.push_back(b);}
      if (ob.rs != ToIV(s["rs"])) diffs.push_back("iteration: the ideal sequence says " + IVStr(ToIV(s["rs"])) + ", the iterator returned " + IVStr(ob.rs));
      const IV wantO = ToIV(s["o"]);
      if ((!((wantO.size() == 1)&&(wantO[0] == -1)))&&(ob.o != wantO)) diffs.push_back("other queue: the ideal sequence says " + IVStr(ToIV(s["o"])) + " after the call, it holds " + IVStr(ob.o));
      if (ob.q != ToIV(s["q"])) diffs.push_back("contents: the ideal sequence says " + IVStr(ToIV(s["q"])) + ", the Queue holds " + IVStr(ob.q));
      if (!diffs.empty()) {
         // QswapStale shown directly: the copies left in the inline buffer came into the window in the very call that went back to it (e.g. Clear(true), EnsureSize(3, true))
         const bool known = (mayBeStaleBefore)&&(Subject<T>::IsInline(*sub.q))&&(ob.bad.empty())&&(ob.q != ToIV(s["q"]));
         mj::Value rec = mj::Value::Obj(); mj::Value va = mj::Value::Arr();
         for (size_t i=0; i<diffs.size(); i++) va.push(mj::Value::Str(std::string("Queue<") + IT<T>::Name() + "> " + OPNAME[c.op] + ": " + diffs[i]));
         rec.set(known ? "known" : "violations", va).set("behaviour", beh["id"]).set("step", mj::Value::Int((int64_t) k)).set("type", mj::Value::Str(IT<T>::Name())).set("start", mj::Value::Int(startConfig))
            .set("expected", s).set("observed", ObsJson(ob));
         mj::Value pre = mj::Value::Arr(); for (size_t i=0; i<=k; i++) {mj::Value x = mj::Value::Obj(); const mj::Value & si = steps[i]; x.set("op", si["op"]).set("a", si["a"]).set("b", si["b"]).set("c", si["c"]).set("v", si["v"]).set("src", si["src"]).set("q", si["q"]); pre.push(x);}
         rec.set("calls", pre);
         if (known) {tot.known++; tot.cutShort++;} else tot.violated++;
         if ((known ? tot.cutShort : tot.violated) <= 20) fprintf(out, "%s\n", mj::ToString(rec).c_str());
         return;
      }
   }
   tot.followed++;
}

template<class T> static int ReplayType(const char * inFile, const char * outFile)
{
   FILE * in = fopen(inFile, "r"); FILE * out = fopen(outFile, "w");
   if ((!in)||(!out)) {fprintf(stderr, "cannot open files\n"); return 2;}
   std::string line; long nb = 0; ReplayTotals tot; Coverage cov; Subject<T>::MeasureCaps(cov);
   while (mj::ReadLine(in, line)) {
      mj::Value beh; if (!mj::Parse(line, beh)) {fprintf(stderr, "bad json\n"); return 2;}
      nb++;
      for (int sc=0; sc<4; sc++) ReplayOne<T>(beh, sc, out, tot, cov);
   }
   mj::Value sum = mj::Value::Obj();
   sum.set("summary", mj::Value::Bool(true)).set("type", mj::Value::Str(IT<T>::Name())).set("behaviours", mj::Value::Int(nb)).set("runs", mj::Value::Int(tot.runs)).set("followed", mj::Value::Int(tot.followed)).set("violated", mj::Value::Int(tot.violated))
      .set("known", mj::Value::Int(tot.known)).set("cut_short", mj::Value::Int(tot.cutShort)).set("steps", mj::Value::Int(tot.steps));
   cov.Report(sum);
   fprintf(out, "%s\n", mj::ToString(sum).c_str()); fclose(out); fclose(in);
   return 0;
}
static int Replay(const char * inFile, const char * outFile, const char * type)
{
   if (!strcmp(type, "int"))    return ReplayType<int>(inFile, outFile);
   if (!strcmp(type, "String")) return ReplayType<String>(inFile, outFile);
   if (!strcmp(type, "Tok"))    return ReplayType<Tok>(inFile, outFile);
   if (!strcmp(type, "uint8"))  return ReplayType<uint8>(inFile, outFile);
   if (!strcmp(type, "uint16")) return ReplayType<uint16>(inFile, outFile);
   return 2;
}

// ---------------------------------------------------------------------------------------------------------------------------
// code -> spec

template<class T> struct RandomDriver
{
   typedef Subject<T> Sub;
   Rng rng; FILE * trace; FILE * out; Coverage cov; long lines, runsDone, violated, known, curRun, curStep; Sub * sub; IV cur; bool stop;
   static const int MAXV = 5;

   RandomDriver(uint64 seed, FILE * t, FILE * o) : rng(seed), trace(t), out(o), lines(0), runsDone(0), violated(0), known(0), curRun(0), curStep(0), sub(NULL), stop(false), wantCursor(0), swapCursor(0) {Sub::MeasureCaps(cov); PlanWants(); PlanSwapWants();}

   int V() {return 1+(int) rng.Below(MAXV);}
   int V0() {return rng.Chance(15) ? 0 : V();}
   IV Src(uint32 maxLen) {IV s; const uint32 n = rng.Below(maxLen+1); for (uint32 i=0; i<n; i++) s.push_back(V0()); return s;}
   int Size() const {return (int) cur.size();}
   RingPos Pos() const {return Sub::PosOf(*sub->q);}
   int BigCode() {const int codes[] = {95, 96, 97, 99}; return codes[rng.Below(4)];}   // a boundary value of the argument type (see U())
   int Idx() {return rng.Chance(7) ? BigCode() : (int) rng.Below((uint32) Size()+2);}   // valid indices, the first invalid one, one beyond; now and then a boundary value of uint32
   int ValidIdx() {return (int) rng.Below((uint32) Size());}
   int Lim() {return rng.Chance(40) ? NOLIMIT : (rng.Chance(8) ? BigCode() : (int) rng.Below((uint32) Size()+3));}
   bool IsSortedNow() const {for (size_t i=1; i<cur.size(); i++) if (cur[i-1] > cur[i]) return false; return true;}

   // makes the call, logs it, checks what can be checked without the model
   void Do(int op, int a = 0, int b = 0, int c = 0, int v = 0, const IV & src = IV())
   {
      if (stop) return;
      Call cl; cl.op = op; cl.a = a; cl.b = b; cl.c = c; cl.v = v; cl.src = src;
      NoteNow("random", IT<T>::Name(), curRun, curStep, cl);
      Obs ob;
      if (!sub->Exec(cl, ob)) return;      // not callable in this state (precondition): nothing happened
      curStep++;
      if (ob.staleRepaired) {
         if (known == 0) {mj::Value rec = mj::Value::Obj(); mj::Value ka = mj::Value::Arr(); ka.push(mj::Value::Str(std::string("Queue<") + IT<T>::Name() + "> " + OPNAME[op] + ": slots of the inline buffer outside the window held items left behind by an earlier SwapContents/Plunder/move")); rec.set("known", ka).set("run", mj::Value::Int(curRun)).set("call", CallJson(cl)); fprintf(out, "%s\n", mj::ToString(rec).c_str());}
         known++;
      }
      std::string ln = "{\"op\":\""; ln += OPNAME[op]; char nb[96]; snprintf(nb, sizeof(nb), "\",\"a\":%d,\"b\":%d,\"c\":%d,\"v\":%d,\"src\":", a, b, c, v); ln += nb; AppendIV(ln, src);
      ln += ",\"st\":\""; ln += ob.st; snprintf(nb, sizeof(nb), "\",\"r\":%d,\"rs\":", ob.r); ln += nb; AppendIV(ln, ob.rs); ln += ",\"o\":"; AppendIV(ln, ob.o); ln += ",\"q\":"; AppendIV(ln, ob.q);
      snprintf(nb, sizeof(nb), ",\"run\":%ld}\n", curRun); ln += nb;
      fputs(ln.c_str(), trace); lines++;
      cur = ob.q;
      if (!ob.bad.empty()) {
         mj::Value rec = mj::Value::Obj(); mj::Value va = mj::Value::Arr();
         for (size_t i=0; i<ob.bad.size(); i++) va.push(mj::Value::Str(std::string("Queue<") + IT<T>::Name() + "> " + OPNAME[op] + ": " + ob.bad[i]));
         rec.set("violations", va).set("type", mj::Value::Str(IT<T>::Name())).set("run", mj::Value::Int(curRun)).set("trace_line", mj::Value::Int(lines)).set("call", CallJson(cl)).set("observed", ObsJson(ob));
         violated++;
         if (violated <= 20) fprintf(out, "%s\n", mj::ToString(rec).c_str());
         stop = true;      // the rest of this run would only repeat it
         return;
      }
      // copy-only owning items: the known finding has been triggered on this Queue object; continue on a copy-constructed one (a fresh inline buffer)
      if ((sub->inlineMayBeStale)&&(op != OP_CopyCtor)) Do(OP_CopyCtor);
   }

   void RandomAdd()
   {
      switch(rng.Below(22)) {
         case 0: case 1: case 2: Do(OP_AddTail, 0, 0, 0, V()); break;
         case 3: case 4: case 5: Do(OP_AddHead, 0, 0, 0, V()); break;
         case 6: Do(rng.Chance(50) ? OP_AddTailDefault : OP_AddHeadDefault); break;
         case 7: Do(rng.Chance(50) ? OP_AddTailGet : OP_AddHeadGet); break;
         case 8: Do(rng.Chance(50) ? OP_AddTailGetV : OP_AddHeadGetV, 0, 0, 0, V()); break;
         case 9: if (Size()) Do(rng.Chance(50) ? OP_AddTailOwn : OP_AddHeadOwn, ValidIdx()); break;
         case 10: Do(rng.Chance(50) ? OP_AddTailIfAbsent : OP_AddHeadIfAbsent, 0, 0, 0, V()); break;
         case 11: Do(OP_InsertItemAt, rng.Chance(10) ? NOLIMIT : Idx(), 0, 0, V()); break;
         case 12: Do(OP_InsertItemAt, Idx(), 0, 0, V()); break;
         case 13: Do(OP_InsertItemAtDefault, Idx()); break;
         case 14: if (Size()) Do(OP_InsertItemAtOwn, Idx(), ValidIdx()); break;
         case 15: if (IsSortedNow()) Do(OP_InsertSorted, 0, 0, 0, V()); else Do(OP_AddTail, 0, 0, 0, V()); break;
         default: RandomMulti(); break;
      }
   }
   void RandomMulti()
   {
      const IV src = Src(6); const int n = (int) src.size();
      switch(rng.Below(13)) {
         case 0: Do(OP_AddTailMulti, rng.Chance(50) ? 0 : (rng.Chance(8) ? BigCode() : (int) rng.Below(n+2)), rng.Chance(50) ? NOLIMIT : (rng.Chance(8) ? BigCode() : (int) rng.Below(n+2)), 0, 0, src); break;
         case 1: Do(OP_AddHeadMulti, rng.Chance(50) ? 0 : (rng.Chance(8) ? BigCode() : (int) rng.Below(n+2)), rng.Chance(50) ? NOLIMIT : (rng.Chance(8) ? BigCode() : (int) rng.Below(n+2)), 0, 0, src); break;
         case 2: Do(OP_AddTailMultiArr, 0, 0, 0, 0, src); break;
         case 3: Do(OP_AddHeadMultiArr, 0, 0, 0, 0, src); break;
         case 4: Do(OP_AddTailMultiSelf, rng.Chance(50) ? 0 : Idx(), Lim()); break;
         case 5: Do(OP_AddHeadMultiSelf, rng.Chance(50) ? 0 : Idx(), Lim()); break;
         case 6: case 7: Do(OP_InsertItemsAt, Idx(), rng.Chance(50) ? 0 : (rng.Chance(8) ? BigCode() : (int) rng.Below(n+2)), rng.Chance(50) ? NOLIMIT : (rng.Chance(8) ? BigCode() : (int) rng.Below(n+2)), 0, src); break;
         case 8: Do(OP_InsertItemsAtArr, Idx(), 0, 0, 0, src); break;
         case 9: Do(OP_InsertItemsAtSelf, Idx(), rng.Chance(50) ? 0 : Idx(), Lim()); break;
         case 10: Do(OP_InsertItemsAt, rng.Chance(50) ? Size() : (int) rng.Below((uint32) Size()+1), 0, NOLIMIT, 0, src); break;
         default: {
            // an array inside the Queue's own storage: a run of items that is contiguous in memory
            if (Size() == 0) break;
            const int st = ValidIdx(); uint32 l0 = 0; (void) sub->q->GetArrayPointer(0, l0);
            const int maxRun = (st < (int) l0) ? ((int) l0-st) : (Size()-st);
            Do(rng.Chance(50) ? OP_AddTailMultiOwnArr : OP_AddHeadMultiOwnArr, st, 1+(int) rng.Below((uint32) maxRun));
         } break;
      }
   }
   void RandomRemove()
   {
      switch(rng.Below(20)) {
         case 0: case 1: Do(OP_RemoveHead); break;
         case 2: case 3: Do(OP_RemoveTail); break;
         case 4: Do(OP_RemoveHeadRet); break;
         case 5: Do(OP_RemoveTailRet); break;
         case 6: Do(rng.Chance(50) ? OP_RemoveHeadDef : OP_RemoveTailDef); break;
         case 7: Do(OP_RemoveHeadMulti, rng.Chance(10) ? BigCode() : (int) rng.Below(4)); break;
         case 8: Do(OP_RemoveTailMulti, rng.Chance(10) ? BigCode() : (int) rng.Below(4)); break;
         case 9: case 10: Do(OP_RemoveItemAt, Idx()); break;
         case 11: Do(OP_RemoveItemAtRet, Idx()); break;
         case 12: Do(OP_RemoveItemAtDef, Idx()); break;
         case 13: Do(OP_RemoveFirst, 0, 0, 0, V0()); break;
         case 14: Do(OP_RemoveLast, 0, 0, 0, V0()); break;
         case 15: Do(OP_RemoveAll, 0, 0, 0, V0()); break;
         case 16: if (Size()) Do(OP_RemoveAllOwn, ValidIdx()); break;
         case 17: if (rng.Chance(30)) Do(OP_RemoveDup); else if (IsSortedNow()) Do(OP_RemoveSortedDup); break;
         case 18: if (rng.Chance(30)) Do(OP_Clear, (int) rng.Below(2)); else if ((!IT<T>::OWNING)&&(rng.Chance(30))) Do(OP_FastClear); else Do(OP_RemoveTail); break;
         default: Do(OP_EnsureSizeSet, (int) rng.Below((uint32) Size()+1)); break;
      }
   }
   void RandomOther()
   {
      const IV src = rng.Chance(30) ? IV(cur.begin(), cur.begin()+rng.Below((uint32) Size()+1)) : (rng.Chance(20) ? IV(cur.begin()+rng.Below((uint32) Size()+1), cur.end()) : Src(5));
      switch(rng.Below(44)) {
         case 0: Do(OP_GetItemAt, Idx()); break;
         case 1: Do(OP_GetItemPtr, Idx()); break;
         case 2: Do(OP_GetWithDefault, rng.Chance(10) ? NOLIMIT : Idx()); break;
         case 3: Do(OP_GetWithDefaultV, Idx(), 0, 0, V()); break;
         case 4: Do(rng.Chance(50) ? OP_HeadWithDefault : OP_TailWithDefault); break;
         case 5: case 6: Do(OP_ReplaceItemAt, Idx(), 0, 0, V()); break;
         case 7: Do(OP_ReplaceItemAtDefault, Idx()); break;
         case 8: if (rng.Chance(30)) Do(OP_ReplaceAll, 0, 0, 0, V()); break;
         case 9: Do(OP_EnsureSize, rng.Chance(6) ? BigCode() : (int) rng.Below(14)); break;
         case 10: Do(OP_EnsureSizeSet, rng.Chance(6) ? BigCode() : (int) rng.Below((uint32) Size()+4)); break;
         case 11: if (rng.Chance(6)) Do(rng.Chance(35) ? OP_EnsureSizeSetX : OP_EnsureSizeX, BigCode(), 0, (int) rng.Below(2));
                  else if (rng.Chance(8)) Do(rng.Chance(40) ? OP_EnsureSizeSetX : OP_EnsureSizeX, rng.Chance(20) ? BigCode() : (int) rng.Below(12), BigCode(), (int) rng.Below(2));     // a boundary value for extraReallocItems
                  else Do(rng.Chance(35) ? OP_EnsureSizeSetX : OP_EnsureSizeX, (int) rng.Below(12), (int) rng.Below(3), (int) rng.Below(2));
                  break;    // EnsureSize(n, set, extra, allowShrink), n below the item count included
         case 12: Do(OP_EnsureCanAdd, rng.Chance(8) ? BigCode() : (int) rng.Below(6)); break;
         case 13: Do(OP_ShrinkToFit, rng.Chance(8) ? BigCode() : (int) rng.Below(4)); break;
         case 14: case 15: Do(OP_Normalize); break;
         case 16: Do(OP_IndexOf, rng.Chance(60) ? 0 : Idx(), Lim(), 0, V0()); break;
         case 17: Do(OP_LastIndexOf, rng.Chance(60) ? NOLIMIT : Idx(), rng.Chance(60) ? 0 : Idx(), 0, V0()); break;
         case 18: Do(OP_Contains, rng.Chance(60) ? 0 : Idx(), Lim(), 0, V0()); break;
         case 19: Do(rng.Chance(50) ? OP_StartsWith : OP_EndsWith, 0, 0, 0, V0()); break;
         case 20: Do(rng.Chance(50) ? OP_StartsWithQ : OP_EndsWithQ, 0, 0, 0, 0, src); break;
         case 21: case 22: Do(OP_Cmp, 0, 0, 0, 0, src); break;
         case 23: Do(OP_CmpSelf); break;
         case 24: {const int strides[] = {1, -1, 2, -2, 3, 95, -95}; Do(OP_Iter, rng.Chance(30) ? Size()-1 : Idx(), strides[rng.Below(7)]);} break;
         case 25: case 26: if (Size()) Do(OP_Swap, ValidIdx(), ValidIdx()); break;
         case 27: case 28: Do(OP_Reverse, rng.Chance(50) ? 0 : Idx(), Lim()); break;
         case 29: case 30: Do(OP_Sort, rng.Chance(50) ? 0 : Idx(), Lim()); break;
         case 31: case 32: Do(rng.Chance(50) ? OP_SwapContents : OP_SwapContentsRev, 0, 0, 0, 0, src); break;
         case 33: Do(OP_CopyFrom, 0, 0, 0, 0, src); break;
         case 34: Do(OP_Assign, 0, 0, 0, 0, src); break;
         case 35: Do(OP_CopyCtor); break;
         case 36: Do(rng.Chance(50) ? OP_AssignSelf : OP_CopyFromSelf); break;
         case 37: Do(OP_MoveAssign, 0, 0, 0, 0, src); break;
         case 38: Do(OP_Plunder, 0, 0, 0, 0, src); break;
         case 39: Do(OP_MoveCtor); break;
         case 40: if (rng.Chance(30)) Do(OP_MoveAway, 0, 0, 0, 0, src); break;
         case 41: if (rng.Chance(40)) {const int n = (int) src.size(); Do(OP_Adopt, n+(int) rng.Below(4), rng.Chance(50) ? NOLIMIT : (int) rng.Below((uint32) n+2), 0, 0, src);} break;
         case 42: if (rng.Chance(30)) Do(OP_Release); break;
         default: Do(OP_Clear, (int) rng.Below(2)); break;
      }
   }
   void RandomCall()
   {
      const int n = Size(); const uint32 addPct = (n < 4) ? 45 : ((n < 10) ? 33 : ((n < 18) ? 20 : 5)); const uint32 x = rng.Below(100);
      if (x < addPct) RandomAdd(); else if (x < addPct+((n < 18) ? 22 : 50)) RandomRemove(); else RandomOther();
   }

   // the call a ring episode was arranged for: one of the group wanted
   void TargetCall(int group)
   {
      const IV src = Src(6); const int n = (int) src.size(); const RingPos p = Pos();
      switch(group) {
         case G_MULTI: switch(rng.Below(6)) {
            case 0: case 1: RandomMulti(); break;
            case 2: Do(OP_InsertItemsAt, 1+(int) rng.Below((uint32) (Size() > 1 ? Size()-1 : 1)), 0, NOLIMIT, 0, src); break;     // into the middle
            case 3: Do(OP_AddTailMulti, 0, NOLIMIT, 0, 0, src); break;
            case 4: Do(OP_AddHeadMulti, 0, NOLIMIT, 0, 0, src); break;
            default: Do(OP_InsertItemsAtSelf, rng.Chance(30) ? 0 : Idx(), 0, n ? n : 1); break;
         } break;
         case G_GROW: switch(rng.Below(4)) {       // a growing reallocation
            case 0: for (uint32 i=p.size; (i<=p.cap)&&(!stop); i++) Do(OP_AddTail, 0, 0, 0, V()); break;                           // fill up and overflow
            case 1: Do(OP_EnsureSize, (int) p.cap+1+(int) rng.Below(4)); break;
            case 2: Do(OP_EnsureSizeSet, (int) p.cap+1+(int) rng.Below(3)); break;
            default: {IV more; const uint32 len = p.cap-p.size+1+rng.Below(2); for (uint32 i=0; (i<len)&&(i<60); i++) more.push_back(V0()); Do(rng.Chance(50) ? OP_AddTailMulti : OP_AddHeadMulti, 0, NOLIMIT, 0, 0, more);} break;
         } break;
         case G_NORMALIZE: Do(OP_Normalize); break;
         case G_REMOVEAT: switch(rng.Below(4)) {
            case 0: Do(OP_RemoveItemAt, Size() ? ValidIdx() : 0); break;
            case 1: Do(OP_RemoveItemAtRet, Size() ? ValidIdx() : 0); break;
            case 2: Do(OP_RemoveFirst, 0, 0, 0, Size() ? cur[ValidIdx()] : V0()); break;
            default: Do(OP_RemoveAll, 0, 0, 0, V0()); break;
         } break;
         case G_INSERTAT: switch(rng.Below(4)) {
            case 0: case 1: Do(OP_InsertItemAt, Idx(), 0, 0, V()); break;
            case 2: Do(OP_InsertItemAtDefault, Idx()); break;
            default: if (Size()) Do(OP_InsertItemAtOwn, Idx(), ValidIdx()); else Do(OP_InsertItemAt, Idx(), 0, 0, V()); break;
         } break;
         case G_SORT: if (rng.Chance(25)) Do(OP_RemoveDup); else Do(OP_Sort, rng.Chance(70) ? 0 : Idx(), rng.Chance(70) ? NOLIMIT : Lim()); break;
         case G_REVERSE: Do(OP_Reverse, rng.Chance(70) ? 0 : Idx(), rng.Chance(70) ? NOLIMIT : Lim()); break;
         case G_SETSIZE: switch(rng.Below(4)) {
            case 0: Do(OP_EnsureSizeSet, (int) rng.Below(p.cap+1)); break;
            case 1: Do(OP_RemoveHeadMulti, 1+(int) rng.Below(3)); break;
            case 2: Do(OP_RemoveTailMulti, 1+(int) rng.Below(3)); break;
            default: Do(OP_EnsureSizeSetX, (int) rng.Below((uint32) Size()+2), (int) rng.Below(2), 1); break;
         } break;
         case G_WHOLE: switch(rng.Below(8)) {
            case 0: Do(OP_SwapContents, 0, 0, 0, 0, src); break;
            case 1: Do(OP_SwapContentsRev, 0, 0, 0, 0, src); break;
            case 2: Do(OP_CopyFrom, 0, 0, 0, 0, src); break;
            case 3: Do(OP_Assign, 0, 0, 0, 0, src); break;
            case 4: Do(rng.Chance(50) ? OP_CopyCtor : OP_MoveCtor); break;
            case 5: Do(OP_MoveAssign, 0, 0, 0, 0, src); break;
            case 6: Do(OP_Plunder, 0, 0, 0, 0, src); break;
            default: Do(OP_MoveAway, 0, 0, 0, 0, src); break;
         } break;
         default:   // calls outside the wanted groups, on a positioned ring all the same
            if (rng.Chance(50)) Do(OP_ShrinkToFit, (int) rng.Below(2)); else Do(rng.Chance(50) ? OP_EnsureSizeX : OP_EnsureSizeSetX, (int) rng.Below((uint32) Size()+2), (int) rng.Below(2), 1);
         break;
      }
   }

   // the classes wanted (capacity, head offset, call group), taken in turn: capacities as measured on the library as compiled
   struct Want {uint32 cap, head; int group;};
   std::vector<Want> wants; size_t wantCursor;
   void PlanWants()
   {
      for (size_t ci=0; ci<cov.caps.size(); ci++) {
         const std::vector<uint32> heads = Coverage::HeadsOf(cov.caps[ci]);
         for (size_t hi=0; hi<heads.size(); hi++) for (int g=0; g<G_OTHER; g++) {Want w; w.cap = cov.caps[ci]; w.head = heads[hi]; w.group = g; wants.push_back(w);}
      }
      for (size_t i=wants.size(); i>1; i--) std::swap(wants[i-1], wants[rng.Below((uint32) i)]);
      wantCursor = 0;
   }

   // brings the ring to the wanted capacity (the way that capacity was measured), the window to a chosen size, moves the head offset to the wanted class
   // by alternating adds at the tail and removes at the head, fills the window further (so that it wraps around the end of the array), then makes a call of the wanted group
   void RingEpisode()
   {
      if (wants.empty()) return;
      const Want w = wants[(wantCursor++) % wants.size()]; const uint32 cap = w.cap, s = cov.inlineCap;
      if (Pos().cap != cap) {
         Do(OP_Clear, 1);
         if (cap == s) Do(OP_EnsureSize, 1);
         else if ((cov.caps.size() > 1)&&(cap == cov.caps[1])) Do(OP_EnsureSize, (int) s+1);
         else {for (uint32 i=0; (i<=s)&&(!stop); i++) Do(OP_AddTail, 0, 0, 0, V());}
         if (Pos().cap != cap) return;
      }
      const uint32 level = (cap > 1) ? (1+rng.Below(cap-1)) : 1;     // window size while the head is moved: at least one item, at least one free slot
      for (int g=0; (g < 300)&&(!stop)&&((uint32) Size() > level); g++) Do(rng.Chance(50) ? OP_RemoveTail : OP_RemoveHead);
      for (int g=0; (g < 300)&&(!stop)&&((uint32) Size() < level); g++) Do(OP_AddTail, 0, 0, 0, V());
      if ((stop)||(Pos().cap != cap)||((uint32) Size() != level)) return;
      const uint32 turns = (w.head+cap-Pos().head)%cap;
      for (uint32 i=0; (i<turns)&&(!stop); i++) {Do(OP_AddTail, 0, 0, 0, V()); Do(OP_RemoveHead);}
      // fill some more; Normalize is wanted on a window that wraps around the end of the array wherever the head offset allows one
      uint32 lo = level; if ((w.group == G_NORMALIZE)&&(w.head > 0)&&(cap-w.head+1 > lo)) lo = cap-w.head+1;
      const uint32 upTo = lo+rng.Below(cap-lo+1);
      for (int g=0; (g < 300)&&(!stop)&&((uint32) Size() < upTo); g++) Do(OP_AddTail, 0, 0, 0, V());
      const RingPos p = Pos(); if ((stop)||(p.cap != cap)||(p.head != w.head)||(p.size == 0)) return;
      TargetCall(rng.Chance(8) ? (int) G_OTHER : w.group);
   }

   // exchanges between an inline-buffer Queue and a heap Queue, every class in turn: this Queue inline / heap with 0 .. inline capacity items,
   // the other Queue inline / heap, SwapContents in both call directions, Plunder, move assignment in both directions
   struct SwapWant {bool qInline; uint32 k; bool oInline; int opi;};
   std::vector<SwapWant> swapWants; size_t swapCursor;
   void PlanSwapWants()
   {
      for (int qi=0; qi<2; qi++) for (uint32 k=0; k<=cov.inlineCap; k++) for (int oi=0; oi<2; oi++) for (int opi=0; opi<5; opi++) {SwapWant w; w.qInline = (qi == 0); w.k = k; w.oInline = (oi == 0); w.opi = opi; swapWants.push_back(w);}
      for (size_t i=swapWants.size(); i>1; i--) std::swap(swapWants[i-1], swapWants[rng.Below((uint32) i)]);
      swapCursor = 0;
   }
   void ExchangeEpisode()
   {
      if (swapWants.empty()) return;
      const SwapWant w = swapWants[(swapCursor++) % swapWants.size()]; const uint32 s = cov.inlineCap;
      Do(OP_Clear, 1); Do(OP_EnsureSize, w.qInline ? 1 : (int) s+1);
      for (uint32 i=0; (i<w.k)&&(!stop); i++) Do(rng.Chance(80) ? OP_AddTail : OP_AddHead, 0, 0, 0, V());
      if (stop) return;
      const RingPos p = Pos(); if ((p.inl != w.qInline)||(p.size != w.k)) return;
      IV src; const uint32 len = w.oInline ? (1+rng.Below(s)) : (s+1+rng.Below(2)); for (uint32 i=0; i<len; i++) src.push_back(V0());
      const int ops[] = {OP_SwapContents, OP_SwapContentsRev, OP_Plunder, OP_MoveAssign, OP_MoveAway};
      sub->plainOther = true; Do(ops[w.opi], 0, 0, 0, 0, src); if (sub) sub->plainOther = false;
      // and a few calls on what the exchange left behind
      const uint32 k = 1+rng.Below(3); for (uint32 i=0; (i<k)&&(!stop); i++) RandomCall();
   }

   void Run(long run, long nops)
   {
      curRun = run; curStep = 0; stop = false; cur.clear();
      fprintf(trace, "{\"op\":\"Reset\",\"a\":0,\"b\":0,\"c\":0,\"v\":0,\"src\":[],\"st\":\"\",\"r\":0,\"rs\":[],\"o\":[],\"q\":[],\"run\":%ld}\n", run); lines++;
      sub = new Sub((int) rng.Below(4), &cov);
      for (long guard=0; (guard < nops*4)&&(curStep < nops)&&(!stop); guard++) {
         const uint32 x = rng.Below(100);
         if (x < 30) RingEpisode();
         else if (x < 48) ExchangeEpisode();
         else if (x < 51) {const int want = 12+(int) rng.Below(10); for (int g=0; (g < 64)&&(Size() < want)&&(!stop); g++) Do(rng.Chance(50) ? OP_AddTail : OP_AddHead, 0, 0, 0, V()); Do(OP_Sort, rng.Chance(70) ? 0 : Idx(), Lim());}    // long enough for the merge step of Sort
         else {const uint32 k = 1+rng.Below(6); for (uint32 i=0; i<k; i++) RandomCall();}
      }
      delete sub; sub = NULL; runsDone++;
   }
};

template<class T> static int Random(uint64 seed, long runs, long nops, const char * traceFile, const char * outFile)
{
   FILE * tf = fopen(traceFile, "w"); FILE * out = fopen(outFile, "w");
   if ((!tf)||(!out)) {fprintf(stderr, "cannot open files\n"); return 2;}
   RandomDriver<T> d(seed, tf, out);
   for (long r=0; r<runs; r++) d.Run(r, nops);
   mj::Value sum = mj::Value::Obj();
   sum.set("summary", mj::Value::Bool(true)).set("type", mj::Value::Str(IT<T>::Name())).set("seed", mj::Value::Int((int64_t) seed)).set("runs", mj::Value::Int(d.runsDone)).set("trace_lines", mj::Value::Int(d.lines))
      .set("violated", mj::Value::Int(d.violated)).set("known", mj::Value::Int(d.known));
   d.cov.Report(sum);
   fprintf(out, "%s\n", mj::ToString(sum).c_str()); fclose(out); fclose(tf);
   return 0;
}

// ---------------------------------------------------------------------------------------------------------------------------
// directed cases of the known findings (open: swapstale; repaired in /repo and judged as ordinary cases: all the others)

static int Directed(const char * name, const char * outFile)
{
   FILE * out = fopen(outFile, "w"); if (!out) return 2;
   mj::Value rec = mj::Value::Obj(); rec.set("summary", mj::Value::Bool(true)).set("case", mj::Value::Str(name));
   if (!strcmp(name, "swapstale")) {
      // Queue<Tok> (owning, copy-only), S = the capacity of its inline buffer as compiled: a = S items in its inline buffer, b = S+2 items on the heap;
      // a.SwapContents(b); a.RemoveHeadMulti(S+1); a.ShrinkToFit(); a.EnsureSize(S, true).
      // EnsureSize(n, true) is documented to add DEFAULT items: a must be [last item of b, 0, 0, ...]  (with S = 1 there is no slot left to show anything)
      const uint32 S = Subject<Tok>::InlineCap();
      Queue<Tok> a, b; for (uint32 i=0; i<S; i++) (void) a.AddTail(Tok(1+(int)(i%9))); for (uint32 i=0; i<S+2; i++) (void) b.AddTail(Tok(1+(int)((i+4)%9)));
      const bool applies = (Subject<Tok>::IsInline(a))&&(!Subject<Tok>::IsInline(b));
      a.SwapContents(b); (void) a.RemoveHeadMulti(S+1); (void) a.ShrinkToFit(); (void) a.EnsureSize(S, true);
      IV got; for (uint32 i=0; i<a.GetNumItems(); i++) got.push_back(a[i].val());
      IV want(S, 0); want[0] = 1+(int)((S+1+4)%9);
      rec.set("reproduced", mj::Value::Bool(got != want)).set("expected", IVJson(want)).set("observed", IVJson(got)).set("inline_capacity", mj::Value::Int(S)).set("inline_vs_heap", mj::Value::Bool(applies));
      // the same with an item type that has move operations must be right
      const uint32 S2 = Subject<String>::InlineCap();
      Queue<String> c, d; for (uint32 i=0; i<S2; i++) (void) c.AddTail(IT<String>::Make(1+(int)(i%9))); for (uint32 i=0; i<S2+2; i++) (void) d.AddTail(IT<String>::Make(1+(int)((i+4)%9)));
      c.SwapContents(d); (void) c.RemoveHeadMulti(S2+1); (void) c.ShrinkToFit(); (void) c.EnsureSize(S2, true);
      IV got2; for (uint32 i=0; i<c.GetNumItems(); i++) got2.push_back(IT<String>::Val(c[i]));
      IV want2(S2, 0); want2[0] = 1+(int)((S2+1+4)%9);
      rec.set("movable_type_ok", mj::Value::Bool(got2 == want2));
   }
   else if (!strcmp(name, "shrinkoverflow")) {
      // Queue<int> [1..8] (8 slots); EnsureSize(5, false, 0, allowShrink = true): "makes sure there is enough space allocated for at least (numSlots) items";
      // the ideal sequence is unchanged, and the items must still fit.  (Before its repair the code copied all 8 items into a new array of 5 slots.)
      Queue<int> * q = new Queue<int>; for (int i=1; i<=8; i++) (void) q->AddTail(i);
      Call c; c.op = OP_EnsureSizeX; c.a = 5; c.b = 0; c.c = 1; NoteNow("directed", "int", 0, 8, c);
      const status_t r = q->EnsureSize(5, false, 0, true);
      IV got; for (uint32 i=0; i<q->GetNumItems(); i++) got.push_back((*q)[i]);
      IV want; for (int i=1; i<=8; i++) want.push_back(i);
      rec.set("reproduced", mj::Value::Bool((got != want)||(q->GetNumAllocatedItemSlots() < q->GetNumItems()))).set("status", mj::Value::Str(S(r))).set("expected", IVJson(want)).set("observed", IVJson(got)).set("slots", mj::Value::Int(q->GetNumAllocatedItemSlots()));
      delete q;
   }
   else if (!strcmp(name, "addheadself")) {
      // Queue<int> [1,2] with room to spare; q.AddHeadMulti(q): "a.AddHead(b): a now contains b's items followed by a's" - [1,2,1,2].
      // (The code copies itself first only when it has to reallocate; otherwise the indices it reads from move with every item it prepends.)
      Queue<int> q; (void) q.EnsureSize(8); (void) q.AddTail(1); (void) q.AddTail(2);
      const status_t r = q.AddHeadMulti(q);
      IV got; for (uint32 i=0; i<q.GetNumItems(); i++) got.push_back(q[i]);
      IV want; want.push_back(1); want.push_back(2); want.push_back(1); want.push_back(2);
      // the same call when a reallocation is needed must be right
      Queue<int> p; (void) p.AddTail(1); (void) p.AddTail(2); (void) p.AddHeadMulti(p);
      IV got2; for (uint32 i=0; i<p.GetNumItems(); i++) got2.push_back(p[i]);
      rec.set("reproduced", mj::Value::Bool(got != want)).set("status", mj::Value::Str(S(r))).set("expected", IVJson(want)).set("observed", IVJson(got)).set("with_reallocation_ok", mj::Value::Bool(got2 == want));
   }
   else if (!strcmp(name, "ensuresizerealloc")) {
      // Queue<int>, nothing allocated; EnsureSize(8, true): "adding ... [default] items to the tail of the Queue until the Queue is the specified size" - eight zeros.
      // (The reallocating branch leaves the added items as the allocator delivered the array.)  The heap is dirtied first so that the outcome does not depend on luck.
      {int * junk[16]; for (int i=0; i<16; i++) {junk[i] = new int[8]; for (int j=0; j<8; j++) junk[i][j] = 0x55555555;} for (int i=0; i<16; i++) delete [] junk[i];}
      Queue<int> q; const status_t r = q.EnsureSize(8, true);
      IV got; for (uint32 i=0; i<q.GetNumItems(); i++) got.push_back(q[i]);
      IV want(8, 0);
      // without a reallocation (the repaired F16 path) it must be right
      Queue<int> p; for (int i=1; i<=8; i++) (void) p.AddTail(i*11); (void) p.RemoveTailMulti(6); (void) p.EnsureSize(8, true);
      IV got2; for (uint32 i=0; i<p.GetNumItems(); i++) got2.push_back(p[i]);
      IV want2(8, 0); want2[0] = 11; want2[1] = 22;
      rec.set("reproduced", mj::Value::Bool(got != want)).set("status", mj::Value::Str(S(r))).set("expected", IVJson(want)).set("observed", IVJson(got)).set("without_reallocation_ok", mj::Value::Bool(got2 == want2));
   }
   else if (!strcmp(name, "addheadstart")) {
      // Queue<int> q = [1,2], o = [3,4]; q.AddHeadMulti(o, 0x80000000): "startIndex: index in (queue) to start adding at", beyond the end of o: nothing is added.
      // (The loop 'for (int32 i=(int32)(startIndex+numNewItems-1); i>=(int32)startIndex; i--)' starts at INT32_MAX for exactly this startIndex: MASSERT in operator[].)
      Queue<int> q, o; (void) q.AddTail(1); (void) q.AddTail(2); (void) o.AddTail(3); (void) o.AddTail(4);
      Call c; c.op = OP_AddHeadMulti; c.a = 96; c.b = NOLIMIT; NoteNow("directed", "int", 0, 4, c);
      const status_t r = q.AddHeadMulti(o, 0x80000000u);
      IV got; for (uint32 i=0; i<q.GetNumItems(); i++) got.push_back(q[i]);
      IV want; want.push_back(1); want.push_back(2);
      Queue<int> p; (void) p.AddTail(1); (void) p.AddTail(2); (void) p.AddHeadMulti(o, 0x80000001u); (void) p.AddHeadMulti(o, 0x7FFFFFFFu); (void) p.AddHeadMulti(o, MUSCLE_NO_LIMIT);
      IV got2; for (uint32 i=0; i<p.GetNumItems(); i++) got2.push_back(p[i]);
      rec.set("reproduced", mj::Value::Bool((got != want)||(r.IsError()))).set("status", mj::Value::Str(S(r))).set("expected", IVJson(want)).set("observed", IVJson(got)).set("neighbouring_values_ok", mj::Value::Bool(got2 == want));
   }
   else if (!strcmp(name, "extraoverflow")) {
      // Queue<int> q = [1..8]; q.EnsureSize(20, false, 0xFFFFFFF0): either a failure that changes nothing or room for 20 items; the items stay.
      // (numSlots + extraReallocItems is added up in 32 bits: 4 slots are allocated and 8 items copied into them - reported by ASan: this process dies here.)
      Queue<int> * q = new Queue<int>; for (int i=1; i<=8; i++) (void) q->AddTail(i);
      Call c; c.op = OP_EnsureSizeX; c.a = 20; c.b = -16; c.c = 0; NoteNow("directed", "int", 0, 8, c);
      const status_t r = q->EnsureSize(20, false, 0xFFFFFFF0u);
      IV got; for (uint32 i=0; i<q->GetNumItems(); i++) got.push_back((*q)[i]);
      IV want; for (int i=1; i<=8; i++) want.push_back(i);
      rec.set("reproduced", mj::Value::Bool((got != want)||((r.IsOK())&&(q->GetNumAllocatedItemSlots() < 20)))).set("status", mj::Value::Str(S(r))).set("expected", IVJson(want)).set("observed", IVJson(got)).set("slots", mj::Value::Int(q->GetNumAllocatedItemSlots()));
      delete q;
   }
   else if (!strcmp(name, "extraignored")) {
      // "[extraReallocItems] is ignored if (setNumItems) is true".  A: Queue<int> [1..8]; EnsureSize(20, true, 0xFFFFFFF0) succeeds with 20 items (12 default ones added);
      // B: Queue<int> [1..8]; EnsureSize(2, true, 0xFFFFFFFF, true) succeeds with [1,2] - in particular it is not a failure that has truncated the Queue.
      Queue<int> a; for (int i=1; i<=8; i++) (void) a.AddTail(i); const status_t ra = a.EnsureSize(20, true, 0xFFFFFFF0u);
      IV gotA; for (uint32 i=0; i<a.GetNumItems(); i++) gotA.push_back(a[i]);
      IV wantA(20, 0); for (int i=0; i<8; i++) wantA[i] = i+1;
      Queue<int> b; for (int i=1; i<=8; i++) (void) b.AddTail(i); const status_t rb = b.EnsureSize(2, true, 0xFFFFFFFFu, true);
      IV gotB; for (uint32 i=0; i<b.GetNumItems(); i++) gotB.push_back(b[i]);
      IV wantB; wantB.push_back(1); wantB.push_back(2);
      rec.set("reproduced", mj::Value::Bool((ra.IsError())||(rb.IsError())||(gotA != wantA)||(gotB != wantB))).set("status", mj::Value::Str(std::string(S(ra)) + " / " + S(rb))).set("expected", IVJson(wantB)).set("observed", IVJson(gotB)).set("observed_A", IVJson(gotA));
   }
   else {fclose(out); return 2;}
   fprintf(out, "%s\n", mj::ToString(rec).c_str()); fclose(out);
   return 0;
}

int main(int argc, char ** argv)
{
   CompleteSetupSystem css;
   if (__sanitizer_set_death_callback) __sanitizer_set_death_callback(OnDeath);
   signal(SIGALRM, OnTick); alarm(20);
   signal(SIGABRT, OnAbort);
   if ((argc >= 4)&&(!strcmp(argv[1], "replay"))) return Replay(argv[2], argv[3], (argc > 4) ? argv[4] : "int");
   if ((argc >= 8)&&(!strcmp(argv[1], "random"))) {
      const uint64 seed = (uint64) strtoull(argv[3], NULL, 10); const long runs = atol(argv[4]), nops = atol(argv[5]);
      if (!strcmp(argv[2], "int"))    return Random<int>(seed, runs, nops, argv[6], argv[7]);
      if (!strcmp(argv[2], "String")) return Random<String>(seed, runs, nops, argv[6], argv[7]);
      if (!strcmp(argv[2], "Tok"))    return Random<Tok>(seed, runs, nops, argv[6], argv[7]);
      if (!strcmp(argv[2], "uint8"))  return Random<uint8>(seed, runs, nops, argv[6], argv[7]);
      if (!strcmp(argv[2], "uint16")) return Random<uint16>(seed, runs, nops, argv[6], argv[7]);
   }
   if ((argc >= 4)&&(!strcmp(argv[1], "directed"))) return Directed(argv[2], argv[3]);
   fprintf(stderr, "usage: qu replay <behaviours> <report> <int|String|Tok|uint8|uint16> | qu random <int|String|Tok|uint8|uint16> <seed> <runs> <ops> <trace> <report> | qu directed <swapstale|shrinkoverflow|addheadself|ensuresizerealloc|addheadstart|extraoverflow|extraignored> <report>\n");
   return 2;
}
