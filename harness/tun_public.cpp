// The C12 harness built against the PUBLIC API of the gateways only (no `#define private public`, no comparison of private state,
// no setting of the id counters): checks/c12.py falls back to this program when tun.cpp does not compile against the tree under
// test (e.g. after a refactoring of private members).  The property-level judging is the same.
#define TUN_NO_PRIVATE_STATE 1
#include "tun.cpp"
