// C02 conformance harness (asan variant): feeds the mutants enumerated by spec/WireMutate/WireMutate.tla - and, in `rand` mode, seeded
// random mutations of valid streams - to every C++ parser of received bytes, each time in an EXACT-SIZE heap buffer, and judges with the
// property's own monitors:
//   * AddressSanitizer / UndefinedBehaviorSanitizer report, abort(), any fatal signal: the process dies; the check reads the cursor file
//     (index of the case that was running) and the exit status, records the case and restarts the harness behind it;
//   * hang: a per-case watchdog (SIGALRM) writes a report line and exits with status 3;
//   * allocation: peak of live heap bytes while a COMPLETE N-byte buffer is parsed by a Message parser <= 64*N + 64 KiB
//     (__sanitizer_malloc_hook / __sanitizer_free_hook);
//   * verdict envelope of the specification: "A" must be accepted and re-flatten to the same bytes, "R" must be rejected (VIOLATION),
//     "RB" (inside the buffer but beyond the enclosing node) should be rejected by a reader with a budget (DRIFT), "E" either;
//   * every accepted input re-flattens and re-parses to itself; after a failed parse the SAME object parses the valid base encoding
//     correctly; objects are destroyed after success and after failure; a gateway that failed works again after Reset().
//
//   mut cases <bases.ndjson> <cases.ndjson> <report.ndjson> <start index> <cursor file> <tier>
//   mut rand  <seed> <first> <count> <report.ndjson> <cursor file>
//   mut nest  <depth>                      (known finding F7: run by the check in a child process with a bounded stack)
// The inputs of the repaired findings F4, F5, F6, F18, F28, F35 are members of the enumerated space (count words, frame lengths, splices of
// payload-only sub-Messages, type substitutions, the empty tunnel fragment) and are judged like every other case.
//
// Targets per encoding of a case: msg -> UnflattenFromBytes, then framed into the MessageIOGateway configurations (+ SetMaxIncomingMessageSize
// at body / body-1), wrapped into a WebSocket frame / a tunnel fragment / a mini-tunnel chunk with a slave MessageIOGateway, and as raw bytes
// into the text / telnet / raw / SLIP gateways and the WebSocket server; tmpl -> TemplatedUnflatten with the template of the base Message,
// and behind the frame that creates that template into TemplatingMessageIOGateway; frame -> the stream gateways in three segmentations;
// tun / mtun -> the packet tunnels in four configurations, followed by the valid packet.
#include <string>
#include <vector>
#include <map>
#include <deque>
#include <algorithm>
#include <cstdio>
#include <cstring>
#include <csignal>
#include <unistd.h>
#include <fcntl.h>
#include "message/Message.h"
#include "iogateway/MessageIOGateway.h"
#include "iogateway/TemplatingMessageIOGateway.h"
#include "iogateway/PlainTextMessageIOGateway.h"
#include "iogateway/RawDataMessageIOGateway.h"
#include "iogateway/SLIPFramedDataMessageIOGateway.h"
#include "iogateway/WebSocketMessageIOGateway.h"
#include "iogateway/PacketTunnelIOGateway.h"
#include "iogateway/MiniPacketTunnelIOGateway.h"
#include "system/SetupSystem.h"
#include "mjson.h"
using namespace muscle;

// ------------------------------------------------------------------------------------------------ allocation monitor
static volatile bool g_measure = false;
static size_t g_cur = 0, g_peak = 0, g_cum = 0;
extern "C" size_t __sanitizer_get_allocated_size(const volatile void *) __attribute__((weak));
extern "C" void __sanitizer_malloc_hook(const volatile void *, size_t n) {if (g_measure) {g_cum += n; g_cur += n; if (g_cur > g_peak) g_peak = g_cur;}}
extern "C" void __sanitizer_free_hook(const volatile void * p)
{
   if ((g_measure)&&(p)&&(__sanitizer_get_allocated_size)) {const size_t n = __sanitizer_get_allocated_size(p); g_cur = (g_cur > n) ? (g_cur - n) : 0;}
}
// A request above ASAN_OPTIONS max_allocation_size_mb fails at once (malloc returns NULL, no hook); the runtime says so on stderr
// ("WARNING: AddressSanitizer failed to allocate 0x... bytes").  stderr is a file of this harness: the requests are read back and counted.
static int g_errfd = -1; static off_t g_errpos = 0;
static size_t FailedAllocations()
{
   if (g_errfd < 0) return 0;
   const off_t end = lseek(g_errfd, 0, SEEK_END); if (end <= g_errpos) return 0;
   std::string t((size_t) muscleMin((off_t) 65536, end - g_errpos), '\0');
   const ssize_t n = pread(g_errfd, &t[0], t.size(), g_errpos); g_errpos = end; if (n <= 0) return 0;
   t.resize((size_t) n);
   size_t sum = 0, at = 0; static const char * key = "failed to allocate 0x";
   while((at = t.find(key, at)) != std::string::npos) {at += strlen(key); sum += (size_t) strtoull(t.c_str()+at, NULL, 16);}
   return sum;
}
static void MeasureOn()  {(void) FailedAllocations(); g_cur = g_peak = g_cum = 0; g_measure = true;}
static void MeasureOff() {g_measure = false; const size_t f = FailedAllocations(); g_peak += f; g_cum += f;}
static const size_t ALLOC_K = 64, ALLOC_C = 65536;
static size_t g_worstPeak = 0, g_worstPeakN = 0; static double g_worstRatio = 0.0;

// ------------------------------------------------------------------------------------------------ report, cursor, watchdog
static FILE * g_rep = NULL; static int g_repfd = -1, g_curfd = -1;
static long long g_caseIndex = -1; static std::string g_caseDesc, g_target;
static unsigned g_numViol = 0, g_numDrift = 0, g_numKnown = 0;
static std::map<std::string, unsigned long long> g_evals;
static const unsigned MAX_VIOL = 25;

static std::string Hex(const std::string & s) {static const char * d = "0123456789abcdef"; std::string r; r.reserve(s.size()*2); for (size_t i=0; i<s.size(); i++) {unsigned char c = (unsigned char) s[i]; r += d[c>>4]; r += d[c&15];} return r;}
static std::string UnHex(const std::string & h) {std::string r; r.reserve(h.size()/2); for (size_t i=0; i+1<h.size(); i+=2) {int a = h[i], b = h[i+1]; a = (a <= '9') ? a-'0' : a-'a'+10; b = (b <= '9') ? b-'0' : b-'a'+10; r += (char)(a*16+b);} return r;}
static void SetCursor(long long idx) {g_caseIndex = idx; if (g_curfd >= 0) {char b[32]; const int n = snprintf(b, sizeof(b), "%-20lld\n", idx); (void) !pwrite(g_curfd, b, n, 0);}}
static void Note(const char * kind, const std::string & what, const std::string & bytes)
{
   if (!strcmp(kind, "violations")) g_numViol++; else if (!strcmp(kind, "drift")) g_numDrift++; else g_numKnown++;
   if ((g_rep)&&((strcmp(kind, "drift"))||(g_numDrift <= 200)))
   {
      mj::Value v = mj::Value::Obj(); mj::Value a = mj::Value::Arr(); a.push(mj::Value::Str(what));
      v.set("index", mj::Value::Int(g_caseIndex)).set("case", mj::Value::Str(g_caseDesc)).set("target", mj::Value::Str(g_target)).set(kind, a).set("bytes", mj::Value::Str(Hex(bytes.substr(0, 4096))));
      fprintf(g_rep, "%s\n", mj::ToString(v).c_str()); fflush(g_rep);
   }
}
static void OnAlarm(int)
{
   char b[600]; const int n = snprintf(b, sizeof(b), "{\"index\":%lld,\"case\":\"%s\",\"target\":\"%s\",\"hang\":true}\n", g_caseIndex, g_caseDesc.c_str(), g_target.c_str());
   if (g_repfd >= 0) (void) !write(g_repfd, b, n);
   _exit(3);
}
static unsigned g_watchdogSecs = 40;     // generous: the machine is shared, and a 4 GB allocation under AddressSanitizer can take seconds
static void Arm(const char * target) {g_target = target; g_evals[target]++; alarm(g_watchdogSecs);}
static void Disarm() {alarm(0);}

// ------------------------------------------------------------------------------------------------ helpers
static std::string Flat(const Message & m) {const uint32 n = m.FlattenedSize(); std::string s(n, '\0'); if (n > 0) m.FlattenToBytes((uint8 *) &s[0], n); return s;}
static std::string W32(uint32 v) {std::string s(4, '\0'); s[0] = (char)(v & 0xFF); s[1] = (char)((v>>8) & 0xFF); s[2] = (char)((v>>16) & 0xFF); s[3] = (char)((v>>24) & 0xFF); return s;}
static uint32 R32(const std::string & s, size_t o) {return (o+4 <= s.size()) ? (((uint32)(uint8)s[o]) | (((uint32)(uint8)s[o+1])<<8) | (((uint32)(uint8)s[o+2])<<16) | (((uint32)(uint8)s[o+3])<<24)) : 0;}
static std::string Frame(const std::string & body, uint32 enc = MUSCLE_MESSAGE_ENCODING_DEFAULT) {return W32((uint32) body.size()) + W32(enc) + body;}
// an exact-size heap copy: any read beyond [0, n) is a heap-buffer-overflow for AddressSanitizer
struct Exact
{
   Exact(const std::string & s) : n((uint32) s.size()) {p = (uint8 *) malloc(s.size() ? s.size() : 1); if (s.size()) memcpy(p, s.data(), s.size());}
   ~Exact() {free(p);}
   uint8 * p; uint32 n;
};
static void CheckAlloc(size_t N, const std::string & bytes, const char * what)
{
   const size_t budget = ALLOC_K*N + ALLOC_C;
   if (g_peak > g_worstPeak) {g_worstPeak = g_peak; g_worstPeakN = N;}
   const double ratio = ((double) g_peak) / (double) budget; if (ratio > g_worstRatio) g_worstRatio = ratio;
   if (g_peak > budget) {char b[256]; snprintf(b, sizeof(b), "%s: peak of %zu live heap bytes (%zu allocated in total) while parsing a complete %zu-byte buffer; budget 64*N+64KiB = %zu", what, g_peak, g_cum, N, budget); Note("violations", b, bytes);}
}

struct Case
{
   long long index; std::string enc, k, wk, v, why, sp, b, full, w; int base, dl, nf, pos;
   std::string Desc() const {char t[200]; snprintf(t, sizeof(t), "%s base %d %s pos %d %s %s%s -> %s %s", enc.c_str(), base, k.c_str(), pos, wk.c_str(), sp.c_str(), Hex(w).c_str(), v.c_str(), why.c_str()); return t;}
};
static std::map<int, std::string> g_baseMsg;      // base index -> valid flattened Message
static std::map<int, std::string> g_baseCur[5];   // per encoding: the bytes of the current base (the `base` record precedes its mutants)
static std::map<int, int> g_baseDl[5];             // per encoding: Messages the valid base hands over
static int EncIdx(const std::string & e) {return (e == "msg") ? 0 : (e == "tmpl") ? 1 : (e == "frame") ? 2 : (e == "tun") ? 3 : 4;}

// ------------------------------------------------------------------------------------------------ scripted byte stream / packets
class FeedIO : public DataIO
{
public:
   FeedIO() : pos(0), seg(0), blocked(false) {}
   void Set(const std::string & d, int mode)   // mode 0: everything at once, 1: byte at a time, 2: boundary cuts
   {
      data = d; pos = 0; seg = 0; blocked = false; cuts.clear(); out.clear();
      if (mode == 1) for (size_t i=1; i<=d.size(); i++) cuts.push_back(i);
      else if (mode == 2) {const size_t c[] = {1, 7, 8, 9, 12, 20, d.size() > 1 ? d.size()-1 : 0}; for (size_t i=0; i<sizeof(c)/sizeof(c[0]); i++) if ((c[i] > 0)&&(c[i] < d.size())) cuts.push_back(c[i]); std::sort(cuts.begin(), cuts.end()); cuts.erase(std::unique(cuts.begin(), cuts.end()), cuts.end()); cuts.push_back(d.size());}
      else cuts.push_back(d.size());
   }
   bool Done() const {return pos >= data.size();}
   virtual io_status_t Read(void * b, uint32 n)
   {
      while((seg < cuts.size())&&(cuts[seg] <= pos)&&(pos < data.size())) {seg++; if (!blocked) {blocked = true; return io_status_t();}}   // end of a segment: would block once
      blocked = false;
      const size_t lim = (seg < cuts.size()) ? cuts[seg] : data.size();
      const uint32 c = (uint32) muscleMin((size_t) n, lim - muscleMin(lim, pos));
      if (c > 0) {memcpy(b, data.data()+pos, c); pos += c;}
      return io_status_t((int32) c);
   }
   virtual io_status_t Write(const void * b, uint32 n) {out.append((const char *) b, n); return io_status_t((int32) n);}
   virtual void FlushOutput() {}
   virtual void Shutdown() {}
   virtual const ConstSocketRef & GetReadSelectSocket() const {return GetNullSocket();}
   virtual const ConstSocketRef & GetWriteSelectSocket() const {return GetNullSocket();}
   std::string data, out; size_t pos; std::vector<size_t> cuts; size_t seg; bool blocked;
};
class PktIO : public PacketDataIO
{
public:
   PktIO(uint32 mtu) : _mtu(mtu) {}
   virtual uint32 GetMaximumPacketSize() const {return _mtu;}
   virtual const IPAddressAndPort & GetPacketSendDestination() const {return _d;}
   virtual void SetPacketSendDestination(const IPAddressAndPort & i) {_d = i;}
   virtual io_status_t ReadFrom(void * b, uint32 n, IPAddressAndPort & src)
   {
      if (in.empty()) return io_status_t();
      const std::string p = in.front(); in.pop_front();
      const uint32 c = muscleMin(n, (uint32) p.size()); if (c > 0) memcpy(b, p.data(), c);
      src = IPAddressAndPort(IPAddress(0x0A000001u), 4001); SetSourceOfLastReadPacket(src);
      return io_status_t((int32) c);
   }
   virtual io_status_t WriteTo(const void * b, uint32 n, const IPAddressAndPort &) {out.push_back(std::string((const char *) b, n)); return io_status_t((int32) n);}
   virtual void FlushOutput() {}
   virtual void Shutdown() {}
   virtual const ConstSocketRef & GetReadSelectSocket() const {return GetNullSocket();}
   virtual const ConstSocketRef & GetWriteSelectSocket() const {return GetNullSocket();}
   std::deque<std::string> in; std::vector<std::string> out;
private:
   uint32 _mtu; IPAddressAndPort _d;
};

// Pumps a gateway until the scripted input is used up (or the gateway reports an error).  Returns the flattened Messages handed over.
struct Pumped {std::vector<std::string> msgs; bool error; uint32 whatOfFirst; unsigned calls;};
class Collector : public AbstractGatewayMessageReceiver      // flattens every Message at once and lets go of it (its own bookkeeping is not measured)
{
public:
   Collector(Pumped & r) : _r(r) {}
   virtual void MessageReceivedFromGateway(const MessageRef & msg, void *)
   {
      const bool wasOn = g_measure; g_measure = false;
      if (msg())
      {
         Message m(*msg()); (void) m.RemoveName(PR_NAME_PACKET_REMOTE_LOCATION);   // (a slave gateway in packet mode tags the source address)
         if (_r.msgs.empty()) _r.whatOfFirst = m.what;
         if (_r.msgs.size() < 100000) _r.msgs.push_back(Flat(m));
      }
      g_measure = wasOn;
   }
private:
   Pumped & _r;
};
static Pumped Pump(AbstractMessageIOGateway & gw, FeedIO * sio, PktIO * pio)
{
   Pumped r; r.error = false; r.whatOfFirst = 0; r.calls = 0;
   Collector q(r);
   unsigned idle = 0;
   while(r.calls < 200000)
   {
      r.calls++;
      const io_status_t s = gw.DoInput(q);
      if (s.IsError()) {r.error = true; break;}
      if (gw.HasBytesToOutput()) (void) gw.DoOutput();
      const bool done = sio ? sio->Done() : pio->in.empty();
      if (s.GetByteCount() > 0) idle = 0; else if (done) {if (++idle >= 2) break;} else if (++idle > 20000) {Note("violations", "gateway makes no progress although input is available", sio ? sio->data : std::string()); break;}
   }
   return r;
}

// ------------------------------------------------------------------------------------------------ the Message parsers
static Message * g_reuse = NULL, * g_reuseT = NULL;

// returns true iff accepted
static bool ParseMsg(const Case & c, const std::string & base)
{
   const std::string & b = c.b;
   Exact x(b);
   Arm("Message::UnflattenFromBytes");
   (void) Message::BytesMightContainFlattenedMessage(x.p, x.n);
   MeasureOn(); const status_t r = g_reuse->UnflattenFromBytes(x.p, x.n); MeasureOff();
   CheckAlloc(b.size(), b, "Message::UnflattenFromBytes");
   if (r.IsOK())
   {
      const std::string y = Flat(*g_reuse);
      if (c.v == "R") Note("violations", "accepted although the buffer does not contain what its words declare (" + c.why + ")", b);
      else if (c.v == "RB") Note("drift", "accepted although a nested node ends after its parent (" + c.why + ")", b);
      else if ((c.v == "A")&&(y != b)) Note("violations", "a valid encoding was accepted but re-flattens to different bytes: " + Hex(y), b);
      Exact y2(y); Message z; const status_t r2 = z.UnflattenFromBytes(y2.p, y2.n);
      if (r2.IsError()) Note("violations", std::string("accepted, but its own re-flattening is rejected: ") + r2(), b);
      else if (Flat(z) != y) Note("violations", "accepted, but re-flatten / re-parse is not a fixed point", b);
      // (values are compared by their bytes only: a Message that holds a NaN anywhere - also in a sub-Message - is not == to an equal Message)
   }
   else
   {
      if (c.v == "A") Note("violations", std::string("a valid encoding was rejected: ") + r(), b);
      if (!base.empty())
      {
         Exact bx(base); const status_t r3 = g_reuse->UnflattenFromBytes(bx.p, bx.n);     // the same object must still work
         if (r3.IsError()) Note("violations", std::string("after a failed parse the same Message object rejects a valid encoding: ") + r3(), b);
         else if (Flat(*g_reuse) != base) Note("violations", "after a failed parse the same Message object parses a valid encoding to something else", b);
      }
   }
   {Message * h = new Message; (void) h->UnflattenFromBytes(x.p, x.n); delete h;}     // destructible after success and after failure
   {MessageRef p = GetMessageFromPool(x.p, x.n); if ((p() != NULL) != r.IsOK()) Note("drift", "GetMessageFromPool(bytes) and UnflattenFromBytes disagree", b);}
   Disarm();
   return r.IsOK();
}

static std::map<int, MessageRef> g_tplOf, g_baseObj;
static bool ParseTmpl(const Case & c, const std::string & baseT)
{
   if (g_baseMsg.find(c.base) == g_baseMsg.end()) return false;
   if (g_tplOf.find(c.base) == g_tplOf.end())
   {
      const std::string & bm = g_baseMsg[c.base];
      MessageRef m = GetMessageFromPool((const uint8 *) bm.data(), (uint32) bm.size());
      if (m() == NULL) {Note("drift", "the base Message of a templated case does not parse", bm); return false;}
      g_baseObj[c.base] = m; g_tplOf[c.base] = m()->CreateMessageTemplate();
   }
   const Message & tpl = *g_tplOf[c.base](); const Message & bo = *g_baseObj[c.base]();
   if (c.k == "base")
   {
      // the grammar of the specification and the code agree on the valid payload-only encoding
      const uint32 n = bo.TemplatedFlattenedSize(tpl); std::string s(n, '\0'); bo.TemplatedFlatten(tpl, DataFlattener((uint8 *) &s[0], n));
      if (s != c.b) Note("drift", "TemplatedFlatten differs from the specification's payload-only encoding: " + Hex(s), c.b);
   }
   const std::string & b = c.b;
   Exact x(b);
   Arm("Message::TemplatedUnflatten");
   DataUnflattener u(x.p, x.n);
   MeasureOn(); const status_t r = g_reuseT->TemplatedUnflatten(tpl, u); MeasureOff();
   CheckAlloc(b.size(), b, "Message::TemplatedUnflatten");
   if (r.IsOK())
   {
      const std::string y = Flat(*g_reuseT);
      if (c.v == "R") Note("violations", "payload-only bytes accepted although they do not contain what the template and their words declare (" + c.why + ")", b);
      else if (c.v == "RB") Note("drift", "payload-only bytes accepted although a nested node ends after its parent (" + c.why + ")", b);
      else if ((c.v == "A")&&(y != c.full)) Note("violations", "valid payload-only bytes were accepted as a different Message: " + Hex(y), b);
      Exact y2(y); Message z; const status_t r2 = z.UnflattenFromBytes(y2.p, y2.n);
      if ((r2.IsError())||(Flat(z) != y)) Note("violations", "accepted, but the resulting Message does not re-flatten / re-parse to itself", b);
   }
   else
   {
      if (c.v == "A") Note("violations", std::string("valid payload-only bytes were rejected: ") + r(), b);
      if (!baseT.empty())
      {
         Exact bx(baseT); DataUnflattener u2(bx.p, bx.n); const status_t r3 = g_reuseT->TemplatedUnflatten(tpl, u2);
         if ((r3.IsError())||(Flat(*g_reuseT) != g_baseMsg[c.base])) Note("violations", "after a failed templated parse the same Message object does not parse the valid payload", b);
      }
   }
   {Message * h = new Message; DataUnflattener u3(x.p, x.n); (void) h->TemplatedUnflatten(tpl, u3); delete h;}
   Disarm();
   return r.IsOK();
}

// ------------------------------------------------------------------------------------------------ gateways
// what the verdict says about a byte stream that carries ONE Message (expected bytes `want`): "A": exactly that Message first; "R" / "I": nothing
static void JudgeStream(const Case & c, const char * gwName, const Pumped & p, const std::string & want, const std::string & stream, bool parserAccepts, bool haveParser)
{
   if ((c.v == "A")&&((p.msgs.empty())||(p.msgs[0] != want))) Note("violations", std::string(gwName) + ": a valid stream was not handed over as the Message it encodes (" + (p.msgs.empty() ? std::string("nothing") : Hex(p.msgs[0])) + ")", stream);
   if (((c.v == "R")||(c.v == "I"))&&(!p.msgs.empty())) Note("violations", std::string(gwName) + ": a Message was handed over although the stream does not contain one (" + c.why + ")", stream);
   if ((c.v == "RB")&&(!p.msgs.empty())) Note("drift", std::string(gwName) + ": a Message was handed over although a nested node ends after its parent", stream);
   if ((c.v == "I")&&(p.error)&&(R32(stream, 0) < (512u<<20))) Note("drift", std::string(gwName) + ": error reported for an incomplete frame", stream);   // (larger bodies: the allocation may fail in this harness)
   if ((haveParser)&&(parserAccepts != (!p.msgs.empty()))) Note("drift", std::string(gwName) + ": gateway and Message::UnflattenFromBytes disagree on the same body", stream);
}
// after a failure the gateway must work again: Reset(), then a valid frame
static void Reusable(const char * gwName, AbstractMessageIOGateway & gw, FeedIO * io, const std::string & validStream, const std::string & want, unsigned expectCount)
{
   gw.Reset(); io->Set(validStream, 0);
   const Pumped p = Pump(gw, io, NULL);
   if ((p.msgs.size() != expectCount)||((expectCount > 0)&&(p.msgs.back() != want))) Note("violations", std::string(gwName) + ": after a failed input and Reset() the gateway does not hand over a valid stream", validStream);
   gw.Reset();
}

static bool HugeFrameAux(const std::string & stream) {return (stream.size() >= 8)&&((((uint32)(uint8)stream[3])<<24 | ((uint32)(uint8)stream[2])<<16) >= (1u<<24));}
struct StreamGw {const char * name; AbstractMessageIOGatewayRef gw; FeedIO * io; uint32 limit;};
static std::vector<StreamGw> g_bin;     // MessageIOGateway configurations
static void MakeStreamGws()
{
   const struct {const char * n; int32 enc; uint32 limit;} cfg[] = {{"MessageIOGateway", MUSCLE_MESSAGE_ENCODING_DEFAULT, MUSCLE_NO_LIMIT}, {"MessageIOGateway(zlib6 out)", MUSCLE_MESSAGE_ENCODING_ZLIB_6, MUSCLE_NO_LIMIT},
                                                                   {"MessageIOGateway(max 4096)", MUSCLE_MESSAGE_ENCODING_DEFAULT, 4096}, {"MessageIOGateway(zlib9 out, max 4096)", MUSCLE_MESSAGE_ENCODING_ZLIB_9, 4096}};
   g_bin.clear();
   for (size_t i=0; i<sizeof(cfg)/sizeof(cfg[0]); i++)
   {
      MessageIOGateway * g = new MessageIOGateway(cfg[i].enc); if (cfg[i].limit != MUSCLE_NO_LIMIT) g->SetMaxIncomingMessageSize(cfg[i].limit);
      StreamGw s; s.name = cfg[i].n; s.gw.SetRef(g); s.io = new FeedIO; s.limit = cfg[i].limit; g->SetDataIO(DataIORef(s.io)); g_bin.push_back(s);
   }
}
// SetMaxIncomingMessageSize(n) at the boundary: a body of exactly n bytes is allowed, one of n+1 bytes is not
static void LimitBoundary(const Case & c, const std::string & stream, const std::string & want)
{
   if ((stream.size() < 8)||(HugeFrameAux(stream))) return;
   const uint32 body = R32(stream, 0);
   static MessageIOGateway * gw = NULL; static FeedIO * io = NULL;
   if (gw == NULL) {gw = new MessageIOGateway; io = new FeedIO; gw->SetDataIO(DataIORef(io));}
   for (int k=0; k<2; k++)
   {
      if ((k == 1)&&(body == 0)) continue;
      Arm(k ? "MessageIOGateway(max = body - 1)" : "MessageIOGateway(max = body)");
      gw->Reset(); gw->SetMaxIncomingMessageSize(k ? body-1 : body); io->Set(stream, 0);
      const Pumped p = Pump(*gw, io, NULL);
      if (k == 0) JudgeStream(c, "MessageIOGateway(max = body)", p, want, stream, false, false);
      else if (!p.msgs.empty()) Note("violations", "MessageIOGateway handed over a Message whose declared body is larger than SetMaxIncomingMessageSize()", stream);
      Disarm();
   }
}
static bool HugeFrame(const std::string & stream) {return (stream.size() >= 8)&&(R32(stream, 0) >= (1u<<24));}

// frame stream into the MessageIOGateway configurations; `want` = the Message bytes if one must come out
static void BinaryGateways(const Case & c, const std::string & stream, const std::string & want, const std::string & validStream, const std::string & validWant, bool parserAccepts, bool haveParser, int modes)
{
   for (size_t gi=0; gi<g_bin.size(); gi++)
   {
      StreamGw & s = g_bin[gi];
      // a declared body of 16 MB .. 4 GB makes an unlimited gateway allocate that much before the body arrives (by design: that is what
      // SetMaxIncomingMessageSize is for); exercised for the first bases only, it costs 0.1 s each under AddressSanitizer
      if ((s.limit == MUSCLE_NO_LIMIT)&&(HugeFrame(stream))&&((c.base > 1)||(gi != 0))) continue;
      for (int mode=0; mode<3; mode++)
      {
         if (((modes >> mode) & 1) == 0) continue;
         if ((mode > 0)&&(gi != 0)&&(gi != 2)) continue;
         Arm(s.name);
         s.gw()->Reset(); s.io->Set(stream, mode);
         const Pumped p = Pump(*s.gw(), s.io, NULL);
         Case cc = c;
         if ((s.limit != MUSCLE_NO_LIMIT)&&(stream.size() >= 8)&&(R32(stream, 0) > s.limit)&&(c.v != "R")) {cc.v = "R"; cc.why = "declared body larger than SetMaxIncomingMessageSize";}
         JudgeStream(cc, s.name, p, want, stream, parserAccepts, haveParser && (cc.v == c.v));
         if ((p.msgs.empty())&&(!validStream.empty())) Reusable(s.name, *s.gw(), s.io, validStream, validWant, 1);
         Disarm();
      }
   }
}

static std::string g_wsRequest;    // a valid client upgrade request
static std::string WsFrame(const std::string & payload, uint8 op = 0x2)
{
   std::string f; f += (char)(0x80 | op);
   const size_t n = payload.size();
   if (n > 65535) {f += (char)(0x80 | 127); for (int i=7; i>=0; i--) f += (char)((((uint64) n) >> (8*i)) & 0xFF);}
   else if (n > 125) {f += (char)(0x80 | 126); f += (char)((n >> 8) & 0xFF); f += (char)(n & 0xFF);}
   else f += (char)(0x80 | n);
   const uint8 mask[4] = {0x37, 0xfa, 0x21, 0x3d}; f.append((const char *) mask, 4);
   for (size_t i=0; i<n; i++) f += (char)(payload[i] ^ mask[i%4]);
   return f;
}
static void WebSocketServer(const Case & c, const std::string & frameStream, const std::string & want, bool wrap, int mode)
{
   if (g_wsRequest.empty())
   {
      WebSocketMessageIOGateway cl("/p", "h", "proto", ""); FeedIO * io = new FeedIO; cl.SetDataIO(DataIORef(io));
      for (int i=0; (i<100)&&(cl.HasBytesToOutput()); i++) (void) cl.DoOutput();
      g_wsRequest = io->out;
      if (g_wsRequest.find("\r\n\r\n") == std::string::npos) {Note("drift", "could not obtain a WebSocket upgrade request from a client gateway", g_wsRequest); g_wsRequest = "GET /p HTTP/1.1\r\nHost: h\r\nUpgrade: websocket\r\nConnection: Upgrade\r\nSec-WebSocket-Key: dGhlIHNhbXBsZSBub25jZQ==\r\nSec-WebSocket-Version: 13\r\n\r\n";}
   }
   Arm(wrap ? "WebSocketMessageIOGateway(server, slave MessageIOGateway)" : "WebSocketMessageIOGateway(server, raw frames)");
   WebSocketMessageIOGateway gw; FeedIO * io = new FeedIO; gw.SetDataIO(DataIORef(io));
   if (wrap) {MessageIOGateway * sl = new MessageIOGateway; sl->SetMaxIncomingMessageSize(1<<20); gw.SetSlaveGateway(AbstractMessageIOGatewayRef(sl));}
   const std::string stream = g_wsRequest + (wrap ? WsFrame(frameStream) : frameStream);
   io->Set(stream, mode);
   const Pumped p = Pump(gw, io, NULL);
   if (wrap) JudgeStream(c, "WebSocketMessageIOGateway(server, slave MessageIOGateway)", p, want, stream, false, false);
   Disarm();
}

// The WebSocket frame header is not part of the Message grammar; its length fields get the same boundary values here: 7-bit, 16-bit and
// 64-bit payload lengths (big-endian) x {0, 1, n-1, n, n+1, 125, 126, 127, 2^15-1, 2^15, 2^16-1, 2^16, 2^31-1, 2^31, 2^32-8.., 2^63-1, 2^63, 2^64-1},
// with and without the mask bit, every opcode, followed by the n payload bytes that are really there.
static void WebSocketHeaders(const std::string & payload)
{
   if (g_wsRequest.empty()) return;
   const uint64 n = payload.size();
   const uint64 v16[] = {0, 1, n-1, n, n+1, 125, 126, 127, 0x7fff, 0x8000, 0xffff};
   const uint64 v64[] = {0, 1, n, n+1, 0xffff, 0x10000, 0x7fffffffULL, 0x80000000ULL, 0xfffffff8ULL, 0xffffffffULL, 0x100000000ULL, 10*1024*1024ULL, 10*1024*1024ULL+1, 0x7fffffffffffffffULL, 0x8000000000000000ULL, 0xffffffffffffffffULL};
   std::vector<std::string> hdrs;
   for (int op=0; op<16; op++) for (int fin=0; fin<2; fin++) {std::string h; h += (char)((fin ? 0x80 : 0) | op); h += (char)(0x80 | (uint8) muscleMin(n, (uint64) 125)); hdrs.push_back(h);}
   for (int mask=0; mask<2; mask++)
   {
      for (int l=0; l<=127; l += ((l >= 3)&&(l < 120)) ? 13 : 1) {std::string h; h += (char) 0x82; h += (char)((mask ? 0x80 : 0) | l); if (l < 126) hdrs.push_back(h);}
      for (size_t i=0; i<sizeof(v16)/sizeof(v16[0]); i++) {std::string h; h += (char) 0x82; h += (char)((mask ? 0x80 : 0) | 126); h += (char)((v16[i]>>8) & 0xFF); h += (char)(v16[i] & 0xFF); hdrs.push_back(h);}
      for (size_t i=0; i<sizeof(v64)/sizeof(v64[0]); i++) {std::string h; h += (char) 0x82; h += (char)((mask ? 0x80 : 0) | 127); for (int k=7; k>=0; k--) h += (char)((v64[i]>>(8*k)) & 0xFF); hdrs.push_back(h);}
   }
   hdrs.push_back(std::string("\x82", 1)); hdrs.push_back(std::string("\xf2\x85", 2));     // a lone first byte; reserved bits
   for (size_t i=0; i<hdrs.size(); i++)
   {
      const bool masked = (hdrs[i].size() > 1)&&((hdrs[i][1] & 0x80) != 0);
      std::string f = hdrs[i]; if (masked) f += std::string("\x37\xfa\x21\x3d", 4); f += payload;
      for (int slave=0; slave<2; slave++)
      {
         Arm("WebSocketMessageIOGateway(server, frame header boundaries)");
         WebSocketMessageIOGateway gw; FeedIO * io = new FeedIO; gw.SetDataIO(DataIORef(io));
         if (slave) {MessageIOGateway * sl = new MessageIOGateway; sl->SetMaxIncomingMessageSize(1<<20); gw.SetSlaveGateway(AbstractMessageIOGatewayRef(sl));}
         io->Set(g_wsRequest + f + f, (i%3 == 0) ? 2 : 0);
         MeasureOn(); (void) Pump(gw, io, NULL); MeasureOff();
         // the gateway documents a 10 MB cap on the payload it will buffer for one frame
         if (g_peak > (size_t)(11*1024*1024)) {char t[200]; snprintf(t, sizeof(t), "WebSocketMessageIOGateway: peak of %zu live heap bytes for a %zu-byte stream", g_peak, io->data.size()); Note("violations", t, io->data);}
         Disarm();
      }
   }
}

static void Tunnels(const Case & c, const std::string & chunk, const std::string & want)
{
   // the chunk (a framed Message) as the only fragment of one packet; slave gateway = MessageIOGateway (packet mode)
   {
      Arm("PacketTunnelIOGateway(slave MessageIOGateway) carrying the mutant");
      PacketTunnelIOGateway gw(AbstractMessageIOGatewayRef(new MessageIOGateway), 1400); PktIO * io = new PktIO(1400); gw.SetDataIO(DataIORef(io));
      io->in.push_back(W32(DEFAULT_TUNNEL_IOGATEWAY_MAGIC) + W32(0) + W32(1) + W32(0) + W32((uint32) chunk.size()) + W32((uint32) chunk.size()) + chunk);
      const Pumped p = Pump(gw, NULL, io);
      if (chunk.size() <= 1168) JudgeStream(c, "PacketTunnelIOGateway(slave MessageIOGateway)", p, want, chunk, false, false);    // larger chunks: known finding F15 of C12
      Disarm();
   }
   {
      Arm("MiniPacketTunnelIOGateway(slave MessageIOGateway) carrying the mutant");
      MiniPacketTunnelIOGateway gw(AbstractMessageIOGatewayRef(new MessageIOGateway), 1400); PktIO * io = new PktIO(1400); gw.SetDataIO(DataIORef(io));
      io->in.push_back(W32(DEFAULT_MINI_TUNNEL_IOGATEWAY_MAGIC) + W32(0) + W32(5) + W32((uint32) chunk.size()) + chunk);
      const Pumped p = Pump(gw, NULL, io);
      if (chunk.size() <= 1168) JudgeStream(c, "MiniPacketTunnelIOGateway(slave MessageIOGateway)", p, want, chunk, false, false);
      Disarm();
   }
}

// gateways without a Message grammar: hostile bytes must be taken without a report, a hang or unbounded memory
static void ByteGateways(const std::string & bytes, int mode)
{
   const char * names[] = {"PlainTextMessageIOGateway", "TelnetPlainTextMessageIOGateway", "RawDataMessageIOGateway", "RawDataMessageIOGateway(min 4)", "SLIPFramedDataMessageIOGateway", "PlainTextMessageIOGateway(flush partial)"};
   for (int k=0; k<6; k++)
   {
      Arm(names[k]);
      AbstractMessageIOGatewayRef gw;
      switch(k) {
         case 0: gw.SetRef(new PlainTextMessageIOGateway); break;
         case 1: gw.SetRef(new TelnetPlainTextMessageIOGateway); break;
         case 2: gw.SetRef(new RawDataMessageIOGateway); break;
         case 3: gw.SetRef(new RawDataMessageIOGateway(4, 64)); break;
         case 4: gw.SetRef(new SLIPFramedDataMessageIOGateway); break;
         default: {PlainTextMessageIOGateway * t = new PlainTextMessageIOGateway; t->SetFlushPartialIncomingLines(true); gw.SetRef(t);} break;
      }
      FeedIO * io = new FeedIO; gw()->SetDataIO(DataIORef(io)); io->Set(bytes, mode);
      MeasureOn(); const Pumped p = Pump(*gw(), io, NULL); MeasureOff();
      // these gateways buffer at most what they were given: cumulative allocation stays linear in the input
      const size_t N = bytes.size(), budget = 4*ALLOC_K*N + 4*ALLOC_C;
      if (g_peak > budget) {char t[200]; snprintf(t, sizeof(t), "%s: peak of %zu live heap bytes for %zu bytes of input", names[k], g_peak, N); Note("violations", t, bytes);}
      if ((k != 2)&&(k != 3))
      {
         // nothing invented: the text lines / SLIP frames handed over are made of bytes that were received (line ends, escapes and telnet
         // commands only ever remove bytes), so together they cannot be longer than the input
         size_t total = 0;
         for (size_t i=0; i<p.msgs.size(); i++)
         {
            Message m; if (m.UnflattenFromBytes((const uint8 *) p.msgs[i].data(), (uint32) p.msgs[i].size()).IsError()) continue;
            const String * t; for (int32 j=0; (t = m.GetStringPointer(PR_NAME_TEXT_LINE, NULL, (uint32) j)) != NULL; j++) total += t->Length();
            const void * d; uint32 n; for (int32 j=0; m.FindData(PR_NAME_DATA_CHUNKS, B_RAW_TYPE, j, &d, &n).IsOK(); j++) total += n;
         }
         if (total > bytes.size()) {char t[200]; snprintf(t, sizeof(t), "%s handed over %zu bytes of text / data for %zu bytes of input", names[k], total, bytes.size()); Note("violations", t, bytes);}
      }
      if ((k == 2)&&(!p.error))
      {
         // the raw gateway has no framing: it must hand over exactly the bytes it was given (nothing invented, nothing read from elsewhere)
         std::string all; bool ok = true;
         for (size_t i=0; i<p.msgs.size(); i++) {Message m; if (m.UnflattenFromBytes((const uint8 *) p.msgs[i].data(), (uint32) p.msgs[i].size()).IsError()) {ok = false; break;} const void * d; uint32 n; for (int32 j=0; m.FindData(PR_NAME_DATA_CHUNKS, B_RAW_TYPE, j, &d, &n).IsOK(); j++) all.append((const char *) d, n);}
         if ((ok)&&(all != bytes)) Note("violations", "RawDataMessageIOGateway handed over bytes that differ from its input", bytes);
      }
      gw()->Reset();
      Disarm();
   }
}

// the templating gateway: [frame that creates the template from the base Message] [payload-only frame = template id + mutant]
static std::map<int, std::pair<std::string, std::string> > g_tmplStreams;   // base -> (first frame, template id)
static void TemplatingGateway(const Case & c, int mode)
{
   if (g_baseMsg.find(c.base) == g_baseMsg.end()) return;
   const std::string & bm = g_baseMsg[c.base];
   if (g_tmplStreams.find(c.base) == g_tmplStreams.end())
   {
      // let a sending gateway produce the two frames for the base Message; check them against the specification's grammar
      TemplatingMessageIOGateway tx(1000000); FeedIO * io = new FeedIO; tx.SetDataIO(DataIORef(io));
      MessageRef m = GetMessageFromPool((const uint8 *) bm.data(), (uint32) bm.size());
      std::pair<std::string, std::string> pr;
      if (m()) {(void) tx.AddOutgoingMessage(m); (void) tx.AddOutgoingMessage(m); for (int i=0; (i<1000)&&(tx.HasBytesToOutput()); i++) (void) tx.DoOutput();}
      const std::string & o = io->out;
      if (o.size() >= 8)
      {
         const uint32 l1 = R32(o, 0) & 0x7FFFFFFFu;
         if (o.size() >= 8+l1+16) {pr.first = o.substr(0, 8+l1); pr.second = o.substr(8+l1+8, 8);}
      }
      g_tmplStreams[c.base] = pr;
   }
   const std::pair<std::string, std::string> & pr = g_tmplStreams[c.base];
   if (pr.second.empty()) return;    // Messages without fields are sent as a bare what-code, no template
   Arm("TemplatingMessageIOGateway");
   static TemplatingMessageIOGateway * gw = NULL; static FeedIO * io = NULL;
   if (gw == NULL) {gw = new TemplatingMessageIOGateway(1000000); io = new FeedIO; gw->SetDataIO(DataIORef(io));}
   gw->Reset();
   const std::string body = pr.second + c.b;
   const std::string stream = pr.first + W32((uint32) body.size()) + W32(((uint32) MUSCLE_MESSAGE_ENCODING_DEFAULT) | 0x80000000u) + body;
   io->Set(stream, mode);
   const Pumped p = Pump(*gw, io, NULL);
   if ((p.msgs.empty())||(p.msgs[0] != bm)) Note("violations", "TemplatingMessageIOGateway: the frame that creates the template was not handed over as the base Message", stream);
   else
   {
      if ((c.v == "A")&&((p.msgs.size() < 2)||(p.msgs[1] != c.full))) Note("violations", "TemplatingMessageIOGateway: a valid payload-only frame was not handed over as the Message it encodes", stream);
      if ((c.v == "R")&&(p.msgs.size() > 1)) Note("violations", "TemplatingMessageIOGateway: a Message was handed over for a payload-only frame that does not contain one (" + c.why + ")", stream);
      if ((c.v == "RB")&&(p.msgs.size() > 1)) Note("drift", "TemplatingMessageIOGateway: a Message was handed over although a nested node ends after its parent", stream);
   }
   if (p.msgs.size() < 2)
   {
      // reusable: Reset(), then the sender's own two frames
      gw->Reset();
      const std::string tb = g_baseCur[1][c.base];
      if (!tb.empty())
      {
         const std::string vb = pr.second + tb;
         io->Set(pr.first + W32((uint32) vb.size()) + W32(((uint32) MUSCLE_MESSAGE_ENCODING_DEFAULT) | 0x80000000u) + vb, 0);
         const Pumped q = Pump(*gw, io, NULL);
         if ((q.msgs.size() != 2)||(q.msgs[1] != bm)) Note("violations", "TemplatingMessageIOGateway: after a failed input and Reset() a valid template + payload stream is not handed over", stream);
      }
   }
   Disarm();
}

// packets of the specification fed to the packet tunnels directly
static bool ChunksComeFrom(const Pumped & p, const std::string & packet)      // without a slave every chunk is handed over as raw data: it must be bytes of the packet
{
   for (size_t i=0; i<p.msgs.size(); i++)
   {
      Message m; if (m.UnflattenFromBytes((const uint8 *) p.msgs[i].data(), (uint32) p.msgs[i].size()).IsError()) continue;
      const void * d; uint32 n;
      for (int32 j=0; m.FindData(PR_NAME_DATA_CHUNKS, B_RAW_TYPE, j, &d, &n).IsOK(); j++) if ((n > 0)&&(packet.find(std::string((const char *) d, n)) == std::string::npos)) return false;
   }
   return true;
}
static void TunnelPackets(const Case & c, bool mini)
{
   const std::string & valid = g_baseCur[mini ? 4 : 3][c.base];
   for (int cfg=0; cfg<4; cfg++)
   {
      const char * nm = mini ? "MiniPacketTunnelIOGateway" : "PacketTunnelIOGateway";
      // a declared total size of 16 MB .. 4 GB makes a tunnel without SetMaxIncomingMessageSize() allocate that much (by design); only the
      // first base does it, and only in the plain configuration
      if ((!mini)&&(c.wk == "totallen")&&(c.w.size() == 4)&&(R32(c.w, 0) >= (1u<<24))&&(cfg != 2)&&(!((cfg == 0)&&(c.base == 1)))) continue;
      Arm(nm);
      AbstractMessageIOGatewayRef slave; if (cfg != 3) slave.SetRef(new MessageIOGateway);
      AbstractMessageIOGatewayRef gw; PktIO * io = new PktIO(1400);
      if (mini) {MiniPacketTunnelIOGateway * g = new MiniPacketTunnelIOGateway(slave, 1400); if (cfg == 1) g->SetAllowMiscIncomingData(true); if (cfg == 2) g->SetSourceExclusionID(77); gw.SetRef(g);}
           else {PacketTunnelIOGateway * g = new PacketTunnelIOGateway(slave, 1400); if (cfg == 1) g->SetAllowMiscIncomingData(true); if (cfg == 2) {g->SetMaxIncomingMessageSize(4096); g->SetSourceExclusionID(77);} gw.SetRef(g);}
      gw()->SetDataIO(DataIORef(io));
      io->in.push_back(c.b);
      const Pumped p = Pump(*gw(), NULL, io);
      const int got = (int) p.msgs.size();
      if ((cfg == 0)&&(c.v == "A")&&(got != c.dl)) {char t[200]; snprintf(t, sizeof(t), "%s: a valid packet handed over %d Messages, %d expected", nm, got, c.dl); Note("violations", t, c.b);}
      // refused as a whole: nothing comes out (with SetAllowMiscIncomingData a packet that is not a tunnel packet is passed on as it is)
      if ((cfg != 1)&&(c.v == "R")&&(got > 0)) {char t[200]; snprintf(t, sizeof(t), "%s: %d Messages handed over for a packet that must be refused (%s)", nm, got, c.why.c_str()); Note("violations", t, c.b);}
      if ((cfg == 3)&&(!ChunksComeFrom(p, c.b))) Note("violations", std::string(nm) + " (no slave) handed over data that is not part of the packet", c.b);
      if ((c.v != "A")&&(!valid.empty()))
      {
         // followed by the valid packet.  The mini tunnel keeps no state between packets: it must hand over what the valid packet carries.
         // (PacketTunnelIOGateway may drop it: a hostile fragment with the same message id legitimately leaves a half-received Message behind.)
         io->in.push_back(valid);
         const Pumped q = Pump(*gw(), NULL, io);
         const Case * bc = NULL; (void) bc;
         if ((mini)&&(cfg == 0)&&(g_baseDl[4].find(c.base) != g_baseDl[4].end())&&((int) q.msgs.size() != g_baseDl[4][c.base]))
            {char t[200]; snprintf(t, sizeof(t), "%s: after a hostile packet the valid packet hands over %d Messages, %d expected", nm, (int) q.msgs.size(), g_baseDl[4][c.base]); Note("violations", t, c.b);}
      }
      Disarm();
   }
}

// ------------------------------------------------------------------------------------------------ one case
static void RunCase(const Case & c, const std::string & tier)
{
   g_caseDesc = c.Desc();
   const int e = EncIdx(c.enc);
   if (c.k == "base") {g_baseCur[e][c.base] = c.b; g_baseDl[e][c.base] = c.dl;}
   const std::string & baseBytes = g_baseCur[e][c.base];
   const bool thorough = (tier == "thorough");
   const long long h = c.index;
   if (c.enc == "msg")
   {
      const bool acc = ParseMsg(c, (g_baseMsg.find(c.base) != g_baseMsg.end()) ? g_baseMsg[c.base] : std::string());
      const std::string stream = Frame(c.b), valid = Frame(baseBytes);
      const bool baseOK = (g_baseMsg.find(c.base) != g_baseMsg.end());
      BinaryGateways(c, stream, c.b, baseOK ? valid : std::string(), baseBytes, acc, true, (thorough || (h%5 == 0)) ? 7 : 1);
      if (thorough || (h%3 == 0)) LimitBoundary(c, stream, c.b);
      if (thorough || (h%4 == 0)) WebSocketServer(c, stream, c.b, true, (h%8 == 0) ? 1 : 0);
      if (thorough || (h%4 == 1)) Tunnels(c, stream, c.b);
      if (thorough || (h%4 == 2)) ByteGateways(c.b, (h%8 == 2) ? 1 : 0);
      if (thorough || (h%4 == 3)) WebSocketServer(c, c.b, c.b, false, 0);
   }
   else if (c.enc == "tmpl")
   {
      (void) ParseTmpl(c, baseBytes);
      TemplatingGateway(c, 0);
      if (thorough || (h%3 == 0)) TemplatingGateway(c, 1);
      if (thorough || (h%3 == 1)) TemplatingGateway(c, 2);
   }
   else if (c.enc == "frame")
   {
      std::string want; if ((c.v == "A")&&(c.b.size() >= 8)) want = c.b.substr(8, R32(c.b, 0));
      const std::string validWant = (baseBytes.size() >= 8) ? baseBytes.substr(8) : std::string();
      BinaryGateways(c, c.b, want, (g_baseMsg.find(c.base) != g_baseMsg.end()) ? baseBytes : std::string(), validWant, false, false, 7);
      if (c.v == "A") LimitBoundary(c, c.b, want);
      if (c.k == "base") WebSocketHeaders(c.b);
      WebSocketServer(c, c.b, want, true, (h%2 == 0) ? 0 : 2);
      if (c.b.size() <= 1168)
      {
         // in a packet there is no "later": an incomplete frame is refused; and the packet path of MessageIOGateway does not look at the
         // encoding id unless it names a zlib level (GetBodySize() is a stream-mode step; the documentation does not say) - Either
         Case cc = c; if (cc.v == "I") cc.v = "R"; if (cc.why == "encoding-id") cc.v = "E";
         Tunnels(cc, c.b, want);
      }
      if (thorough || (h%4 == 0)) ByteGateways(c.b, 0);
      {
         // a plain frame is also valid input for the templating gateway (its two flag bits are the top bits of the two header words)
         Arm("TemplatingMessageIOGateway(plain frames)");
         static TemplatingMessageIOGateway * gw = NULL; static FeedIO * io = NULL;
         if (gw == NULL) {gw = new TemplatingMessageIOGateway(1000000); io = new FeedIO; gw->SetDataIO(DataIORef(io));}
         if (!((HugeFrame(c.b))&&((c.base > 1)||(h%3 != 0))&&((R32(c.b, 0) & 0x7FFFFFFFu) >= (1u<<24))))
         {
            gw->Reset(); io->Set(c.b, (h%3 == 0) ? 2 : 0);
            const Pumped p = Pump(*gw, io, NULL);
            if ((c.v == "A")&&(want.size() != 4)&&((p.msgs.empty())||(p.msgs[0] != want))) Note("violations", "TemplatingMessageIOGateway: a valid plain frame was not handed over as the Message it encodes", c.b);
         }
         Disarm();
      }
   }
   else if (c.enc == "tun") TunnelPackets(c, false);
   else if (c.enc == "mtun") TunnelPackets(c, true);
}

static bool LoadCase(const std::string & line, Case & c)
{
   mj::Value v; if (!mj::Parse(line, v)) return false;
   c.index = v["i"].i(); c.enc = v["enc"].str(); c.k = v["k"].str(); c.wk = v["wk"].str(); c.v = v["v"].str(); c.why = v["why"].str(); c.sp = v["sp"].str();
   c.b = UnHex(v["b"].str()); c.full = UnHex(v["full"].str()); c.w = UnHex(v["w"].str()); c.base = (int) v["base"].i(); c.dl = (int) v["dl"].i(); c.nf = (int) v["nf"].i(); c.pos = (int) v["pos"].i();
   return true;
}
static void Summary(const char * mode, unsigned long long cases, bool stopped)
{
   mj::Value s = mj::Value::Obj(); s.set("summary", mj::Value::Bool(true)).set("mode", mj::Value::Str(mode)).set("cases", mj::Value::Int((int64_t) cases)).set("violating", mj::Value::Int(g_numViol)).set("drift", mj::Value::Int(g_numDrift))
      .set("known", mj::Value::Int(g_numKnown)).set("stopped_early", mj::Value::Bool(stopped)).set("last_index", mj::Value::Int(g_caseIndex))
      .set("worst_peak_bytes", mj::Value::Int((int64_t) g_worstPeak)).set("worst_peak_input_bytes", mj::Value::Int((int64_t) g_worstPeakN)).set("worst_peak_permille_of_budget", mj::Value::Int((int64_t)(g_worstRatio*1000)));
   mj::Value ev = mj::Value::Obj(); unsigned long long tot = 0;
   for (std::map<std::string, unsigned long long>::const_iterator it = g_evals.begin(); it != g_evals.end(); ++it) {ev.set(it->first, mj::Value::Int((int64_t) it->second)); tot += it->second;}
   s.set("parser_runs", mj::Value::Int((int64_t) tot)).set("by_target", ev);
   fprintf(g_rep, "%s\n", mj::ToString(s).c_str()); fflush(g_rep);
}
static void Common(const char * report, const char * cursor)
{
   g_rep = fopen(report, "a"); if (g_rep == NULL) {fprintf(stderr, "cannot open %s\n", report); exit(2);}
   g_repfd = fileno(g_rep);
   if (cursor) g_curfd = open(cursor, O_WRONLY|O_CREAT, 0644);
   {const std::string e = std::string(report) + ".err"; g_errfd = open(e.c_str(), O_RDWR|O_CREAT|O_APPEND, 0644); if (g_errfd >= 0) {g_errpos = lseek(g_errfd, 0, SEEK_END); (void) dup2(g_errfd, 2);}}
   signal(SIGALRM, OnAlarm);
   g_reuse = new Message; g_reuseT = new Message;
}

// ------------------------------------------------------------------------------------------------ random exploration on top
static uint64 g_rng = 1;
static uint32 Rnd(uint32 n) {g_rng ^= g_rng << 13; g_rng ^= g_rng >> 7; g_rng ^= g_rng << 17; return n ? (uint32)((g_rng >> 11) % n) : 0;}
static MessageRef RandMsg(int depth)
{
   MessageRef m = GetMessageFromPool(Rnd(20));
   const int nf = Rnd(4);
   for (int f=0; f<nf; f++)
   {
      char fn[8]; snprintf(fn, sizeof(fn), "f%d", f); const uint32 cnt = 1+Rnd(3);
      for (uint32 k=0; k<cnt; k++) switch(Rnd(12)) {
         case 0: (void) m()->AddInt32(fn, (int32) Rnd(100000)); break;   case 1: (void) m()->AddString(fn, Rnd(2) ? "hi" : "hello world, hello world"); break;
         case 2: if (depth < 3) (void) m()->AddMessage(fn, RandMsg(depth+1)); break;   case 3: (void) m()->AddFlat(fn, GetByteBufferFromPool(Rnd(2) ? Rnd(8) : Rnd(300))); break;
         case 4: (void) m()->AddBool(fn, Rnd(2) != 0); break;   case 5: (void) m()->AddInt64(fn, 5); break;   case 6: (void) m()->AddPoint(fn, Point(1, 2)); break;
         case 7: (void) m()->AddDouble(fn, 1.5); break;   case 8: (void) m()->AddInt8(fn, 3); break;   case 9: (void) m()->AddInt16(fn, 300); break;
         case 10: (void) m()->AddRect(fn, Rect(1, 2, 3, 4)); break;   default: (void) m()->AddFloat(fn, 2.5f); break; }
   }
   if (Rnd(12) == 0) (void) m()->AddFlat("blob", GetByteBufferFromPool(2000+Rnd(200)));
   return m;
}
static void Mutate(std::string & s)
{
   if (s.empty()) return;
   static const uint32 vals[] = {0, 1, 2, 12, 0x7fffffffu, 0x80000000u, 0xfffffff8u, 0xfffffffcu, 0xffffffffu, 0x80000001u, 2048, 2049, 65535, 65536, 0x01000000u, 0x0fffffffu, 0x1fffffffu, 0x3fffffffu};
   switch(Rnd(7)) {
      case 0: s.resize(Rnd((uint32) s.size())); break;
      case 1: {const size_t off = Rnd((uint32) s.size()); const uint32 x = vals[Rnd(sizeof(vals)/sizeof(vals[0]))]; for (int i=0; (i<4)&&(off+i<s.size()); i++) s[off+i] = (char)((x>>(8*i)) & 0xFF);} break;
      case 2: s[Rnd((uint32) s.size())] = (char) Rnd(256); break;
      case 3: {const size_t off = Rnd((uint32) s.size()); s.erase(off, Rnd(16));} break;
      case 4: {const size_t off = Rnd((uint32) s.size()); std::string ins; const uint32 n = Rnd(12); for (uint32 i=0; i<n; i++) ins += (char) Rnd(256); s.insert(off, ins);} break;
      case 5: {const size_t off = Rnd((uint32) s.size()); const uint32 x = vals[Rnd(sizeof(vals)/sizeof(vals[0]))]; for (int i=0; (i<4)&&(off+i<s.size()); i++) s[off+i] = (char)((x>>(8*(3-i))) & 0xFF);} break;   // big-endian (WebSocket)
      default: {const size_t off = Rnd((uint32) s.size()); const uint32 x = R32(s, off); const uint32 y = x + (Rnd(2) ? 1 : (uint32) -1); for (int i=0; (i<4)&&(off+i<s.size()); i++) s[off+i] = (char)((y>>(8*i)) & 0xFF);} break; }
}
static std::string SendAll(AbstractMessageIOGateway & tx, FeedIO * io) {for (int g=0; (g<2000)&&(tx.HasBytesToOutput()); g++) if (tx.DoOutput().GetByteCount() <= 0) break; return io->out;}
static void RandomCase(uint64 seed)
{
   g_rng = seed*2654435761ULL + 88172645463325252ULL; for (int i=0; i<4; i++) (void) Rnd(2);
   char d[64]; snprintf(d, sizeof(d), "random seed %llu", (unsigned long long) seed); g_caseDesc = d;
   std::vector<MessageRef> msgs; const int nm = 1+Rnd(3); for (int i=0; i<nm; i++) msgs.push_back(RandMsg(0));
   const int which = Rnd(9), mode = Rnd(3), nmut = Rnd(4);
   // 1. the bare Message parser on a mutated flattening
   {
      Case c; c.index = g_caseIndex; c.enc = "msg"; c.k = "random"; c.v = "E"; c.base = -1; c.dl = -1; c.nf = -1; c.pos = -1;
      c.b = Flat(*msgs[0]()); const std::string valid = c.b; for (int i=0; i<nmut; i++) Mutate(c.b); if (c.b == valid) c.v = "A";
      (void) ParseMsg(c, valid);
   }
   // 2. one gateway kind with a mutated valid stream
   std::string stream;
   if (which <= 2)
   {
      const int32 enc = (which == 0) ? MUSCLE_MESSAGE_ENCODING_DEFAULT : (MUSCLE_MESSAGE_ENCODING_ZLIB_1 + Rnd(9));
      MessageIOGateway tx(enc); FeedIO * tio = new FeedIO; tx.SetDataIO(DataIORef(tio)); for (size_t i=0; i<msgs.size(); i++) (void) tx.AddOutgoingMessage(msgs[i]);
      stream = SendAll(tx, tio); for (int i=0; i<nmut; i++) Mutate(stream);
      Arm("MessageIOGateway(random stream)");
      // without a maximum a declared body of up to 4 GB is allocated before it arrives (by design): one seed in 16 does that, the others allow 16 MB
      MessageIOGateway rx; if (which == 2) rx.SetMaxIncomingMessageSize(100000); else if (seed%16 != 0) rx.SetMaxIncomingMessageSize(1<<24);
      FeedIO * rio = new FeedIO; rx.SetDataIO(DataIORef(rio));
      rio->Set(stream, mode); (void) Pump(rx, rio, NULL); rx.Reset();
      Disarm();
   }
   else if (which == 3)
   {
      TemplatingMessageIOGateway tx(Rnd(2) ? 300 : 100000, Rnd(2) ? MUSCLE_MESSAGE_ENCODING_ZLIB_6 : MUSCLE_MESSAGE_ENCODING_DEFAULT); FeedIO * tio = new FeedIO; tx.SetDataIO(DataIORef(tio));
      for (size_t i=0; i<msgs.size(); i++) {(void) tx.AddOutgoingMessage(msgs[i]); (void) tx.AddOutgoingMessage(msgs[i]);}
      stream = SendAll(tx, tio); for (int i=0; i<nmut; i++) Mutate(stream);
      Arm("TemplatingMessageIOGateway(random stream)");
      TemplatingMessageIOGateway rx(Rnd(2) ? 300 : 100000); rx.SetMaxIncomingMessageSize(1000000); FeedIO * rio = new FeedIO; rx.SetDataIO(DataIORef(rio));
      rio->Set(stream, mode); (void) Pump(rx, rio, NULL); rx.Reset();
      Disarm();
   }
   else if (which == 4)
   {
      WebSocketMessageIOGateway tx("/p", "h", "proto", ""); FeedIO * tio = new FeedIO; tx.SetDataIO(DataIORef(tio));
      stream = SendAll(tx, tio);
      const bool slave = (Rnd(2) == 1);
      for (size_t i=0; i<msgs.size(); i++) stream += WsFrame(slave ? Frame(Flat(*msgs[i]())) : std::string("some text\nmore"), slave ? 0x2 : (uint8) Rnd(11));
      for (int i=0; i<nmut; i++) Mutate(stream);
      Arm("WebSocketMessageIOGateway(random stream)");
      WebSocketMessageIOGateway rx; if (slave) rx.SetSlaveGateway(AbstractMessageIOGatewayRef(new MessageIOGateway)); FeedIO * rio = new FeedIO; rx.SetDataIO(DataIORef(rio));
      rio->Set(stream, mode); (void) Pump(rx, rio, NULL);
      Disarm();
   }
   else if (which <= 6)
   {
      const bool mini = (which == 6); const uint32 mtu = Rnd(2) ? 60 : 300;
      AbstractMessageIOGatewayRef tx, rx; const int sk = Rnd(3);
      for (int side=0; side<2; side++)
      {
         AbstractMessageIOGatewayRef sl; if (sk == 1) sl.SetRef(new MessageIOGateway); else if (sk == 2) sl.SetRef(new RawDataMessageIOGateway);
         AbstractMessageIOGatewayRef g;
         if (mini) {MiniPacketTunnelIOGateway * t = new MiniPacketTunnelIOGateway(sl, mtu); if ((side == 0)&&(Rnd(2))) t->SetZLibCompressionLevel(6); if ((side == 1)&&(Rnd(3) == 0)) t->SetAllowMiscIncomingData(true); g.SetRef(t);}
              else {PacketTunnelIOGateway * t = new PacketTunnelIOGateway(sl, mtu); if ((side == 1)&&(Rnd(2))) t->SetMaxIncomingMessageSize(5000); if ((side == 1)&&(Rnd(3) == 0)) t->SetAllowMiscIncomingData(true); g.SetRef(t);}
         if (side == 0) tx = g; else rx = g;
      }
      PktIO * a = new PktIO(mtu); tx()->SetDataIO(DataIORef(a));
      for (size_t i=0; i<msgs.size(); i++) {MessageRef m = msgs[i]; if (sk == 2) {m = GetMessageFromPool(PR_COMMAND_RAW_DATA); (void) m()->AddFlat(PR_NAME_DATA_CHUNKS, GetByteBufferFromPool(1+Rnd(200)));} (void) tx()->AddOutgoingMessage(m);}
      for (int g=0; (g<500)&&(tx()->HasBytesToOutput()); g++) if (tx()->DoOutput().GetByteCount() <= 0) break;
      PktIO * b = new PktIO(mtu); rx()->SetDataIO(DataIORef(b));
      for (size_t i=0; i<a->out.size(); i++) {std::string p = a->out[i]; const int k = Rnd(3); for (int j=0; j<k; j++) Mutate(p); b->in.push_back(p); if (Rnd(4) == 0) b->in.push_back(p);}
      Arm(mini ? "MiniPacketTunnelIOGateway(random packets)" : "PacketTunnelIOGateway(random packets)");
      (void) Pump(*rx(), NULL, b);
      Disarm();
   }
   else
   {
      std::string bytes; const uint32 n = Rnd(3) ? Rnd(300) : Rnd(5000);
      for (uint32 i=0; i<n; i++) {const uint32 r = Rnd(10); bytes += (char)((r == 0) ? '\n' : (r == 1) ? '\r' : (r == 2) ? 0300 : (r == 3) ? 0333 : (r == 4) ? 0334 : (r == 5) ? 0335 : (r == 6) ? 255 : Rnd(256));}
      ByteGateways(bytes, mode);
   }
}

// ------------------------------------------------------------------------------------------------ nesting depth (F7)
static std::string Nested(uint32 depth)      // built from the outside in (linear): level i wraps the 12 + 30*(i-1) bytes of level i-1
{
   std::string r; r.reserve(12 + 30*(size_t) depth);
   for (uint32 i=depth; i>=1; i--)
   {
      const uint32 inner = 12 + 30*(i-1);
      r += W32(CURRENT_PROTOCOL_VERSION) + W32(i) + W32(1) + W32(2) + std::string("m\0", 2) + W32(B_MESSAGE_TYPE) + W32(inner+4) + W32(inner);
   }
   r += W32(CURRENT_PROTOCOL_VERSION) + W32(0) + W32(0);
   return r;
}

int main(int argc, char ** argv)
{
   CompleteSetupSystem css; SetConsoleLogLevel(MUSCLE_LOG_NONE);
   const std::string mode = (argc > 1) ? argv[1] : "";
   if ((mode == "cases")&&(argc >= 8))
   {
      Common(argv[4], argv[6]);
      const long long start = atoll(argv[5]); const std::string tier = argv[7];
      FILE * fb = fopen(argv[2], "r"); std::string line;
      if (fb) {while(mj::ReadLine(fb, line)) {mj::Value v; if (mj::Parse(line, v)) g_baseMsg[(int) v["base"].i()] = UnHex(v["msg"].str());} fclose(fb);}
      MakeStreamGws();
      FILE * fc = fopen(argv[3], "r"); if (fc == NULL) {fprintf(stderr, "cannot open %s\n", argv[3]); return 2;}
      unsigned long long n = 0; bool stopped = false;
      while(mj::ReadLine(fc, line))
      {
         Case c; if (!LoadCase(line, c)) {fprintf(stderr, "bad case line\n"); return 2;}
         if (c.k == "base") {g_baseCur[EncIdx(c.enc)][c.base] = c.b; g_baseDl[EncIdx(c.enc)][c.base] = c.dl;}      // also when skipped
         if (c.index < start) continue;
         SetCursor(c.index);
         RunCase(c, tier); n++;
         if (g_numViol >= MAX_VIOL) {stopped = true; break;}
         if ((n % 4000) == 0) MakeStreamGws();      // gateways are destroyed and rebuilt now and then
      }
      fclose(fc);
      SetCursor(-1);
      Summary("cases", n, stopped);
      fflush(NULL); _exit(0);     // (the gateways and Messages held in static variables must not outlive CompleteSetupSystem)
   }
   if ((mode == "rand")&&(argc >= 7))
   {
      Common(argv[5], argv[6]);
      const uint64 seed = (uint64) atoll(argv[2]); const long long first = atoll(argv[3]), count = atoll(argv[4]);
      unsigned long long n = 0; bool stopped = false;
      for (long long i=first; i<count; i++)
      {
         SetCursor(i);
         RandomCase(seed*1000003ULL + (uint64) i); n++;
         if (g_numViol >= MAX_VIOL) {stopped = true; break;}
      }
      SetCursor(-1);
      Summary("rand", n, stopped);
      fflush(NULL); _exit(0);
   }
   if ((mode == "nest")&&(argc >= 3))
   {
      const uint32 depth = (uint32) atoi(argv[2]);
      const std::string b = Nested(depth);
      Exact x(b);
      Message * m = new Message;
      const status_t r = m->UnflattenFromBytes(x.p, x.n);
      if (r.IsError()) {printf("{\"nest\":%u,\"bytes\":%zu,\"accepted\":false}\n", depth, b.size()); return 0;}
      const uint32 fs = m->FlattenedSize(); const std::string y = Flat(*m);
      delete m;
      printf("{\"nest\":%u,\"bytes\":%zu,\"accepted\":true,\"flattened_size\":%u,\"same\":%s}\n", depth, b.size(), fs, (y == b) ? "true" : "false");
      return 0;
   }
   fprintf(stderr, "usage: mut cases|rand|nest ...\n");
   return 2;
}
