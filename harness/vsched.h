// Controlled scheduler for the concurrency properties (C10, C11, C18, C19).
//
// Exactly one *logical* thread runs at a time.  The yield hooks compiled into libmuscle (MUSCLE_VERIF_HOOKS,
// support/VerifHooks.h) call Yield() at every synchronisation operation; the scheduler keeps its own model of
// who owns which Mutex, which WaitConditions / wake-up sockets have something pending and which threads have
// ended, so it only ever lets a thread proceed into a real blocking primitive when that primitive cannot
// block.  Two modes:
//   RANDOM    a seeded random walk over all interleavings of the hooked operations, with a deadlock detector
//   DIRECTED  a controller (the harness main thread) resumes one named thread at a time and gets control back
//             when that thread reaches a *stop point* (a predicate supplied by the harness), blocks or ends;
//             this is how TLC-generated schedules are replayed.
#ifndef VERIF_VSCHED_H
#define VERIF_VSCHED_H
#include "support/VerifHooks.h"
#include <thread>
#include <mutex>
#include <condition_variable>
#include <functional>
#include <vector>
#include <map>
#include <random>
#include <string>
#include <cstdio>
#include <chrono>

namespace vs {
using namespace muscle::verif;
enum {KIND_OP_BOUNDARY = 100};                    // harness-level yield between two public calls
enum {RUN_CONTROLLER = -1, RUN_ENDED = -2, RUN_NONE = -3};
enum Mode {RANDOM, DIRECTED};

struct Event {int tid; std::string name; const void * obj; long a[4];};

struct LThread {
   int id; std::condition_variable cv; bool finished; int kind; const void * obj; bool timed; const void * threadObj;
   int depth;            // number of muscle Mutex locks currently held (recursion counted)
   bool fireTimeout;     // DIRECTED: the controller wants the pending timed wait to time out
   bool timedOutNow;     // set when the scheduler made the last wait of this thread time out
   long userTag;         // free for the harness
   long arg;             // argument of the yield the thread is at / was last at
   bool willIntr;        // RANDOM: this (untimed) socket wait will be interrupted by a signal (EINTR) if nothing wakes it first
   bool stuckPick;       // RANDOM: the thread was resumed by a timeout because nothing else could run
   LThread() : id(-1), finished(false), kind(0), obj(NULL), timed(false), threadObj(NULL), depth(0), fireTimeout(false), timedOutNow(false), userTag(0), arg(0), willIntr(false), stuckPick(false) {}
};

struct State {
   std::mutex G;
   std::vector<LThread *> LT;
   int running;
   std::condition_variable ctl;
   bool deadlock, active;
   bool hung;            // a thread went into a real blocking primitive and did not come back within the watchdog: the code's signalling disagrees with what its hooks announced
   int watchdogSeconds;
   Mode mode;
   std::map<const void *, std::pair<int,int> > mutexOwner;    // mutex -> (owner, count)
   std::map<const void *, long> wcPending, sockPending;
   std::map<const void *, bool> sockEOF, threadEnded;
   std::map<const void *, int> threadCreatedN, threadRegisteredN;      // a Thread object can be started several times
   std::mt19937 rng;
   unsigned long steps;
   int stickiness;       // RANDOM: percent probability of letting the current thread continue if it can
   bool atomicLocks;     // RANDOM: never pre-empt a thread while it holds a muscle Mutex (critical sections are atomic, as in the specifications)
   bool timeoutsWhenStuckOnly;   // RANDOM: a timed wait times out only when no thread can run otherwise (deadlines are far away: a waiter that needs its deadline to get a queued item was not woken)
   int intrBudget, intrOneIn;    // RANDOM: up to intrBudget untimed socket waits are interrupted (EINTR), each chosen with probability 1/intrOneIn
   int stuckStreak;              // consecutive resumptions by timeout while nothing else could run (bounded: a loop of timed waits must not hide a deadlock)
   std::string blockedDesc;
   std::function<bool(LThread *, int, const void *, long)> stopPred;   // DIRECTED
   std::function<void(LThread *, int, const void *, long)> onYield;    // optional observer (called with G held)
   std::function<void(LThread *, int, const void *, int)> onResume;    // optional: called (G held) when a thread continues after a yield: (thread, kind, obj, result)
   std::function<void(const Event &)> onEvent;                         // optional: called synchronously at the linearization point
   std::function<void(LThread *)> onTimeout;                           // optional: the scheduler made a timed wait of this thread time out
   std::vector<Event> events;
   std::vector<int> decisions;   // RANDOM: the schedule taken (for replay files)
   State() : running(RUN_NONE), deadlock(false), active(false), hung(false), watchdogSeconds(30), mode(RANDOM), steps(0), stickiness(0), atomicLocks(false), timeoutsWhenStuckOnly(false), intrBudget(0), intrOneIn(8), stuckStreak(0) {}
};
static State S;
static thread_local int tl_id = -1;

static inline bool Runnable(LThread * t, bool allowTimeout = true)
{
   if (t->finished) return false;
   const bool to = (allowTimeout)&&(t->timed)&&((S.mode == RANDOM)||(t->fireTimeout));
   switch(t->kind) {
      case YIELD_MUTEX_LOCK: { std::map<const void *, std::pair<int,int> >::iterator it = S.mutexOwner.find(t->obj); return ((it == S.mutexOwner.end())||(it->second.second == 0)||(it->second.first == t->id)); }
      case YIELD_WC_WAIT:     return (S.wcPending[t->obj] > 0)||(to);
      case YIELD_SOCK_WAIT:   return (S.sockPending[t->obj] > 0)||(S.sockEOF[t->obj])||(to)||(t->willIntr);
      case YIELD_THREAD_JOIN: return S.threadEnded[t->obj];
      default: return true; }
}
static inline bool WouldBlockForever(LThread * t) {return (!t->finished)&&(!Runnable(t));}

static inline void EndOrDeadlock()
{
   bool allHarnessDone = true;
   for (size_t i=0; i<S.LT.size(); i++) if ((!S.LT[i]->finished)&&(S.LT[i]->threadObj == NULL)) allHarnessDone = false;
   // a library thread that is inside a call counts too; library threads parked idle in their own wait loop are quiescent
   if (!allHarnessDone) {
      S.deadlock = true; S.blockedDesc.clear();
      for (size_t i=0; i<S.LT.size(); i++) if (!S.LT[i]->finished) {char b[64]; snprintf(b, sizeof(b), " T%d:kind%d", S.LT[i]->id, S.LT[i]->kind); S.blockedDesc += b;}
   }
   S.running = RUN_ENDED; S.ctl.notify_all();
}

static inline int PickRandom(LThread * me)
{
   std::vector<int> c, noTO;
   for (size_t i=0; i<S.LT.size(); i++) {if (Runnable(S.LT[i])) c.push_back(S.LT[i]->id); if (Runnable(S.LT[i], false)) noTO.push_back(S.LT[i]->id);}
   if (c.empty()) return RUN_ENDED;
   if (noTO.empty()) {
      // only deadlines can move things on
      if (++S.stuckStreak > 8) return RUN_ENDED;
      const int n = c[S.rng()%c.size()]; S.LT[n]->stuckPick = true; return n;
   }
   S.stuckStreak = 0;
   if ((me)&&(S.atomicLocks)&&(me->depth > 0)&&(Runnable(me, false))) return me->id;
   if ((me)&&(S.stickiness > 0)&&(Runnable(me, false))&&((int)(S.rng()%100) < S.stickiness)) return me->id;
   if (S.timeoutsWhenStuckOnly) return noTO[S.rng()%noTO.size()];
   return c[S.rng()%c.size()];
}

static inline int RegisterSelf(const void * threadObj)
{
   LThread * l = new LThread; l->id = (int) S.LT.size(); l->threadObj = threadObj; S.LT.push_back(l); tl_id = l->id; return l->id;
}

// returns with S.running == me->id
static inline void HandOff(std::unique_lock<std::mutex> & lk, LThread * me, int next)
{
   if (next == me->id) return;
   S.running = next;
   if (next >= 0) S.LT[next]->cv.notify_one(); else S.ctl.notify_all();
   if (next == RUN_ENDED) {while(true) me->cv.wait(lk);}    // parked for ever (deadlock or the run is over while we are blocked)
   me->cv.wait(lk, [me]{return S.running == me->id;});
}

static inline int Yield(int kind, const void * obj, long arg)
{
   if (!S.active) return 0;
   std::unique_lock<std::mutex> lk(S.G);
   if (kind == YIELD_THREAD_BEGIN) {
      const int id = RegisterSelf(obj); S.threadRegisteredN[obj]++; S.threadEnded[obj] = false; S.ctl.notify_all();
      LThread * me = S.LT[id]; me->kind = kind;
      me->cv.wait(lk, [me]{return S.running == me->id;});
      me->kind = 0;
      return 0;
   }
   if (tl_id < 0) return 0;                      // a thread the scheduler does not manage (the controller)
   LThread * me = S.LT[tl_id];
   if (kind == YIELD_THREAD_CREATED) {if (S.onYield) S.onYield(me, kind, obj, arg); const int n = ++S.threadCreatedN[obj]; S.ctl.wait(lk, [obj, n]{return S.threadRegisteredN[obj] >= n;}); return 0;}   // wait (for real) until the child has registered
   S.steps++;
   switch(kind) {
      case YIELD_MUTEX_UNLOCK:    { std::pair<int,int> & o = S.mutexOwner[obj]; if (o.second > 0) o.second--; if (me->depth > 0) me->depth--; } break;
      case YIELD_MUTEX_TRYLOCKED: { std::pair<int,int> & o = S.mutexOwner[obj]; o.first = me->id; o.second++; me->depth++; } break;
      case YIELD_WC_NOTIFY:   S.wcPending[obj] += (arg > 0) ? arg : 1; break;
      case YIELD_SOCK_SIGNAL: S.sockPending[obj]++; break;
      case YIELD_SOCK_DRAIN:  S.sockPending[obj] = 0; break;
      case YIELD_SOCK_CLOSE:  S.sockEOF[obj] = true; break;
      case YIELD_THREAD_END: {
         me->finished = true; S.threadEnded[me->threadObj] = true; tl_id = -1;
         if (S.mode == DIRECTED) {S.running = RUN_CONTROLLER; S.ctl.notify_all();}
         else {const int n = PickRandom(NULL); if (n < 0) EndOrDeadlock(); else {S.decisions.push_back(n); S.running = n; S.LT[n]->cv.notify_one();}}
         return 0; }
      default: break; }
   me->kind = kind; me->obj = obj; me->arg = arg; me->timed = (((kind == YIELD_WC_WAIT)||(kind == YIELD_SOCK_WAIT))&&(arg != 0)); me->timedOutNow = false; me->stuckPick = false;
   me->willIntr = ((kind == YIELD_SOCK_WAIT)&&(!me->timed)&&(S.mode == RANDOM)&&(S.intrBudget > 0)&&((S.rng()%(unsigned) S.intrOneIn) == 0)); if (me->willIntr) S.intrBudget--;
   if (S.onYield) S.onYield(me, kind, obj, arg);

   int next;
   if (S.mode == DIRECTED) next = (((S.stopPred)&&(S.stopPred(me, kind, obj, arg)))||(!Runnable(me))) ? RUN_CONTROLLER : me->id;
   else {next = PickRandom(me); if (next < 0) {EndOrDeadlock(); while(true) me->cv.wait(lk);} S.decisions.push_back(next);}
   HandOff(lk, me, next);

   int result = 0;
   if (kind == YIELD_MUTEX_LOCK)     { std::pair<int,int> & o = S.mutexOwner[obj]; o.first = me->id; o.second++; me->depth++; }
   else if (kind == YIELD_WC_WAIT)   { if (S.wcPending[obj] > 0) S.wcPending[obj] = 0; else {result = 1; me->timedOutNow = true; if (S.onTimeout) S.onTimeout(me);} }
   else if (kind == YIELD_SOCK_WAIT) { if ((S.sockPending[obj] > 0)||(S.sockEOF[obj])) result = 0; else {result = 1; me->timedOutNow = true; if (S.onTimeout) S.onTimeout(me);} }
   me->kind = 0; me->obj = NULL; me->fireTimeout = false; me->willIntr = false;
   if (S.onResume) S.onResume(me, kind, obj, result);
   return result;
}

static inline void OnEvent(const char * name, const void * obj, long a0, long a1, long a2, long a3)
{
   if (!S.active) return;
   Event e; e.tid = tl_id; e.name = name; e.obj = obj; e.a[0] = a0; e.a[1] = a1; e.a[2] = a2; e.a[3] = a3;
   // events are emitted by the one running thread (or under the lock that protects the state they describe): no extra lock needed,
   // but unmanaged threads may emit too, so serialise anyway
   std::lock_guard<std::mutex> lk(S.G);
   S.events.push_back(e);
   if (S.onEvent) S.onEvent(e);
}

// ---- harness-created logical threads -----------------------------------------------------------------
static inline void ThreadBegin() { std::unique_lock<std::mutex> lk(S.G); const int id = RegisterSelf(NULL); S.ctl.notify_all(); LThread * me = S.LT[id]; me->cv.wait(lk, [me]{return S.running == me->id;}); }
static inline void ThreadEnd()
{
   std::unique_lock<std::mutex> lk(S.G); LThread * me = S.LT[tl_id]; me->finished = true; tl_id = -1;
   if (S.mode == DIRECTED) {S.running = RUN_CONTROLLER; S.ctl.notify_all();}
   else {const int n = PickRandom(NULL); if (n < 0) EndOrDeadlock(); else {S.decisions.push_back(n); S.running = n; S.LT[n]->cv.notify_one();}}
}
static inline void OpBoundary() {(void) Yield(KIND_OP_BOUNDARY, NULL, 0);}

// ---- controller side ------------------------------------------------------------------------------------
static inline void Install() {YieldFuncRef() = Yield; EventFuncRef() = OnEvent;}
static inline void Reset(unsigned seed, Mode mode)
{
   // LThreads of earlier executions are leaked on purpose if they are parked (deadlock); finished ones are deleted
   for (size_t i=0; i<S.LT.size(); i++) if (S.LT[i]->finished) delete S.LT[i];
   S.LT.clear(); S.mutexOwner.clear(); S.wcPending.clear(); S.sockPending.clear(); S.sockEOF.clear(); S.threadEnded.clear(); S.threadCreatedN.clear(); S.threadRegisteredN.clear();
   S.running = (mode == DIRECTED) ? RUN_CONTROLLER : RUN_NONE; S.deadlock = false; S.rng.seed(seed); S.mode = mode; S.steps = 0; S.timeoutsWhenStuckOnly = false; S.intrBudget = 0; S.stuckStreak = 0; S.events.clear(); S.decisions.clear(); S.blockedDesc.clear();
   S.active = true;
}
static inline void WaitRegistered(size_t n) { std::unique_lock<std::mutex> lk(S.G); S.ctl.wait(lk, [n]{return S.LT.size() >= n;}); }

// RANDOM: start with a random thread and wait for the end; returns false if a thread was stranded
static inline bool RunAllRandom(size_t nHarnessThreads)
{
   std::unique_lock<std::mutex> lk(S.G);
   S.ctl.wait(lk, [nHarnessThreads]{return S.LT.size() >= nHarnessThreads;});
   const int first = PickRandom(NULL);
   if (first < 0) {EndOrDeadlock();} else {S.decisions.push_back(first); S.running = first; S.LT[first]->cv.notify_one();}
   if (!S.ctl.wait_for(lk, std::chrono::seconds(S.watchdogSeconds), []{return S.running == RUN_ENDED;})) {S.hung = true; S.blockedDesc = " a thread is blocked for real inside a primitive the scheduler expected not to block"; return false;}
   return !S.deadlock;
}

enum StepResult {STEP_STOPPED = 0, STEP_BLOCKED, STEP_FINISHED, STEP_NOT_RUNNABLE, STEP_CANNOT_TIMEOUT};
// DIRECTED: resume thread t until its next stop point.
static inline StepResult Step(int t, bool fireTimeout = false)
{
   std::unique_lock<std::mutex> lk(S.G);
   if ((t < 0)||(t >= (int) S.LT.size())) return STEP_NOT_RUNNABLE;
   LThread * l = S.LT[t];
   if (l->finished) return STEP_FINISHED;
   if (fireTimeout) {
      const bool pendingNow = (l->kind == YIELD_WC_WAIT) ? (S.wcPending[l->obj] > 0) : ((l->kind == YIELD_SOCK_WAIT) ? ((S.sockPending[l->obj] > 0)||(S.sockEOF[l->obj])) : true);
      if ((!l->timed)||(pendingNow)) return STEP_CANNOT_TIMEOUT;   // the real Wait() would not time out here
      l->fireTimeout = true;
   }
   if (!Runnable(l)) return STEP_NOT_RUNNABLE;
   S.running = t; l->cv.notify_one();
   if (!S.ctl.wait_for(lk, std::chrono::seconds(S.watchdogSeconds), []{return S.running == RUN_CONTROLLER;})) {S.hung = true; return STEP_BLOCKED;}
   if (l->finished) return STEP_FINISHED;
   return Runnable(l) ? STEP_STOPPED : STEP_BLOCKED;
}
// DIRECTED -> free running: lets every thread run (random choice) until all have ended or nothing can run
static inline bool Drain()
{
   std::unique_lock<std::mutex> lk(S.G);
   S.mode = RANDOM;
   const int first = PickRandom(NULL);
   if (first < 0) {EndOrDeadlock();} else {S.running = first; S.LT[first]->cv.notify_one();}
   S.ctl.wait(lk, []{return S.running == RUN_ENDED;});
   return !S.deadlock;
}
// the harness tells the scheduler that a wake-up socket pair was closed / re-created (Thread::CloseSockets has no hook)
static inline void ForgetSocket(const void * tsd) {std::lock_guard<std::mutex> lk(S.G); S.sockPending.erase(tsd); S.sockEOF.erase(tsd);}
static inline void ForgetAllSockets() {std::lock_guard<std::mutex> lk(S.G); S.sockPending.clear(); S.sockEOF.clear();}
static inline void Deactivate() {S.active = false;}
}  // namespace vs
#endif
