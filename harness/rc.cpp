// C10 conformance harness: util/RefCount.h + util/ObjectPool.h.
//   rc pool <behaviours.ndjson> <N 2|3> <maxPoolSize> <report.ndjson>
//        replays behaviours of spec/RefPool/PoolImpl.tla (every transition of its state graph) on a real ObjectPool with N objects per
//        slab: after every call the object handed out (slab, index), _curPoolSize and the slab list (in-use count and free-list
//        length per slab, in list order) must equal the specification's; obtained objects must be in default state; sanity check.
//   rc explore <iterations> <threads> <ops> <seed> <report.ndjson> [tracefile [ntraces]]
//        threads copy / assign / reset / swap / publish / take references to pooled objects under the controlled scheduler (every
//        atomic operation and every lock is a pre-emption point; run it in the asan variant).  Monitor: a referenced object is
//        never recycled (canary), an obtained object is in default state, every object is returned at the end, pool sanity.
//        The recorded atomic operations are validated by TLC against RefTrace.tla (exactly once, never early, at counter level).
#ifndef VERIF_NO_PRIVATE
# define private public
# define protected public
#endif
#include "util/RefCount.h"
#include "util/ObjectPool.h"
#undef private
#undef protected
#include "system/Mutex.h"
#include "util/TimeUtilityFunctions.h"
#include "system/SetupSystem.h"
#include "vsched.h"
#include "mjson.h"
#include <set>
#include <unistd.h>
using namespace muscle;

class Obj : public RefCountable {
public:
   Obj() : state(0), serial(0), heap(false) {}
   ~Obj();
   Obj & operator=(const Obj & rhs) {state = rhs.state; serial = rhs.serial; next = rhs.next; return *this;}     // (heap is an attribute of the object, not of its value)
   int state; int serial; bool heap; Ref<Obj> next;     // next: a member Ref, so that objects form chains (recycling one may recycle the next)
};
DECLARE_REFTYPES(Obj);
typedef ObjectPool<Obj, 144> Pool2;  typedef ObjectPool<Obj, 200> Pool3;
#ifndef VERIF_NO_PRIVATE
static_assert(Pool2::NUM_OBJECTS_PER_SLAB == 2, "slab size for 2 objects"); static_assert(Pool3::NUM_OBJECTS_PER_SLAB == 3, "slab size for 3 objects");
#endif

#ifndef VERIF_NO_PRIVATE
// ---------------------------------------------------------------------------------------------- pool replay
template<class P> struct PoolProbe {
   P * pool; std::map<const void *, int> slabId; int nextId;
   PoolProbe(uint32 maxPool) : pool(new P(maxPool)), nextId(1) {}
   ~PoolProbe() {delete pool;}
   int IdOf(const void * slab) {std::map<const void *, int>::iterator it = slabId.find(slab); if (it != slabId.end()) return it->second; slabId[slab] = nextId; return nextId++;}
   void Where(Obj * o, int & sid, int & idx) {typename P::ObjectNode * n = reinterpret_cast<typename P::ObjectNode *>(o); idx = (int) n->GetArrayIndex(); sid = IdOf(n-idx);}
   mj::Value Snap() {
      mj::Value a = mj::Value::Arr();
      for (typename P::ObjectSlab * s = pool->_firstSlab; s; s = s->GetNext()) {
         int freeLen = 0; for (uint16 i = s->_data.GetFirstFreeNodeIndex(); (i != (uint16)-1)&&(freeLen <= 64); i = s->_nodes[i].GetNextIndex()) freeLen++;
         mj::Value e = mj::Value::Arr(); e.push(mj::Value::Int(IdOf(s))).push(mj::Value::Int(s->_data.GetNumNodesInUse())).push(mj::Value::Int(freeLen)); a.push(e);
      }
      return a;
   }
};
template<class P> static int PoolReplay(const char * inFile, uint32 maxPool, const char * outFile)
{
   FILE * in = fopen(inFile, "r"); FILE * out = fopen(outFile, "w"); if ((!in)||(!out)) return 2;
   std::string line; long nb = 0, followed = 0, violated = 0, steps = 0;
   while (mj::ReadLine(in, line)) {
      mj::Value beh; if (!mj::Parse(line, beh)) return 2;
      const mj::Value & st = beh["steps"]; nb++;
      PoolProbe<P> pp(maxPool); std::map<std::pair<int,int>, Obj *> held; std::string bad; size_t failStep = 0;
      for (size_t i=0; (i<st.size())&&(bad.empty()); i++) {
         const mj::Value & s = st[i]; const std::string a = s["a"].str(); steps++; char b[300];
         if (a == "Obtain") {
            Obj * o = pp.pool->ObtainObject(); int sid, idx; pp.Where(o, sid, idx);
            if (o->state != 0) bad = "pool handed out an object that is not in the default state";
            else if (held.count(std::make_pair(sid, idx))) bad = "pool handed out an object that is already held";
            else if ((sid != (int) s["slab"].i())||(idx != (int) s["idx"].i())) {snprintf(b, sizeof(b), "DRIFT: obtained object (slab %d, index %d), specification says (slab %d, index %d)", sid, idx, (int) s["slab"].i(), (int) s["idx"].i()); bad = b;}
            o->state = 42; held[std::make_pair(sid, idx)] = o;
         }
         else if (a == "Release") {
            std::map<std::pair<int,int>, Obj *>::iterator it = held.find(std::make_pair((int) s["slab"].i(), (int) s["idx"].i()));
            if (it == held.end()) {bad = "DRIFT: behaviour releases an object the harness does not hold"; break;}
            if (it->second->state != 42) bad = "a held object lost its state (recycled or overwritten while held)";
            pp.pool->ReleaseObject(it->second); held.erase(it);
         }
         else if (a == "Drain") {uint32 n = 0; pp.pool->Drain(&n); if ((int) n != (int) s["drained"].i()) {snprintf(b, sizeof(b), "DRIFT: Drain() deleted %u objects, specification says %d", n, (int) s["drained"].i()); bad = b;}}
         if (bad.empty()) {
            for (std::map<std::pair<int,int>, Obj *>::iterator it = held.begin(); it != held.end(); ++it) if (it->second->state != 42) bad = "a held object lost its state (recycled or overwritten while held)";
            if ((int) pp.pool->_curPoolSize != (int) s["cur"].i()) {snprintf(b, sizeof(b), "DRIFT: _curPoolSize is %u, specification says %d", pp.pool->_curPoolSize, (int) s["cur"].i()); bad = b;}
            else if (pp.Snap() != s["snap"]) bad = std::string("DRIFT: slab list ")+mj::ToString(pp.Snap())+" differs from the specification's "+mj::ToString(s["snap"]);
            // PoolAbs clauses evaluated directly on the real pool
            uint32 freeNodes = 0; for (typename P::ObjectSlab * sl = pp.pool->_firstSlab; sl; sl = sl->GetNext()) freeNodes += (uint32) P::NUM_OBJECTS_PER_SLAB-sl->_data.GetNumNodesInUse();
            if (freeNodes != pp.pool->_curPoolSize) bad = "pool bookkeeping: _curPoolSize differs from the number of free nodes";
            pp.pool->PerformSanityCheck();
         }
         if (!bad.empty()) failStep = i;
      }
      for (std::map<std::pair<int,int>, Obj *>::iterator it = held.begin(); it != held.end(); ++it) pp.pool->ReleaseObject(it->second);
      if (bad.empty()) followed++;
      else {
         mj::Value rec = mj::Value::Obj(); rec.set("behaviour", mj::Value::Int(beh["id"].i())).set("step", mj::Value::Int((int64_t) failStep));
         if (bad.compare(0, 6, "DRIFT:") == 0) rec.set("drift", mj::Value::Str(bad)); else {violated++; mj::Value va = mj::Value::Arr(); va.push(mj::Value::Str(bad)); rec.set("violations", va);}
         rec.set("steps", st); fprintf(out, "%s\n", mj::ToString(rec).c_str());
      }
   }
   mj::Value sum = mj::Value::Obj(); sum.set("summary", mj::Value::Bool(true)).set("behaviours", mj::Value::Int(nb)).set("followed", mj::Value::Int(followed)).set("violated", mj::Value::Int(violated)).set("steps", mj::Value::Int(steps));
   fprintf(out, "%s\n", mj::ToString(sum).c_str()); fclose(out); fclose(in); printf("%s\n", mj::ToString(sum).c_str());
   return 0;
}

#endif
// ---------------------------------------------------------------------------------------------- concurrent exploration
static std::vector<std::string> g_viol; static void Bad(const std::string & s) {if (g_viol.size() < 5) g_viol.push_back(s);}
static bool g_record = false; static std::vector<std::string> g_lines; static std::map<const void *, int> g_objOfCounter, g_objId;
static int ObjId(const Obj * o) {std::map<const void *, int>::iterator it = g_objId.find(o); if (it != g_objId.end()) return it->second; const int id = (int) g_objId.size()+1; g_objId[o] = id;
#ifndef VERIF_NO_PRIVATE
   g_objOfCounter[&o->_refCount] = id;
#endif
   return id;}
static void TLine(const char * e, int o) {if (g_record) {char b[96]; snprintf(b, sizeof(b), "{\"e\":\"%s\",\"t\":%d,\"o\":%d}", e, vs::tl_id+1, o); g_lines.push_back(b);}}
Obj :: ~Obj() {if (heap) {if (state != 42) Bad("a heap-allocated object was destroyed twice"); state = 7; TLine("Delete", ObjId(this));}}
class TracedPool : public Pool3 {
public:
   TracedPool(uint32 maxPool) : Pool3(maxPool) {}
   virtual void RecycleObject(void * obj) {Obj * o = (Obj *) obj;
      if (o->heap) {Bad("a heap-allocated copy of a pooled object was handed to the pool's RecycleObject() instead of being deleted"); o->state = 7; TLine("Recycle", ObjId(o)); return;}     // (not passed on: the pool would corrupt itself)
      if (o->state != 42) Bad("an object was recycled twice (it is not live)"); o->state = 7; TLine("Recycle", ObjId(o)); Pool3::RecycleObject(obj);}
};
// The trace is built from the count operations seen through the hooks in AtomicCounter.  Whether those hooks see EVERY count operation is
// checked against the public API: at the end of each thread's program the counts they add up to must equal GetRefCount() of the objects
// the thread still refers to (only one thread runs at a time and every operation that was logged has been executed).  If not, the trace
// does not describe the execution (e.g. the library no longer counts through AtomicCounter) and is not given to TLC: drift, not a verdict.
static std::map<int, long> g_derived; static bool g_traceReliable = true;
static void ObserveResume(vs::LThread * me, int kind, const void * obj, int)
{
   if (kind != vs::YIELD_ATOMIC) return;
   std::map<const void *, int>::iterator it = g_objOfCounter.find(obj);
   if (it != g_objOfCounter.end()) g_derived[it->second] += (me->arg > 0) ? 1 : ((me->arg < 0) ? -1 : 0);
   if (!g_record) return;
   if (it != g_objOfCounter.end()) {char b[96]; snprintf(b, sizeof(b), "{\"e\":\"%s\",\"t\":%d,\"o\":%d}", (me->arg > 0) ? "Inc" : "Dec", me->id+1, it->second); g_lines.push_back(b);}
}
struct Mailbox {Mutex m; ObjRef slot;};
static int g_serial = 0;
static void Worker(TracedPool * pool, Mailbox * mb, unsigned seed, int nOps, bool chains)
{
   vs::ThreadBegin();
   {
      std::mt19937 gen(seed); ObjRef slots[3];
      #define CHECK(r) do {if (((r)())&&((r)()->state != 42)) Bad("a referenced object was recycled (released early)");} while(0)
      for (int k=0; k<nOps; k++) {
         const int a = (int)(gen()%3), b = (int)(gen()%3);
         switch(gen()%(chains ? 14 : 11)) {
            case 0: {Obj * o = pool->ObtainObject(); if (o) {if (o->state != 0) Bad("pool handed out an object that is not in the default state"); o->state = 42; o->serial = ++g_serial; TLine("Obtain", ObjId(o)); slots[a] = ObjRef(o);}} break;
            case 1: CHECK(slots[b]); slots[a] = slots[b]; break;
            case 2: slots[a].Reset(); break;
            case 3: {ObjRef tmp(slots[a]); CHECK(tmp); slots[b].SwapContents(tmp);} break;
            case 4: {DECLARE_MUTEXGUARD(mb->m); CHECK(mb->slot); slots[a] = mb->slot;} break;
            case 5: {DECLARE_MUTEXGUARD(mb->m); mb->slot = slots[a];} break;
            case 6: if ((gen()%3) == 0) {
                       // an object owned through a raw pointer, seen through NON-counting refs (and their const / non-const conversions): nothing they do may count or destroy it
                       Obj * raw = new Obj; raw->heap = true; raw->state = 42; raw->serial = ++g_serial; TLine("Alloc", ObjId(raw));
                       {ObjRef d; d.SetRef(raw, false); ConstObjRef c = AddConstToRef(d); ObjRef back = CastAwayConstFromRef(c); ObjRef copy(back); ConstObjRef c2(c);
                        if ((back() != raw)||(back.IsRefCounting())||(c.IsRefCounting())||(copy.IsRefCounting())) Bad("a conversion / copy of a non-counting Ref became a counting one");}
                       if (raw->GetRefCount() != 0) Bad("non-counting Refs changed the reference count of the object they point at");
                       if (raw->state != 42) Bad("an object owned through a raw pointer was destroyed by a non-counting Ref"); else delete raw;
                    }
                    else {ConstObjRef c = AddConstToRef(slots[a]); ObjRef back = CastAwayConstFromRef(c); CHECK(back); slots[b] = back;} break;
            case 7: {ObjRef moved(std::move(slots[a])); CHECK(moved); slots[b] = std::move(moved);} break;
            case 8: if (slots[a]()) {ObjRef alias; alias.SetRef(slots[a](), false); alias.SetRef(slots[a](), true); CHECK(alias);} break;                    // a non-counting alias starts counting (same item): +1, and -1 when it dies
            case 9: if (slots[a]()) {ObjRef alias(slots[a]); alias.SetRef(slots[a](), false); CHECK(alias);} break;                             // a counting alias stops counting (same item): -1 now, nothing when it dies
            case 10: if (slots[b]()) {Obj * h = new Obj(*slots[b]()); h->heap = true; h->serial = ++g_serial; TLine("Alloc", ObjId(h)); slots[a] = ObjRef(h);} break;      // a heap copy of a (pooled or heap) object: deleted, never recycled
            // chains (single-threaded runs only: a Ref is not itself thread-safe)
            case 11: if (slots[a]()) {bool cyc = false; for (Obj * p = slots[b](); p; p = p->next()) if (p == slots[a]()) {cyc = true; break;} if (!cyc) slots[a]()->next = slots[b];} break;   // obj.next := slot
            case 12: case 13: if (slots[a]()) slots[a] = slots[a]()->next; break;                                                                                                   // pop the head: slot := slot->next
         }
#ifndef VERIF_NO_PRIVATE
         if (g_traceReliable) for (int i=0; i<3; i++) if (slots[i]()) {std::map<const void *, int>::iterator it = g_objId.find(slots[i]()); if ((it != g_objId.end())&&(g_derived[it->second] != (long) slots[i]()->GetRefCount())) g_traceReliable = false;}
#endif
         for (int i=0; i<3; i++) {CHECK(slots[i]); if (chains) {int n = 0; for (Obj * p = slots[i](); (p)&&(n < 100); p = p->next(), n++) if (p->state != 42) {Bad("an object that is still referenced by another object's member reference was recycled (released early)"); break;}}}
      }
#ifndef VERIF_NO_PRIVATE
      for (int i=0; i<3; i++) if (slots[i]()) {std::map<const void *, int>::iterator it = g_objId.find(slots[i]()); if ((it != g_objId.end())&&(g_derived[it->second] != (long) slots[i]()->GetRefCount())) g_traceReliable = false;}
#endif
      if (chains) {DECLARE_MUTEXGUARD(mb->m); mb->slot.Reset();}    // the mailbox may head a chain: empty it here, where every count operation of the cascade is observed
   }
   vs::ThreadEnd();
}
static int Explore(uint32 iters, int nt, int nops, uint32 seed0, const char * outFile, const char * traceFile, uint32 ntraces)
{
   FILE * out = fopen(outFile, "w"); FILE * tf = traceFile ? fopen(traceFile, "w") : NULL;
   long execs = 0, violated = 0, stranded = 0, traces = 0, traceLines = 0, objects = 0, unreliable = 0; unsigned long ysteps = 0;
   for (uint32 it=0; it<iters; it++) {
      const uint32 seed = seed0*1000003u+it;
      g_viol.clear(); g_lines.clear(); g_objOfCounter.clear(); g_objId.clear(); g_derived.clear(); g_traceReliable = true; g_record = (tf != NULL)&&(traces < (long) ntraces);
#ifdef VERIF_NO_PRIVATE
      g_record = false;    // the trace needs the address of the private reference counter
#endif
      vs::Reset(seed, vs::RANDOM); vs::S.onResume = ObserveResume; vs::S.onEvent = nullptr; vs::S.onYield = nullptr; vs::S.stickiness = (int)(seed%3)*35; vs::S.atomicLocks = false;
      TracedPool * pool = new TracedPool(seed%4); Mailbox * mb = new Mailbox;
      std::vector<std::thread> ths; for (int t=0; t<nt; t++) {ths.emplace_back(Worker, pool, mb, seed*100+t, nops, nt == 1); vs::WaitRegistered(t+1);}
      const bool ok = vs::RunAllRandom(nt);
      execs++; ysteps += vs::S.steps;
      if (!ok) {stranded++; Bad(std::string("STRANDED:")+vs::S.blockedDesc);}
      else {
         for (size_t k=0; k<ths.size(); k++) ths[k].join();
         vs::Deactivate();
         if (mb->slot()) TLine("Dec", ObjId(mb->slot()));    // the scheduler is off: log the main thread's own decrement
         mb->slot.Reset();
         pool->PerformSanityCheck();
         uint32 drained = 0; pool->Drain(&drained);
         if (pool->GetNumAllocatedItemSlots() != 0) Bad("objects are still marked in use after every reference was dropped (leaked, or a count is stuck)");
         objects += (long) g_objId.size();
      }
      if (!g_viol.empty()) {
         violated++; mj::Value rec = mj::Value::Obj(); rec.set("seed", mj::Value::Int(seed)).set("iteration", mj::Value::Int(it)).set("threads", mj::Value::Int(nt)).set("ops", mj::Value::Int(nops));
         mj::Value va = mj::Value::Arr(); for (size_t k=0; k<g_viol.size(); k++) va.push(mj::Value::Str(g_viol[k])); rec.set("violations", va);
         if (violated <= 20) fprintf(out, "%s\n", mj::ToString(rec).c_str());
      }
      if ((g_record)&&(ok)&&(!g_traceReliable)) unreliable++;
      if ((g_record)&&(ok)&&(g_traceReliable)) {fprintf(tf, "{\"e\":\"Reset\"}\n"); for (size_t k=0; k<g_lines.size(); k++) fprintf(tf, "%s\n", g_lines[k].c_str()); traces++; traceLines += (long) g_lines.size()+1;}
      if (!ok) {for (size_t k=0; k<ths.size(); k++) ths[k].detach(); vs::Deactivate(); if ((stranded >= 10)||(vs::S.hung)) break;}
      else if (pool->GetNumAllocatedItemSlots() == 0) {delete mb; delete pool;}
      if (violated >= 25) break;
   }
   mj::Value sum = mj::Value::Obj(); sum.set("summary", mj::Value::Bool(true)).set("executions", mj::Value::Int(execs)).set("violated", mj::Value::Int(violated)).set("stranded", mj::Value::Int(stranded)).set("yields", mj::Value::Int((int64_t) ysteps))
      .set("traces_written", mj::Value::Int(traces)).set("trace_lines", mj::Value::Int(traceLines)).set("objects", mj::Value::Int(objects)).set("traces_not_describing_the_execution", mj::Value::Int(unreliable));
   fprintf(out, "%s\n", mj::ToString(sum).c_str()); fclose(out); if (tf) fclose(tf); printf("%s\n", mj::ToString(sum).c_str()); fflush(stdout);
   if ((stranded > 0)||(vs::S.hung)) _exit(0);
   return 0;
}
// ---------------------------------------------------------------------------------------------- free-running stress (no scheduler)
// Real threads, real concurrency: covers what the serialising scheduler cannot interleave - the inside of one "atomic" operation.
// Every round one object is shared by all threads (copies taken under a lock), then all threads drop their reference at the same
// moment (spin barrier); the object must be recycled exactly once per round, and never while a copy still exists.
#include <atomic>
static std::atomic<int> g_recycles(0), g_arrived(0), g_phase(0); static std::atomic<bool> g_stop(false);
class CountingPool : public Pool3 {
public:
   CountingPool(uint32 maxPool) : Pool3(maxPool) {}
   virtual void RecycleObject(void * obj) {g_recycles++; Pool3::RecycleObject(obj);}
};
static void Barrier(int nt, int & myPhase) {myPhase++; if (++g_arrived == nt) {g_arrived = 0; g_phase = myPhase;} else while ((g_phase.load() < myPhase)&&(!g_stop.load())) {/* spin */}}
// churn: every thread keeps obtaining a few objects from a pool with 2-object slabs, marks them as its own, and hands them back: slabs are created,
// recycled and deleted all the time.  An object must be held by one owner at a time (its mark survives) and be in default state when obtained.
static int Churn(int seconds, int nt, uint32 seed, const char * outFile)
{
   FILE * out = fopen(outFile, "w"); if (!out) return 2;
   Pool2 * pool = new Pool2(seed%4); std::atomic<long> ops(0), bad(0); std::string firstBad; Mutex badLock; std::atomic<bool> stop(false);
   const uint64 endAt = GetRunTime64()+SecondsToMicros(seconds);
   std::vector<std::thread> ths;
   for (int t=0; t<nt; t++) ths.emplace_back([&, t]() {
      uint32_t r = seed*2654435761u+(uint32_t) t*977u+1; Obj * mine[6];
      while (!stop.load()) {
         r ^= r << 13; r ^= r >> 17; r ^= r << 5;
         const int k = 1+(int)(r%6);
         for (int i=0; i<k; i++) {mine[i] = pool->ObtainObject(); if (mine[i]->state != 0) {bad++; DECLARE_MUTEXGUARD(badLock); if (firstBad.empty()) firstBad = "the pool handed out an object that is not in the default state (it is held by somebody else, or was not reset)";} mine[i]->state = 1000+t;}
         if ((r&3) == 0) std::this_thread::yield();
         for (int i=0; i<k; i++) {if (mine[i]->state != 1000+t) {bad++; DECLARE_MUTEXGUARD(badLock); if (firstBad.empty()) firstBad = "an object obtained from the pool was handed to a second owner while the first still held it";} pool->ReleaseObject(mine[i]);}
         ops += k;
         if ((bad.load() > 0)||((t == 0)&&(GetRunTime64() >= endAt))) stop = true;
      }
   });
   for (size_t k=0; k<ths.size(); k++) ths[k].join();
   if (bad.load() == 0) {pool->PerformSanityCheck(); uint32 n = 0; pool->Drain(&n); if (pool->GetNumAllocatedItemSlots() != 0) {bad++; firstBad = "objects are still marked in use after every thread handed everything back";}}
   mj::Value sum = mj::Value::Obj(); sum.set("summary", mj::Value::Bool(true)).set("rounds", mj::Value::Int(ops.load())).set("threads", mj::Value::Int(nt)).set("violated", mj::Value::Int(bad.load() > 0 ? 1 : 0));
   if (bad.load() > 0) {mj::Value rec = mj::Value::Obj(); mj::Value va = mj::Value::Arr(); va.push(mj::Value::Str(firstBad)); rec.set("violations", va).set("threads", mj::Value::Int(nt)).set("churn", mj::Value::Bool(true)); fprintf(out, "%s\n", mj::ToString(rec).c_str());}
   fprintf(out, "%s\n", mj::ToString(sum).c_str()); fclose(out); printf("%s\n", mj::ToString(sum).c_str()); fflush(stdout);
   _exit(0);
}
static int Stress(int seconds, int nt, uint32 seed, const char * outFile)
{
   FILE * out = fopen(outFile, "w"); if (!out) return 2;
   CountingPool * pool = new CountingPool(seed%4); Mailbox * mb = new Mailbox; std::atomic<long> rounds(0), bad(0); std::string firstBad; Mutex badLock;
   const uint64 endAt = GetRunTime64()+SecondsToMicros(seconds);
   std::vector<std::thread> ths;
   for (int t=0; t<nt; t++) ths.emplace_back([&, t]() {
      int phase = 0; ObjRef mine;
      while (!g_stop.load()) {
         if (t == 0) {Obj * o = pool->ObtainObject(); o->state = 42; g_recycles = 0; DECLARE_MUTEXGUARD(mb->m); mb->slot = ObjRef(o);}
         Barrier(nt, phase);
         {DECLARE_MUTEXGUARD(mb->m); mine = mb->slot;}                       // everybody takes a counted copy
         Barrier(nt, phase);
         if (t == 0) {DECLARE_MUTEXGUARD(mb->m); mb->slot.Reset();}          // the mailbox's own reference goes first
         if ((mine())&&(mine()->state != 42)) {bad++; DECLARE_MUTEXGUARD(badLock); if (firstBad.empty()) firstBad = "an object was recycled while a thread still held a counted reference";}
         Barrier(nt, phase);
         mine.Reset();                                                        // ... then all threads drop theirs at the same moment
         Barrier(nt, phase);
         if (t == 0) {
            const int r = g_recycles.load(); rounds++;
            if (r != 1) {bad++; DECLARE_MUTEXGUARD(badLock); if (firstBad.empty()) {char b[128]; snprintf(b, sizeof(b), "after every reference was dropped the object had been recycled %d times (expected exactly once)", r); firstBad = b;}}
            if ((GetRunTime64() >= endAt)||(bad.load() > 0)) g_stop = true;
         }
         Barrier(nt, phase);
      }
   });
   for (size_t k=0; k<ths.size(); k++) ths[k].join();
   mj::Value sum = mj::Value::Obj(); sum.set("summary", mj::Value::Bool(true)).set("rounds", mj::Value::Int(rounds.load())).set("threads", mj::Value::Int(nt)).set("violated", mj::Value::Int(bad.load() > 0 ? 1 : 0));
   if (bad.load() > 0) {mj::Value rec = mj::Value::Obj(); mj::Value va = mj::Value::Arr(); va.push(mj::Value::Str(firstBad)); rec.set("violations", va).set("round", mj::Value::Int(rounds.load())).set("threads", mj::Value::Int(nt)); fprintf(out, "%s\n", mj::ToString(rec).c_str());}
   fprintf(out, "%s\n", mj::ToString(sum).c_str()); fclose(out); printf("%s\n", mj::ToString(sum).c_str()); fflush(stdout);
   _exit(0);   // after a double recycle the pool may be corrupt: do not run destructors
}

int main(int argc, char ** argv)
{
   CompleteSetupSystem css; vs::Install();
   if ((argc >= 6)&&(!strcmp(argv[1], "churn"))) return Churn(atoi(argv[2]), atoi(argv[3]), (uint32) atol(argv[4]), argv[5]);
   if ((argc >= 6)&&(!strcmp(argv[1], "stress"))) return Stress(atoi(argv[2]), atoi(argv[3]), (uint32) atol(argv[4]), argv[5]);
#ifndef VERIF_NO_PRIVATE
   if ((argc >= 6)&&(!strcmp(argv[1], "pool"))) return (atoi(argv[3]) == 2) ? PoolReplay<Pool2>(argv[2], (uint32) atol(argv[4]), argv[5]) : PoolReplay<Pool3>(argv[2], (uint32) atol(argv[4]), argv[5]);
#endif
   if ((argc >= 7)&&(!strcmp(argv[1], "explore"))) return Explore((uint32) atol(argv[2]), atoi(argv[3]), atoi(argv[4]), (uint32) atol(argv[5]), argv[6], (argc > 7) ? argv[7] : NULL, (argc > 8) ? (uint32) atol(argv[8]) : 50);
   fprintf(stderr, "usage: rc pool <behaviours> <N> <maxpool> <report> | rc explore <iters> <threads> <ops> <seed> <report> [trace [n]]\n"); return 2;
}
