// C20 conformance harness: real util/PulseNode objects driven like ReflectServer drives them, under a simulated clock.
//   pn replay <behaviours.ndjson> <report.ndjson> <NEVER> [<trace.ndjson> <ntraces>]
//        every input line is one behaviour of spec/PulseTree/PulseImpl.tla: a list of step records {k, evs, idle, st, c}.
//        k = "op": one public call; "cycle": the start of a server cycle; "cb": one callback (GetPulseTime / Pulse) in which the
//        node answers evs[0].y and performs the nested public call evs[0].o.  The events the code produces (callbacks with
//        their arguments, the time the root reports, ...) are (1) fed to the PulseAbs monitor - a rejected event is a VIOLATION
//        of the property - and (2) compared one by one with the step's evs; the private state of the nodes (parent, valid
//        flag, scheduled and aggregate times, the three child lists in order) is compared with st after every step,
//        inside the callbacks too - a difference is DRIFT (the code is not the algorithm PulseImpl describes).
//   pn random <seed> <histories> <ops> <nodes> <maxT> <NEVER> <report.ndjson> <trace.ndjson> [<histories written to the trace>]
//        seeded random long histories with re-entrant callbacks; monitor on everything, list well-formedness after every call
//        and inside every callback; all events are written to the trace for validation against PulseAbs by TLC (PulseTrace.tla).
// With -DVERIF_NO_PRIVATE (binary pn_np, the fallback when a refactoring of PulseNode's private members breaks this file) nothing
// private is touched: the state comparison is reduced to what the public API shows (GetPulseParent(), GetScheduledPulseTime()),
// the list well-formedness checks are skipped; every property-level oracle (the PulseAbs monitor on the callbacks) runs unchanged.
#ifndef VERIF_NO_PRIVATE
# define private public      // read-only access to the private list fields for the state comparison; no layout change
#endif
#include "util/PulseNode.h"
#ifndef VERIF_NO_PRIVATE
# undef private
#endif
#include "system/SetupSystem.h"
#include "mjson.h"
#include <random>
#include <set>
using namespace muscle;

static int64_t NEVER = 9;   // the specification's MUSCLE_TIME_NEVER
static uint64 ToReal(int64_t t) {return (t == NEVER) ? MUSCLE_TIME_NEVER : (uint64) t;}
static int64_t ToSpec(uint64 t) {return (t == MUSCLE_TIME_NEVER) ? NEVER : ((t > (uint64) 1000000) ? -7 : (int64_t) t);}

struct Op {std::string op; int a, b; int64_t t; Op() : op("none"), a(0), b(0), t(0) {} Op(const char * o, int a_, int b_, int64_t t_) : op(o), a(a_), b(b_), t(t_) {}
   bool operator==(const Op & r) const {return (op == r.op)&&(a == r.a)&&(b == r.b)&&(t == r.t);} };
struct Ev {std::string e; int n; int64_t now, x, y; Op o; Ev() : n(0), now(0), x(0), y(0) {} Ev(const char * e_, int n_, int64_t now_, int64_t x_, int64_t y_, const Op & o_) : e(e_), n(n_), now(now_), x(x_), y(y_), o(o_) {}
   bool operator==(const Ev & r) const {return (e == r.e)&&(n == r.n)&&(now == r.now)&&(x == r.x)&&(y == r.y)&&(o == r.o);} };
static std::string EvStr(const Ev & v)
{
   char b[256]; snprintf(b, sizeof(b), "{\"e\":\"%s\",\"n\":%d,\"now\":%lld,\"x\":%lld,\"y\":%lld,\"o\":{\"op\":\"%s\",\"a\":%d,\"b\":%d,\"t\":%lld}}", v.e.c_str(), v.n, (long long) v.now, (long long) v.x, (long long) v.y, v.o.op.c_str(), v.o.a, v.o.b, (long long) v.o.t);
   return b;
}
static Op OpOf(const mj::Value & v) {Op o; o.op = v["op"].str(); o.a = (int) v["a"].i(); o.b = (int) v["b"].i(); o.t = v["t"].i(); return o;}
static Ev EvOf(const mj::Value & v) {Ev e; e.e = v["e"].str(); e.n = (int) v["n"].i(); e.now = v["now"].i(); e.x = v["x"].i(); e.y = v["y"].i(); e.o = OpOf(v["o"]); return e;}

// ------------------------------------------------------------------------------------------------------
// PulseAbs, the property (spec/PulseTree/PulseAbs.tla, operator by operator): an acceptor of events
static const int MAXN = 8;
struct Abs {
   int N; bool alive[MAXN]; int par[MAXN]; bool valid[MAXN]; int64_t req[MAXN]; int64_t clock;
   std::string k; unsigned snap, done; bool dirty; int64_t rep; int nest;     // ph
   void Reset(int n) {N = n; for (int i=0; i<MAXN; i++) {alive[i] = (i < n); par[i] = -1; valid[i] = false; req[i] = NEVER;} clock = 0; Idle();}
   void Idle() {k = "idle"; snap = done = 0; dirty = false; rep = -1; nest = 0;}
   bool InSub(int x, int r) const {int g = 0; while ((x >= 0)&&(g++ <= N)) {if (x == r) return true; x = par[x];} return false;}
   bool Attached(int n) const {return (alive[n])&&(InSub(n, 0));}
   unsigned AttachedSet() const {unsigned m = 0; for (int i=0; i<N; i++) if (Attached(i)) m |= (1u<<i); return m;}
   bool Reached(int n) const {if (Attached(n)) return true; int g = 0; for (int x=n; (x >= 0)&&(g++ <= N); x = par[x]) if (snap & (1u<<x)) return true; return false;}
   bool AnyDue() const {for (int i=0; i<N; i++) if ((Attached(i))&&(valid[i])&&(req[i] <= clock)) return true; return false;}
   int64_t TrueMin() const {int64_t m = NEVER; for (int i=0; i<N; i++) if ((Attached(i))&&(valid[i])&&(req[i] < m)) m = req[i]; return m;}
   bool In(int n) const {return (n >= 0)&&(n < N);}
   bool OpOK(const Op & o, int self) const
   {
      if (o.op == "none") return true;
      if (o.op == "attach") return (In(o.a))&&(In(o.b))&&(alive[o.a])&&(alive[o.b])&&(o.b != 0)&&(!InSub(o.a, o.b))&&((self < 0)||(par[o.b] < 0));
      if (o.op == "remove") return (In(o.a))&&(In(o.b))&&(alive[o.a])&&(alive[o.b])&&((self < 0)||((par[o.b] == o.a)&&((o.b == self)||(o.a == self))));
      if (o.op == "inval")  return (In(o.a))&&(alive[o.a])&&((o.t == 0)||(o.t == 1));
      if (o.op == "want")   return (In(o.a))&&(alive[o.a])&&((o.t == NEVER)||((o.t >= 0)&&(o.t < NEVER)))&&((self < 0)||(o.a == self));
      if (o.op == "destroy") return (self < 0)&&(In(o.a))&&(alive[o.a])&&(o.a != 0);
      if (o.op == "create") return (self < 0)&&(In(o.a))&&(!alive[o.a]);
      if (o.op == "clear")  return (In(o.a))&&(alive[o.a])&&((self < 0)||(o.a == self));
      if (o.op == "tick")   return (self < 0)&&(o.t > clock)&&(o.t < NEVER);
      return false;
   }
   void OpDo(const Op & o)
   {
      if (o.op == "attach") {if (par[o.b] >= 0) valid[o.b] = false; par[o.b] = o.a;}
      else if (o.op == "remove") {if (par[o.b] == o.a) {par[o.b] = -1; valid[o.b] = false;}}
      else if (o.op == "inval") {valid[o.a] = false; if (o.t == 1) req[o.a] = NEVER;}
      else if (o.op == "destroy") {for (int i=0; i<N; i++) if ((i == o.a)||(par[i] == o.a)) {par[i] = -1; valid[i] = false;} alive[o.a] = false; req[o.a] = NEVER;}
      else if (o.op == "create") alive[o.a] = true;
      else if (o.op == "clear") {for (int i=0; i<N; i++) if (par[i] == o.a) {par[i] = -1; valid[i] = false;}}
      else if (o.op == "tick") clock = o.t;
   }
   // returns "" if the event is accepted (and takes the step), otherwise the clause that rejects it
   std::string Step(const Ev & e)
   {
      char b[256];
      if (e.e == "op") { if (k != "idle") return "public call while a cycle is running (harness)"; if (!OpOK(e.o, -1)) return "illegal operation (harness)"; OpDo(e.o); return ""; }
      if (e.e == "cycle") { if ((k != "idle")||(e.now != clock)) return "cycle (harness)"; Idle(); k = "cycle"; return ""; }
      if (e.e == "recalc") { if ((k != "cycle")||(rep != -1)) return "recalc (harness)"; k = "recalc"; snap = AttachedSet(); dirty = false; return ""; }
      if (e.e == "ask") {
         const int n = e.n;
         if (k != "recalc") return "GetPulseTime() called outside a recalculation";
         if ((!In(n))||(!alive[n])) return "GetPulseTime() called on a dead node";
         if (valid[n]) {snprintf(b, sizeof(b), "P5: node %d asked although its requested time %lld is still valid (nobody invalidated it)", n, (long long) req[n]); return b;}
         if (!Reached(n)) {snprintf(b, sizeof(b), "node %d asked although neither it nor an ancestor is, or was during this recalculation, attached to the root", n); return b;}
         if (e.now != clock) {snprintf(b, sizeof(b), "P4: node %d asked with callback time %lld, the clock is %lld", n, (long long) e.now, (long long) clock); return b;}
         if (e.x != req[n]) {snprintf(b, sizeof(b), "P4: node %d asked with previous time %lld, but it answered %lld last time", n, (long long) e.x, (long long) req[n]); return b;}
         valid[n] = true;
         if (!OpOK(e.o, n)) return "illegal nested operation (harness)";
         OpDo(e.o); req[n] = e.y;
         if ((e.o.op != "none")&&(e.o.op != "want")) dirty = true;
         if (e.o.op != "none") nest++;
         snap |= AttachedSet() | (1u<<n);
         return "";
      }
      if (e.e == "recalcEnd") {
         if (k != "recalc") return "recalcEnd (harness)";
         const int64_t tm = TrueMin();
         if (e.x > tm) {snprintf(b, sizeof(b), "P3: the root reports %lld but the earliest time requested by an attached node is %lld (it would wake up too late)", (long long) e.x, (long long) tm); return b;}
         if ((!dirty)&&(e.x != tm)) {snprintf(b, sizeof(b), "P3: the root reports %lld but the earliest time requested by an attached node is %lld", (long long) e.x, (long long) tm); return b;}
         k = "cycle"; rep = e.x; return "";
      }
      if (e.e == "sweep") { if ((k != "cycle")||(rep == -1)||(rep > clock)) return "sweep (harness)"; k = "sweep"; snap = AttachedSet(); done = 0; dirty = false; return ""; }
      if (e.e == "pulse") {
         const int n = e.n;
         if (k != "sweep") {snprintf(b, sizeof(b), "P1: node %d pulsed (scheduled %lld) although the root reported nothing due (reported %lld, clock %lld)", n, (long long) e.x, (long long) rep, (long long) clock); return b;}
         if ((!In(n))||(!alive[n])) return "Pulse() called on a dead node";
         if (!valid[n]) {snprintf(b, sizeof(b), "P1: node %d pulsed although its requested time is not valid (it has not been asked since it was pulsed / invalidated)", n); return b;}
         if (req[n] > clock) {snprintf(b, sizeof(b), "P1: node %d pulsed at %lld BEFORE the time %lld it asked for", n, (long long) clock, (long long) req[n]); return b;}
         if (!Reached(n)) {snprintf(b, sizeof(b), "node %d pulsed although neither it nor an ancestor is, or was during this sweep, attached to the root", n); return b;}
         if (done & (1u<<n)) {snprintf(b, sizeof(b), "P2: node %d pulsed twice in one sweep", n); return b;}
         if (e.now != clock) {snprintf(b, sizeof(b), "P4: node %d pulsed with callback time %lld, the clock is %lld", n, (long long) e.now, (long long) clock); return b;}
         if (e.x != req[n]) {snprintf(b, sizeof(b), "P4: node %d pulsed with scheduled time %lld, but it asked for %lld", n, (long long) e.x, (long long) req[n]); return b;}
         if (!((e.y == NEVER)||(e.y > clock))) return "re-arm time not in the future (harness)";
         if (!OpOK(e.o, n)) return "illegal nested operation (harness)";
         OpDo(e.o); valid[n] = false; done |= (1u<<n);
         if ((e.o.op != "none")&&(e.o.op != "want")) dirty = true;
         if (e.o.op != "none") nest++;
         snap |= AttachedSet() | (1u<<n);
         return "";
      }
      if (e.e == "sweepEnd") {
         if (k != "sweep") return "sweepEnd (harness)";
         if (!dirty) for (int i=0; i<N; i++) if ((Attached(i))&&(valid[i])&&(req[i] <= clock)) {snprintf(b, sizeof(b), "P1: node %d is attached and due (asked for %lld, clock %lld) but the sweep (no nested operations) did not pulse it", i, (long long) req[i], (long long) clock); return b;}
         k = "cycle"; rep = -1; return "";
      }
      if (e.e == "cycleEnd") {
         if ((k != "cycle")||(rep == -1)||(rep <= clock)) return "cycleEnd (harness)";
         for (int i=0; i<N; i++) if (Attached(i)) {
            if (!valid[i]) {snprintf(b, sizeof(b), "P6: the server goes to sleep (until %lld) but attached node %d was invalidated and has not been asked again: its timer is lost", (long long) rep, i); return b;}
            if (req[i] <= clock) {snprintf(b, sizeof(b), "P1: the server goes to sleep (until %lld) but attached node %d is due (asked for %lld, clock %lld) and was not pulsed", (long long) rep, i, (long long) req[i], (long long) clock); return b;}
         }
         Idle(); return "";
      }
      return "unknown event (harness)";
   }
};

// ------------------------------------------------------------------------------------------------------
struct World;
static World * W = NULL;
class TNode : public PulseNode
{
public:
   TNode(int id) : _id(id), _next(MUSCLE_TIME_NEVER) {}
   virtual uint64 GetPulseTime(const PulseArgs & a);
   virtual void Pulse(const PulseArgs & a);
   int _id; uint64 _next;
};
class Mgr : public PulseNodeManager
{
public:
   uint64 Get(PulseNode & r, uint64 now) {uint64 m = MUSCLE_TIME_NEVER; CallGetPulseTimeAux(r, now, m); return m;}
   void Pulse(PulseNode & r, uint64 now) {CallPulseAux(r, now);}
};

struct Proj {std::vector<int> par, cur; std::vector<bool> valid; std::vector<int64_t> sched, agg; std::vector<std::vector<std::vector<int> > > ls; std::string bad;
   bool operator==(const Proj & r) const
   {
#ifdef VERIF_NO_PRIVATE
      return (par == r.par)&&(sched == r.sched);      // what the public API shows
#else
      return (par == r.par)&&(cur == r.cur)&&(valid == r.valid)&&(sched == r.sched)&&(agg == r.agg)&&(ls == r.ls);
#endif
   } };
static std::string ProjStr(const Proj & p)
{
   std::string s = "par["; char b[64];
   for (size_t i=0; i<p.par.size(); i++) {snprintf(b, sizeof(b), "%s%d", i?",":"", p.par[i]); s += b;}
   s += "] valid["; for (size_t i=0; i<p.valid.size(); i++) {s += p.valid[i] ? "T" : "F";}
   s += "] sched["; for (size_t i=0; i<p.sched.size(); i++) {snprintf(b, sizeof(b), "%s%lld", i?",":"", (long long) p.sched[i]); s += b;}
   s += "] agg["; for (size_t i=0; i<p.agg.size(); i++) {snprintf(b, sizeof(b), "%s%lld", i?",":"", (long long) p.agg[i]); s += b;}
   s += "] cur["; for (size_t i=0; i<p.cur.size(); i++) {snprintf(b, sizeof(b), "%s%d", i?",":"", p.cur[i]); s += b;}
   s += "] lists[";
   for (size_t i=0; i<p.ls.size(); i++) { s += i ? " " : ""; for (size_t l=0; l<p.ls[i].size(); l++) { s += l ? "|" : ""; for (size_t k=0; k<p.ls[i][l].size(); k++) {snprintf(b, sizeof(b), "%s%d", k?",":"", p.ls[i][l][k]); s += b;} } }
   return s + "]";
}
static Proj ProjOf(const mj::Value & st)
{
   Proj p; const size_t n = st["par"].size();
   for (size_t i=0; i<n; i++) { p.par.push_back((int) st["par"][i].i()); p.cur.push_back((int) st["cur"][i].i()); p.valid.push_back(st["valid"][i].truthy()); p.sched.push_back(st["sched"][i].i()); p.agg.push_back(st["agg"][i].i());
      std::vector<std::vector<int> > l3; for (size_t l=0; l<3; l++) {std::vector<int> q; const mj::Value & ql = st["ls"][i][l]; for (size_t k=0; k<ql.size(); k++) q.push_back((int) ql[k].i()); l3.push_back(q);} p.ls.push_back(l3); }
   return p;
}

struct World {
   int N; std::vector<TNode *> n; Mgr mgr; int64_t clock; Abs abs;
   std::vector<Ev> log;                  // the events of the current step group (a public call, or a whole cycle)
   std::vector<std::string> violations; std::vector<std::string> drift; std::string wfbad;
   FILE * trace; long nevents, ncallbacks, nnested, reasks, rounds, maxRounds, wfchecks;
   bool inCycle;
   // replay: the events expected for the current cycle and the state expected inside each callback
   const std::vector<Ev> * expect; const std::vector<const mj::Value *> * expectPre; bool offScript; size_t expPos;
   // random
   std::mt19937 * rng; int nestBudget; int64_t maxT;
   World(int nn) : N(nn), clock(0), trace(NULL), nevents(0), ncallbacks(0), nnested(0), reasks(0), rounds(0), maxRounds(0), wfchecks(0), inCycle(false), expect(NULL), expectPre(NULL), offScript(false), expPos(0), rng(NULL), nestBudget(0), maxT(0)
      {for (int i=0; i<nn; i++) n.push_back(new TNode(i)); abs.Reset(nn);}
   ~World() {for (int i=N-1; i>=0; i--) delete n[i];}
   uint32 R(uint32 k) {return k ? (uint32)((*rng)() % k) : 0;}
   int IdOf(const PulseNode * p) const {if (p == NULL) return -1; for (int i=0; i<N; i++) if (n[i] == p) return i; return -9;}

   void Emit(const Ev & e)
   {
      log.push_back(e); nevents++;
      if (trace) fprintf(trace, "%s\n", EvStr(e).c_str());
      if (!violations.empty()) return;      // the monitor's state means nothing after a rejection
      const std::string r = abs.Step(e);
      if (!r.empty()) violations.push_back(r + "  at event " + EvStr(e));
   }
   void Apply(const Op & o)
   {
      if (o.op == "attach") n[o.a]->PutPulseChild(n[o.b]);
      else if (o.op == "remove") n[o.a]->RemovePulseChild(n[o.b]);
      else if (o.op == "inval") n[o.a]->InvalidatePulseTime(o.t == 1);
      else if (o.op == "want") n[o.a]->_next = ToReal(o.t);
      else if (o.op == "destroy") {delete n[o.a]; n[o.a] = NULL;}
      else if (o.op == "create") n[o.a] = new TNode(o.a);
      else if (o.op == "clear") n[o.a]->ClearPulseChildren();
      else if (o.op == "tick") clock = o.t;
   }
   // the private state of the real nodes, and whether the three lists of every node are well formed
#ifdef VERIF_NO_PRIVATE
   Proj Snapshot()
   {
      Proj p; std::vector<std::vector<int> > l3(3);
      for (int i=0; i<N; i++) { TNode * x = n[i]; p.par.push_back(x ? IdOf(x->GetPulseParent()) : -1); p.sched.push_back(x ? ToSpec(x->GetScheduledPulseTime()) : NEVER); p.cur.push_back(-1); p.valid.push_back(false); p.agg.push_back(NEVER); p.ls.push_back(l3); }
      return p;
   }
#else
   Proj Snapshot()
   {
      Proj p; wfchecks++;
      for (int i=0; i<N; i++) {
         TNode * x = n[i]; std::vector<std::vector<int> > l3(3);
         if (!x) {p.par.push_back(-1); p.cur.push_back(-1); p.valid.push_back(false); p.sched.push_back(NEVER); p.agg.push_back(NEVER); p.ls.push_back(l3); continue;}
         p.par.push_back(IdOf(x->_parent)); p.cur.push_back(x->_curList); p.valid.push_back(x->_myScheduledTimeValid); p.sched.push_back(ToSpec(x->_myScheduledTime)); p.agg.push_back(ToSpec(x->_aggregatePulseTime));
         if ((x->_parent == NULL) != (x->_curList == -1)) p.bad = "a node has a parent but is in no list (or the reverse)";
         if ((x->_parent == NULL)&&((x->_prevSibling)||(x->_nextSibling))) p.bad = "a detached node still has siblings";
         for (int l=0; l<3; l++) {
            const PulseNode * c = x->_firstChild[l]; const PulseNode * prev = NULL; int g = 0;
            if ((c == NULL) != (x->_lastChild[l] == NULL)) p.bad = "first/last pointers of a list disagree about emptiness";
            while ((c)&&(g++ <= N)) {
               const int id = IdOf(c); l3[l].push_back(id);
               if (id < 0) {p.bad = "a list holds a node that no longer exists"; break;}
               if (c->_parent != x) p.bad = "a list holds a node whose parent is somebody else";
               if (c->_curList != l) p.bad = "a node is in a list other than the one its _curList names";
               if (c->_prevSibling != prev) p.bad = "back pointer of a list member is wrong";
               if ((l == 0)&&(prev)&&(prev->_aggregatePulseTime > c->_aggregatePulseTime)) p.bad = "the scheduled list is not sorted";
               if ((l == 0)&&(c->_aggregatePulseTime == MUSCLE_TIME_NEVER)) p.bad = "the scheduled list holds a node whose time is NEVER";
               if ((l == 1)&&(c->_aggregatePulseTime != MUSCLE_TIME_NEVER)) p.bad = "the unscheduled list holds a node that has a time";
               prev = c; c = c->_nextSibling;
            }
            if (g > N) p.bad = "a list is circular";
            else if (prev != x->_lastChild[l]) p.bad = "last pointer of a list is not its last member";
         }
         p.ls.push_back(l3);
      }
      // each child in exactly one list
      for (int i=0; i<N; i++) if ((n[i])&&(n[i]->_parent)) { const int pp = p.par[i]; int cnt = 0; if (pp >= 0) for (int l=0; l<3; l++) for (size_t k=0; k<p.ls[pp][l].size(); k++) if (p.ls[pp][l][k] == i) cnt++; if (cnt != 1) p.bad = "a child is not in exactly one list of its parent"; }
      if ((!p.bad.empty())&&(wfbad.empty())) wfbad = p.bad + ": " + ProjStr(p);
      return p;
   }
#endif
   void Drift(const std::string & s) {if (drift.size() < 3) drift.push_back(s);}

   // what a node does when the library calls it back; kind 0 = GetPulseTime, 1 = Pulse
   int64_t Callback(int kind, TNode * node, int64_t now, int64_t x)
   {
      const int id = node->_id; ncallbacks++;
      int64_t y = NEVER; Op o;
      if (expect) {
         // the next callback the specification expects (the markers in between are compared after the cycle)
         const char * kn = kind ? "pulse" : "ask";
         while ((expPos < expect->size())&&((*expect)[expPos].e != "ask")&&((*expect)[expPos].e != "pulse")) expPos++;
         const size_t i = expPos;
         if ((!offScript)&&(i < expect->size())) {
            const Ev & w = (*expect)[i];
            if ((drift.empty())&&(i == log.size())&&(i < expectPre->size())&&((*expectPre)[i])) { const Proj want = ProjOf(*(*expectPre)[i]); Proj got = Snapshot(); if (kind == 0) got.valid[id] = false;   /* the code sets the flag just before the call, PulseImpl's AskCB inside it */ if (!(want == got)) {char b[64]; snprintf(b, sizeof(b), "inside callback #%zu (%s of node %d): ", i, kn, id); Drift(std::string(b) + "state differs: spec " + ProjStr(want) + " code " + ProjStr(got));} }
            if ((w.e == kn)&&(w.n == id)&&(abs.OpOK(w.o, id))) {y = w.y; o = w.o; expPos++;}
            else {offScript = true; Drift(std::string("the code makes callback ") + kn + " on node " + std::to_string(id) + " where the specification expects " + EvStr(w));}
         }
         else if ((!offScript)&&(i >= expect->size())) offScript = true;    // the behaviour ends inside the cycle (or the code makes more callbacks than expected): defaults from here
         if (offScript) {y = kind ? NEVER : ToSpec(node->_next); if ((y < 0)||((kind)&&(y <= clock))) y = NEVER;}
      }
      else {
         // random: the node answers what it currently wants; a pulsed node re-arms itself; one nested public call now and then
         if (kind == 0) y = ToSpec(node->_next);
         else { y = (R(3) == 0) ? NEVER : (clock + 1 + R(4)); if (y > maxT) y = NEVER; node->_next = ToReal(y); }
         if ((nestBudget > 0)&&(R(2) == 0)) {
            for (int tries=0; tries<6; tries++) {
               Op c; const uint32 w = R(10);
               if (w < 3)      c = Op("inval", (R(2) ? id : (int) R(N)), 0, R(2));
               else if (w < 5) { int ch[MAXN]; int nc = 0; for (int k=0; k<N; k++) if ((n[k])&&(abs.par[k] == id)) ch[nc++] = k; if ((nc > 0)&&(R(3))) {const int k = ch[R(nc)]; c = Op("remove", id, k, 0);} else c = Op("remove", abs.par[id], id, 0); }
               else if (w < 7) c = Op("attach", (int) R(N), 1 + (int) R(N-1), 0);
               else if (w < 8) c = Op("clear", id, 0, 0);
               else            { int64_t t = R(4) ? (int64_t) (clock + R(4)) - 1 : NEVER; if (t < 0) t = 0; if (t > maxT) t = NEVER; c = Op("want", id, 0, t); }
               if ((c.op == "remove")&&(c.a < 0)) continue;
               if (abs.OpOK(c, id)) {o = c; nestBudget--; break;}
            }
         }
      }
      if (o.op != "none") nnested++;
      Emit(Ev(kind ? "pulse" : "ask", id, now, x, y, o));
      if (kind == 1) node->_next = ToReal(y);
      if (o.op != "none") { Apply(o); if (!expect) (void) Snapshot(); }
      return y;
   }

   // ReflectServer's loop under a frozen clock: PrepareToWaitForEvents() / HandleEvents()
   void RunCycle()
   {
      inCycle = true; Emit(Ev("cycle", 0, clock, 0, 0, Op()));
      for (int round=1; ; round++) {
         rounds++; if (round > maxRounds) maxRounds = round;
         Emit(Ev("recalc", 0, 0, 0, 0, Op()));
         const uint64 m = mgr.Get(*n[0], ToReal(clock));
         Emit(Ev("recalcEnd", 0, 0, ToSpec(m), 0, Op()));
         if (m > ToReal(clock)) { mgr.Pulse(*n[0], ToReal(clock)); Emit(Ev("cycleEnd", 0, 0, 0, 0, Op())); break; }
         if (round >= 64) { if (violations.empty()) violations.push_back("the server cycle does not terminate: after 64 rounds the root still reports a time that is not later than the clock"); abs.Idle(); break; }
         Emit(Ev("sweep", 0, 0, 0, 0, Op()));
         mgr.Pulse(*n[0], ToReal(clock));
         Emit(Ev("sweepEnd", 0, 0, 0, 0, Op()));
      }
      inCycle = false;
   }
};
uint64 TNode::GetPulseTime(const PulseArgs & a) {return ToReal(W->Callback(0, this, ToSpec(a.GetCallbackTime()), ToSpec(a.GetScheduledTime())));}
void TNode::Pulse(const PulseArgs & a) {(void) W->Callback(1, this, ToSpec(a.GetCallbackTime()), ToSpec(a.GetScheduledTime()));}

static mj::Value StrArr(const std::vector<std::string> & v) {mj::Value a = mj::Value::Arr(); for (size_t i=0; i<v.size(); i++) a.push(mj::Value::Str(v[i])); return a;}

// ------------------------------------------------------------------------------------------------------
static int Replay(const char * inFile, const char * outFile, const char * traceFile, long ntraces)
{
   FILE * in = fopen(inFile, "r"); FILE * out = fopen(outFile, "w"); FILE * tf = traceFile ? fopen(traceFile, "w") : NULL;
   if ((!in)||(!out)) {fprintf(stderr, "cannot open files\n"); return 2;}
   std::string line; long nb = 0, followed = 0, drifted = 0, violated = 0, steps = 0, nevents = 0, ncb = 0, nnested = 0, cycles = 0, statecmp = 0, tracesWritten = 0, wfbad = 0;
   while (mj::ReadLine(in, line)) {
      mj::Value beh; if (!mj::Parse(line, beh)) {fprintf(stderr, "bad json\n"); return 2;}
      const mj::Value & st = beh["steps"]; if (st.size() == 0) continue;
      const int N = (int) st[(size_t)0]["st"]["par"].size();
      nb++;
      World w(N); W = &w;
      if ((tf)&&(tracesWritten < ntraces)) {fprintf(tf, "{\"e\":\"reset\",\"n\":%d,\"now\":0,\"x\":0,\"y\":0,\"o\":{\"op\":\"none\",\"a\":0,\"b\":0,\"t\":0}}\n", N); w.trace = tf; tracesWritten++;}
      size_t failStep = 0;
      for (size_t i=0; i<st.size(); ) {
         const std::string k = st[i]["k"].str();
         w.log.clear();
         if (k == "op") {
            steps++;
            const Ev e = EvOf(st[i]["evs"][(size_t)0]);
            if (!w.abs.OpOK(e.o, -1)) {if (w.drift.empty()) failStep = i; w.Drift("the behaviour holds an operation that is illegal in the code's state: " + EvStr(e)); break;}
            w.Emit(e); w.Apply(e.o);
            const Proj want = ProjOf(st[i]["st"]); const Proj got = w.Snapshot(); statecmp++;
            if ((w.drift.empty())&&(!(want == got))) {w.Drift("after " + EvStr(e) + " state differs: spec " + ProjStr(want) + " code " + ProjStr(got)); failStep = i;}
            i++;
         }
         else if (k == "cycle") {
            // the cycle = this step and the callback steps that follow it
            size_t j = i+1; while ((j < st.size())&&(st[j]["k"].str() == "cb")) j++;
            std::vector<Ev> expect; std::vector<const mj::Value *> pre;
            for (size_t s=i; s<j; s++) { const mj::Value & evs = st[s]["evs"]; for (size_t q=0; q<evs.size(); q++) {expect.push_back(EvOf(evs[q])); pre.push_back(((q == 0)&&(s > i)) ? &st[s-1]["st"] : NULL);} }
            const bool complete = st[j-1]["idle"].truthy();
            steps += (long)(j-i); cycles++;
            const bool hadDrift = !w.drift.empty();
            w.expect = &expect; w.expectPre = &pre; w.offScript = false; w.expPos = 0;
            w.RunCycle();
            w.expect = NULL; w.expectPre = NULL;
            // compare the events
            const size_t m = complete ? ((expect.size() > w.log.size()) ? expect.size() : w.log.size()) : expect.size();
            for (size_t q=0; (q<m)&&(w.drift.empty()); q++) {   // (a difference inside a callback has been noted already)
               if ((q >= w.log.size())||(q >= expect.size())||(!(w.log[q] == expect[q])))
                  w.Drift("event #" + std::to_string(q) + " of the cycle: spec " + ((q < expect.size()) ? EvStr(expect[q]) : std::string("(none)")) + " code " + ((q < w.log.size()) ? EvStr(w.log[q]) : std::string("(none)")));
            }
            if ((complete)&&(w.drift.empty())) { const Proj want = ProjOf(st[j-1]["st"]); const Proj got = w.Snapshot(); statecmp++; if (!(want == got)) w.Drift("after the cycle state differs: spec " + ProjStr(want) + " code " + ProjStr(got)); }
            if ((!hadDrift)&&(!w.drift.empty())) failStep = i;
            if (!complete) break;   // the behaviour ended inside the cycle (it was finished with default answers)
            i = j;
         }
         else {w.Drift("behaviour does not start a cycle before a callback step"); break;}
         if (!w.violations.empty()) break;
      }
      nevents += w.nevents; ncb += w.ncallbacks; nnested += w.nnested; statecmp += 0;
      if (!w.wfbad.empty()) wfbad++;
      if ((w.violations.empty())&&(w.drift.empty())) followed++;
      if (!w.drift.empty()) drifted++;
      if (!w.violations.empty()) violated++;
      if (((!w.violations.empty())&&(violated <= 20))||((!w.drift.empty())&&(drifted <= 20))) {
         mj::Value rec = mj::Value::Obj(); rec.set("behaviour", mj::Value::Int(beh["id"].i()));
         if (!w.violations.empty()) rec.set("violations", StrArr(w.violations));
         if (!w.drift.empty()) {rec.set("drift", StrArr(w.drift)); rec.set("step", mj::Value::Int((int64_t) failStep));}
         if (!w.wfbad.empty()) rec.set("lists", mj::Value::Str(w.wfbad));
         rec.set("steps", st);
         fprintf(out, "%s\n", mj::ToString(rec).c_str());
      }
      W = NULL;
   }
   mj::Value sum = mj::Value::Obj();
   sum.set("summary", mj::Value::Bool(true)).set("behaviours", mj::Value::Int(nb)).set("followed", mj::Value::Int(followed)).set("drifted", mj::Value::Int(drifted)).set("violated", mj::Value::Int(violated))
      .set("steps", mj::Value::Int(steps)).set("events", mj::Value::Int(nevents)).set("callbacks", mj::Value::Int(ncb)).set("nested", mj::Value::Int(nnested)).set("cycles", mj::Value::Int(cycles))
      .set("state_comparisons", mj::Value::Int(statecmp)).set("illformed", mj::Value::Int(wfbad)).set("traces_written", mj::Value::Int(tracesWritten));
   fprintf(out, "%s\n", mj::ToString(sum).c_str()); fclose(out); fclose(in); if (tf) fclose(tf);
   printf("%s\n", mj::ToString(sum).c_str());
   return 0;
}

// ------------------------------------------------------------------------------------------------------
static int Random(uint32 seed0, long histories, long nops, int N, int64_t maxT, const char * outFile, const char * traceFile, long ntraced)
{
   FILE * out = fopen(outFile, "w"); FILE * tf = fopen(traceFile, "w");
   if ((!out)||(!tf)) {fprintf(stderr, "cannot open files\n"); return 2;}
   long violated = 0, illformed = 0, nevents = 0, ncb = 0, nnested = 0, cycles = 0, rounds = 0, maxRounds = 0, opsDone = 0, wfchecks = 0, reentrantCycles = 0;
   std::set<std::string> distinct;
   for (long h=0; h<histories; h++) {
      const uint32 seed = seed0*1000003u + (uint32) h;
      std::mt19937 gen(seed*7919u+17);
      World w(N); W = &w; w.rng = &gen; w.maxT = maxT; w.trace = (h < ntraced) ? tf : NULL;
      if (h < ntraced) fprintf(tf, "{\"e\":\"reset\",\"n\":%d,\"now\":0,\"x\":0,\"y\":0,\"o\":{\"op\":\"none\",\"a\":0,\"b\":0,\"t\":0}}\n", N);
      std::vector<std::string> recent; std::string sig;
      // most histories begin with a tree: node i under a random earlier node
      if (w.R(8)) for (int i=1; i<N; i++) if (w.R(5)) { const Op o("attach", (int) w.R(i), i, 0); w.Emit(Ev("op", 0, 0, 0, 0, o)); w.Apply(o); }
      for (long s=0; (s<nops)&&(w.violations.empty()); s++) {
         const uint32 r = w.R(100); Op o; bool cyc = false;
         const int a = (int) w.R(N), b = 1 + (int) w.R(N-1);
         if (r < 12)      o = Op("attach", a, b, 0);
         else if (r < 17) o = Op("remove", (w.R(4) == 0) ? a : w.abs.par[b], b, 0);
         else if (r < 39) o = Op("inval", a, 0, w.R(2));
         else if (r < 64) { int64_t t = (w.R(6) == 0) ? NEVER : (int64_t) (w.clock + w.R(6)) - 1; if (t < 0) t = 0; if (t > maxT) t = NEVER; o = Op("want", a, 0, t); }
         else if (r < 65) o = Op("destroy", b, 0, 0);
         else if (r < 68) o = Op("create", b, 0, 0);
         else if (r < 70) o = Op("clear", a, 0, 0);
         else if (r < 84) { const int64_t t = w.clock + 1 + w.R(3); o = Op("tick", 0, 0, t); if (t > maxT) continue; }
         else cyc = true;
         w.log.clear();
         if (cyc) { const long n0 = w.nnested; w.nestBudget = (int) w.R(4); w.RunCycle(); cycles++; if (w.nnested > n0) reentrantCycles++; sig += 'C'; }
         else {
            if ((o.op == "remove")&&(o.a < 0)) continue;
            if (!w.abs.OpOK(o, -1)) continue;
            w.Emit(Ev("op", 0, 0, 0, 0, o)); w.Apply(o); sig += o.op[0]; sig += (char)('0'+o.a);
         }
         opsDone++;
         (void) w.Snapshot();
         for (size_t q=0; q<w.log.size(); q++) {recent.push_back(EvStr(w.log[q])); if (recent.size() > 60) recent.erase(recent.begin());}
         if (!w.wfbad.empty()) break;
      }
      distinct.insert(sig);
      nevents += w.nevents; ncb += w.ncallbacks; nnested += w.nnested; rounds += w.rounds; if (w.maxRounds > maxRounds) maxRounds = w.maxRounds; wfchecks += w.wfchecks;
      if (!w.violations.empty()) violated++;
      if (!w.wfbad.empty()) illformed++;
      if (((!w.violations.empty())&&(violated <= 20))||((!w.wfbad.empty())&&(illformed <= 20))) {
         mj::Value rec = mj::Value::Obj(); rec.set("seed", mj::Value::Int(seed)).set("history", mj::Value::Int(h)).set("nodes", mj::Value::Int(N));
         if (!w.violations.empty()) rec.set("violations", StrArr(w.violations));
         if (!w.wfbad.empty()) rec.set("lists", mj::Value::Str(w.wfbad));
         rec.set("last_events", StrArr(recent));
         fprintf(out, "%s\n", mj::ToString(rec).c_str());
      }
      W = NULL;
   }
   mj::Value sum = mj::Value::Obj();
   sum.set("summary", mj::Value::Bool(true)).set("histories", mj::Value::Int(histories)).set("distinct_histories", mj::Value::Int((int64_t) distinct.size())).set("operations", mj::Value::Int(opsDone)).set("violated", mj::Value::Int(violated)).set("illformed", mj::Value::Int(illformed))
      .set("events", mj::Value::Int(nevents)).set("callbacks", mj::Value::Int(ncb)).set("nested", mj::Value::Int(nnested)).set("cycles", mj::Value::Int(cycles)).set("reentrant_cycles", mj::Value::Int(reentrantCycles)).set("rounds", mj::Value::Int(rounds)).set("max_rounds", mj::Value::Int(maxRounds)).set("list_checks", mj::Value::Int(wfchecks));
   fprintf(out, "%s\n", mj::ToString(sum).c_str()); fclose(out); fclose(tf);
   printf("%s\n", mj::ToString(sum).c_str());
   return 0;
}

int main(int argc, char ** argv)
{
   CompleteSetupSystem css;
   if ((argc >= 5)&&(!strcmp(argv[1], "replay"))) { NEVER = atol(argv[4]); return Replay(argv[2], argv[3], (argc > 6) ? argv[5] : NULL, (argc > 6) ? atol(argv[6]) : 0); }
   if ((argc >= 10)&&(!strcmp(argv[1], "random"))) { NEVER = atol(argv[7]); return Random((uint32) atol(argv[2]), atol(argv[3]), atol(argv[4]), atoi(argv[5]), atol(argv[6]), argv[8], argv[9], (argc > 10) ? atol(argv[10]) : atol(argv[3])); }
   fprintf(stderr, "usage: pn replay <behaviours> <report> <NEVER> [<trace> <n>] | pn random <seed> <histories> <ops> <nodes> <maxT> <NEVER> <report> <trace> [<ntraced>]\n");
   return 2;
}
