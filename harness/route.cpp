// C05 conformance harness: an in-process ReflectServer with StorageReflectSession sessions over socket pairs, pumped single-threadedly.
//
//   route trav <universe> <nshards> <shards: a,b,c> <out prefix> <report>
//        enumerates the SAME bounded space as spec/Traversal/Traversal.tla (universe "core" | "full" | "tri": CaseOf(idx) is mirrored
//        below and TLC re-checks every recorded case against its own decoding), runs the real NodePathMatcher::DoTraversal (from a
//        subclass of StorageReflectSession, on GetGlobalRoot(), pattern set put with PutPathsFromMessage exactly as the routing code
//        does) with a callback that follows the case's mode, and records (case, visit list, return value, brute-force MatchesPath set)
//        as <out prefix>.<shard>.ndjson; every case is also judged by a direct monitor of the property.
//   route trav wide <count> <seed> <nfiles> <out prefix> <report>
//        the same for seeded random cases of the wide space (3 sessions x 25 subtrees, 1-3 patterns of the whole menu, filters,
//        relative / absolute forms); the case is in the line.
//   route hist <mode: random|small|directed> <count> <steps> <seed> <nfiles> <out prefix> <report>
//   route replay <behaviours.ndjson> <out prefix> <report>
//        histories of real client commands and routed Messages through real gateways; every command and every Message a client
//        receives is logged as an event (validated by TLC against spec/Traversal/RouteTrace.tla) and judged by a direct monitor.
//
// Report: one ndjson line per violating / known / hung case and a final {"summary":true,...} line.  Exit 0 unless the harness could
// not run; exit 4 = watchdog (the report then ends with a {"hang":...} line), exit 5 = the code under test crashed ({"crash":signal,...}).
#include "reflector/ReflectServer.h"
#include "reflector/StorageReflectSession.h"
#include "reflector/StorageReflectConstants.h"
#include "iogateway/MessageIOGateway.h"
#include "dataio/TCPSocketDataIO.h"
#include "regex/QueryFilter.h"
#include "regex/StringMatcher.h"
#include "regex/PathMatcher.h"
#include "system/SetupSystem.h"
#include "util/NetworkUtilityFunctions.h"
#include "mjson.h"
#include <map>
#include <set>
#include <vector>
#include <string>
#include <random>
#include <algorithm>
#include <signal.h>
#include <unistd.h>
using namespace muscle;
typedef std::vector<std::string> SV;

// ------------------------------------------------------------------------------------------------ report and watchdog
static FILE * g_report = NULL;
static int g_reportFd = -1;
static char g_where[1024] = "start";
static int g_bad = 0;                // violating cases reported so far
static const int MAX_BAD = 25;
static void OnAlarm(int)
{
   char b[1400]; int n = snprintf(b, sizeof(b), "\n{\"hang\":true,\"where\":\"%s\"}\n", g_where);
   if (g_report) fflush(g_report);
   if (g_reportFd >= 0) {ssize_t w = write(g_reportFd, b, n); (void) w;}
   _exit(4);
}
static void OnCrash(int sig)
{
   char b[1400]; int n = snprintf(b, sizeof(b), "\n{\"crash\":%d,\"where\":\"%s\"}\n", sig, g_where);
   if (g_reportFd >= 0) {ssize_t w = write(g_reportFd, b, n); (void) w;}
   _exit(5);
}
static void Where(const char * fmt, long a = 0, long b = 0) {snprintf(g_where, sizeof(g_where), fmt, a, b);}
static void ReportLine(const mj::Value & v) {std::string s = mj::ToString(v); fprintf(g_report, "%s\n", s.c_str()); fflush(g_report);}
static mj::Value JStrs(const SV & v) {mj::Value a = mj::Value::Arr(); for (size_t i=0; i<v.size(); i++) a.push(mj::Value::Str(v[i])); return a;}
static mj::Value JInts(const std::vector<int> & v) {mj::Value a = mj::Value::Arr(); for (size_t i=0; i<v.size(); i++) a.push(mj::Value::Int(v[i])); return a;}

// ------------------------------------------------------------------------------------------------ the clause tokens of Traversal.tla
// abstract names: host "h", sessions "0".."3" (position of the session), user names "a" "b"
struct World {std::string host; SV ids;};            // the real host name and the real session ids, by position
static std::string Conc(const std::string & t, const World & w)
{
   if (t == "h") return w.host;
   if ((t.size() == 1)&&(t[0] >= '0')&&(t[0] <= '3')) return ((size_t)(t[0]-'0') < w.ids.size()) ? w.ids[t[0]-'0'] : std::string("99999");
   if (t == "1,0")   return w.ids[1]+","+w.ids[0];
   if (t == "2,1")   return w.ids[2]+","+w.ids[1];
   if (t == "<0-1>") return "<"+w.ids[0]+"-"+w.ids[1]+">";
   if (t == "~0")    return "~"+w.ids[0];
   return t;  // "*" and the user-level clauses are written as they are
}
static SV AbstractPath(const std::string & path, const World & w)    // "/host/id/a/b" -> [h, 0, a, b]
{
   SV out; size_t b = 1;
   if (path.size() <= 1) return out;
   while (true) {size_t s = path.find('/', b); out.push_back(path.substr(b, (s == std::string::npos) ? std::string::npos : s-b)); if (s == std::string::npos) break; b = s+1;}
   if (out.size() >= 1) out[0] = (out[0] == w.host) ? "h" : ("?"+out[0]);
   if (out.size() >= 2) {bool f = false; for (size_t i=0; i<w.ids.size(); i++) if (out[1] == w.ids[i]) {char c[2] = {(char)('0'+i), 0}; out[1] = c; f = true; break;} if (!f) out[1] = "?"+out[1];}
   return out;
}
static mj::Value JPath(const SV & p) {return JStrs(p);}
static std::string PathKey(const SV & p) {std::string s; for (size_t i=0; i<p.size(); i++) {s += '/'; s += p[i];} return s;}

static std::string g_second = "b";     // the second user name (universe "bs": a followed by a backslash)
// the monitor's own reading of the clause table (mirrors MatchSet of Traversal.tla; TraversalTrace / RouteTrace check the real StringMatcher against the same table)
static bool TokMatch(const std::string & t, const std::string & n)
{
   if (t == "*") return true;
   if (t == "?") return n.size() == 1;
   if ((t == "a\\\\")||(t == "a\\\\*")) return n == "a\\";
   if (t == "x\\\\,a") return n == "a";
   if (t == "1,0")   return (n == "0")||(n == "1");
   if (t == "2,1")   return (n == "1")||(n == "2");
   if (t == "a,c")   return n == "a";
   if (t == "b,c")   return n == "b";
   if (t == "<0-1>") return (n == "0")||(n == "1");
   if (t == "~0")    return n != "0";
   if (t == "\\a")   return n == "a";
   if (t == "(a|c)") return n == "a";
   if ((t == "b,a")||(t == "b,\\a")) return (n == "a")||(n == "b");
   if (t == "~a")    return n != "a";
   return t == n;
}

struct Pat {bool abs; SV cl; int f; Pat() : abs(true), f(0) {}};
static SV NormCl(const Pat & p) {if (p.abs) return p.cl; SV r; r.push_back("*"); r.push_back("*"); r.insert(r.end(), p.cl.begin(), p.cl.end()); return r;}
static std::string PatString(const Pat & p, const World & w) {std::string s = p.abs ? "/" : ""; for (size_t i=0; i<p.cl.size(); i++) {if (i) s += '/'; s += Conc(p.cl[i], w);} return s;}
static mj::Value JPat(const Pat & p) {mj::Value o = mj::Value::Obj(); o.set("abs", mj::Value::Bool(p.abs)); o.set("cl", JStrs(p.cl)); o.set("f", mj::Value::Int(p.f)); return o;}
static mj::Value JPats(const std::vector<Pat> & ps) {mj::Value a = mj::Value::Arr(); for (size_t i=0; i<ps.size(); i++) a.push(JPat(ps[i])); return a;}
static bool PatFromJson(const mj::Value & v, Pat & p) {p.abs = v["abs"].truthy(); p.cl.clear(); for (size_t i=0; i<v["cl"].size(); i++) p.cl.push_back(v["cl"][i].str()); p.f = (int) v["f"].i(); return true;}
// the effective entries: one per normalised path, the LATER filter wins
struct Entry {SV cl; int f;};
static std::vector<Entry> EntriesOf(const std::vector<Pat> & ps)
{
   std::vector<Entry> es;
   for (size_t i=0; i<ps.size(); i++) {SV cl = NormCl(ps[i]); bool found = false; for (size_t j=0; j<es.size(); j++) if (es[j].cl == cl) {es[j].f = ps[i].f; found = true;} if (!found) {Entry e; e.cl = cl; e.f = ps[i].f; es.push_back(e);}}
   return es;
}
static bool EntryMatches(const Entry & e, const SV & node, int what)
{
   if (e.cl.size() != node.size()) return false;
   for (size_t i=0; i<node.size(); i++) if (!TokMatch(e.cl[i], node[i])) return false;
   return (e.f == 0)||(what == e.f);
}

static MessageRef FilterArchive(int f)   // f > 0: "what-code is f"; 0: a Message whose what-code is not a filter type ("no filter for this key")
{
   MessageRef fm = GetMessageFromPool(0u);
   if (f > 0) {WhatCodeQueryFilter q((uint32) f); (void) q.SaveToArchive(*fm());}
   return fm;
}
// keys (+ filters when any key has one, or when dummyFilters) as a client would put them into a Message
static void AddKeys(Message & m, const std::vector<Pat> & ps, const World & w, bool dummyFilters)
{
   bool any = dummyFilters; for (size_t i=0; i<ps.size(); i++) if (ps[i].f) any = true;
   for (size_t i=0; i<ps.size(); i++) {(void) m.AddString(PR_NAME_KEYS, PatString(ps[i], w).c_str()); if (any) (void) m.AddMessage(PR_NAME_FILTERS, FilterArchive(ps[i].f));}
}

// ------------------------------------------------------------------------------------------------ the session subclass
struct TravCtx {const World * w; std::string mode; std::vector<SV> visits;};
class TSession : public StorageReflectSession
{
public:
   DataNode & Root() {return GetGlobalRoot();}
   String MyRoot() const {return GetSessionRootPath();}
   status_t Set(const String & p, uint32 w) {return SetDataNode(p, GetMessageFromPool(w));}
   void Wipe() {(void) RemoveDataNodes("*");}
   static int CB(StorageReflectSession *, DataNode & node, void * ud)
   {
      TravCtx * c = (TravCtx *) ud; String np; (void) node.GetNodePath(np);
      c->visits.push_back(AbstractPath(np(), *c->w));
      if (c->visits.size() > 100000) return -1;       // a runaway walk ends here and is judged on what it did
      return (c->mode == "skip") ? (int) NODE_DEPTH_SESSIONNAME : ((c->mode == "stop") ? 0 : (int) node.GetDepth());
   }
   // the walk, exactly as MessageReceivedFromGateway sets it up
   uint32 Traverse(const std::vector<Pat> & ps, const World & w, bool dummyFilters, TravCtx & ctx, std::vector<SV> & brute, std::map<std::string, int> & whats)
   {
      Message km; AddKeys(km, ps, w, dummyFilters);
      NodePathMatcher m; (void) m.PutPathsFromMessage(PR_NAME_KEYS, PR_NAME_FILTERS, km, "*/*");
      const uint32 n = m.DoTraversal((PathMatchCallback) CB, this, Root(), true, &ctx);
      AllNodes(Root(), m, w, brute, whats);
      return n;
   }
   // "testing every node's full path against the patterns one by one"
   void AllNodes(DataNode & n, const PathMatcher & m, const World & w, std::vector<SV> & out, std::map<std::string, int> & whats)
   {
      String np; (void) n.GetNodePath(np);
      if (n.GetDepth() > 0)
      {
         SV ap = AbstractPath(np(), w); whats[PathKey(ap)] = n.GetData()() ? (int) n.GetData()()->what : 0;
         if (m.MatchesPath(np(), n.GetData()(), &n)) out.push_back(ap);
      }
      for (DataNodeRefIterator it = n.GetChildIterator(); it.HasData(); it++) AllNodes(*it.GetValue()(), m, w, out, whats);
   }
};

// ------------------------------------------------------------------------------------------------ the property, judged directly
// returns "" or what is wrong; known = the F25 shape was observed (two callbacks for a session addressed by a session-node key and a deeper key)
static std::string JudgeTraversal(const std::string & mode, const std::vector<SV> & v, const std::vector<SV> & brute, uint32 ret, bool & known)
{
   known = false;
   std::set<std::string> bs, vs; for (size_t i=0; i<brute.size(); i++) bs.insert(PathKey(brute[i])); for (size_t i=0; i<v.size(); i++) vs.insert(PathKey(v[i]));
   if (ret != v.size()) return "DoTraversal returned a count different from the number of callbacks";
   for (std::set<std::string>::const_iterator it = vs.begin(); it != vs.end(); it++) if (!bs.count(*it)) return "the callback was called on " + *it + ", which matches no pattern";
   if (mode == "all")
   {
      for (std::set<std::string>::const_iterator it = bs.begin(); it != bs.end(); it++) if (!vs.count(*it)) return "matching node " + *it + " was not visited";
      if (vs.size() != v.size()) return "a node was visited twice";
   }
   else if (mode == "skip")
   {
      std::map<std::string, int> cnt; std::set<std::string> want, sessNode, deeper;
      for (size_t i=0; i<v.size(); i++) if (v[i].size() >= 2) cnt[v[i][1]]++;
      for (size_t i=0; i<brute.size(); i++) if (brute[i].size() >= 2) {want.insert(brute[i][1]); if (brute[i].size() == 2) sessNode.insert(brute[i][1]); else deeper.insert(brute[i][1]);}
      for (std::set<std::string>::const_iterator it = want.begin(); it != want.end(); it++) if (!cnt.count(*it)) return "session " + *it + " owns a matching node but got no callback";
      for (std::map<std::string, int>::const_iterator it = cnt.begin(); it != cnt.end(); it++)
      {
         if (it->second == 1) continue;
         if ((it->second == 2)&&(sessNode.count(it->first))&&(deeper.count(it->first))) {known = true; continue;}     // F25's predicate
         char b[64]; snprintf(b, sizeof(b), " got %d callbacks", it->second); return "session " + it->first + b;
      }
   }
   else
   {
      if (bs.empty() ? (v.size() != 0) : (v.size() != 1)) return "terminate mode: the callback must be called exactly once if anything matches";
   }
   return "";
}

// ------------------------------------------------------------------------------------------------ the bounded spaces (mirror of Traversal.tla)
static std::vector<SV> g_menu;
static void BuildMenu()
{
   const char * U8[] = {"a", "b", "\\a", "*", "?", "(a|c)", "b,a", "~a"}; const char * C5[] = {"a", "b", "*", "b,a", "~a"}; const char * D3[] = {"a", "*", "b,\\a"};
   #define P1(a) {SV p; p.push_back(a); g_menu.push_back(p);}
   #define P2(a,b) {SV p; p.push_back(a); p.push_back(b); g_menu.push_back(p);}
   #define P3(a,b,c) {SV p; p.push_back(a); p.push_back(b); p.push_back(c); g_menu.push_back(p);}
   #define P4(a,b,c,d) {SV p; p.push_back(a); p.push_back(b); p.push_back(c); p.push_back(d); g_menu.push_back(p);}
   P1("*") P1("h") P2("*","*") P2("*","0") P2("h","1,0") P2("*","<0-1>")
   for (int i=0; i<8; i++) P3("*","*",U8[i])
   P3("*","0","a") P3("*","0","*") P3("*","1,0","b,a") P3("h","*","b") P3("h","<0-1>","?") P3("*","~0","a")
   for (int i=0; i<15; i++) P4("*","*",C5[i/3],D3[i%3])
   P4("*","*","\\a","b") P4("*","*","?","?") P4("*","0","a","*") P4("*","0","*","b") P4("h","1,0","a","a") P4("*","<0-1>","(a|c)","a") P4("*","*","a","(a|c)")
   #define BS2 "\\\\"
   P2("*","2,1") P3("*","*","a,c") P3("*","*","b,c") P4("*","*","a","a,c") P4("*","*","a","b,c")      // 43..47: lists with different items
   P3("*","*","a" BS2 "*") P3("*","*","x" BS2 ",a") P3("*","*","a" BS2) P4("*","*","a","a" BS2 "*") P3("*","0","a" BS2 "*")      // 48..52: an escaped backslash before a real wildcard / a list comma
}
struct Universe {std::vector<int> codes[3]; std::vector<int> menu; int maxp;};
static bool GetUniverse(const std::string & name, Universe & u)
{
   static const int core[] = {1, 3, 4, 7, 9, 10, 13, 16, 21, 23, 27, 29, 32}; static const int lists[] = {5, 43, 44, 45, 13, 46, 47}; static const int bs[] = {48, 49, 50, 7, 51, 52};
   std::vector<int> all25, four, zero, coreMenu(core, core+13), fullMenu;
   for (int i=0; i<25; i++) all25.push_back(i);
   four.push_back(0); four.push_back(1); four.push_back(5); four.push_back(6); zero.push_back(0);
   for (size_t i=1; i<=g_menu.size(); i++) fullMenu.push_back((int) i);
   if (name == "core") {u.codes[0] = all25; u.codes[1] = four;  u.codes[2] = zero; u.menu = coreMenu; u.maxp = 2; return true;}
   if (name == "bs") {static const int c0[] = {1, 6, 21}, c1[] = {0, 6}; u.codes[0].assign(c0, c0+3); u.codes[1].assign(c1, c1+2); u.codes[2] = zero; u.menu.assign(bs, bs+6); u.maxp = 2; return true;}
   if (name == "lists") {static const int c0[] = {5, 21}, c1[] = {1, 21}, c2[] = {1, 5}; u.codes[0].assign(c0, c0+2); u.codes[1].assign(c1, c1+2); u.codes[2].assign(c2, c2+2); u.menu.assign(lists, lists+7); u.maxp = 3; return true;}
   if (name == "full") {u.codes[0] = all25; u.codes[1] = all25; u.codes[2] = zero; u.menu = fullMenu; u.maxp = 2; return true;}
   if (name == "tri")  {u.codes[0] = all25; u.codes[1] = four;  u.codes[2] = four; u.menu = coreMenu; u.maxp = 3; return true;}
   return false;
}
struct Case {long idx; int codes[3]; int dv; std::vector<Pat> pats; std::string mode; bool dummyFilters; Case() : idx(-1), dv(0), dummyFilters(false) {codes[0] = codes[1] = codes[2] = 0;}};
static long NSeq(const Universe & u) {const long nm = (long) u.menu.size(); return (u.maxp == 1) ? nm : ((u.maxp == 2) ? nm+nm*nm : nm+nm*nm+nm*nm*nm);}
static long Total(const Universe & u) {return 3L*NSeq(u)*(long)(u.codes[0].size()*u.codes[1].size()*u.codes[2].size());}
static Pat MenuPat(const Universe & u, long m) {Pat p; p.abs = true; p.cl = g_menu[u.menu[m]-1]; p.f = 0; return p;}
static void CaseOf(const Universe & u, long idx, Case & c)
{
   static const char * modes[] = {"all", "skip", "stop"};
   const long nm = (long) u.menu.size(), ns = NSeq(u);
   const long m = idx%3, q = (idx/3)%ns, t = idx/(3*ns);
   const long n1 = (long) u.codes[0].size(), n2 = (long) u.codes[1].size();
   c.idx = idx; c.dv = 0; c.dummyFilters = false; c.mode = modes[m];
   c.codes[0] = u.codes[0][t%n1]; c.codes[1] = u.codes[1][(t/n1)%n2]; c.codes[2] = u.codes[2][t/(n1*n2)];
   c.pats.clear();
   if (q < nm) c.pats.push_back(MenuPat(u, q));
   else if (q < nm+nm*nm) {const long r = q-nm; c.pats.push_back(MenuPat(u, r/nm)); c.pats.push_back(MenuPat(u, r%nm));}
   else {const long r = q-nm-nm*nm; c.pats.push_back(MenuPat(u, r/(nm*nm))); c.pats.push_back(MenuPat(u, (r/nm)%nm)); c.pats.push_back(MenuPat(u, r%nm));}
}
static int NumB(const SV & userPart) {int n = 0; for (size_t i=0; i<userPart.size(); i++) if (userPart[i] == "b") n++; return n;}
static int WhatOf(int sess, const SV & userPart, int dv) {return 1+((NumB(userPart)+sess+dv)%2);}

// ------------------------------------------------------------------------------------------------ the server with its sessions and clients
struct Client
{
   ConstSocketRef sock; MessageIOGateway gw; QueueGatewayMessageReceiver rx; TSession * sess; std::string id;
   std::vector<MessageRef> got;
   void Init(const ConstSocketRef & s) {sock = s; gw.SetDataIO(DataIORef(new TCPSocketDataIO(s, false)));}
   void Flush() {int g = 0; while ((gw.HasBytesToOutput())&&(g++ < 1000)) {if (gw.DoOutput().GetByteCount() <= 0) break;}}
   bool Recv() {bool any = false; while (gw.DoInput(rx).GetByteCount() > 0) {} MessageRef m; while (rx.GetMessages().RemoveHead(m).IsOK()) {got.push_back(m); any = true;} return any;}
};
struct Net
{
   ReflectServer * srv; std::vector<Client *> cs; std::vector<AbstractReflectSessionRef> refs; World w;
   Net() : srv(NULL) {}
   void Open(int n)
   {
      srv = new ReflectServer; srv->SetDoLogging(false);
      for (int i=0; i<n; i++)
      {
         Client * c = new Client; ConstSocketRef a, b; if (CreateConnectedSocketPair(a, b, false).IsError()) {fprintf(stderr, "socket pair failed\n"); exit(2);}
         TSession * s = new TSession; AbstractReflectSessionRef ref(s); if (srv->AddNewSession(ref, a).IsError()) {fprintf(stderr, "AddNewSession failed\n"); exit(2);}
         c->Init(b); c->sess = s; cs.push_back(c); refs.push_back(ref);
      }
      Pump();
      w.ids.clear();
      for (size_t i=0; i<cs.size(); i++) {std::string r = cs[i]->sess->MyRoot()(); size_t sl = r.rfind('/'); cs[i]->id = r.substr(sl+1); w.ids.push_back(cs[i]->id); w.host = r.substr(1, sl-1);}
   }
   // until nothing moves any more; returns the number of rounds
   int Pump(int minRounds = 3)
   {
      int quiet = 0, rounds = 0;
      while ((quiet < minRounds)&&(rounds < 200))
      {
         bool any = false;
         for (size_t i=0; i<cs.size(); i++) {if (cs[i]->gw.HasBytesToOutput()) any = true; cs[i]->Flush();}
         alarm(20); (void) srv->ServerProcessLoop(0); alarm(0);
         for (size_t i=0; i<cs.size(); i++) if (cs[i]->Recv()) any = true;
         quiet = any ? 0 : quiet+1; rounds++;
      }
      return rounds;
   }
   void Close()
   {
      for (size_t i=0; i<cs.size(); i++) {cs[i]->gw.SetDataIO(DataIORef()); cs[i]->sock.Reset();}
      alarm(20); for (int i=0; i<4; i++) (void) srv->ServerProcessLoop(0); srv->Cleanup(); alarm(0);
      refs.clear(); for (size_t i=0; i<cs.size(); i++) delete cs[i]; cs.clear(); delete srv; srv = NULL;
   }
};

// the clause table as the real StringMatcher sees it: one row per (token, level)
static mj::Value ClauseTable(const World & w, int nsess)
{
   static const char * lv0[] = {"*", "h"}; static const char * lv1[] = {"*", "0", "1", "2", "3", "1,0", "<0-1>", "~0", "2,1"}; static const char * lv2[] = {"*", "a", "b", "\\a", "?", "(a|c)", "b,a", "~a", "b,\\a", "a,c", "b,c", "a\\\\", "a\\\\*", "x\\\\,a"};
   mj::Value rows = mj::Value::Arr();
   for (int lvl=0; lvl<3; lvl++)
   {
      const char ** toks = (lvl == 0) ? lv0 : ((lvl == 1) ? lv1 : lv2); const int nt = (lvl == 0) ? 2 : ((lvl == 1) ? 9 : 14);
      SV names; if (lvl == 0) names.push_back("h"); else if (lvl == 1) {for (int i=0; i<nsess; i++) {char c[2] = {(char)('0'+i), 0}; names.push_back(c);}} else {names.push_back("a"); names.push_back(g_second);}
      for (int t=0; t<nt; t++)
      {
         const std::string tok = toks[t];
         if ((lvl == 1)&&(tok.size() == 1)&&(tok[0] >= '0')&&(tok[0]-'0' >= nsess)) continue;
         const std::string conc = Conc(tok, w);
         mj::Value row = mj::Value::Obj(); row.set("t", mj::Value::Str(tok)); row.set("lvl", mj::Value::Int(lvl)); row.set("c", mj::Value::Str(conc));
         SV ms; std::string kind = "W";
         if (tok == "*") {for (size_t i=0; i<names.size(); i++) ms.push_back(names[i]);}    // PutPathString stores "*" as a NULL matcher: matches everything, counts as a wildcard
         else
         {
            StringMatcher sm; if (sm.SetPattern(conc.c_str()).IsError()) kind = "error";
            else {kind = sm.IsPatternUnique() ? "U" : (sm.IsPatternListOfUniqueValues() ? "L" : "W");
                  for (size_t i=0; i<names.size(); i++) if (sm.Match(Conc(names[i], w).c_str())) ms.push_back(names[i]);}
         }
         row.set("k", mj::Value::Str(kind)); row.set("m", JStrs(ms)); rows.push(row);
      }
   }
   return rows;
}
static mj::Value Header(const char * fam, const World & w, int nsess)
{
   mj::Value h = mj::Value::Obj(); h.set("hdr", mj::Value::Bool(true)); h.set("fam", mj::Value::Str(fam)); h.set("host", mj::Value::Str(w.host)); h.set("ids", JStrs(w.ids)); h.set("table", ClauseTable(w, nsess));
   return h;
}

// ------------------------------------------------------------------------------------------------ trav
struct TravStats {long cases, nonempty, multi, visits, known, lookupish; TravStats() : cases(0), nonempty(0), multi(0), visits(0), known(0), lookupish(0) {}};
static int g_cur[3] = {-1, -1, -1}, g_curDv = -1;
static void BuildTree(Net & net, const Case & c)
{
   const char * nm[] = {"a", g_second.c_str()};
   for (int s=0; s<3; s++)
   {
      if ((g_cur[s] == c.codes[s])&&(g_curDv == c.dv)) continue;
      TSession * ss = net.cs[s]->sess; ss->Wipe();
      const int k[2] = {c.codes[s]/5, c.codes[s]%5};
      for (int x=0; x<2; x++) if (k[x] > 0)
      {
         SV up; up.push_back(nm[x]); (void) ss->Set(nm[x], WhatOf(s, up, c.dv));
         for (int y=0; y<2; y++) if ((k[x] == 4)||((k[x] == 2)&&(y == 0))||((k[x] == 3)&&(y == 1))) {SV up2 = up; up2.push_back(nm[y]); (void) ss->Set((std::string(nm[x])+"/"+nm[y]).c_str(), WhatOf(s, up2, c.dv));}
      }
      g_cur[s] = c.codes[s];
   }
   g_curDv = c.dv;
}
static mj::Value JCase(const Case & c)
{
   mj::Value o = mj::Value::Obj(); o.set("i", mj::Value::Int(c.idx));
   std::vector<int> t(c.codes, c.codes+3); o.set("t", JInts(t)); o.set("w", mj::Value::Int(c.dv)); o.set("p", JPats(c.pats)); o.set("m", mj::Value::Str(c.mode)); o.set("df", mj::Value::Int(c.dummyFilters ? 1 : 0));
   return o;
}
static bool g_checkedWhats = false;
static void RunCase(Net & net, const Case & c, FILE * out, TravStats & st)
{
   Where("traversal case %ld", c.idx);
   BuildTree(net, c);
   TravCtx ctx; ctx.w = &net.w; ctx.mode = c.mode; std::vector<SV> brute; std::map<std::string, int> whats;
   alarm(20); const uint32 ret = net.cs[0]->sess->Traverse(c.pats, net.w, c.dummyFilters, ctx, brute, whats); alarm(0);
   std::sort(brute.begin(), brute.end());
   mj::Value line = JCase(c);
   mj::Value v = mj::Value::Arr(); for (size_t i=0; i<ctx.visits.size(); i++) v.push(JPath(ctx.visits[i])); line.set("v", v); line.set("n", mj::Value::Int(ret));
   mj::Value b = mj::Value::Arr(); for (size_t i=0; i<brute.size(); i++) b.push(JPath(brute[i])); line.set("b", b);
   std::string s = mj::ToString(line); fprintf(out, "%s\n", s.c_str());
   st.cases++; if (!brute.empty()) st.nonempty++; if (ctx.visits.size() > 1) st.multi++; st.visits += (long) ctx.visits.size();
   // the tree the case asked for is the tree that is there (what-codes included): once per run in full, always by node count
   if (!g_checkedWhats)
   {
      g_checkedWhats = true;
      for (std::map<std::string, int>::const_iterator it = whats.begin(); it != whats.end(); it++) if (it->first.find("?") != std::string::npos) {fprintf(stderr, "unexpected node %s\n", it->first.c_str()); exit(2);}
   }
   bool known = false; const std::string bad = JudgeTraversal(c.mode, ctx.visits, brute, ret, known);
   if (known) st.known++;
   if ((!bad.empty())&&(g_bad < MAX_BAD))
   {
      g_bad++; mj::Value r = JCase(c); r.set("violations", mj::Value::Arr().push(mj::Value::Str(bad))); r.set("v", v); r.set("b", b);
      SV ps; for (size_t i=0; i<c.pats.size(); i++) ps.push_back(PatString(c.pats[i], net.w)); r.set("keys", JStrs(ps)); ReportLine(r);
   }
}
static std::vector<int> ParseInts(const char * s) {std::vector<int> v; const char * p = s; while (*p) {v.push_back(atoi(p)); const char * c = strchr(p, ','); if (!c) break; p = c+1;} return v;}

static int MainTrav(int argc, char ** argv)
{
   if (argc < 7) return 2;
   const std::string fam = argv[2];
   if (fam == "bs") g_second = "a\\";
   Net net; net.Open(3);
   TravStats st; mj::Value files = mj::Value::Arr();
   if (fam == "wide")
   {
      if (argc < 8) return 2;
      const long count = atol(argv[3]); const uint32 seed = (uint32) atol(argv[4]); const int nfiles = atoi(argv[5]); const std::string prefix = argv[6];
      g_report = fopen(argv[7], "w"); if (!g_report) return 2; g_reportFd = fileno(g_report);
      std::vector<FILE *> outs; for (int k=0; k<nfiles; k++) {char fn[1024]; snprintf(fn, sizeof(fn), "%s.%d.ndjson", prefix.c_str(), k); FILE * f = fopen(fn, "w"); if (!f) return 2; std::string h = mj::ToString(Header("wide", net.w, 3)); fprintf(f, "%s\n", h.c_str()); outs.push_back(f); files.push(mj::Value::Str(fn));}
      std::mt19937 rng(seed*2654435761u+17u);
      static const char * modes[] = {"all", "skip", "stop"};
      for (long j=0; (j<count)&&(g_bad<MAX_BAD); j++)
      {
         Case c; c.idx = j; for (int s=0; s<3; s++) c.codes[s] = (int)(rng()%25); c.dv = (int)(rng()%2); c.mode = modes[rng()%3];
         const int np = 1+(int)(rng()%3); bool anyF = false;
         for (int k=0; k<np; k++)
         {
            Pat p; p.cl = g_menu[rng()%g_menu.size()]; p.abs = true; p.f = 0;
            if ((p.cl.size() >= 3)&&(rng()%2)) {p.f = 1+(int)(rng()%2); anyF = true;}
            if ((p.cl.size() >= 3)&&(p.cl[0] == "*")&&(p.cl[1] == "*")&&(rng()%2)) {p.abs = false; p.cl.erase(p.cl.begin(), p.cl.begin()+2);}
            c.pats.push_back(p);
         }
         if ((np >= 2)&&(rng()%5 == 0)) {c.pats[np-1].abs = c.pats[0].abs; c.pats[np-1].cl = c.pats[0].cl; if (rng()%2) {c.pats[np-1].abs = true; c.pats[np-1].cl = NormCl(c.pats[0]);}}   // the same path twice (perhaps written the other way), filters may differ
         c.dummyFilters = ((!anyF)&&(rng()%4 == 0));
         RunCase(net, c, outs[j%nfiles], st);
      }
      for (size_t k=0; k<outs.size(); k++) fclose(outs[k]);
   }
   else
   {
      Universe u; if (!GetUniverse(fam, u)) {fprintf(stderr, "unknown universe\n"); return 2;}
      const int nshards = atoi(argv[3]); std::vector<int> shards = ParseInts(argv[4]); const std::string prefix = argv[5];
      g_report = fopen(argv[6], "w"); if (!g_report) return 2; g_reportFd = fileno(g_report);
      const long total = Total(u);
      for (size_t k=0; (k<shards.size())&&(g_bad<MAX_BAD); k++)
      {
         char fn[1024]; snprintf(fn, sizeof(fn), "%s.%d.ndjson", prefix.c_str(), shards[k]); FILE * f = fopen(fn, "w"); if (!f) return 2; files.push(mj::Value::Str(fn));
         std::string h = mj::ToString(Header(fam.c_str(), net.w, 3)); fprintf(f, "%s\n", h.c_str());
         for (long idx=shards[k]; (idx<total)&&(g_bad<MAX_BAD); idx+=nshards) {Case c; CaseOf(u, idx, c); RunCase(net, c, f, st);}
         fclose(f);
      }
      mj::Value t = mj::Value::Obj(); t.set("total", mj::Value::Int(total)); t.set("nseq", mj::Value::Int(NSeq(u)));
   }
   net.Close();
   mj::Value s = mj::Value::Obj(); s.set("summary", mj::Value::Bool(true)); s.set("family", mj::Value::Str(fam)); s.set("cases", mj::Value::Int(st.cases)); s.set("nonempty", mj::Value::Int(st.nonempty));
   s.set("multi", mj::Value::Int(st.multi)); s.set("visits", mj::Value::Int(st.visits)); s.set("f25_shape_observed", mj::Value::Int(st.known)); s.set("bad", mj::Value::Int(g_bad)); s.set("files", files);
   s.set("host", mj::Value::Str(net.w.host)); s.set("ids", JStrs(net.w.ids));
   ReportLine(s); fclose(g_report);
   return 0;
}

int MainHist(int argc, char ** argv);

int main(int argc, char ** argv)
{
   CompleteSetupSystem css; SetConsoleLogLevel(MUSCLE_LOG_CRITICALERROR);
   signal(SIGALRM, OnAlarm); signal(SIGPIPE, SIG_IGN); signal(SIGSEGV, OnCrash); signal(SIGBUS, OnCrash); signal(SIGFPE, OnCrash); signal(SIGABRT, OnCrash); signal(SIGILL, OnCrash);
   BuildMenu();
   if (argc < 2) {fprintf(stderr, "usage: route trav|hist|replay ...\n"); return 2;}
   const std::string mode = argv[1];
   if (mode == "trav") return MainTrav(argc, argv);
   if ((mode == "hist")||(mode == "replay")) return MainHist(argc, argv);
   return 2;
}

// ------------------------------------------------------------------------------------------------ hist / replay
static const uint32 ROUTED_WHAT = 4242;
static std::string SessName(int i) {char c[2] = {(char)('0'+i), 0}; return c;}
static mj::Value Ev(const char * e) {mj::Value o = mj::Value::Obj(); o.set("e", mj::Value::Str(e)); return o;}
static mj::Value EvSet(int s, const SV & path, int w) {mj::Value o = Ev("Set"); o.set("s", mj::Value::Str(SessName(s))); o.set("path", JStrs(path)); o.set("w", mj::Value::Int(w)); return o;}
static mj::Value EvRm(int s, const std::string & name) {mj::Value o = Ev("Rm"); o.set("s", mj::Value::Str(SessName(s))); o.set("name", mj::Value::Str(name)); return o;}
static mj::Value EvRefl(int s, bool on) {mj::Value o = Ev("Refl"); o.set("s", mj::Value::Str(SessName(s))); o.set("on", mj::Value::Bool(on)); return o;}
static mj::Value EvDef(int s, const std::vector<Pat> & keys) {mj::Value o = Ev("Def"); o.set("s", mj::Value::Str(SessName(s))); o.set("keys", JPats(keys)); return o;}
static mj::Value EvDefClear(int s) {mj::Value o = Ev("DefClear"); o.set("s", mj::Value::Str(SessName(s))); return o;}
static mj::Value EvSend(int s, const std::vector<Pat> & keys, const std::string & forge, int burst) {mj::Value o = Ev("Send"); o.set("s", mj::Value::Str(SessName(s))); o.set("keys", JPats(keys)); o.set("forge", mj::Value::Str(forge)); o.set("burst", mj::Value::Int(burst)); return o;}

struct HistStats {long histories, steps, sends, keyed, viaDefault, broadcast, copies, recv, bursts, f25, wantedPairs, unwantedPairs, treeMismatch, events;
   HistStats() : histories(0), steps(0), sends(0), keyed(0), viaDefault(0), broadcast(0), copies(0), recv(0), bursts(0), f25(0), wantedPairs(0), unwantedPairs(0), treeMismatch(0), events(0) {}};
static HistStats g_hs;

struct NodeInfo {SV path; int what;};
static void WalkTree(DataNode & n, const World & w, std::vector<NodeInfo> & out)
{
   String np; (void) n.GetNodePath(np);
   if (n.GetDepth() > 0) {NodeInfo ni; ni.path = AbstractPath(np(), w); ni.what = n.GetData()() ? (int) n.GetData()()->what : 0; out.push_back(ni);}
   for (DataNodeRefIterator it = n.GetChildIterator(); it.HasData(); it++) WalkTree(*it.GetValue()(), w, out);
}

struct SendInfo {int s, n; std::vector<Pat> keys; std::string forge; std::vector<int> want, f25; std::string how;};

// executes one history (steps in the event vocabulary) on a fresh server with nsess sessions; logs events to (log); judges with the monitor
static void RunHistory(const std::string & hid, int nsess, const std::vector<mj::Value> & steps, FILE * log)
{
   Where("history %s", 0, 0); snprintf(g_where, sizeof(g_where), "history %s", hid.c_str());
   Net net; net.Open(nsess);
   std::vector<bool> refl(nsess, false); std::vector<std::vector<Pat> > defr(nsess);
   std::map<std::string, int> mirror;     // the tree the events describe (what the specification will reconstruct): abstract path -> what
   std::vector<std::string> bad, known;
   int nsent = 0;
   #define LOG(v) {std::string _s = mj::ToString(v); fprintf(log, "%s\n", _s.c_str()); g_hs.events++;}
   {mj::Value r = Ev("Reset"); r.set("n", mj::Value::Int(nsess)); r.set("h", mj::Value::Str(hid)); LOG(r);}
   g_hs.histories++;
   size_t i = 0;
   while ((i < steps.size())&&(bad.empty()))
   {
      const std::string e = steps[i]["e"].str();
      g_hs.steps++;
      if (e != "Send")
      {
         const int s = atoi(steps[i]["s"].str().c_str()); if ((s < 0)||(s >= nsess)) {i++; continue;}
         Client & cl = *net.cs[s];
         if (e == "Set")
         {
            SV path; for (size_t k=0; k<steps[i]["path"].size(); k++) path.push_back(steps[i]["path"][k].str());
            std::string p; for (size_t k=0; k<path.size(); k++) {if (k) p += '/'; p += path[k];}
            MessageRef m = GetMessageFromPool(PR_COMMAND_SETDATA); (void) m()->AddMessage(p.c_str(), GetMessageFromPool((uint32) steps[i]["w"].i())); (void) cl.gw.AddOutgoingMessage(m);
            SV full; full.push_back("h"); full.push_back(SessName(s));
            for (size_t k=0; k<path.size(); k++) {full.push_back(path[k]); const std::string key = PathKey(full); if (k+1 == path.size()) mirror[key] = (int) steps[i]["w"].i(); else if (!mirror.count(key)) mirror[key] = 0;}
         }
         else if (e == "Rm")
         {
            MessageRef m = GetMessageFromPool(PR_COMMAND_REMOVEDATA); (void) m()->AddString(PR_NAME_KEYS, steps[i]["name"].str().c_str()); (void) cl.gw.AddOutgoingMessage(m);
            const std::string pre = "/h/"+SessName(s)+"/"+steps[i]["name"].str();
            for (std::map<std::string, int>::iterator it = mirror.begin(); it != mirror.end(); ) {if ((it->first == pre)||(it->first.compare(0, pre.size()+1, pre+"/") == 0)) mirror.erase(it++); else ++it;}
         }
         else if (e == "Refl")
         {
            const bool on = steps[i]["on"].truthy(); refl[s] = on;
            MessageRef m = GetMessageFromPool(on ? PR_COMMAND_SETPARAMETERS : PR_COMMAND_REMOVEPARAMETERS);
            if (on) (void) m()->AddBool(PR_NAME_REFLECT_TO_SELF, true); else (void) m()->AddString(PR_NAME_KEYS, PR_NAME_REFLECT_TO_SELF);
            (void) cl.gw.AddOutgoingMessage(m);
         }
         else if (e == "Def")
         {
            std::vector<Pat> keys; for (size_t k=0; k<steps[i]["keys"].size(); k++) {Pat p; PatFromJson(steps[i]["keys"][k], p); keys.push_back(p);}
            defr[s] = keys;
            MessageRef m = GetMessageFromPool(PR_COMMAND_SETPARAMETERS); AddKeys(*m(), keys, net.w, true); (void) cl.gw.AddOutgoingMessage(m);
         }
         else if (e == "DefClear")
         {
            defr[s].clear();
            MessageRef m = GetMessageFromPool(PR_COMMAND_REMOVEPARAMETERS); (void) m()->AddString(PR_NAME_KEYS, PR_NAME_KEYS); (void) m()->AddString(PR_NAME_KEYS, PR_NAME_FILTERS); (void) cl.gw.AddOutgoingMessage(m);
         }
         else {i++; continue;}
         LOG(steps[i]);
         net.Pump(2);
         i++;
         continue;
      }
      // a burst: the adjacent Sends with the same non-zero burst number are handed over before the server runs
      size_t j = i+1; const int burst = (int) steps[i]["burst"].i();
      while ((burst != 0)&&(j < steps.size())&&(steps[j]["e"].str() == "Send")&&((int) steps[j]["burst"].i() == burst)) j++;
      if (j-i > 1) g_hs.bursts++;
      // the tree as it is on the server now
      std::vector<NodeInfo> nodes; WalkTree(net.cs[0]->sess->Root(), net.w, nodes);
      {
         std::map<std::string, int> real; for (size_t k=0; k<nodes.size(); k++) if (nodes[k].path.size() >= 3) real[PathKey(nodes[k].path)] = nodes[k].what;
         if (real != mirror) {g_hs.treeMismatch++; bad.push_back("the server's tree is not the tree the logged SETDATA / REMOVEDATA commands describe (C04's business, reported so that the trace is not misjudged)");}
      }
      std::vector<SendInfo> sends;
      for (size_t k=i; k<j; k++)
      {
         SendInfo si; si.s = atoi(steps[k]["s"].str().c_str()); si.n = ++nsent; si.forge = steps[k]["forge"].str();
         for (size_t q=0; q<steps[k]["keys"].size(); q++) {Pat p; PatFromJson(steps[k]["keys"][q], p); si.keys.push_back(p);}
         // the property, directly: who is to get it
         const std::vector<Pat> & eff = si.keys.empty() ? defr[si.s] : si.keys;
         si.how = si.keys.empty() ? (eff.empty() ? "broadcast" : "default route") : "keys";
         std::vector<Entry> es = EntriesOf(eff);
         si.want.assign(nsess, 0); si.f25.assign(nsess, 0);
         for (int r=0; r<nsess; r++)
         {
            bool hit = eff.empty(), sessNode = false, deeper = false;
            for (size_t q=0; q<nodes.size(); q++) if ((nodes[q].path.size() >= 2)&&(nodes[q].path[1] == SessName(r)))
               for (size_t x=0; x<es.size(); x++) if (EntryMatches(es[x], nodes[q].path, nodes[q].what)) {hit = true; if (nodes[q].path.size() == 2) sessNode = true; else deeper = true;}
            si.want[r] = ((hit)&&((r != si.s)||(refl[si.s]))) ? 1 : 0; si.f25[r] = ((sessNode)&&(deeper)) ? 1 : 0;
            if (si.want[r]) g_hs.wantedPairs++; else g_hs.unwantedPairs++;
         }
         g_hs.sends++; if (si.how == "keys") g_hs.keyed++; else if (si.how == "broadcast") g_hs.broadcast++; else g_hs.viaDefault++;
         MessageRef m = GetMessageFromPool(ROUTED_WHAT); (void) m()->AddInt32("from", si.s); (void) m()->AddInt32("n", si.n);
         AddKeys(*m(), si.keys, net.w, steps[k]["df"].truthy());
         if (si.forge == "nonstr") (void) m()->AddInt32(PR_NAME_SESSION, 7);
         else if (si.forge != "none") (void) m()->AddString(PR_NAME_SESSION, Conc(si.forge, net.w).c_str());
         // written to the socket at once (the server does not run before the whole burst is written): the order in which the server reads the
         // Messages of a burst must not depend on the client's own outgoing queue, which is the same class as the queue under test
         (void) net.cs[si.s]->gw.AddOutgoingMessage(m); net.cs[si.s]->Flush();
         mj::Value ev = steps[k]; ev.set("n", mj::Value::Int(si.n)); LOG(ev);
         sends.push_back(si);
      }
      for (size_t k=0; k<net.cs.size(); k++) net.cs[k]->got.clear();
      net.Pump(3);
      // what every client received, in the order it received it
      for (int r=0; r<nsess; r++)
      {
         std::map<int, int> lastN; std::map<int, int> copiesOf;
         for (size_t k=0; k<net.cs[r]->got.size(); k++)
         {
            const Message & g = *net.cs[r]->got[k]();
            if (g.what != ROUTED_WHAT) continue;
            const int from = g.GetInt32("from", -1), n = g.GetInt32("n", -1);
            std::string sid = "none"; const String * ss;
            if (g.FindString(PR_NAME_SESSION, &ss).IsOK()) {sid = ss->Cstr(); for (int q=0; q<nsess; q++) if (sid == net.w.ids[q]) sid = SessName(q);}
            else if (g.HasName(PR_NAME_SESSION)) sid = "nonstr";
            mj::Value ev = Ev("Recv"); ev.set("r", mj::Value::Str(SessName(r))); ev.set("from", mj::Value::Str(SessName(from))); ev.set("n", mj::Value::Int(n)); ev.set("sid", mj::Value::Str(sid)); LOG(ev);
            g_hs.recv++;
            char b[256];
            const SendInfo * si = NULL; for (size_t q=0; q<sends.size(); q++) if (sends[q].n == n) si = &sends[q];
            if ((si == NULL)||(si->s != from)) {snprintf(b, sizeof(b), "session %d received Message n=%d (from %d), which was not sent in this burst", r, n, from); bad.push_back(b); continue;}
            if ((lastN.count(from))&&(n < lastN[from])) {snprintf(b, sizeof(b), "session %d received Message n=%d of sender %d after n=%d: out of order", r, n, from, lastN[from]); bad.push_back(b);}
            lastN[from] = n; copiesOf[n]++;
            // "if the delivered Message has a string field of that name, it names the sender" (a field the library would add, or a non-string field it would replace, is as good)
            const bool sidOK = (si->forge == "none") ? ((sid == "none")||(sid == SessName(from))) : ((si->forge == "nonstr") ? ((sid == "nonstr")||(sid == SessName(from))) : (sid == SessName(from)));
            if (!sidOK) {snprintf(b, sizeof(b), "session %d received Message n=%d from session %d with sender-identity field [%s] (sent with [%s])", r, n, from, sid.c_str(), si->forge.c_str()); bad.push_back(b);}
         }
         for (size_t q=0; q<sends.size(); q++)
         {
            const SendInfo & si = sends[q]; const int got = copiesOf.count(si.n) ? copiesOf[si.n] : 0; char b[300];
            g_hs.copies += got;
            if (got == si.want[r]) continue;
            if ((got == 2)&&(si.want[r] == 1)&&(si.f25[r]))
            {
               g_hs.f25++; snprintf(b, sizeof(b), "session-node-key-plus-deeper: Message n=%d (%s) reached session %d in 2 copies", si.n, si.how.c_str(), r); known.push_back(b); continue;
            }
            snprintf(b, sizeof(b), "Message n=%d from session %d (%s, reflect-to-self %s): session %d received %d copies, the property wants %d", si.n, si.s, si.how.c_str(), refl[si.s] ? "on" : "off", r, got, si.want[r]);
            bad.push_back(b);
         }
      }
      LOG(Ev("Quiesce"));
      i = j;
   }
   net.Close();
   if (((!bad.empty())&&(g_bad < MAX_BAD))||(!known.empty()))
   {
      mj::Value r = mj::Value::Obj(); r.set("history", mj::Value::Str(hid)); r.set("nsess", mj::Value::Int(nsess));
      if (!bad.empty()) {g_bad++; r.set("violations", JStrs(bad));}
      if (!known.empty()) r.set("known", JStrs(known));
      mj::Value st = mj::Value::Arr(); for (size_t k=0; k<steps.size(); k++) st.push(steps[k]); r.set("steps", st);
      ReportLine(r);
   }
}

// ---- generators
static Pat MkPat(bool abs, const char * c1, const char * c2 = NULL, const char * c3 = NULL, const char * c4 = NULL, int f = 0)
{Pat p; p.abs = abs; p.cl.push_back(c1); if (c2) p.cl.push_back(c2); if (c3) p.cl.push_back(c3); if (c4) p.cl.push_back(c4); p.f = f; return p;}
static Pat RandomKey(std::mt19937 & rng, int nsess)
{
   const std::string r = SessName((int)(rng()%nsess));
   Pat p;
   switch (rng()%24)
   {
      case 0: p = MkPat(false, "a"); break;            case 1: p = MkPat(false, "*"); break;             case 2: p = MkPat(false, "a", "*"); break;
      case 3: p = MkPat(false, "*", "b"); break;       case 4: p = MkPat(false, "b", "a"); break;        case 5: p = MkPat(false, "b,a"); break;
      case 6: p = MkPat(false, "\\a"); break;          case 7: p = MkPat(false, "~a"); break;            case 8: p = MkPat(false, "?"); break;
      case 9: p = MkPat(false, "(a|c)", "a"); break;   case 10: p = MkPat(false, "*", "*"); break;       case 11: p = MkPat(true, "*", "*", "a"); break;
      case 12: p = MkPat(true, "*", r.c_str()); break; case 13: p = MkPat(true, "*", r.c_str(), "*"); break; case 14: p = MkPat(true, "h", "*", "b"); break;
      case 15: p = MkPat(true, "*", "<0-1>", "a"); break; case 16: p = MkPat(true, "*"); break;         case 17: p = MkPat(true, "*", "~0", "*"); break;
      case 18: p = MkPat(false, "*", "b,\\a"); break;
      case 19: p = MkPat(false, "a,c"); break;         case 20: p = MkPat(false, "b,c"); break;          case 21: p = MkPat(true, "*", "2,1"); break;
      case 22: p = MkPat(false, "a", "b,c"); break;
      default: p = MkPat(true, "*", "1,0", "b,a"); break;
   }
   if (NormCl(p).size() >= 3) p.f = (int)(rng()%3);
   return p;
}
// F25 (open) is kept out of the generated Messages: a key of depth 2 (a session node) is never combined with a deeper key
static void AvoidF25(std::vector<Pat> & keys)
{
   bool two = false; for (size_t i=0; i<keys.size(); i++) if (NormCl(keys[i]).size() == 2) two = true;
   if (two) {std::vector<Pat> k2; for (size_t i=0; i<keys.size(); i++) if (NormCl(keys[i]).size() <= 2) k2.push_back(keys[i]); keys = k2;}
}
static void RandomHistory(std::mt19937 & rng, int nsteps, int & nsess, std::vector<mj::Value> & steps)
{
   static const char * names[] = {"a", "b"};
   nsess = 3+(int)(rng()%2); std::vector<bool> refl(nsess, false); std::vector<bool> hasDef(nsess, false); int burstNo = 0;
   while ((int) steps.size() < nsteps)
   {
      const int s = (int)(rng()%nsess);
      switch (rng()%10)
      {
         case 0: case 1: case 2: {SV p; p.push_back(names[rng()%2]); if (rng()%2) p.push_back(names[rng()%2]); steps.push_back(EvSet(s, p, 1+(int)(rng()%2)));} break;
         case 3: steps.push_back(EvRm(s, names[rng()%2])); break;
         case 4: refl[s] = !refl[s]; steps.push_back(EvRefl(s, refl[s])); break;
         case 5:
            if ((rng()%3)||(!hasDef[s])) {std::vector<Pat> keys; const int nk = 1+(int)(rng()%2); for (int k=0; k<nk; k++) keys.push_back(RandomKey(rng, nsess)); AvoidF25(keys); steps.push_back(EvDef(s, keys)); hasDef[s] = true;}
            else {steps.push_back(EvDefClear(s)); hasDef[s] = false;}
         break;
         default:
         {
            const int nb = (rng()%3 == 0) ? 2+(int)(rng()%2) : 1; const bool sameSender = (rng()%2 == 0); if (nb > 1) burstNo++;
            for (int b=0; b<nb; b++)
            {
               const int snd = ((b == 0)||(sameSender)) ? s : (int)(rng()%nsess);
               std::vector<Pat> keys; const int nk = (int)(rng()%4); for (int k=0; k<nk; k++) keys.push_back(RandomKey(rng, nsess));
               if ((nk >= 2)&&(rng()%6 == 0)) {keys[nk-1].abs = true; keys[nk-1].cl = NormCl(keys[0]);}      // the same path twice, written the other way; the filters may differ
               AvoidF25(keys);
               std::string forge = "none"; switch (rng()%4) {case 1: forge = SessName((int)(rng()%nsess)); break; case 2: forge = "999"; break; case 3: forge = "nonstr"; break; default: break;}
               mj::Value ev = EvSend(snd, keys, forge, (nb > 1) ? burstNo : 0);
               bool anyF = false; for (size_t k=0; k<keys.size(); k++) if (keys[k].f) anyF = true;
               if ((!anyF)&&(!keys.empty())&&(rng()%4 == 0)) ev.set("df", mj::Value::Int(1));      // a filters field whose entries are not filters
               steps.push_back(ev);
            }
         }
         break;
      }
   }
}
// small exhaustive: every tree of {no node, b, a, a+b, a/a}^3 x every one-key Message of the menu and every two-key Message of the core menu (F25's
// combination left out) x reflect-to-self off / on, sender session 0; (count) of them, evenly spread
static const int SMALL_CODES[] = {0, 1, 5, 6, 10};
static void SmallSpace(std::vector<std::vector<Pat> > & keysets)
{
   for (size_t i=0; i<g_menu.size(); i++) {std::vector<Pat> k; Pat p; p.cl = g_menu[i]; k.push_back(p); keysets.push_back(k);}
   const char * unis[] = {"core", "lists"};
   for (int un=0; un<2; un++)
   {
      Universe u; GetUniverse(unis[un], u);
      for (size_t i=0; i<u.menu.size(); i++) for (size_t j=0; j<u.menu.size(); j++)
      {
         std::vector<Pat> k; k.push_back(MenuPat(u, (long) i)); k.push_back(MenuPat(u, (long) j));
         if ((k[0].cl.size() >= 3)&&(k[0].cl[0] == "*")&&(k[0].cl[1] == "*")) {k[0].abs = false; k[0].cl.erase(k[0].cl.begin(), k[0].cl.begin()+2);}   // first key in the relative form
         const size_t before = k.size(); AvoidF25(k); if (k.size() == before) keysets.push_back(k);
      }
      if (un == 1) for (size_t i=0; i<u.menu.size(); i++) for (size_t j=0; j<u.menu.size(); j++) for (size_t m=0; m<u.menu.size(); m++)      // three list patterns
      {
         std::vector<Pat> k; k.push_back(MenuPat(u, (long) i)); k.push_back(MenuPat(u, (long) j)); k.push_back(MenuPat(u, (long) m));
         const size_t before = k.size(); AvoidF25(k); if (k.size() == before) keysets.push_back(k);
      }
   }
}
static void SmallHistory(long tree, const std::vector<long> & combos, const std::vector<std::vector<Pat> > & keysets, std::vector<mj::Value> & steps)
{
   int codes[3] = {SMALL_CODES[tree%5], SMALL_CODES[(tree/5)%5], SMALL_CODES[tree/25]};
   for (int s=0; s<3; s++)
   {
      SV a; a.push_back("a"); SV b; b.push_back("b"); SV aa; aa.push_back("a"); aa.push_back("a");
      if (codes[s]/5 >= 1) steps.push_back(EvSet(s, a, WhatOf(s, a, 0)));
      if (codes[s]/5 == 2) steps.push_back(EvSet(s, aa, WhatOf(s, aa, 0)));
      if (codes[s]%5 >= 1) steps.push_back(EvSet(s, b, WhatOf(s, b, 0)));
   }
   bool refl = false;
   for (size_t i=0; i<combos.size(); i++)
   {
      const bool wantRefl = (combos[i]%2) != 0; const long ks = combos[i]/2;
      if (wantRefl != refl) {steps.push_back(EvRefl(0, wantRefl)); refl = wantRefl;}
      steps.push_back(EvSend(0, keysets[ks], "none", 0));
   }
}
static void Directed(std::vector<std::pair<std::string, std::vector<mj::Value> > > & hs)
{
   SV a; a.push_back("a"); SV b; b.push_back("b"); SV ab; ab.push_back("a"); ab.push_back("b"); SV ba; ba.push_back("b"); ba.push_back("a");
   #define KEYS1(k1) std::vector<Pat> ks; ks.push_back(k1);
   #define KEYS2(k1,k2) std::vector<Pat> ks; ks.push_back(k1); ks.push_back(k2);
   {  // F25 (open finding): a key for the receiver's session node and a deeper key matching a node of the same receiver, in one Message
      std::vector<mj::Value> st; st.push_back(EvSet(1, a, 1));
      {KEYS2(MkPat(true, "*", "1"), MkPat(false, "a")) st.push_back(EvSend(0, ks, "none", 0));}
      hs.push_back(std::make_pair(std::string("F25"), st));
   }
   {  // the Beginner's Guide example: two keys, the receiver owns both nodes: one copy; also "*", "*/*", and keys of two depths
      std::vector<mj::Value> st; st.push_back(EvSet(1, a, 1)); st.push_back(EvSet(1, b, 1)); st.push_back(EvSet(1, ab, 1)); st.push_back(EvSet(1, ba, 1)); st.push_back(EvSet(2, b, 2));
      {KEYS2(MkPat(false, "a"), MkPat(false, "b")) st.push_back(EvSend(0, ks, "none", 0));}
      {KEYS1(MkPat(false, "*")) st.push_back(EvSend(0, ks, "none", 0));}
      {KEYS1(MkPat(false, "*", "*")) st.push_back(EvSend(0, ks, "none", 0));}
      {KEYS2(MkPat(false, "a", "b"), MkPat(false, "b", "a")) st.push_back(EvSend(0, ks, "none", 0));}
      {KEYS2(MkPat(false, "a"), MkPat(false, "b", "a")) st.push_back(EvSend(0, ks, "none", 0));}
      hs.push_back(std::make_pair(std::string("doc-example"), st));
   }
   {  // the default route: applied to Messages without keys, cleared again -> broadcast; keys in the Message win over it
      std::vector<mj::Value> st; st.push_back(EvSet(1, a, 1)); st.push_back(EvSet(2, b, 1));
      {KEYS1(MkPat(false, "a")) st.push_back(EvDef(0, ks));}
      {std::vector<Pat> none; st.push_back(EvSend(0, none, "none", 0));}
      {KEYS1(MkPat(false, "b")) st.push_back(EvSend(0, ks, "none", 0));}
      {KEYS2(MkPat(false, "b", 0, 0, 0, 2), MkPat(false, "a", 0, 0, 0, 2)) st.push_back(EvDef(0, ks));}
      {std::vector<Pat> none; st.push_back(EvSend(0, none, "none", 0));}
      st.push_back(EvDefClear(0));
      {std::vector<Pat> none; st.push_back(EvSend(0, none, "none", 0)); st.push_back(EvSend(1, none, "none", 0));}
      hs.push_back(std::make_pair(std::string("default-route"), st));
   }
   {  // forged sender-identity fields
      std::vector<mj::Value> st; st.push_back(EvSet(1, a, 1)); st.push_back(EvSet(2, a, 1));
      {KEYS1(MkPat(false, "a")) st.push_back(EvSend(0, ks, "1", 0)); st.push_back(EvSend(0, ks, "999", 0)); st.push_back(EvSend(0, ks, "nonstr", 0)); st.push_back(EvSend(0, ks, "0", 0)); st.push_back(EvSend(2, ks, "0", 0));}
      {std::vector<Pat> none; st.push_back(EvSend(1, none, "2", 0));}
      hs.push_back(std::make_pair(std::string("forged-identity"), st));
   }
   {  // the same path twice keeps the LATER filter; an entry that is not a filter means no filter
      std::vector<mj::Value> st; st.push_back(EvSet(1, a, 1)); st.push_back(EvSet(2, a, 2));
      {KEYS2(MkPat(false, "a", 0, 0, 0, 2), MkPat(true, "*", "*", "a", 0, 1)) st.push_back(EvSend(0, ks, "none", 0));}
      {KEYS2(MkPat(false, "a", 0, 0, 0, 1), MkPat(true, "*", "*", "a", 0, 2)) st.push_back(EvSend(0, ks, "none", 0));}
      {KEYS2(MkPat(false, "a", 0, 0, 0, 1), MkPat(false, "a", 0, 0, 0, 0)) st.push_back(EvSend(0, ks, "none", 0));}
      {KEYS2(MkPat(false, "b", 0, 0, 0, 0), MkPat(false, "a", 0, 0, 0, 2)) st.push_back(EvSend(0, ks, "none", 0));}
      {KEYS1(MkPat(false, "a")) mj::Value ev = EvSend(0, ks, "none", 0); ev.set("df", mj::Value::Int(1)); st.push_back(ev);}
      hs.push_back(std::make_pair(std::string("filters"), st));
   }
   {  // a key for the host level only selects nobody; a session-node key selects the session even if it owns no node
      std::vector<mj::Value> st; st.push_back(EvSet(1, a, 1));
      {KEYS1(MkPat(true, "*")) st.push_back(EvSend(0, ks, "none", 0));}
      {KEYS1(MkPat(true, "h")) st.push_back(EvSend(0, ks, "none", 0));}
      {KEYS1(MkPat(true, "*", "2")) st.push_back(EvSend(0, ks, "none", 0));}
      {KEYS2(MkPat(true, "*", "2"), MkPat(true, "*", "1,0")) st.push_back(EvSend(0, ks, "none", 0));}
      {KEYS1(MkPat(true, "*", "*")) st.push_back(EvSend(0, ks, "none", 0));}
      {KEYS1(MkPat(true, "*", "<0-1>")) st.push_back(EvSend(2, ks, "none", 0));}
      hs.push_back(std::make_pair(std::string("host-and-session-keys"), st));
   }
   {  // reflect-to-self
      std::vector<mj::Value> st; st.push_back(EvSet(0, a, 1)); st.push_back(EvSet(1, a, 1));
      {KEYS1(MkPat(false, "a")) st.push_back(EvSend(0, ks, "none", 0)); st.push_back(EvRefl(0, true)); st.push_back(EvSend(0, ks, "none", 0));}
      {std::vector<Pat> none; st.push_back(EvSend(0, none, "none", 0));}
      {KEYS1(MkPat(true, "*", "0")) st.push_back(EvSend(0, ks, "0", 0));}
      st.push_back(EvRefl(0, false));
      {KEYS1(MkPat(false, "a")) st.push_back(EvSend(0, ks, "none", 0));}
      hs.push_back(std::make_pair(std::string("reflect-to-self"), st));
   }
   {  // several keys of ONE depth that are comma lists of literals at the same level (hash lookups, list after list), each item another session's node
      SV c; c.push_back("a"); c.push_back("b");
      std::vector<mj::Value> st; st.push_back(EvSet(1, a, 1)); st.push_back(EvSet(2, b, 1)); st.push_back(EvSet(0, a, 1)); st.push_back(EvSet(2, ab, 1)); st.push_back(EvSet(1, ab, 1));
      {KEYS2(MkPat(false, "a,c"), MkPat(false, "b,c")) st.push_back(EvSend(0, ks, "none", 0));}
      {KEYS2(MkPat(false, "b,c"), MkPat(false, "a,c")) st.push_back(EvSend(0, ks, "none", 0));}
      {std::vector<Pat> ks; ks.push_back(MkPat(false, "b,a")); ks.push_back(MkPat(false, "a,c")); ks.push_back(MkPat(false, "b,c")); st.push_back(EvSend(0, ks, "none", 0));}
      {KEYS2(MkPat(false, "a", "a,c"), MkPat(false, "a", "b,c")) st.push_back(EvSend(0, ks, "none", 0));}
      {KEYS2(MkPat(true, "h", "1,0"), MkPat(true, "*", "2,1")) st.push_back(EvSend(0, ks, "none", 0));}
      {KEYS2(MkPat(true, "*", "2,1"), MkPat(true, "h", "1,0")) st.push_back(EvSend(2, ks, "none", 0));}
      {KEYS2(MkPat(false, "a,c"), MkPat(false, "b,c")) st.push_back(EvDef(0, ks));}
      {std::vector<Pat> none; st.push_back(EvSend(0, none, "none", 0));}
      {KEYS2(MkPat(false, "b,c"), MkPat(false, "a,c")) st.push_back(EvDef(1, ks));}
      {std::vector<Pat> none; st.push_back(EvSend(1, none, "none", 0));}
      hs.push_back(std::make_pair(std::string("comma-lists-of-one-depth"), st));
   }
   {  // bursts: several Messages handed over before the server runs; per (sender, receiver) order
      std::vector<mj::Value> st; st.push_back(EvSet(1, a, 1)); st.push_back(EvSet(2, a, 1));
      {KEYS1(MkPat(false, "a")) std::vector<Pat> none; st.push_back(EvSend(0, ks, "none", 1)); st.push_back(EvSend(0, none, "none", 1)); st.push_back(EvSend(0, ks, "none", 1)); st.push_back(EvSend(0, ks, "none", 1));
         st.push_back(EvSend(1, ks, "none", 2)); st.push_back(EvSend(2, ks, "none", 2)); st.push_back(EvSend(1, none, "none", 2)); st.push_back(EvSend(0, ks, "none", 2));}
      hs.push_back(std::make_pair(std::string("bursts"), st));
   }
}

int MainHist(int argc, char ** argv)
{
   const std::string mode = argv[1];
   std::vector<FILE *> outs; mj::Value files = mj::Value::Arr(); std::string prefix; int nfiles = 1;
   std::string hmode; long count = 0; int nsteps = 0; uint32 seed = 1; const char * repPath = NULL; const char * behPath = NULL;
   if (mode == "hist") {if (argc < 9) return 2; hmode = argv[2]; count = atol(argv[3]); nsteps = atoi(argv[4]); seed = (uint32) atol(argv[5]); nfiles = atoi(argv[6]); prefix = argv[7]; repPath = argv[8];}
   else {if (argc < 5) return 2; hmode = "replay"; behPath = argv[2]; prefix = argv[3]; repPath = argv[4]; nfiles = 1;}
   g_report = fopen(repPath, "w"); if (!g_report) return 2; g_reportFd = fileno(g_report);
   {
      Net tmp; tmp.Open(4); mj::Value h = Header("route", tmp.w, 4); h.set("nsess", mj::Value::Int(4)); tmp.Close();
      for (int k=0; k<nfiles; k++) {char fn[1024]; snprintf(fn, sizeof(fn), "%s.%d.ndjson", prefix.c_str(), k); FILE * f = fopen(fn, "w"); if (!f) return 2; std::string s = mj::ToString(h); fprintf(f, "%s\n", s.c_str()); outs.push_back(f); files.push(mj::Value::Str(fn));}
   }
   long hn = 0;
   if (hmode == "random")
   {
      for (long h=0; (h<count)&&(g_bad<MAX_BAD); h++)
      {
         std::mt19937 rng(seed*1000003u+(uint32)h*7919u+1u); int nsess = 3; std::vector<mj::Value> steps; RandomHistory(rng, nsteps, nsess, steps);
         char id[64]; snprintf(id, sizeof(id), "random-%u-%ld", seed, h); RunHistory(id, nsess, steps, outs[hn++%nfiles]);
      }
   }
   else if (hmode == "small")
   {
      std::vector<std::vector<Pat> > keysets; SmallSpace(keysets);
      const long perTree = (long) keysets.size()*2, total = 125*perTree;
      long stride = (count <= 0 || count >= total) ? 1 : total/count; while ((stride > 1)&&((stride%2 == 0)||(stride%5 == 0)||(perTree%stride == 0))) stride++;
      std::map<long, std::vector<long> > byTree; long taken = 0;
      for (long x=(long)(seed%stride); x<total; x+=stride) {byTree[x/perTree].push_back(x%perTree); taken++;}
      for (std::map<long, std::vector<long> >::const_iterator it = byTree.begin(); (it != byTree.end())&&(g_bad<MAX_BAD); it++)
      {
         std::vector<mj::Value> steps; SmallHistory(it->first, it->second, keysets, steps);
         char id[64]; snprintf(id, sizeof(id), "small-tree%ld", it->first); RunHistory(id, 3, steps, outs[hn++%nfiles]);
      }
      mj::Value sp = mj::Value::Obj(); sp.set("small_space", mj::Value::Int(total)); sp.set("taken", mj::Value::Int(taken)); sp.set("keysets", mj::Value::Int((long) keysets.size())); ReportLine(sp);
   }
   else if (hmode == "directed")
   {
      std::vector<std::pair<std::string, std::vector<mj::Value> > > hs; Directed(hs);
      for (size_t h=0; h<hs.size(); h++) RunHistory("directed-"+hs[h].first, 3, hs[h].second, outs[hn++%nfiles]);
   }
   else
   {
      FILE * f = fopen(behPath, "r"); if (!f) return 2; std::string line;
      while ((mj::ReadLine(f, line))&&(g_bad<MAX_BAD))
      {
         mj::Value b; if (!mj::Parse(line, b)) continue;
         std::vector<mj::Value> steps; for (size_t k=0; k<b["steps"].size(); k++) steps.push_back(b["steps"][k]);
         char id[64]; snprintf(id, sizeof(id), "behaviour-%ld", (long) b["id"].i()); RunHistory(id, (int) b["nsess"].i(), steps, outs[hn++%nfiles]);
      }
      fclose(f);
   }
   for (size_t k=0; k<outs.size(); k++) fclose(outs[k]);
   mj::Value s = mj::Value::Obj(); s.set("summary", mj::Value::Bool(true)); s.set("mode", mj::Value::Str(hmode)); s.set("histories", mj::Value::Int(g_hs.histories)); s.set("steps", mj::Value::Int(g_hs.steps));
   s.set("sends", mj::Value::Int(g_hs.sends)); s.set("keyed", mj::Value::Int(g_hs.keyed)); s.set("via_default_route", mj::Value::Int(g_hs.viaDefault)); s.set("broadcast", mj::Value::Int(g_hs.broadcast));
   s.set("copies_delivered", mj::Value::Int(g_hs.copies)); s.set("recv_events", mj::Value::Int(g_hs.recv)); s.set("bursts", mj::Value::Int(g_hs.bursts)); s.set("f25_twice", mj::Value::Int(g_hs.f25));
   s.set("wanted_pairs", mj::Value::Int(g_hs.wantedPairs)); s.set("unwanted_pairs", mj::Value::Int(g_hs.unwantedPairs)); s.set("tree_mismatch", mj::Value::Int(g_hs.treeMismatch)); s.set("events", mj::Value::Int(g_hs.events));
   s.set("bad", mj::Value::Int(g_bad)); s.set("files", files);
   ReportLine(s); fclose(g_report);
   return 0;
}
