// C05 conformance harness: an in-process ReflectServer with StorageReflectSession sessions over socket pairs, pumped single-threadedly.
//
//   route trav <universe> <nshards> <shards: a,b,c> <out prefix> <report>
//        enumerates the SAME bounded space as spec/Traversal/Traversal.tla (universe "core" | "full" | "tri": CaseOf(idx) is mirrored
//        below and TLC re-checks every recorded case against its own decoding), runs the real NodePathMatcher::DoTraversal (from a
//        subclass of StorageReflectSession, on GetGlobalRoot(), pattern set put with PutPathsFromMessage exactly as the routing code
//        does) with a callback that follows the case's mode, and records (case, visit list, return value, brute-force MatchesPath set)
//        as <out prefix>.<shard>.ndjson; every case is also judged by a direct monitor of the property.
//   route trav wide <count> <seed> <nfiles> <out prefix> <report>
//        the same for seeded random cases of the wide space (3 sessions x 25 subtrees, 1-3 patterns of the whole menu, filters,
//        relative / absolute forms); the case is in the line.
//   route hist <mode: random|small|directed> <count> <steps> <seed> <nfiles> <out prefix> <report>
//   route replay <behaviours.ndjson> <out prefix> <report>
//        histories of real client commands and routed Messages through real gateways; every command and every Message a client
//        receives is logged as an event (validated by TLC against spec/Traversal/RouteTrace.tla) and judged by a direct monitor.
//
// Report: one ndjson line per violating / known / hung case and a final {"summary":true,...} line.  Exit 0 unless the harness could
// not run; exit 4 = watchdog (the report then ends with a {"hang":...} line).
#include "reflector/ReflectServer.h"
#include "reflector/StorageReflectSession.h"
#include "reflector/StorageReflectConstants.h"
#include "iogateway/MessageIOGateway.h"
#include "dataio/TCPSocketDataIO.h"
#include "regex/QueryFilter.h"
#include "regex/StringMatcher.h"
#include "regex/PathMatcher.h"
#include "system/SetupSystem.h"
#include "util/NetworkUtilityFunctions.h"
#include "mjson.h"
#include <map>
#include <set>
#include <vector>
#include <string>
#include <random>
#include <algorithm>
#include <signal.h>
#include <unistd.h>
using namespace muscle;
typedef std::vector<std::string> SV;

// ------------------------------------------------------------------------------------------------ report and watchdog
static FILE * g_report = NULL;
static int g_reportFd = -1;
static char g_where[1024] = "start";
static int g_bad = 0;                // violating cases reported so far
static const int MAX_BAD = 25;
static void OnAlarm(int)
{
   char b[1400]; int n = snprintf(b, sizeof(b), "\n{\"hang\":true,\"where\":\"%s\"}\n", g_where);
   if (g_report) fflush(g_report);
   if (g_reportFd >= 0) {ssize_t w = write(g_reportFd, b, n); (void) w;}
   _exit(4);
}
static void Where(const char * fmt, long a = 0, long b = 0) {snprintf(g_where, sizeof(g_where), fmt, a, b);}
static void ReportLine(const mj::Value & v) {std::string s = mj::ToString(v); fprintf(g_report, "%s\n", s.c_str()); fflush(g_report);}
static mj::Value JStrs(const SV & v) {mj::Value a = mj::Value::Arr(); for (size_t i=0; i<v.size(); i++) a.push(mj::Value::Str(v[i])); return a;}
static mj::Value JInts(const std::vector<int> & v) {mj::Value a = mj::Value::Arr(); for (size_t i=0; i<v.size(); i++) a.push(mj::Value::Int(v[i])); return a;}

// ------------------------------------------------------------------------------------------------ the clause tokens of Traversal.tla
// abstract names: host "h", sessions "0".."3" (position of the session), user names "a" "b"
struct World {std::string host; SV ids;};            // the real host name and the real session ids, by position
static std::string Conc(const std::string & t, const World & w)
{
   if (t == "h") return w.host;
   if ((t.size() == 1)&&(t[0] >= '0')&&(t[0] <= '3')) return ((size_t)(t[0]-'0') < w.ids.size()) ? w.ids[t[0]-'0'] : std::string("99999");
   if (t == "1,0")   return w.ids[1]+","+w.ids[0];
   if (t == "<0-1>") return "<"+w.ids[0]+"-"+w.ids[1]+">";
   if (t == "~0")    return "~"+w.ids[0];
   return t;  // "*" and the user-level clauses are written as they are
}
static SV AbstractPath(const std::string & path, const World & w)    // "/host/id/a/b" -> [h, 0, a, b]
{
   SV out; size_t b = 1;
   if (path.size() <= 1) return out;
   while (true) {size_t s = path.find('/', b); out.push_back(path.substr(b, (s == std::string::npos) ? std::string::npos : s-b)); if (s == std::string::npos) break; b = s+1;}
   if (out.size() >= 1) out[0] = (out[0] == w.host) ? "h" : ("?"+out[0]);
   if (out.size() >= 2) {bool f = false; for (size_t i=0; i<w.ids.size(); i++) if (out[1] == w.ids[i]) {char c[2] = {(char)('0'+i), 0}; out[1] = c; f = true; break;} if (!f) out[1] = "?"+out[1];}
   return out;
}
static mj::Value JPath(const SV & p) {return JStrs(p);}
static std::string PathKey(const SV & p) {std::string s; for (size_t i=0; i<p.size(); i++) {s += '/'; s += p[i];} return s;}

// the monitor's own reading of the clause table (mirrors MatchSet of Traversal.tla; TraversalTrace / RouteTrace check the real StringMatcher against the same table)
static bool TokMatch(const std::string & t, const std::string & n)
{
   if ((t == "*")||(t == "?")) return true;
   if (t == "1,0")   return (n == "0")||(n == "1");
   if (t == "<0-1>") return (n == "0")||(n == "1");
   if (t == "~0")    return n != "0";
   if (t == "\\a")   return n == "a";
   if (t == "(a|c)") return n == "a";
   if (t == "b,a")   return (n == "a")||(n == "b");
   if (t == "~a")    return n != "a";
   return t == n;
}

struct Pat {bool abs; SV cl; int f; Pat() : abs(true), f(0) {}};
static SV NormCl(const Pat & p) {if (p.abs) return p.cl; SV r; r.push_back("*"); r.push_back("*"); r.insert(r.end(), p.cl.begin(), p.cl.end()); return r;}
static std::string PatString(const Pat & p, const World & w) {std::string s = p.abs ? "/" : ""; for (size_t i=0; i<p.cl.size(); i++) {if (i) s += '/'; s += Conc(p.cl[i], w);} return s;}
static mj::Value JPat(const Pat & p) {mj::Value o = mj::Value::Obj(); o.set("abs", mj::Value::Bool(p.abs)); o.set("cl", JStrs(p.cl)); o.set("f", mj::Value::Int(p.f)); return o;}
static mj::Value JPats(const std::vector<Pat> & ps) {mj::Value a = mj::Value::Arr(); for (size_t i=0; i<ps.size(); i++) a.push(JPat(ps[i])); return a;}
static bool PatFromJson(const mj::Value & v, Pat & p) {p.abs = v["abs"].truthy(); p.cl.clear(); for (size_t i=0; i<v["cl"].size(); i++) p.cl.push_back(v["cl"][i].str()); p.f = (int) v["f"].i(); return true;}
// the effective entries: one per normalised path, the LATER filter wins
struct Entry {SV cl; int f;};
static std::vector<Entry> EntriesOf(const std::vector<Pat> & ps)
{
   std::vector<Entry> es;
   for (size_t i=0; i<ps.size(); i++) {SV cl = NormCl(ps[i]); bool found = false; for (size_t j=0; j<es.size(); j++) if (es[j].cl == cl) {es[j].f = ps[i].f; found = true;} if (!found) {Entry e; e.cl = cl; e.f = ps[i].f; es.push_back(e);}}
   return es;
}
static bool EntryMatches(const Entry & e, const SV & node, int what)
{
   if (e.cl.size() != node.size()) return false;
   for (size_t i=0; i<node.size(); i++) if (!TokMatch(e.cl[i], node[i])) return false;
   return (e.f == 0)||(what == e.f);
}

static MessageRef FilterArchive(int f)   // f > 0: "what-code is f"; 0: a Message whose what-code is not a filter type ("no filter for this key")
{
   MessageRef fm = GetMessageFromPool(0u);
   if (f > 0) {WhatCodeQueryFilter q((uint32) f); (void) q.SaveToArchive(*fm());}
   return fm;
}
// keys (+ filters when any key has one, or when dummyFilters) as a client would put them into a Message
static void AddKeys(Message & m, const std::vector<Pat> & ps, const World & w, bool dummyFilters)
{
   bool any = dummyFilters; for (size_t i=0; i<ps.size(); i++) if (ps[i].f) any = true;
   for (size_t i=0; i<ps.size(); i++) {(void) m.AddString(PR_NAME_KEYS, PatString(ps[i], w).c_str()); if (any) (void) m.AddMessage(PR_NAME_FILTERS, FilterArchive(ps[i].f));}
}

// ------------------------------------------------------------------------------------------------ the session subclass
struct TravCtx {const World * w; std::string mode; std::vector<SV> visits;};
class TSession : public StorageReflectSession
{
public:
   DataNode & Root() {return GetGlobalRoot();}
   String MyRoot() const {return GetSessionRootPath();}
   status_t Set(const String & p, uint32 w) {return SetDataNode(p, GetMessageFromPool(w));}
   void Wipe() {(void) RemoveDataNodes("*");}
   static int CB(StorageReflectSession *, DataNode & node, void * ud)
   {
      TravCtx * c = (TravCtx *) ud; String np; (void) node.GetNodePath(np);
      c->visits.push_back(AbstractPath(np(), *c->w));
      if (c->visits.size() > 100000) return -1;       // a runaway walk ends here and is judged on what it did
      return (c->mode == "skip") ? (int) NODE_DEPTH_SESSIONNAME : ((c->mode == "stop") ? 0 : (int) node.GetDepth());
   }
   // the walk, exactly as MessageReceivedFromGateway sets it up
   uint32 Traverse(const std::vector<Pat> & ps, const World & w, bool dummyFilters, TravCtx & ctx, std::vector<SV> & brute, std::map<std::string, int> & whats)
   {
      Message km; AddKeys(km, ps, w, dummyFilters);
      NodePathMatcher m; (void) m.PutPathsFromMessage(PR_NAME_KEYS, PR_NAME_FILTERS, km, "*/*");
      const uint32 n = m.DoTraversal((PathMatchCallback) CB, this, Root(), true, &ctx);
      AllNodes(Root(), m, w, brute, whats);
      return n;
   }
   // "testing every node's full path against the patterns one by one"
   void AllNodes(DataNode & n, const PathMatcher & m, const World & w, std::vector<SV> & out, std::map<std::string, int> & whats)
   {
      String np; (void) n.GetNodePath(np);
      if (n.GetDepth() > 0)
      {
         SV ap = AbstractPath(np(), w); whats[PathKey(ap)] = n.GetData()() ? (int) n.GetData()()->what : 0;
         if (m.MatchesPath(np(), n.GetData()(), &n)) out.push_back(ap);
      }
      for (DataNodeRefIterator it = n.GetChildIterator(); it.HasData(); it++) AllNodes(*it.GetValue()(), m, w, out, whats);
   }
};

// ------------------------------------------------------------------------------------------------ the property, judged directly
// returns "" or what is wrong; known = the F25 shape was observed (two callbacks for a session addressed by a session-node key and a deeper key)
static std::string JudgeTraversal(const std::string & mode, const std::vector<SV> & v, const std::vector<SV> & brute, uint32 ret, bool & known)
{
   known = false;
   std::set<std::string> bs, vs; for (size_t i=0; i<brute.size(); i++) bs.insert(PathKey(brute[i])); for (size_t i=0; i<v.size(); i++) vs.insert(PathKey(v[i]));
   if (ret != v.size()) return "DoTraversal returned a count different from the number of callbacks";
   for (std::set<std::string>::const_iterator it = vs.begin(); it != vs.end(); it++) if (!bs.count(*it)) return "the callback was called on " + *it + ", which matches no pattern";
   if (mode == "all")
   {
      for (std::set<std::string>::const_iterator it = bs.begin(); it != bs.end(); it++) if (!vs.count(*it)) return "matching node " + *it + " was not visited";
      if (vs.size() != v.size()) return "a node was visited twice";
   }
   else if (mode == "skip")
   {
      std::map<std::string, int> cnt; std::set<std::string> want, sessNode, deeper;
      for (size_t i=0; i<v.size(); i++) if (v[i].size() >= 2) cnt[v[i][1]]++;
      for (size_t i=0; i<brute.size(); i++) if (brute[i].size() >= 2) {want.insert(brute[i][1]); if (brute[i].size() == 2) sessNode.insert(brute[i][1]); else deeper.insert(brute[i][1]);}
      for (std::set<std::string>::const_iterator it = want.begin(); it != want.end(); it++) if (!cnt.count(*it)) return "session " + *it + " owns a matching node but got no callback";
      for (std::map<std::string, int>::const_iterator it = cnt.begin(); it != cnt.end(); it++)
      {
         if (it->second == 1) continue;
         if ((it->second == 2)&&(sessNode.count(it->first))&&(deeper.count(it->first))) {known = true; continue;}     // F25's predicate
         char b[64]; snprintf(b, sizeof(b), " got %d callbacks", it->second); return "session " + it->first + b;
      }
   }
   else
   {
      if (bs.empty() ? (v.size() != 0) : (v.size() != 1)) return "terminate mode: the callback must be called exactly once if anything matches";
   }
   return "";
}

// ------------------------------------------------------------------------------------------------ the bounded spaces (mirror of Traversal.tla)
static std::vector<SV> g_menu;
static void BuildMenu()
{
   const char * U8[] = {"a", "b", "\\a", "*", "?", "(a|c)", "b,a", "~a"}; const char * C5[] = {"a", "b", "*", "b,a", "~a"}; const char * D3[] = {"a", "*", "b,a"};
   #define P1(a) {SV p; p.push_back(a); g_menu.push_back(p);}
   #define P2(a,b) {SV p; p.push_back(a); p.push_back(b); g_menu.push_back(p);}
   #define P3(a,b,c) {SV p; p.push_back(a); p.push_back(b); p.push_back(c); g_menu.push_back(p);}
   #define P4(a,b,c,d) {SV p; p.push_back(a); p.push_back(b); p.push_back(c); p.push_back(d); g_menu.push_back(p);}
   P1("*") P1("h") P2("*","*") P2("*","0") P2("h","1,0") P2("*","<0-1>")
   for (int i=0; i<8; i++) P3("*","*",U8[i])
   P3("*","0","a") P3("*","0","*") P3("*","1,0","b,a") P3("h","*","b") P3("h","<0-1>","?") P3("*","~0","a")
   for (int i=0; i<15; i++) P4("*","*",C5[i/3],D3[i%3])
   P4("*","*","\\a","b") P4("*","*","?","?") P4("*","0","a","*") P4("*","0","*","b") P4("h","1,0","a","a") P4("*","<0-1>","(a|c)","a") P4("*","*","a","(a|c)")
}
struct Universe {std::vector<int> codes[3]; std::vector<int> menu; int maxp;};
static bool GetUniverse(const std::string & name, Universe & u)
{
   static const int core[] = {1, 3, 4, 7, 9, 10, 13, 16, 21, 23, 27, 29, 32};
   std::vector<int> all25, four, zero, coreMenu(core, core+13), fullMenu;
   for (int i=0; i<25; i++) all25.push_back(i);
   four.push_back(0); four.push_back(1); four.push_back(5); four.push_back(6); zero.push_back(0);
   for (size_t i=1; i<=g_menu.size(); i++) fullMenu.push_back((int) i);
   if (name == "core") {u.codes[0] = all25; u.codes[1] = four;  u.codes[2] = zero; u.menu = coreMenu; u.maxp = 2; return true;}
   if (name == "full") {u.codes[0] = all25; u.codes[1] = all25; u.codes[2] = zero; u.menu = fullMenu; u.maxp = 2; return true;}
   if (name == "tri")  {u.codes[0] = all25; u.codes[1] = four;  u.codes[2] = four; u.menu = coreMenu; u.maxp = 3; return true;}
   return false;
}
struct Case {long idx; int codes[3]; int dv; std::vector<Pat> pats; std::string mode; bool dummyFilters; Case() : idx(-1), dv(0), dummyFilters(false) {codes[0] = codes[1] = codes[2] = 0;}};
static long NSeq(const Universe & u) {const long nm = (long) u.menu.size(); return (u.maxp == 1) ? nm : ((u.maxp == 2) ? nm+nm*nm : nm+nm*nm+nm*nm*nm);}
static long Total(const Universe & u) {return 3L*NSeq(u)*(long)(u.codes[0].size()*u.codes[1].size()*u.codes[2].size());}
static Pat MenuPat(const Universe & u, long m) {Pat p; p.abs = true; p.cl = g_menu[u.menu[m]-1]; p.f = 0; return p;}
static void CaseOf(const Universe & u, long idx, Case & c)
{
   static const char * modes[] = {"all", "skip", "stop"};
   const long nm = (long) u.menu.size(), ns = NSeq(u);
   const long m = idx%3, q = (idx/3)%ns, t = idx/(3*ns);
   const long n1 = (long) u.codes[0].size(), n2 = (long) u.codes[1].size();
   c.idx = idx; c.dv = 0; c.dummyFilters = false; c.mode = modes[m];
   c.codes[0] = u.codes[0][t%n1]; c.codes[1] = u.codes[1][(t/n1)%n2]; c.codes[2] = u.codes[2][t/(n1*n2)];
   c.pats.clear();
   if (q < nm) c.pats.push_back(MenuPat(u, q));
   else if (q < nm+nm*nm) {const long r = q-nm; c.pats.push_back(MenuPat(u, r/nm)); c.pats.push_back(MenuPat(u, r%nm));}
   else {const long r = q-nm-nm*nm; c.pats.push_back(MenuPat(u, r/(nm*nm))); c.pats.push_back(MenuPat(u, (r/nm)%nm)); c.pats.push_back(MenuPat(u, r%nm));}
}
static int NumB(const SV & userPart) {int n = 0; for (size_t i=0; i<userPart.size(); i++) if (userPart[i] == "b") n++; return n;}
static int WhatOf(int sess, const SV & userPart, int dv) {return 1+((NumB(userPart)+sess+dv)%2);}

// ------------------------------------------------------------------------------------------------ the server with its sessions and clients
struct Client
{
   ConstSocketRef sock; MessageIOGateway gw; QueueGatewayMessageReceiver rx; TSession * sess; std::string id;
   std::vector<MessageRef> got;
   void Init(const ConstSocketRef & s) {sock = s; gw.SetDataIO(DataIORef(new TCPSocketDataIO(s, false)));}
   void Flush() {int g = 0; while ((gw.HasBytesToOutput())&&(g++ < 1000)) {if (gw.DoOutput().GetByteCount() <= 0) break;}}
   bool Recv() {bool any = false; while (gw.DoInput(rx).GetByteCount() > 0) {} MessageRef m; while (rx.GetMessages().RemoveHead(m).IsOK()) {got.push_back(m); any = true;} return any;}
};
struct Net
{
   ReflectServer * srv; std::vector<Client *> cs; std::vector<AbstractReflectSessionRef> refs; World w;
   Net() : srv(NULL) {}
   void Open(int n)
   {
      srv = new ReflectServer; srv->SetDoLogging(false);
      for (int i=0; i<n; i++)
      {
         Client * c = new Client; ConstSocketRef a, b; if (CreateConnectedSocketPair(a, b, false).IsError()) {fprintf(stderr, "socket pair failed\n"); exit(2);}
         TSession * s = new TSession; AbstractReflectSessionRef ref(s); if (srv->AddNewSession(ref, a).IsError()) {fprintf(stderr, "AddNewSession failed\n"); exit(2);}
         c->Init(b); c->sess = s; cs.push_back(c); refs.push_back(ref);
      }
      Pump();
      w.ids.clear();
      for (size_t i=0; i<cs.size(); i++) {std::string r = cs[i]->sess->MyRoot()(); size_t sl = r.rfind('/'); cs[i]->id = r.substr(sl+1); w.ids.push_back(cs[i]->id); w.host = r.substr(1, sl-1);}
   }
   // until nothing moves any more; returns the number of rounds
   int Pump(int minRounds = 3)
   {
      int quiet = 0, rounds = 0;
      while ((quiet < minRounds)&&(rounds < 200))
      {
         bool any = false;
         for (size_t i=0; i<cs.size(); i++) {if (cs[i]->gw.HasBytesToOutput()) any = true; cs[i]->Flush();}
         alarm(20); (void) srv->ServerProcessLoop(0); alarm(0);
         for (size_t i=0; i<cs.size(); i++) if (cs[i]->Recv()) any = true;
         quiet = any ? 0 : quiet+1; rounds++;
      }
      return rounds;
   }
   void Close()
   {
      for (size_t i=0; i<cs.size(); i++) {cs[i]->gw.SetDataIO(DataIORef()); cs[i]->sock.Reset();}
      alarm(20); for (int i=0; i<4; i++) (void) srv->ServerProcessLoop(0); srv->Cleanup(); alarm(0);
      refs.clear(); for (size_t i=0; i<cs.size(); i++) delete cs[i]; cs.clear(); delete srv; srv = NULL;
   }
};

// the clause table as the real StringMatcher sees it: one row per (token, level)
static mj::Value ClauseTable(const World & w, int nsess)
{
   static const char * lv0[] = {"*", "h"}; static const char * lv1[] = {"*", "0", "1", "2", "3", "1,0", "<0-1>", "~0"}; static const char * lv2[] = {"*", "a", "b", "\\a", "?", "(a|c)", "b,a", "~a"};
   mj::Value rows = mj::Value::Arr();
   for (int lvl=0; lvl<3; lvl++)
   {
      const char ** toks = (lvl == 0) ? lv0 : ((lvl == 1) ? lv1 : lv2); const int nt = (lvl == 0) ? 2 : 8;
      SV names; if (lvl == 0) names.push_back("h"); else if (lvl == 1) {for (int i=0; i<nsess; i++) {char c[2] = {(char)('0'+i), 0}; names.push_back(c);}} else {names.push_back("a"); names.push_back("b");}
      for (int t=0; t<nt; t++)
      {
         const std::string tok = toks[t];
         if ((lvl == 1)&&(tok.size() == 1)&&(tok[0] >= '0')&&(tok[0]-'0' >= nsess)) continue;
         const std::string conc = Conc(tok, w);
         mj::Value row = mj::Value::Obj(); row.set("t", mj::Value::Str(tok)); row.set("lvl", mj::Value::Int(lvl)); row.set("c", mj::Value::Str(conc));
         SV ms; std::string kind = "W";
         if (tok == "*") {for (size_t i=0; i<names.size(); i++) ms.push_back(names[i]);}    // PutPathString stores "*" as a NULL matcher: matches everything, counts as a wildcard
         else
         {
            StringMatcher sm; if (sm.SetPattern(conc.c_str()).IsError()) kind = "error";
            else {kind = sm.IsPatternUnique() ? "U" : (sm.IsPatternListOfUniqueValues() ? "L" : "W");
                  for (size_t i=0; i<names.size(); i++) if (sm.Match(Conc(names[i], w).c_str())) ms.push_back(names[i]);}
         }
         row.set("k", mj::Value::Str(kind)); row.set("m", JStrs(ms)); rows.push(row);
      }
   }
   return rows;
}
static mj::Value Header(const char * fam, const World & w, int nsess)
{
   mj::Value h = mj::Value::Obj(); h.set("hdr", mj::Value::Bool(true)); h.set("fam", mj::Value::Str(fam)); h.set("host", mj::Value::Str(w.host)); h.set("ids", JStrs(w.ids)); h.set("table", ClauseTable(w, nsess));
   return h;
}

// ------------------------------------------------------------------------------------------------ trav
struct TravStats {long cases, nonempty, multi, visits, known, lookupish; TravStats() : cases(0), nonempty(0), multi(0), visits(0), known(0), lookupish(0) {}};
static int g_cur[3] = {-1, -1, -1}, g_curDv = -1;
static void BuildTree(Net & net, const Case & c)
{
   static const char * nm[] = {"a", "b"};
   for (int s=0; s<3; s++)
   {
      if ((g_cur[s] == c.codes[s])&&(g_curDv == c.dv)) continue;
      TSession * ss = net.cs[s]->sess; ss->Wipe();
      const int k[2] = {c.codes[s]/5, c.codes[s]%5};
      for (int x=0; x<2; x++) if (k[x] > 0)
      {
         SV up; up.push_back(nm[x]); (void) ss->Set(nm[x], WhatOf(s, up, c.dv));
         for (int y=0; y<2; y++) if ((k[x] == 4)||((k[x] == 2)&&(y == 0))||((k[x] == 3)&&(y == 1))) {SV up2 = up; up2.push_back(nm[y]); (void) ss->Set((std::string(nm[x])+"/"+nm[y]).c_str(), WhatOf(s, up2, c.dv));}
      }
      g_cur[s] = c.codes[s];
   }
   g_curDv = c.dv;
}
static mj::Value JCase(const Case & c)
{
   mj::Value o = mj::Value::Obj(); o.set("i", mj::Value::Int(c.idx));
   std::vector<int> t(c.codes, c.codes+3); o.set("t", JInts(t)); o.set("w", mj::Value::Int(c.dv)); o.set("p", JPats(c.pats)); o.set("m", mj::Value::Str(c.mode)); o.set("df", mj::Value::Int(c.dummyFilters ? 1 : 0));
   return o;
}
static bool g_checkedWhats = false;
static void RunCase(Net & net, const Case & c, FILE * out, TravStats & st)
{
   Where("traversal case %ld", c.idx);
   BuildTree(net, c);
   TravCtx ctx; ctx.w = &net.w; ctx.mode = c.mode; std::vector<SV> brute; std::map<std::string, int> whats;
   alarm(20); const uint32 ret = net.cs[0]->sess->Traverse(c.pats, net.w, c.dummyFilters, ctx, brute, whats); alarm(0);
   std::sort(brute.begin(), brute.end());
   mj::Value line = JCase(c);
   mj::Value v = mj::Value::Arr(); for (size_t i=0; i<ctx.visits.size(); i++) v.push(JPath(ctx.visits[i])); line.set("v", v); line.set("n", mj::Value::Int(ret));
   mj::Value b = mj::Value::Arr(); for (size_t i=0; i<brute.size(); i++) b.push(JPath(brute[i])); line.set("b", b);
   std::string s = mj::ToString(line); fprintf(out, "%s\n", s.c_str());
   st.cases++; if (!brute.empty()) st.nonempty++; if (ctx.visits.size() > 1) st.multi++; st.visits += (long) ctx.visits.size();
   // the tree the case asked for is the tree that is there (what-codes included): once per run in full, always by node count
   if (!g_checkedWhats)
   {
      g_checkedWhats = true;
      for (std::map<std::string, int>::const_iterator it = whats.begin(); it != whats.end(); it++) if (it->first.find("?") != std::string::npos) {fprintf(stderr, "unexpected node %s\n", it->first.c_str()); exit(2);}
   }
   bool known = false; const std::string bad = JudgeTraversal(c.mode, ctx.visits, brute, ret, known);
   if (known) st.known++;
   if ((!bad.empty())&&(g_bad < MAX_BAD))
   {
      g_bad++; mj::Value r = JCase(c); r.set("violations", mj::Value::Arr().push(mj::Value::Str(bad))); r.set("v", v); r.set("b", b);
      SV ps; for (size_t i=0; i<c.pats.size(); i++) ps.push_back(PatString(c.pats[i], net.w)); r.set("keys", JStrs(ps)); ReportLine(r);
   }
}
static std::vector<int> ParseInts(const char * s) {std::vector<int> v; const char * p = s; while (*p) {v.push_back(atoi(p)); const char * c = strchr(p, ','); if (!c) break; p = c+1;} return v;}

static int MainTrav(int argc, char ** argv)
{
   if (argc < 7) return 2;
   const std::string fam = argv[2];
   Net net; net.Open(3);
   TravStats st; mj::Value files = mj::Value::Arr();
   if (fam == "wide")
   {
      if (argc < 8) return 2;
      const long count = atol(argv[3]); const uint32 seed = (uint32) atol(argv[4]); const int nfiles = atoi(argv[5]); const std::string prefix = argv[6];
      g_report = fopen(argv[7], "w"); if (!g_report) return 2; g_reportFd = fileno(g_report);
      std::vector<FILE *> outs; for (int k=0; k<nfiles; k++) {char fn[1024]; snprintf(fn, sizeof(fn), "%s.%d.ndjson", prefix.c_str(), k); FILE * f = fopen(fn, "w"); if (!f) return 2; std::string h = mj::ToString(Header("wide", net.w, 3)); fprintf(f, "%s\n", h.c_str()); outs.push_back(f); files.push(mj::Value::Str(fn));}
      std::mt19937 rng(seed*2654435761u+17u);
      static const char * modes[] = {"all", "skip", "stop"};
      for (long j=0; (j<count)&&(g_bad<MAX_BAD); j++)
      {
         Case c; c.idx = j; for (int s=0; s<3; s++) c.codes[s] = (int)(rng()%25); c.dv = (int)(rng()%2); c.mode = modes[rng()%3];
         const int np = 1+(int)(rng()%3); bool anyF = false;
         for (int k=0; k<np; k++)
         {
            Pat p; p.cl = g_menu[rng()%g_menu.size()]; p.abs = true; p.f = 0;
            if ((p.cl.size() >= 3)&&(rng()%2)) {p.f = 1+(int)(rng()%2); anyF = true;}
            if ((p.cl.size() >= 3)&&(p.cl[0] == "*")&&(p.cl[1] == "*")&&(rng()%2)) {p.abs = false; p.cl.erase(p.cl.begin(), p.cl.begin()+2);}
            c.pats.push_back(p);
         }
         if ((np >= 2)&&(rng()%5 == 0)) {c.pats[np-1].abs = c.pats[0].abs; c.pats[np-1].cl = c.pats[0].cl; if (rng()%2) {c.pats[np-1].abs = true; c.pats[np-1].cl = NormCl(c.pats[0]);}}   // the same path twice (perhaps written the other way), filters may differ
         c.dummyFilters = ((!anyF)&&(rng()%4 == 0));
         RunCase(net, c, outs[j%nfiles], st);
      }
      for (size_t k=0; k<outs.size(); k++) fclose(outs[k]);
   }
   else
   {
      Universe u; if (!GetUniverse(fam, u)) {fprintf(stderr, "unknown universe\n"); return 2;}
      const int nshards = atoi(argv[3]); std::vector<int> shards = ParseInts(argv[4]); const std::string prefix = argv[5];
      g_report = fopen(argv[6], "w"); if (!g_report) return 2; g_reportFd = fileno(g_report);
      const long total = Total(u);
      for (size_t k=0; (k<shards.size())&&(g_bad<MAX_BAD); k++)
      {
         char fn[1024]; snprintf(fn, sizeof(fn), "%s.%d.ndjson", prefix.c_str(), shards[k]); FILE * f = fopen(fn, "w"); if (!f) return 2; files.push(mj::Value::Str(fn));
         std::string h = mj::ToString(Header(fam.c_str(), net.w, 3)); fprintf(f, "%s\n", h.c_str());
         for (long idx=shards[k]; (idx<total)&&(g_bad<MAX_BAD); idx+=nshards) {Case c; CaseOf(u, idx, c); RunCase(net, c, f, st);}
         fclose(f);
      }
      mj::Value t = mj::Value::Obj(); t.set("total", mj::Value::Int(total)); t.set("nseq", mj::Value::Int(NSeq(u)));
   }
   net.Close();
   mj::Value s = mj::Value::Obj(); s.set("summary", mj::Value::Bool(true)); s.set("family", mj::Value::Str(fam)); s.set("cases", mj::Value::Int(st.cases)); s.set("nonempty", mj::Value::Int(st.nonempty));
   s.set("multi", mj::Value::Int(st.multi)); s.set("visits", mj::Value::Int(st.visits)); s.set("f25_shape_observed", mj::Value::Int(st.known)); s.set("bad", mj::Value::Int(g_bad)); s.set("files", files);
   s.set("host", mj::Value::Str(net.w.host)); s.set("ids", JStrs(net.w.ids));
   ReportLine(s); fclose(g_report);
   return 0;
}

int MainHist(int argc, char ** argv);

int main(int argc, char ** argv)
{
   CompleteSetupSystem css; SetConsoleLogLevel(MUSCLE_LOG_CRITICALERROR);
   signal(SIGALRM, OnAlarm); signal(SIGPIPE, SIG_IGN);
   BuildMenu();
   if (argc < 2) {fprintf(stderr, "usage: route trav|hist|replay ...\n"); return 2;}
   const std::string mode = argv[1];
   if (mode == "trav") return MainTrav(argc, argv);
   if ((mode == "hist")||(mode == "replay")) return MainHist(argc, argv);
   return 2;
}

int MainHist(int, char **) {return 2;}
