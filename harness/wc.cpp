// C15 conformance harness: the real StringMatcher / EscapeRegexTokens / RemoveEscapeChars answers, recorded for TLC.
//   wc enum <fullLen> <sampleLen> <sampleCount> <genCount> <genMaxLen> <subjLen> <seed> <nshards> <outprefix> <report.ndjson> [directed 1|0 [onlyShard]]
//        patterns = (a) the directed cases (known findings F9, F10, F11 tagged; range / negation / alternation cases),
//                   (b) EVERY string of length 0..fullLen over the pattern alphabet,
//                   (c) a seeded sample (without repetition) of sampleCount strings of length sampleLen (0 = none),
//                   (d) genCount seeded random patterns of length fullLen+1..genMaxLen drawn from the documented grammar
//                       (a sampling heuristic only: which patterns are judged is decided by spec/Wildcard/Wildcard.tla);
//        subjects = every string of length 0..subjLen over the subject alphabet.
//        For every pattern one line {"p":[bytes],"st":SetPattern ok,"ng":0|1,"m":[1-based indices of the subjects for
//        which Match() is true (ng=0) / false (ng=1), whichever list is shorter],"u":IsPatternUnique,"v":IsPatternListOfUniqueValues,
//        "c":CanWildcardStringMatchMultipleValues,"h":HasRegexTokens,"e":[EscapeRegexTokens(p) bytes],"r":[RemoveEscapeChars(p) bytes],
//        "es":StringMatcher(EscapeRegexTokens(p)) matches p,"eo":[indices of the subjects other than p that it matches],
//        "ru":1 iff a brand-new StringMatcher gives the same answers (the recorded answers come from ONE long-lived StringMatcher object that
//        is given every pattern in turn, as a pooled matcher would be),"cp":1 iff a copy-constructed StringMatcher gives the same answers,"tag":".."}
//        is written, round-robin, to <outprefix>.<k>.ndjson (k = 0..nshards-1); the first line of every shard file is
//        {"subjects":[[bytes],...]}.  With onlyShard = k only that file is produced (the check runs one process per shard).
//        Nothing is judged here: spec/Wildcard/WildcardTrace.tla is the oracle.
//   wc seg <level 1|2> <nshards> <outprefix> <report.ndjson>      (lines round-robin to <outprefix>.seg.<k>.ndjson, header line to <outprefix>.seg.hdr.json;
//        the check merges them into the pattern shard files)
//        SegmentedStringMatcher: patterns of 1..3 clauses joined by '/' (clauses: *, literals, wildcards, classes, alternatives, a range,
//        an escaped star; with and without a leading ~; plus variants with leading / trailing / doubled separators), both as a soft
//        separator ("/") and as a hard one ("//"), against subjects of 0..4 tokens (plus variants with empty segments, leading and
//        trailing separators).  First line {"subjects":[],"segsubjects":[[bytes],...]}; then one line per (pattern, separator kind):
//        {"k":"s","p":[bytes],"hard":0|1,"st":SetPattern ok,"u":IsPatternUnique,"ng0","m0":Match(subject, false) as for "m","ng1","m1":Match(subject, true),"tag":""}
//        from ONE long-lived, recycled SegmentedStringMatcher; "ru":1 iff a brand-new object answers the same.
//   wc one <pattern> [subject ...]      prints the answers for one pattern (debugging aid)
#include "regex/StringMatcher.h"
#include "regex/SegmentedStringMatcher.h"
#include "system/SetupSystem.h"
#include "mjson.h"
#include <set>
#include <string>
#include <vector>
using namespace muscle;

static const char PA[] = "ab12*?[]-(|),~<>\\.+^`";   // pattern alphabet: all documented metacharacters, two letters, two digits
static const char SA[] = "ab12,*\\.";                // subject alphabet
static const int NPA = (int) sizeof(PA) - 1, NSA = (int) sizeof(SA) - 1;

struct Rng {                                          // splitmix64: reproducible for a given VERIF_SEED
   uint64_t s;
   explicit Rng(uint64_t seed) : s(seed * 0x9E3779B97F4A7C15ULL + 0xC15C15C15ULL) {}
   uint64_t next() {uint64_t z = (s += 0x9E3779B97F4A7C15ULL); z = (z ^ (z >> 30)) * 0xBF58476D1CE4E5B9ULL; z = (z ^ (z >> 27)) * 0x94D049BB133111EBULL; return z ^ (z >> 31);}
   int below(int n) {return (int) (next() % (uint64_t) n);}
   bool chance(int pct) {return below(100) < pct;}
};

static void AllStrings(const char * alpha, int na, int maxLen, std::vector<std::string> & out)
{
   out.push_back("");
   size_t from = 0;
   for (int l=1; l<=maxLen; l++) {
      size_t to = out.size();
      for (size_t i=from; i<to; i++) for (int c=0; c<na; c++) out.push_back(out[i] + alpha[c]);
      from = to;
   }
}

// ---- random patterns from the documented grammar (sampling heuristic)
static const char LITS[] = "ab12ab12-.+~<>`";
static const char ESCD[] = "*?[]()|,\\.+^-~";
static const char * NUMS[] = {"1", "2", "11", "12", "21", "22", "111", "122", "212", "2222"};
static std::string GenAlt(Rng & r, int depth);
static std::string GenAtom(Rng & r, int depth)
{
   int k = r.below(100);
   if (k < 40) return std::string(1, LITS[r.below((int) sizeof(LITS) - 1)]);
   if (k < 52) return "*";
   if (k < 62) return "?";
   if (k < 74) {std::string s = "\\"; s += ESCD[r.below((int) sizeof(ESCD) - 1)]; return s;}
   if (k < 88) {
      std::string s = "["; if (r.chance(30)) s += '^';
      int n = 1 + r.below(2);
      for (int i=0; i<n; i++) {
         if (r.chance(35)) {static const char * RG[] = {"a-b", "1-2", "1-a", "2-b", "1-1", "*-2", ",-a"}; s += RG[r.below(7)];}
         else s += "ab12-~<>`^\\."[r.below(12)];
      }
      return s + "]";
   }
   if (depth < 2) return "(" + GenAlt(r, depth + 1) + ")";
   return "a";
}
static std::string GenCat(Rng & r, int depth) {std::string s; int n = 1 + r.below(depth ? 2 : 3); for (int i=0; i<n; i++) s += GenAtom(r, depth); return s;}
static std::string GenAlt(Rng & r, int depth)
{
   std::string s = GenCat(r, depth);
   int n = r.chance(45) ? 1 + r.below(2) : 0;
   for (int i=0; i<n; i++) {s += (depth && r.chance(70)) ? '|' : (r.chance(80) ? ',' : '|'); s += GenCat(r, depth);}
   return s;
}
static std::string GenPattern(Rng & r)
{
   std::string s; if (r.chance(15)) s = "~";
   if (r.chance(22)) {
      s += '<'; int n = 1 + r.below(3);
      for (int i=0; i<n; i++) {
         if (i) s += ',';
         int k = r.below(100); const char * a = NUMS[r.below(10)]; const char * b = NUMS[r.below(10)];
         if (k < 30) s += a; else if (k < 60) {s += a; s += '-'; s += b;} else if (k < 78) {s += a; s += '-';} else if (k < 95) {s += '-'; s += b;} else s += '-';
      }
      return s + ">";
   }
   return s + GenAlt(r, 0);
}

// ---- output
static void Bytes(std::string & o, const char * key, const std::string & s)
{
   char b[16]; o += '"'; o += key; o += "\":[";
   for (size_t i=0; i<s.size(); i++) {snprintf(b, sizeof(b), i ? ",%d" : "%d", (int) (unsigned char) s[i]); o += b;}
   o += ']';
}

struct Stats {uint64_t patterns, matchCalls, matched, setPatternErrors, unique, uvlist; Stats() : patterns(0), matchCalls(0), matched(0), setPatternErrors(0), unique(0), uvlist(0) {}};

static void OneLine(const std::string & p, const char * tag, const std::vector<std::string> & subj, std::string & o, Stats & st)
{
   char b[64];
   static StringMatcher * reused = new StringMatcher;     // never destroyed: recycled for every pattern
   StringMatcher & sm = *reused;
   const bool ok = sm.SetPattern(String(p.c_str()), true).IsOK();
   StringMatcher fresh; const bool fok = fresh.SetPattern(String(p.c_str()), true).IsOK();
   StringMatcher copy; if (ok) copy = sm;                 // (copying a matcher whose pattern did not compile only logs an error)
   bool ru = (fok == ok)&&(fresh.IsPatternUnique() == sm.IsPatternUnique())&&(fresh.IsPatternListOfUniqueValues() == sm.IsPatternListOfUniqueValues());
   bool cp = (!ok)||(copy.IsPatternUnique() == sm.IsPatternUnique())&&(copy.IsPatternListOfUniqueValues() == sm.IsPatternListOfUniqueValues())&&(copy == sm);
   std::vector<int> yes, no;
   for (size_t k=0; k<subj.size(); k++) {
      const bool mt = sm.Match(subj[k].c_str());
      if (mt) yes.push_back((int) k + 1); else no.push_back((int) k + 1);
      if (fresh.Match(subj[k].c_str()) != mt) ru = false;
      if ((ok)&&(subj[k].size() <= 2)&&(copy.Match(subj[k].c_str()) != mt)) cp = false;
   }
   const bool ng = no.size() < yes.size();
   const std::vector<int> & m = ng ? no : yes;
   o.clear(); o += "{\"k\":\"p\","; Bytes(o, "p", p);
   snprintf(b, sizeof(b), ",\"st\":%d,\"ng\":%d,\"m\":[", ok ? 1 : 0, ng ? 1 : 0); o += b;
   for (size_t i=0; i<m.size(); i++) {snprintf(b, sizeof(b), i ? ",%d" : "%d", m[i]); o += b;}
   const bool u = sm.IsPatternUnique(), v = sm.IsPatternListOfUniqueValues();
   snprintf(b, sizeof(b), "],\"u\":%d,\"v\":%d,\"c\":%d,\"h\":%d,", u ? 1 : 0, v ? 1 : 0, CanWildcardStringMatchMultipleValues(p.c_str()) ? 1 : 0, HasRegexTokens(p.c_str()) ? 1 : 0); o += b;
   const String e = EscapeRegexTokens(String(p.c_str())), r = RemoveEscapeChars(String(p.c_str()));
   Bytes(o, "e", std::string(e())); o += ','; Bytes(o, "r", std::string(r()));
   {
      StringMatcher esm; const bool eok = esm.SetPattern(e, true).IsOK();
      snprintf(b, sizeof(b), ",\"es\":%d,\"eo\":[", ((eok)&&(esm.Match(p.c_str()))) ? 1 : 0); o += b;
      bool first = true;
      for (size_t k=0; k<subj.size(); k++) if ((subj[k] != p)&&(esm.Match(subj[k].c_str()))) {snprintf(b, sizeof(b), first ? "%d" : ",%d", (int) k + 1); o += b; first = false;}
      snprintf(b, sizeof(b), "],\"ru\":%d,\"cp\":%d", ru ? 1 : 0, cp ? 1 : 0); o += b;
   }
   o += ",\"tag\":\""; o += tag; o += "\"}\n";
   st.patterns++; st.matchCalls += subj.size(); st.matched += yes.size(); if (!ok) st.setPatternErrors++; if (u) st.unique++; if (v) st.uvlist++;
}

static const char * DIRECTED[][2] = {
   {"\\b", "F9"}, {"[,]", "F10"}, {"`a", "F11"},
   {"<1-2>", ""}, {"~<1-2>", ""}, {"~<1>", ""}, {"<1-2,12->", ""}, {"<-2,21-22>", ""}, {"<2-11>", ""}, {"<11-12>", ""}, {"<1,2>", ""}, {"<12->", ""}, {"<-11>", ""},
   {"~<->", ""}, {"<2-21,111-211>", ""}, {"~<12-21>", ""}, {"<22-111>", ""}, {"<-1,2->", ""}, {"<1-1>", ""},
   {"(a|b)*", ""}, {"a,b,1", ""}, {"a\\,b", ""}, {"~a,b", ""}, {"[a-b]?", ""}, {"\\*\\?", ""}, {"[^a-b]*", ""}, {"(a|(b|1))2", ""}, {"a?b", ""}, {"*a*", ""},
   {"a\\\\,b", ""}, {"(a,b)(1|2)", ""}, {"~*a", ""}, {"\\~a", ""}, {"a.b", ""}, {"a+", ""}, {"[1-2][1-2]", ""}, {"?,??", ""}, {"*\\\\", ""}, {"a|b", ""}
};

static int Enum(int argc, char ** argv)
{
   if (argc < 12) {fprintf(stderr, "usage: wc enum fullLen sampleLen sampleCount genCount genMaxLen subjLen seed nshards outprefix report\n"); return 2;}
   const int fullLen = atoi(argv[2]), sampleLen = atoi(argv[3]); const long sampleCount = atol(argv[4]), genCount = atol(argv[5]);
   const int genMaxLen = atoi(argv[6]), subjLen = atoi(argv[7]); const uint64_t seed = strtoull(argv[8], NULL, 10); const int nsh = atoi(argv[9]);
   const std::string prefix = argv[10];
   if ((nsh < 1)||(nsh > 64)||(fullLen < 0)||(fullLen > 6)||(subjLen < 0)||(subjLen > 5)) return 2;

   std::vector<std::string> subj; AllStrings(SA, NSA, subjLen, subj);
   std::string hdr = "{\"subjects\":[";
   for (size_t k=0; k<subj.size(); k++) {if (k) hdr += ','; std::string t; Bytes(t, "x", subj[k]); hdr += t.substr(4);}
   hdr += "]}\n";
   const int only = (argc >= 14) ? atoi(argv[13]) : -1;
   std::vector<FILE *> f(nsh, (FILE *) NULL);
   for (int k=0; k<nsh; k++) {char b[32]; if ((only >= 0)&&(k != only)) continue; snprintf(b, sizeof(b), ".%d.ndjson", k); f[k] = fopen((prefix + b).c_str(), "w"); if (!f[k]) {perror("fopen"); return 2;} fputs(hdr.c_str(), f[k]);}

   Stats st; std::string line; uint64_t n = 0, nDirected = 0, nFull = 0, nSample = 0, nGen = 0;
   std::vector<uint64_t> perShard(nsh, 0), byLen(16, 0);
   std::set<std::string> emitted;                        // every pattern once: the lines are distinct cases
#define EMIT(P, TAG) do {if (!emitted.insert(P).second) break; if (f[n % nsh]) {OneLine((P), (TAG), subj, line, st); fputs(line.c_str(), f[n % nsh]); perShard[n % nsh]++; byLen[(P).size() < 15 ? (P).size() : 15]++;} n++;} while(0)
   const bool withDirected = (argc < 13)||(atoi(argv[12]) != 0);
   for (size_t i=0; (withDirected)&&(i<sizeof(DIRECTED)/sizeof(DIRECTED[0])); i++) {std::string p = DIRECTED[i][0]; EMIT(p, DIRECTED[i][1]);} nDirected = n;
   {std::vector<std::string> pats; AllStrings(PA, NPA, fullLen, pats); for (size_t i=0; i<pats.size(); i++) EMIT(pats[i], "");} nFull = n - nDirected;
   Rng rng(seed);
   if ((sampleLen > 0)&&(sampleCount > 0)) {
      uint64_t total = 1; for (int i=0; i<sampleLen; i++) total *= NPA;
      std::set<uint64_t> chosen;
      const uint64_t want = ((uint64_t) sampleCount < total) ? (uint64_t) sampleCount : total;
      if (want < total) while (chosen.size() < want) chosen.insert(rng.next() % total);
      std::set<uint64_t>::const_iterator it = chosen.begin();
      for (uint64_t j=0; j<want; j++) {
         uint64_t x = (want < total) ? *it++ : j; std::string p(sampleLen, 'a');     // sampleCount >= 21^sampleLen: the whole length
         for (int i=sampleLen-1; i>=0; i--) {p[i] = PA[x % NPA]; x /= NPA;}
         EMIT(p, "");
      }
   }
   nSample = n - nDirected - nFull;
   if (genCount > 0) {
      std::set<std::string> seen; long tries = 0;
      while (((long) seen.size() < genCount)&&(tries++ < genCount * 200)) {
         std::string p = GenPattern(rng);
         if (((int) p.size() <= fullLen)||((int) p.size() > genMaxLen)||(!seen.insert(p).second)) continue;
         EMIT(p, "");
      }
   }
   nGen = n - nDirected - nFull - nSample;
   for (int k=0; k<nsh; k++) if (f[k]) fclose(f[k]);

   FILE * rep = fopen(argv[11], "w"); if (!rep) {perror("report"); return 2;}
   mj::Value s = mj::Value::Obj();
   s.set("summary", mj::Value::Bool(true)).set("patterns", mj::Value::Int((int64_t) st.patterns)).set("subjects", mj::Value::Int((int64_t) subj.size()))
    .set("strings_enumerated", mj::Value::Int((int64_t) n)).set("directed", mj::Value::Int((int64_t) nDirected)).set("exhaustive_upto_len", mj::Value::Int(fullLen)).set("exhaustive", mj::Value::Int((int64_t) nFull))
    .set("sample_len", mj::Value::Int(sampleLen)).set("sampled", mj::Value::Int((int64_t) nSample)).set("grammar_generated", mj::Value::Int((int64_t) nGen))
    .set("match_calls", mj::Value::Int((int64_t) st.matchCalls)).set("matched", mj::Value::Int((int64_t) st.matched)).set("setpattern_errors", mj::Value::Int((int64_t) st.setPatternErrors))
    .set("unique", mj::Value::Int((int64_t) st.unique)).set("uvlist", mj::Value::Int((int64_t) st.uvlist));
   mj::Value ps = mj::Value::Arr(); for (int k=0; k<nsh; k++) ps.push(mj::Value::Int((int64_t) perShard[k])); s.set("lines_per_shard", ps);
   mj::Value bl = mj::Value::Arr(); for (int k=0; k<16; k++) bl.push(mj::Value::Int((int64_t) byLen[k])); s.set("patterns_by_length", bl);
   fprintf(rep, "%s\n", mj::ToString(s).c_str()); fclose(rep);
   return 0;
}

static void Seqs(const std::vector<std::string> & toks, int minN, int maxN, std::vector<std::vector<std::string> > & out)
{
   std::vector<std::vector<std::string> > cur(1);
   if (minN == 0) out.push_back(cur[0]);
   for (int n=1; n<=maxN; n++) {
      std::vector<std::vector<std::string> > nxt;
      for (size_t i=0; i<cur.size(); i++) for (size_t t=0; t<toks.size(); t++) {nxt.push_back(cur[i]); nxt.back().push_back(toks[t]);}
      cur.swap(nxt);
      if (n >= minN) out.insert(out.end(), cur.begin(), cur.end());
   }
}
static std::string JoinSeg(const std::vector<std::string> & v, size_t doubledAt = (size_t) -1)
{
   std::string s; for (size_t i=0; i<v.size(); i++) {if (i) s += (i == doubledAt) ? "//" : "/"; s += v[i];} return s;
}
static void AddUnique(std::vector<std::string> & v, std::set<std::string> & seen, const std::string & s) {if (seen.insert(s).second) v.push_back(s);}

static void MatchList(std::string & o, const char * ngKey, const char * mKey, const std::vector<bool> & ans)
{
   char b[48]; size_t yes = 0; for (size_t i=0; i<ans.size(); i++) if (ans[i]) yes++;
   const bool ng = (ans.size() - yes) < yes;
   snprintf(b, sizeof(b), ",\"%s\":%d,\"%s\":[", ngKey, ng ? 1 : 0, mKey); o += b;
   bool first = true;
   for (size_t i=0; i<ans.size(); i++) if (ans[i] != ng) {snprintf(b, sizeof(b), first ? "%d" : ",%d", (int) i + 1); o += b; first = false;}
   o += ']';
}

static int Seg(int argc, char ** argv)
{
   if (argc < 6) return 2;
   const int level = atoi(argv[2]), nsh = atoi(argv[3]); const std::string prefix = argv[4];
   if ((nsh < 1)||(nsh > 64)) return 2;
   static const char * C1[] = {"*", "a", "b", "a*", "?", "[ab]", "a,b", "<1-2>", "\\*"};
   static const char * C2[] = {"1", "ab", "(a|b)", "?*", "~a", "a?", "[^a]"};
   static const char * T1[] = {"a", "b", "1", "ab"};
   std::vector<std::string> clauses(C1, C1 + 9), toks(T1, T1 + 4), toks4(T1, T1 + 3);
   if (level >= 2) {clauses.insert(clauses.end(), C2, C2 + 7); toks.push_back("2"); toks4 = toks;}

   std::vector<std::string> pats, subj; std::set<std::string> seenP, seenS;
   {
      std::vector<std::vector<std::string> > sq; Seqs(clauses, 1, 3, sq);
      for (size_t i=0; i<sq.size(); i++) {
         const std::string p = JoinSeg(sq[i]);
         AddUnique(pats, seenP, p); AddUnique(pats, seenP, "~" + p);
         if (sq[i].size() <= 2) {AddUnique(pats, seenP, "/" + p); AddUnique(pats, seenP, p + "/"); if (sq[i].size() == 2) AddUnique(pats, seenP, JoinSeg(sq[i], 1));}
      }
      AddUnique(pats, seenP, ""); AddUnique(pats, seenP, "~"); AddUnique(pats, seenP, "/");
   }
   {
      std::vector<std::vector<std::string> > sq; Seqs(toks, 0, 3, sq); Seqs(toks4, 4, 4, sq);
      for (size_t i=0; i<sq.size(); i++) AddUnique(subj, seenS, JoinSeg(sq[i]));
      std::vector<std::string> ab; ab.push_back("a"); ab.push_back("b");
      std::vector<std::vector<std::string> > v; Seqs(ab, 0, 3, v);
      for (size_t i=0; i<v.size(); i++) {
         const std::string s = JoinSeg(v[i]);
         AddUnique(subj, seenS, "/" + s); AddUnique(subj, seenS, s + "/");
         for (size_t d=1; d<v[i].size(); d++) AddUnique(subj, seenS, JoinSeg(v[i], d));
      }
      AddUnique(subj, seenS, "*"); AddUnique(subj, seenS, "a/*"); AddUnique(subj, seenS, "*/a"); AddUnique(subj, seenS, "12/a"); AddUnique(subj, seenS, "a/2");
   }
   FILE * f = fopen((prefix + ".seg.hdr.json").c_str(), "w"); if (!f) {perror("fopen"); return 2;}
   std::vector<FILE *> fs(nsh);
   for (int k=0; k<nsh; k++) {char b[32]; snprintf(b, sizeof(b), ".seg.%d.ndjson", k); fs[k] = fopen((prefix + b).c_str(), "w"); if (!fs[k]) {perror("fopen"); return 2;}}
   std::string o = "{\"subjects\":[],\"segsubjects\":[";
   for (size_t k=0; k<subj.size(); k++) {if (k) o += ','; std::string t; Bytes(t, "x", subj[k]); o += t.substr(4);}
   o += "]}\n"; fputs(o.c_str(), f); fclose(f);

   SegmentedStringMatcher * reused = new SegmentedStringMatcher;
   uint64_t lines = 0, calls = 0, matched = 0, errors = 0, unique = 0;
   for (size_t i=0; i<pats.size(); i++) for (int hard=0; hard<2; hard++) {
      const char * sep = hard ? "//" : "/";
      const bool ok = reused->SetPattern(String(pats[i].c_str()), true, sep).IsOK();
      SegmentedStringMatcher fresh; const bool fok = fresh.SetPattern(String(pats[i].c_str()), true, sep).IsOK();
      bool ru = (ok == fok)&&(fresh.IsPatternUnique() == reused->IsPatternUnique());
      std::vector<bool> a0(subj.size()), a1(subj.size());
      for (size_t k=0; k<subj.size(); k++) {
         a0[k] = reused->Match(subj[k].c_str(), false); a1[k] = reused->Match(subj[k].c_str(), true);
         if ((fresh.Match(subj[k].c_str(), false) != a0[k])||(fresh.Match(subj[k].c_str(), true) != a1[k])) ru = false;
         calls += 2; if (a0[k]) matched++; if (a1[k]) matched++;
      }
      char b[96];
      o = "{\"k\":\"s\","; Bytes(o, "p", pats[i]);
      snprintf(b, sizeof(b), ",\"hard\":%d,\"st\":%d,\"u\":%d,\"ru\":%d", hard, ok ? 1 : 0, reused->IsPatternUnique() ? 1 : 0, ru ? 1 : 0); o += b;
      MatchList(o, "ng0", "m0", a0); MatchList(o, "ng1", "m1", a1);
      o += ",\"tag\":\"\"}\n"; fputs(o.c_str(), fs[lines % nsh]);
      lines++; if (!ok) errors++; if (reused->IsPatternUnique()) unique++;
   }
   for (int k=0; k<nsh; k++) fclose(fs[k]);
   delete reused;
   FILE * rep = fopen(argv[5], "w"); if (!rep) {perror("report"); return 2;}
   mj::Value s = mj::Value::Obj();
   s.set("summary", mj::Value::Bool(true)).set("seg_lines", mj::Value::Int((int64_t) lines)).set("seg_patterns", mj::Value::Int((int64_t) pats.size())).set("seg_subjects", mj::Value::Int((int64_t) subj.size()))
    .set("seg_match_calls", mj::Value::Int((int64_t) calls)).set("seg_matched", mj::Value::Int((int64_t) matched)).set("seg_setpattern_errors", mj::Value::Int((int64_t) errors)).set("seg_unique", mj::Value::Int((int64_t) unique));
   fprintf(rep, "%s\n", mj::ToString(s).c_str()); fclose(rep);
   return 0;
}

static int One(int argc, char ** argv)
{
   if (argc < 3) return 2;
   std::vector<std::string> subj; for (int i=3; i<argc; i++) subj.push_back(argv[i]);
   if (subj.empty()) AllStrings(SA, NSA, 2, subj);
   StringMatcher sm; const bool ok = sm.SetPattern(String(argv[2]), true).IsOK();
   printf("pattern [%s] SetPattern=%s unique=%d uvlist=%d canMatchMultiple=%d hasRegexTokens=%d escape=[%s] unescape=[%s]\nmatches:", argv[2], ok ? "OK" : "ERROR", (int) sm.IsPatternUnique(), (int) sm.IsPatternListOfUniqueValues(),
          (int) CanWildcardStringMatchMultipleValues(argv[2]), (int) HasRegexTokens(argv[2]), EscapeRegexTokens(String(argv[2]))(), RemoveEscapeChars(String(argv[2]))());
   for (size_t k=0; k<subj.size(); k++) if (sm.Match(subj[k].c_str())) printf(" [%s]", subj[k].c_str());
   printf("\n");
   return 0;
}

int main(int argc, char ** argv)
{
   CompleteSetupSystem css;
   if ((argc >= 2)&&(!strcmp(argv[1], "enum"))) return Enum(argc, argv);
   if ((argc >= 2)&&(!strcmp(argv[1], "seg")))  return Seg(argc, argv);
   if ((argc >= 2)&&(!strcmp(argv[1], "one")))  return One(argc, argv);
   fprintf(stderr, "usage: wc enum ... | wc one <pattern> [subjects]\n");
   return 2;
}
