SPECIFICATION Spec
CONSTANTS
  MaxChunk = 3
  MaxChunks = 2
  Bug = "none"
INVARIANTS PrefixAlways AllAtEnd ChunkedIsUnchunked RoundTrip
