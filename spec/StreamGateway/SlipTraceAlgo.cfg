SPECIFICATION TSpec
CONSTANTS
  MaxChunk = 0
  MaxChunks = 0
  Bug = "none"
INVARIANTS DecoderAgrees WireAsCoded
