--------------------------- MODULE GwCodecHistory ---------------------------
(***************************************************************************)
(* The zlib history dependence of the binary gateways: with                  *)
(* MUSCLE_MESSAGE_ENCODING_ZLIB_n the sender deflates every frame of at      *)
(* least 32 bytes with ONE deflate stream per ZLibCodec object               *)
(* (Z_SYNC_FLUSH after each frame), so a frame can only be inflated by an    *)
(* inflater that has seen exactly the frames the deflater had seen since     *)
(* its last reset.  Reset points: a new ZLibCodec object (GetCodec():        *)
(* created on first use and RE-created when the level asked for differs      *)
(* from the object's level), and, if AreOutgoingMessagesIndependent(),       *)
(* every frame (deflateReset / the INDEPENDENT header makes the receiver     *)
(* call inflateReset).  SetOutgoingEncoding() may change the level at any    *)
(* time ("starting with the next Message that is actually sent").            *)
(*                                                                          *)
(* Receiver = "by_level": the codec is looked up with the level of the       *)
(* incoming frame (MessageIOGateway::UnflattenHeaderAndMessage, and          *)
(* GetReceiveCodec() since the repair of F41, commit 3fb55a8).               *)
(* Receiver = "any_level": GetReceiveCodec() as it was, used by              *)
(* TemplatingMessageIOGateway: every zlib level mapped to 6, the codec       *)
(* object never re-created - finding F41: HistoryInSync fails as soon as     *)
(* the sender uses two different levels (kept as a wrong variant).           *)
(***************************************************************************)
EXTENDS Naturals, Sequences, TLC

CONSTANTS Levels,     \* zlib levels the sender may switch between (0 = MUSCLE_MESSAGE_ENCODING_DEFAULT is always available)
          MaxMsgs,
          Indep,      \* AreOutgoingMessagesIndependent()
          Receiver,   \* "by_level" | "any_level"
          Bug         \* "none" | "no_deflate_reset" (an independent frame is marked so but deflated with the history) | "no_inflate_reset"

VARIABLES enc, scodec, rcodec, wire, nsent, ok
vars == <<enc, scodec, rcodec, wire, nsent, ok>>

None == [level |-> 0, hist |-> <<>>, made |-> FALSE]
\* GetCodec(level, codec): the same object if it has that level, else a new one
Codec(c, level) == IF c.made /\ c.level = level THEN c ELSE [level |-> level, hist |-> <<>>, made |-> TRUE]

Init == enc \in Levels \cup {0} /\ scodec = None /\ rcodec = None /\ wire = <<>> /\ nsent = 0 /\ ok = TRUE

SetEncoding(l) == enc' = l /\ enc # l /\ UNCHANGED <<scodec, rcodec, wire, nsent, ok>>

\* FlattenHeaderAndMessage; small: the frame is shorter than 32 bytes and is sent as it is
Produce(small) ==
   /\ nsent < MaxMsgs /\ nsent' = nsent + 1
   /\ IF small \/ enc = 0
      THEN wire' = Append(wire, [id |-> nsent + 1, level |-> 0, indep |-> FALSE, hist |-> <<>>]) /\ UNCHANGED scodec
      ELSE LET c0 == Codec(scodec, enc)
               c  == IF Indep /\ Bug # "no_deflate_reset" THEN [c0 EXCEPT !.hist = <<>>] ELSE c0
           IN /\ wire' = Append(wire, [id |-> nsent + 1, level |-> enc, indep |-> Indep, hist |-> c.hist])
              /\ scodec' = [c EXCEPT !.hist = Append(@, nsent + 1)]
   /\ UNCHANGED <<enc, rcodec, ok>>

\* UnflattenHeaderAndMessage
Consume ==
   /\ wire # <<>> /\ ok
   /\ LET f == Head(wire) IN
      /\ wire' = Tail(wire)
      /\ IF f.level = 0 THEN UNCHANGED <<rcodec, ok>>
         ELSE LET c0 == Codec(rcodec, IF Receiver = "any_level" THEN 6 ELSE f.level)
                  c  == IF f.indep /\ Bug # "no_inflate_reset" THEN [c0 EXCEPT !.hist = <<>>] ELSE c0
              IN /\ ok' = (c.hist = f.hist)                      \* inflate() succeeds iff the inflater is where the deflater was
                 /\ rcodec' = [c EXCEPT !.hist = Append(@, f.id)]
   /\ UNCHANGED <<enc, scodec, nsent>>

Next == (\E l \in Levels \cup {0} : SetEncoding(l)) \/ (\E small \in BOOLEAN : Produce(small)) \/ Consume
Spec == Init /\ [][Next]_vars

\* the receiver inflates frame k with the history the sender used
HistoryInSync == ok
\* with nothing in flight both codecs have seen the same frames since their last reset (if both exist and were used at the same level last)
EqualWhenIdle == (wire = <<>> /\ scodec.made /\ rcodec.made /\ Receiver = "by_level" /\ scodec.level = rcodec.level) => scodec.hist = rcodec.hist
=============================================================================
