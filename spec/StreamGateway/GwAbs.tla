-------------------------------- MODULE GwAbs --------------------------------
(***************************************************************************)
(* Property C03, abstractly: a gateway pair is a FIFO of items.             *)
(*                                                                          *)
(* `sent' is the sequence of items queued on the sender, `delivered' the    *)
(* sequence handed to the receiver's callback, in order.  An item is what   *)
(* the gateway type promises to preserve: a whole Message (binary,          *)
(* templating, WebSocket with a slave gateway, mini / micro gateways), a    *)
(* text line (plain text gateway), a non-empty chunk (SLIP, WebSocket       *)
(* without a slave), a byte (raw gateway: it has no framing).               *)
(*                                                                          *)
(* Nothing lost, duplicated, merged, split, altered or reordered, whatever  *)
(* the transport does to the byte stream:                                   *)
(*    Prefix      delivered is always a prefix of sent                      *)
(*    QuietEqual  when all bytes have moved and the sender is idle          *)
(*                (`quiet'), delivered = sent                               *)
(* How the bytes are sliced is invisible at this level: every step of an    *)
(* implementation-shaped specification (GwBinaryImpl, ...) must be a Send,  *)
(* a Move (some more items arrive, possibly none) or a stuttering step.     *)
(***************************************************************************)
EXTENDS Naturals, Sequences

VARIABLES sent,       \* sequence of item identities, in the order they were queued
          delivered,  \* sequence of item identities, in the order they were handed over
          quiet       \* TRUE: no byte is in flight or waiting to be written (the sender is idle, the wire is empty)

absvars == <<sent, delivered, quiet>>

IsPrefix(s, t) == Len(s) <= Len(t) /\ \A i \in 1..Len(s) : s[i] = t[i]

AbsInit == sent = <<>> /\ delivered = <<>> /\ quiet = TRUE

\* AddOutgoingMessage: x becomes the last item (identities are arbitrary values; equal contents may repeat)
AbsSend == \E x \in {Len(sent) + 1} : sent' = Append(sent, x) /\ quiet' = FALSE /\ UNCHANGED delivered

\* any number of DoOutput / DoInput calls with any segmentation: some more items arrive, in order, unchanged
AbsMove == /\ UNCHANGED sent
           /\ \E n \in Len(delivered)..Len(sent) : delivered' = SubSeq(sent, 1, n)
           /\ quiet' \in BOOLEAN
           /\ quiet' => delivered' = sent

AbsNext == AbsSend \/ AbsMove
AbsSpec == AbsInit /\ [][AbsNext]_absvars

Prefix     == IsPrefix(delivered, sent)
QuietEqual == quiet => delivered = sent
=============================================================================
