SPECIFICATION Spec
CONSTANTS
  MaxLen = 7
  Bug = "none"
INVARIANTS ChunkedIsUnchunked NothingLost FlagOK
