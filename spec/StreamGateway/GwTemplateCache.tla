--------------------------- MODULE GwTemplateCache ---------------------------
(***************************************************************************)
(* The two LRU template caches of TemplatingMessageIOGateway as coded:      *)
(* _outgoingTemplates at the sender (FlattenHeaderAndMessage) and           *)
(* _incomingTemplates at the receiver (UnflattenHeaderAndMessage), ordered  *)
(* lists (front = most recently used) with byte tallies and a byte budget,  *)
(* trimmed by TrimLRUCache: while (items > 1 && tally > budget) drop last.  *)
(*                                                                          *)
(* A Message has a shape (its template); shape 0 = a what-code-only         *)
(* ("trivial") Message or one IsOkayToTemplatizeMessage() refuses: it never *)
(* touches the caches.  Frames travel in order (GwBinaryImpl); the sender   *)
(* may be any number of frames ahead of the receiver.                       *)
(*                                                                          *)
(* Property: when the receiver processes the k-th frame its cache equals    *)
(* the sender's cache right after producing it (CacheInSync), hence a       *)
(* payload-only frame always finds its template (NeverMiss) - across        *)
(* eviction; the tallies are the sums of the sizes held (TallyExact), and   *)
(* the budget is respected except for a single oversized template.          *)
(***************************************************************************)
EXTENDS Naturals, Sequences, FiniteSets, TLC

CONSTANTS Shapes,      \* template ids; the last decimal digit of an id is the flattened size of the template (11, 21: two shapes of size 1); shape 0 = no template
          Budget,      \* _maxLRUCacheSizeBytes
          MaxMsgs,
          MaxInFlight, \* how many frames the sender may be ahead
          Bug,         \* "none" or a wrong variant: "send_ge" / "recv_ge" (that side evicts at tally >= budget), "trim_before_add" (the sender trims
                       \* before it counts the new template), "tally_keeps" (an eviction takes 1 off the tally), "hit_duplicates" (a hit is put at the
                       \* front without being removed from its old place)
          RECORD

SizeOf(s) == s % 10

VARIABLES sc, stot,    \* sender cache (sequence of shapes, front first) and its tally
          rc, rtot,    \* receiver cache and tally
          wire,        \* frames in flight: [kind, s, snap]; snap = the sender's cache right after producing the frame (ghost)
          nsent, nrecv,
          miss,        \* a payload-only frame did not find its template: B_DATA_NOT_FOUND, the connection is lost
          insync,      \* ghost: every frame processed so far met a receiver cache equal to its snap
          last
vars == <<sc, stot, rc, rtot, wire, nsent, nrecv, miss, insync, last>>

Without(q, s) == SelectSeq(q, LAMBDA x : x # s)
In(q, s) == \E i \in 1..Len(q) : q[i] = s
RECURSIVE Sum(_)
Sum(q) == IF q = <<>> THEN 0 ELSE SizeOf(q[1]) + Sum(Tail(q))

\* TrimLRUCache
RECURSIVE Trim(_, _, _)
Trim(q, tot, side) ==
   LET over == IF (Bug = "send_ge" /\ side = "S") \/ (Bug = "recv_ge" /\ side = "R") THEN tot >= Budget ELSE tot > Budget
   IN IF Len(q) > 1 /\ over
      THEN LET z == q[Len(q)] IN Trim(SubSeq(q, 1, Len(q) - 1), IF Bug = "tally_keeps" THEN tot - 1 ELSE IF tot >= SizeOf(z) THEN tot - SizeOf(z) ELSE 0, side)
      ELSE [q |-> q, tot |-> tot]

Init == /\ sc = <<>> /\ stot = 0 /\ rc = <<>> /\ rtot = 0 /\ wire = <<>> /\ nsent = 0 /\ nrecv = 0
        /\ miss = FALSE /\ insync = TRUE /\ last = [a |-> "-"]
Ready == ~RECORD \/ last.a = "-"
Rec(r) == IF RECORD THEN r ELSE last

\* FlattenHeaderAndMessage for a Message of shape s
Produce(s) ==
   /\ Ready /\ nsent < MaxMsgs /\ Len(wire) < MaxInFlight /\ ~miss
   /\ nsent' = nsent + 1
   /\ IF s = 0
      THEN /\ wire' = Append(wire, [kind |-> "plain", s |-> 0, snap |-> sc])
           /\ last' = Rec([a |-> "Produce", s |-> 0, kind |-> "plain", cache |-> sc])
           /\ UNCHANGED <<sc, stot>>
      ELSE IF In(sc, s)
      THEN \* GetAndMoveToFront: payload-only frame
           LET q == <<s>> \o (IF Bug = "hit_duplicates" THEN sc ELSE Without(sc, s)) IN
           /\ sc' = q /\ UNCHANGED stot
           /\ wire' = Append(wire, [kind |-> "payload", s |-> s, snap |-> q])
           /\ last' = Rec([a |-> "Produce", s |-> s, kind |-> "payload", cache |-> q])
      ELSE \* PutAtFront + tally + trim: full frame with the create-template bit
           LET t == IF Bug = "trim_before_add" THEN LET t0 == Trim(sc, stot, "S") IN [q |-> <<s>> \o t0.q, tot |-> t0.tot + SizeOf(s)]
                    ELSE Trim(<<s>> \o sc, stot + SizeOf(s), "S") IN
           /\ sc' = t.q /\ stot' = t.tot
           /\ wire' = Append(wire, [kind |-> "create", s |-> s, snap |-> t.q])
           /\ last' = Rec([a |-> "Produce", s |-> s, kind |-> "create", cache |-> t.q])
   /\ UNCHANGED <<rc, rtot, nrecv, miss, insync>>

\* UnflattenHeaderAndMessage for the next frame
Consume ==
   /\ Ready /\ wire # <<>> /\ ~miss
   /\ LET f == Head(wire) IN
      /\ wire' = Tail(wire) /\ nrecv' = nrecv + 1
      /\ CASE f.kind = "plain" -> /\ UNCHANGED <<rc, rtot, miss>> /\ insync' = (insync /\ rc = f.snap)
           [] f.kind = "payload" ->
                 IF In(rc, f.s)
                 THEN LET q == <<f.s>> \o Without(rc, f.s) IN rc' = q /\ UNCHANGED <<rtot, miss>> /\ insync' = (insync /\ q = f.snap)
                 ELSE miss' = TRUE /\ insync' = FALSE /\ UNCHANGED <<rc, rtot>>
           [] f.kind = "create" ->
                 LET had == In(rc, f.s)
                     q0  == Without(rc, f.s)                                     \* "decrement the bytes-counter for any old template that we might be replacing"
                     t0  == IF had THEN rtot - SizeOf(f.s) ELSE rtot
                     t   == Trim(<<f.s>> \o q0, t0 + SizeOf(f.s), "R")
                 IN rc' = t.q /\ rtot' = t.tot /\ UNCHANGED miss /\ insync' = (insync /\ t.q = f.snap)
      /\ last' = Rec([a |-> "Consume", kind |-> f.kind, s |-> f.s, ok |-> ~miss'])
   /\ UNCHANGED <<sc, stot, nsent>>

Ack == RECORD /\ last.a # "-" /\ last' = [a |-> "-"] /\ UNCHANGED <<sc, stot, rc, rtot, wire, nsent, nrecv, miss, insync>>

Next == (\E s \in Shapes \cup {0} : Produce(s)) \/ Consume \/ Ack
Spec == Init /\ [][Next]_vars

-----------------------------------------------------------------------------
NeverMiss   == ~miss
CacheInSync == insync
\* with nothing in flight the two caches are the same list with the same tally
EqualWhenIdle == wire = <<>> => (rc = sc /\ rtot = stot)
TallyExact  == stot = Sum(sc) /\ rtot = Sum(rc)
NoDuplicates == \A i, j \in 1..Len(sc) : i # j => sc[i] # sc[j]
BudgetRespected == (Len(sc) > 1 => stot <= Budget) /\ (Len(rc) > 1 => rtot <= Budget)
=============================================================================
