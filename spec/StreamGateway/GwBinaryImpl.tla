---------------------------- MODULE GwBinaryImpl ----------------------------
(***************************************************************************)
(* iogateway/MessageIOGateway.cpp as coded, stream (TCP-style) mode: a      *)
(* sender {outgoing queue, _sendBuffer {buffer, offset}}, the wire, and a   *)
(* receiver {_recvBuffer {buffer, offset}, header / body phase, the         *)
(* 2048-byte scratch buffer or a heap buffer}.                              *)
(*                                                                          *)
(* One action = one public call: Send (AddOutgoingMessage), Out             *)
(* (DoOutput(maxBytes)), In (DoInput(maxBytes)).  The environment decides   *)
(* how many bytes the transport takes / gives during the call (`cap': the   *)
(* loops of the code stop at the first short Write() / Read(), so a budget  *)
(* per call describes every possible sequence of results, including 0 =     *)
(* would-block and one byte at a time).  The results of the individual      *)
(* Write() / Read() calls are recorded in `last' so that a scripted DataIO  *)
(* can serve exactly those counts.                                          *)
(*                                                                          *)
(* Bytes are identified by their position in the sender's output stream     *)
(* (frame f occupies [Start(f), End(f))), buffers are exact arrays of such  *)
(* positions, kept as run lists <<n, a>> (n cells holding a, a+1, ...;      *)
(* a = -1: n cells of junk) so that the real constants HS = 8, SCR = 2048   *)
(* cost the same as small ones.  Model checking uses small numbers with     *)
(* the same case structure (frame < scratch, = scratch, > scratch) and      *)
(* EVERY segmentation; trace validation uses the real constants.            *)
(*                                                                          *)
(* Property (bottom): Prefix, NoError, Conservation, BufIsFramePrefix,      *)
(* ScratchCase, AcctOK, QuietEqual, refinement of GwAbs, Delivers.          *)
(***************************************************************************)
EXTENDS Naturals, Integers, Sequences, FiniteSets, TLC

CONSTANTS HS,       \* header size (8)
          SCR,      \* size of the scratch receive buffer (2048): frames up to SCR bytes are received in it
          Bodies,   \* body sizes a queued Message may flatten to (model checking / generation)
          MaxMsgs,  \* Messages queued per behaviour
          MaxArgs,  \* finite maxBytes arguments tried (NoLimit is always tried)
          Bug,      \* "none", or a deliberately wrong variant (each invariant is shown to fail once)
          RECORD    \* TRUE: `last' describes the step (behaviour generation, trace validation), every step is acknowledged

NoLimit == 2147483647     \* MUSCLE_NO_LIMIT
Min(a, b) == IF a <= b THEN a ELSE b

VARIABLES ends,       \* ends[f] = stream position just after frame f (all Messages queued so far, in order)
          popped,     \* number of Messages taken out of the outgoing queue (PopNextOutgoingMessage)
          sbuf,       \* _sendBuffer holds frame `popped'
          soff,       \* _sendBuffer._offset
          wire,       \* run list: bytes written and not yet read
          rcv,        \* receiver record, see R0
          delivered,  \* frames handed to the receiver callback (0 = a Message that was never sent)
          err,        \* the receiver's unrecoverable error status is set
          acct,       \* [w |-> sum of DoOutput results, r |-> sum of DoInput results, put |-> bytes put on the wire, got |-> bytes taken off it]
          last

vars == <<ends, popped, sbuf, soff, wire, rcv, delivered, err, acct, last>>

R0 == [have |-> FALSE,   \* _recvBuffer._buffer is set
       off |-> 0,        \* _recvBuffer._offset
       size |-> 0,       \* _recvBuffer._buffer()->GetNumBytes()
       scr |-> TRUE,     \* the buffer is the scratch buffer
       buf |-> <<>>]     \* its cells, as far as they were ever written

NFrames  == Len(ends)
Start(f) == IF f = 1 THEN 0 ELSE ends[f - 1]
Size(f)  == ends[f] - Start(f)

-----------------------------------------------------------------------------
(* run lists *)
RECURSIVE SLen(_), TakeS(_, _), DropS(_, _)
SLen(s) == IF s = <<>> THEN 0 ELSE s[1][1] + SLen(Tail(s))
Run(a, n) == IF n = 0 THEN <<>> ELSE << <<n, a>> >>
Junk(n) == Run(-1, n)
Cat(s, t) == IF s = <<>> THEN t ELSE IF t = <<>> THEN s
             ELSE LET x == s[Len(s)] y == t[1] IN
                  IF (x[2] >= 0 /\ y[2] = x[2] + x[1]) \/ (x[2] = -1 /\ y[2] = -1)
                  THEN SubSeq(s, 1, Len(s) - 1) \o << <<x[1] + y[1], x[2]>> >> \o Tail(t)
                  ELSE s \o t
TakeS(s, k) == IF k = 0 \/ s = <<>> THEN <<>>
               ELSE IF s[1][1] <= k THEN Cat(<<s[1]>>, TakeS(Tail(s), k - s[1][1]))
               ELSE << <<k, s[1][2]>> >>
DropS(s, k) == IF k = 0 \/ s = <<>> THEN s
               ELSE IF s[1][1] <= k THEN DropS(Tail(s), k - s[1][1])
               ELSE << <<s[1][1] - k, IF s[1][2] = -1 THEN -1 ELSE s[1][2] + k>> >> \o Tail(s)
\* memcpy(buffer + off, data): cells below off that were never written are junk
Store(buf, off, data) == LET have == SLen(buf)
                             pre  == IF off <= have THEN TakeS(buf, off) ELSE Cat(buf, Junk(off - have))
                         IN Cat(Cat(pre, data), DropS(buf, off + SLen(data)))
\* the frame whose header / whose bytes these cells are (0: none)
FrameOfHeader(cells) == IF \E f \in 1..NFrames : cells = Run(Start(f), HS) THEN CHOOSE f \in 1..NFrames : cells = Run(Start(f), HS) ELSE 0
IsFrame(cells, f) == cells = Run(Start(f), Size(f))

-----------------------------------------------------------------------------
(* DoOutputImplementation(maxBytes), stream mode.  c = [popped, sbuf, soff, wire, max, cap, w, ret] *)
Dec(m, k) == IF m = NoLimit THEN m ELSE m - k
RECURSIVE OutLoop(_)
OutLoop(c) ==
   IF c.max = 0 THEN c
   ELSE LET c1 == IF c.sbuf THEN c
                  ELSE IF c.popped < NFrames THEN [c EXCEPT !.popped = @ + 1, !.sbuf = TRUE, !.soff = 0]   \* PopNextOutgoingMessage + FlattenHeaderAndMessage
                  ELSE c
        IN IF ~c1.sbuf THEN c1                                                                          \* nothing more to send
           ELSE LET f   == c1.popped
                    att == Min(c1.max, Size(f) - c1.soff)                                               \* SendMoreData
                    k   == Min(att, c1.cap)                                                             \* what Write() takes
                    adv == IF Bug = "send_skip" THEN att ELSE k
                    c2  == [c1 EXCEPT !.soff = @ + adv, !.wire = Cat(@, Run(Start(f) + c1.soff, k)),
                                      !.max = Dec(@, k), !.cap = @ - k, !.w = Append(@, k),
                                      !.ret = @ + (IF Bug = "ret_before_short" THEN att ELSE k)]
                IN IF k < att THEN c2                                                                    \* short write: output buffer is full for now
                   ELSE OutLoop(IF c2.soff = Size(f) THEN [c2 EXCEPT !.sbuf = FALSE, !.soff = 0] ELSE c2)

(* DoInputImplementation(receiver, maxBytes), stream mode.  c = [r, wire, dl, err, max, cap, rl, ret] *)
ReadInto(c, att) ==   \* ReceiveMoreData: Read(buffer + offset, att)
   LET k    == Min(Min(att, c.cap), SLen(c.wire))
       noff == IF Bug = "offset_assign" /\ c.r.off > 0 /\ c.r.off < HS THEN k ELSE c.r.off + k
   IN [c EXCEPT !.r.buf = Store(@, c.r.off, TakeS(c.wire, k)), !.r.off = noff, !.wire = DropS(@, k),
                !.max = Dec(@, k), !.cap = @ - k, !.rl = Append(@, k), !.ret = @ + k, !.k = k]

RECURSIVE InLoop(_), InBody(_), InDone(_)
InLoop(c) ==
   IF c.max = 0 \/ c.err THEN c
   ELSE LET c1 == IF c.r.have THEN c ELSE [c EXCEPT !.r = [have |-> TRUE, off |-> 0, size |-> SCR, scr |-> TRUE, buf |-> <<>>]]
        IN IF c1.r.off < HS
           THEN LET att == Min(c1.max, HS - c1.r.off)
                    c2  == ReadInto(c1, att)
                IN IF c2.k < att THEN c2                         \* short read
                   ELSE IF c2.r.off < HS THEN InLoop(c2)         \* (only a wrong variant gets here)
                   ELSE \* the header is complete: GetBodySize, then trim the scratch buffer or move to a heap buffer
                        LET f == FrameOfHeader(TakeS(c2.r.buf, HS))
                        IN IF f = 0 THEN [c2 EXCEPT !.err = TRUE]
                           ELSE IF (IF Bug = "scratch_lt" THEN Size(f) < SCR ELSE Size(f) <= SCR)
                                THEN InBody([c2 EXCEPT !.r.size = IF Bug = "trunc_short" /\ Size(f) = SCR THEN Size(f) - 1 ELSE Size(f)])
                                ELSE InBody([c2 EXCEPT !.r.size = Size(f), !.r.scr = FALSE,
                                                       !.r.buf = IF Bug = "no_header_copy" THEN Junk(HS) ELSE TakeS(c2.r.buf, HS)])
           ELSE InBody(c1)
InBody(c) ==
   IF c.r.off < c.r.size
   THEN LET att == Min(c.max, c.r.size - c.r.off)
        IN IF att = 0 THEN InLoop(c)                             \* Read(.., 0): no I/O, the loop condition ends the call
           ELSE LET c2 == ReadInto(c, att)
                IN IF c2.k < att THEN c2 ELSE InDone(c2)
   ELSE InDone(c)
InDone(c) ==
   IF Bug = "lazy_deliver" /\ c.r.off = c.r.size /\ c.k > 0 THEN c      \* (wrong variant: the completed frame is looked at by the next call only)
   ELSE IF c.r.off = c.r.size
   THEN \* UnflattenHeaderAndMessage, CallMessageReceivedFromGateway, _recvBuffer.Reset()
        LET cells == TakeS(c.r.buf, c.r.size)
            f     == FrameOfHeader(TakeS(cells, HS))
        IN IF f = 0 \/ SLen(cells) # c.r.size \/ Size(f) # c.r.size THEN [c EXCEPT !.err = TRUE]     \* length word disagrees with the buffer: B_BAD_DATA
           ELSE InLoop([c EXCEPT !.dl = Append(@, IF IsFrame(cells, f) THEN f ELSE 0),
                                 !.r = IF Bug = "dup_deliver" /\ Len(c.dl) = 0 THEN [c.r EXCEPT !.off = c.r.size] ELSE R0, !.k = 0])
   ELSE InLoop(c)

-----------------------------------------------------------------------------
Init == /\ ends = <<>> /\ popped = 0 /\ sbuf = FALSE /\ soff = 0 /\ wire = <<>>
        /\ rcv = R0 /\ delivered = <<>> /\ err = FALSE
        /\ acct = [w |-> 0, r |-> 0, put |-> 0, got |-> 0]
        /\ last = [a |-> "-"]

Ready == ~RECORD \/ last.a = "-"
Rec(r) == IF RECORD THEN r ELSE last
MArg(m) == IF m = NoLimit THEN -1 ELSE m

\* AddOutgoingMessage of a Message that flattens to b body bytes
SendB(b) == /\ Ready /\ NFrames < MaxMsgs
            /\ ends' = Append(ends, (IF ends = <<>> THEN 0 ELSE ends[NFrames]) + HS + b)
            /\ last' = Rec([a |-> "Send", b |-> b, n |-> NFrames + 1])
            /\ UNCHANGED <<popped, sbuf, soff, wire, rcv, delivered, err, acct>>
Send == \E b \in Bodies : SendB(b)

Pending == (IF NFrames = 0 THEN 0 ELSE ends[NFrames]) - acct.put    \* bytes queued and not yet written

OutMC(m, cap) ==
   /\ Ready
   /\ LET c == OutLoop([popped |-> popped, sbuf |-> sbuf, soff |-> soff, wire |-> wire, max |-> m, cap |-> cap, w |-> <<>>, ret |-> 0])
      IN /\ popped' = c.popped /\ sbuf' = c.sbuf /\ soff' = c.soff /\ wire' = c.wire
         /\ acct' = [acct EXCEPT !.w = @ + c.ret, !.put = @ + (SLen(c.wire) - SLen(wire))]
         /\ last' = Rec([a |-> "Out", m |-> MArg(m), w |-> c.w, ret |-> c.ret, popped |-> c.popped, sbuf |-> c.sbuf, soff |-> c.soff])
   /\ UNCHANGED <<ends, rcv, delivered, err>>
\* cap beyond what the call can move makes no difference
Out == \E m \in MaxArgs \cup {NoLimit} : \E cap \in 0..Min(m, IF Pending > 0 THEN Pending ELSE 0) : OutMC(m, cap)

InMC(m, cap) ==
   /\ Ready
   /\ LET c == InLoop([r |-> rcv, wire |-> wire, dl |-> delivered, err |-> err, max |-> m, cap |-> cap, rl |-> <<>>, ret |-> 0, k |-> 0])
      IN /\ rcv' = (IF c.r.off = 0 THEN R0 ELSE c.r)      \* (an empty buffer and no buffer are the same thing)
         /\ wire' = c.wire /\ delivered' = c.dl /\ err' = c.err
         /\ acct' = [acct EXCEPT !.r = @ + c.ret, !.got = @ + (SLen(wire) - SLen(c.wire))]
         /\ last' = Rec([a |-> "In", m |-> MArg(m), r |-> c.rl, ret |-> c.ret, nd |-> Len(c.dl), dl |-> SubSeq(c.dl, Len(delivered) + 1, Len(c.dl)),
                         off |-> c.r.off, scr |-> c.r.scr, err |-> c.err])
   /\ UNCHANGED <<ends, popped, sbuf, soff>>
In == \E m \in MaxArgs \cup {NoLimit} : \E cap \in 0..Min(m, SLen(wire)) : InMC(m, cap)

\* behaviour generation: every step is acknowledged, so that the state graph has one node per state and one per step
Ack == RECORD /\ last.a # "-" /\ last' = [a |-> "-"] /\ UNCHANGED <<ends, popped, sbuf, soff, wire, rcv, delivered, err, acct>>

Next == Send \/ Out \/ In \/ Ack
Spec == Init /\ [][Next]_vars

\* calls that move at least one byte
OutSome == \E m \in MaxArgs \cup {NoLimit} : \E cap \in 1..Min(m, IF Pending > 0 THEN Pending ELSE 0) : OutMC(m, cap)
InSome  == \E m \in MaxArgs \cup {NoLimit} : \E cap \in 1..Min(m, SLen(wire)) : InMC(m, cap)
FairSpec == Spec /\ WF_vars(Send) /\ WF_vars(OutSome) /\ WF_vars(InSome)

-----------------------------------------------------------------------------
(* The property *)
TypeOK == /\ popped \in 0..NFrames /\ sbuf \in BOOLEAN /\ soff \in Nat /\ err \in BOOLEAN
          /\ \A i \in 1..Len(delivered) : delivered[i] \in 0..NFrames

\* C03 itself: what was handed over is a prefix of what was queued, frame by frame, byte for byte
Prefix  == Len(delivered) <= NFrames /\ \A i \in 1..Len(delivered) : delivered[i] = i
NoError == ~err

\* every byte written is either part of a delivered frame, in the receive buffer or on the wire: in stream order, nothing twice, nothing missing
Written == IF popped = 0 THEN 0 ELSE IF sbuf THEN Start(popped) + soff ELSE ends[popped]
Consumed == IF delivered = <<>> THEN 0 ELSE ends[Len(delivered)]
Conservation == Prefix => Cat(TakeS(rcv.buf, rcv.off), wire) = Run(Consumed, Written - Consumed)

\* the receive buffer holds the first `off' bytes of the next frame
BufIsFramePrefix == (Prefix /\ rcv.have /\ rcv.off > 0) => /\ Len(delivered) < NFrames
                                                           /\ TakeS(rcv.buf, rcv.off) = Run(Start(Len(delivered) + 1), rcv.off)
\* once the header is in: the buffer is exactly as large as the frame, and it is the scratch buffer iff the frame fits into it
ScratchCase == (Prefix /\ rcv.have /\ rcv.off >= HS) => LET f == Len(delivered) + 1
                                                        IN f <= NFrames /\ rcv.size = Size(f) /\ (rcv.scr <=> Size(f) <= SCR) /\ rcv.off < rcv.size
\* DoOutput / DoInput return the number of bytes they moved
AcctOK == acct.w = acct.put /\ acct.r = acct.got

Quiet == popped = NFrames /\ ~sbuf /\ wire = <<>>
QuietEqual == Quiet => Len(delivered) = NFrames /\ rcv.off = 0

\* refinement of GwAbs
Abs == INSTANCE GwAbs WITH sent <- [i \in 1..NFrames |-> i], delivered <- delivered, quiet <- Quiet
AbsSpec == Abs!AbsSpec

\* with a transport that moves bytes now and then, everything arrives
Delivers == <>(Len(delivered) = MaxMsgs)
=============================================================================
