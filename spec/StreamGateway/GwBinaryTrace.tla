---------------------------- MODULE GwBinaryTrace ----------------------------
(***************************************************************************)
(* Trace validation against GwBinaryImpl with the REAL constants (HS = 8,   *)
(* SCR = 2048) for the gateways that share MessageIOGateway's framing and   *)
(* loops (all 10 encodings, the independent-frames variant, the templating  *)
(* gateway).  The harness recorded every public call of long seeded random  *)
(* runs:                                                                    *)
(*   {"e":"Reset"}                                                          *)
(*   {"e":"Send","size":n}   AddOutgoingMessage of a Message whose frame    *)
(*                           (header + body as written) has n bytes         *)
(*   {"e":"Out","m":M,"w":[..],"ret":k,"q":n}   DoOutput(M) (-1 = no limit):*)
(*                           results of the Write() calls it made, its       *)
(*                           result, outgoing queue length afterwards        *)
(*   {"e":"In","m":M,"r":[..],"ret":k,"dl":[..]}  DoInput(M): results of the*)
(*                           Read() calls, its result, the Messages handed   *)
(*                           over during the call (numbered as in GwAbsTrace)*)
(*   {"e":"End"}             the harness saw everything arrive               *)
(* Each line must be THE step the specification takes for that call with    *)
(* that transport budget (linear: one state per line, plus the              *)
(* acknowledgement).  The invariants of GwBinaryImpl are checked on the way.*)
(***************************************************************************)
EXTENDS GwBinaryImpl, IOUtils, Json

VARIABLE l
Log == ndJsonDeserialize(IOEnv.TRACE)
N == Len(Log)

RECURSIVE SumSeq(_)
SumSeq(s) == IF s = <<>> THEN 0 ELSE s[1] + SumSeq(Tail(s))
Arg(m) == IF m = -1 THEN NoLimit ELSE m

TInit == Init /\ l = 1

TReset == /\ Log[l].e = "Reset"
          /\ ends' = <<>> /\ popped' = 0 /\ sbuf' = FALSE /\ soff' = 0 /\ wire' = <<>> /\ rcv' = R0 /\ delivered' = <<>> /\ err' = FALSE
          /\ acct' = [w |-> 0, r |-> 0, put |-> 0, got |-> 0] /\ last' = [a |-> "-"]
TSend == Log[l].e = "Send" /\ SendB(Log[l].size - HS)
TOut  == /\ Log[l].e = "Out" /\ OutMC(Arg(Log[l].m), SumSeq(Log[l].w))
         /\ last'.w = Log[l].w /\ last'.ret = Log[l].ret /\ NFrames - last'.popped = Log[l].q
TIn   == /\ Log[l].e = "In" /\ InMC(Arg(Log[l].m), SumSeq(Log[l].r))
         /\ last'.r = Log[l].r /\ last'.ret = Log[l].ret /\ last'.dl = Log[l].dl
TEnd  == Log[l].e = "End" /\ Quiet /\ Len(delivered) = NFrames /\ UNCHANGED vars

\* the whole log has been explained: say so (cheaper than having TLC print a 10^4-state counterexample to "l <= N")
TDone == l = N + 1 /\ last.a = "-" /\ PrintT("@@\"accepted\"") /\ l' = N + 2 /\ UNCHANGED vars
TNext == \/ (Ack /\ UNCHANGED l)
         \/ (l <= N /\ last.a = "-" /\ (TReset \/ TSend \/ TOut \/ TIn \/ TEnd) /\ l' = l + 1)
         \/ TDone
TSpec == TInit /\ [][TNext]_<<vars, l>>

=============================================================================
