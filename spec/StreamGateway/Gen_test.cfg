SPECIFICATION Spec
CONSTANTS
  HS = 2
  SCR = 5
  Bodies = {2, 3, 4}
  MaxMsgs = 2
  MaxArgs = {1, 2, 3}
  Bug = "none"
  RECORD = TRUE
INVARIANTS TypeOK
