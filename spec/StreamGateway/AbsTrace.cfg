SPECIFICATION Spec
INVARIANTS Prefix QuietEqual SentInOrder
