----------------------------- MODULE GwTextTrace -----------------------------
(***************************************************************************)
(* Binding of GwText to the real PlainTextMessageIOGateway (property C03).  *)
(* harness/gw.cpp `text' fed every stream over {x, CR, LF} up to a length    *)
(* in EVERY segmentation into reads to a real gateway, found all the          *)
(* segmentations of a stream to agree (or reported the disagreement), and    *)
(* wrote one line per stream: s = the stream (0 = ordinary byte, 1 = CR,      *)
(* 2 = LF), l = the lines handed over (each the stream positions of its       *)
(* bytes: the harness gives every ordinary byte a value that identifies its   *)
(* position), p = the carried-over tail (read back with FlushInput()).        *)
(* One TLC state per line; LineOK = the documented splitting.                 *)
(***************************************************************************)
EXTENDS GwText, IOUtils, Json

Log == ndJsonDeserialize(IOEnv.TRACE)
Sym(c) == IF c = 0 THEN "x" ELSE IF c = 1 THEN "r" ELSE "n"

VARIABLE i
TInit == i \in 1..Len(Log) /\ stream = <<>> /\ pos = 0 /\ pending = <<>> /\ cr = FALSE /\ out = <<>>    \* (the variables of GwText are not used here)
TNext == UNCHANGED <<i, vars>>
TSpec == TInit /\ [][TNext]_<<i, vars>>

LineOK == LET ln  == Log[i]
              str == [j \in 1..Len(ln.s) |-> Sym(ln.s[j])]
              ref == Split(str)
          IN ref.lines = ln.l /\ ref.pending = ln.p
=============================================================================
