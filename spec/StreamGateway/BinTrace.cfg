SPECIFICATION TSpec
CONSTANTS
  HS = 8
  SCR = 2048
  Bodies = {}
  MaxMsgs = 1000000
  MaxArgs = {}
  Bug = "none"
  RECORD = TRUE
INVARIANTS Prefix NoError Conservation BufIsFramePrefix ScratchCase AcctOK QuietEqual
