------------------------------- MODULE GwText -------------------------------
(***************************************************************************)
(* The line splitter of PlainTextMessageIOGateway (stream mode) as coded:   *)
(* DoInputImplementation reads one chunk, scans it with a chunk-local       *)
(* `beginAt', hands complete lines to AddIncomingText (which prepends the   *)
(* carried-over _incomingText), and keeps two things between reads: the     *)
(* unterminated tail (_incomingText) and _prevCharWasCarriageReturn.        *)
(*                                                                          *)
(* Alphabet: "x" (any byte other than CR, LF, NUL), "r" = CR, "n" = LF.     *)
(* An ordinary character is identified by its position in the stream, so a  *)
(* line is the sequence of the positions it is made of (nothing merged,     *)
(* split, lost or reordered can go unnoticed).                              *)
(*                                                                          *)
(* Documented meaning (PlainTextMessageIOGateway.h: "lines of text          *)
(* (separated by \r, \n, or \r\n)"): Split(stream).  TLC proves for EVERY   *)
(* stream up to MaxLen and EVERY segmentation into reads (0-byte reads      *)
(* included) that the chunked scanner gives Split of what it has read.      *)
(***************************************************************************)
EXTENDS Naturals, Sequences, TLC

CONSTANTS MaxLen,   \* streams of length 0..MaxLen
          Bug       \* "none" or a wrong variant: "local_flag" (the CR flag is chunk-local, as in the packet mode of the same class),
                    \* "drop_tail" (the unterminated tail is kept only when the chunk held no terminator),
                    \* "stale_flag" (an ordinary character does not clear the CR flag),
                    \* "skip_after_boundary_lf" (after an LF swallowed as the first byte of a chunk, a CR that follows directly emits nothing)

Alphabet == {"x", "r", "n"}

(* ---- the documented function ---------------------------------------- *)
RECURSIVE SplitAux(_, _, _, _)
SplitAux(s, i, cur, out) ==
   IF i > Len(s) THEN [lines |-> out, pending |-> cur]
   ELSE IF s[i] = "r" THEN SplitAux(s, IF i < Len(s) /\ s[i + 1] = "n" THEN i + 2 ELSE i + 1, <<>>, Append(out, cur))
   ELSE IF s[i] = "n" THEN SplitAux(s, i + 1, <<>>, Append(out, cur))
   ELSE SplitAux(s, i + 1, Append(cur, i), out)
Split(s) == SplitAux(s, 1, <<>>, <<>>)

(* ---- the scanner as coded -------------------------------------------- *)
\* st = [pending, cr, out]; the chunk is stream[from + 1 .. from + k]; i = index in the chunk, b = beginAt
RECURSIVE Scan(_, _, _, _, _, _)
Scan(s, from, k, i, b, st) ==
   IF i > k
   THEN \* end of the chunk: the tail after the last terminator is appended to _incomingText
        IF b <= k
        THEN [st EXCEPT !.pending = IF Bug = "drop_tail" /\ b > 1 THEN <<>> ELSE @ \o [j \in 1..(k - b + 1) |-> from + b + j - 1]]
        ELSE st
   ELSE LET c == s[from + i] IN
        IF c \in {"r", "n"}
        THEN LET seg  == [j \in 1..(i - b) |-> from + b + j - 1]                 \* &buf[beginAt] up to the terminator
                 emit == (c = "r" \/ ~st.cr) /\ ~(Bug = "skip_after_boundary_lf" /\ c = "r" /\ i = 2 /\ st.sw)
                 st2  == IF emit THEN [st EXCEPT !.out = Append(@, st.pending \o seg), !.pending = <<>>] ELSE st
             IN Scan(s, from, k, i + 1, i + 1, [st2 EXCEPT !.cr = (c = "r"), !.sw = (i = 1 /\ c = "n" /\ st.cr)])
        ELSE Scan(s, from, k, i + 1, b, IF Bug = "stale_flag" THEN st ELSE [st EXCEPT !.cr = FALSE])

VARIABLES stream, pos, pending, cr, out
vars == <<stream, pos, pending, cr, out>>

Streams == UNION {[1..n -> Alphabet] : n \in 0..MaxLen}

Init == stream \in Streams /\ pos = 0 /\ pending = <<>> /\ cr = FALSE /\ out = <<>>

\* one DoInput call whose Read() returns k bytes (k = 0: would-block, nothing happens)
Feed(k) == /\ pos + k <= Len(stream)
           /\ LET st0 == [pending |-> pending, cr |-> (IF Bug = "local_flag" THEN FALSE ELSE cr), out |-> out, sw |-> FALSE]
                  st  == IF k = 0 THEN [pending |-> pending, cr |-> cr, out |-> out] ELSE Scan(stream, pos, k, 1, 1, st0)
              IN pending' = st.pending /\ cr' = st.cr /\ out' = st.out
           /\ pos' = pos + k /\ UNCHANGED stream
Next == \E k \in 0..MaxLen : Feed(k)
Spec == Init /\ [][Next]_vars

(* ---- the property ------------------------------------------------------ *)
\* whatever the segmentation so far, the lines handed over and the carried-over tail are those of the documented function
ChunkedIsUnchunked == LET ref == Split(SubSeq(stream, 1, pos)) IN out = ref.lines /\ pending = ref.pending
\* nothing merged, lost, duplicated or reordered: the positions in out \o pending are exactly the ordinary characters read, in order
RECURSIVE Flat(_)
Flat(ls) == IF ls = <<>> THEN <<>> ELSE ls[1] \o Flat(Tail(ls))
Ordinary(n) == SelectSeq([j \in 1..n |-> j], LAMBDA j : stream[j] = "x")
NothingLost == Flat(out) \o pending = Ordinary(pos)
\* the flag is what it says
FlagOK == cr = (pos > 0 /\ stream[pos] = "r")
=============================================================================
