----------------------------- MODULE GwBinarySim -----------------------------
(* Longer behaviours of GwBinaryImpl by random simulation (tlc -simulate): the list of step records of a behaviour is       *)
(* printed once it has Steps steps; the check collects the printed lists and replays them like the path-cover behaviours. *)
EXTENDS GwBinaryImpl, Json

CONSTANT Steps
VARIABLE hist

SimInit == Init /\ hist = <<>>
SimNext == Next /\ hist' = (IF last'.a # "-" THEN Append(hist, last') ELSE hist)
SimSpec == SimInit /\ [][SimNext]_<<vars, hist>>

PrintDone == (Len(hist) = Steps /\ last.a # "-") => PrintT("@@" \o ToJson(hist))
=============================================================================
