----------------------------- MODULE GwSlipTrace -----------------------------
(***************************************************************************)
(* Binding of GwSlip to the real SLIPFramedDataMessageIOGateway (C03).      *)
(* harness/gw.cpp `slip' queued every list of chunks within its bounds on a *)
(* real sender, captured the encoded stream, fed it in EVERY segmentation   *)
(* to a real receiver, found all segmentations to agree (or reported it)    *)
(* and wrote one line per list: c = the chunks, w = the bytes on the wire,  *)
(* d = the chunks handed over (0 = ordinary byte, 1 = END 0300, 2 = ESC     *)
(* 0333, 3 = 0334, 4 = 0335).  One TLC state per line.                      *)
(***************************************************************************)
EXTENDS GwSlip, IOUtils, Json

Log == ndJsonDeserialize(IOEnv.TRACE)
Sym(c) == CASE c = 0 -> X [] c = 1 -> END [] c = 2 -> ESC [] c = 3 -> EEND [] OTHER -> EESC
Syms(s) == [j \in 1..Len(s) |-> Sym(s[j])]
SymsAll(ss) == [j \in 1..Len(ss) |-> Syms(ss[j])]

VARIABLE i
TInit == i \in 1..Len(Log) /\ chunks = <<>> /\ wire = <<>> /\ pos = 0 /\ dec = <<>>    \* (the variables of GwSlip are not used here)
TNext == UNCHANGED <<i, vars>>
TSpec == TInit /\ [][TNext]_<<i, vars>>

\* C03: exactly the non-empty chunks arrive
Delivered == SymsAll(Log[i].d) = NonEmpty(SymsAll(Log[i].c))
\* the specification's decoder, given the bytes the real sender wrote, agrees
DecoderAgrees == RefDecode(Syms(Log[i].w)) = SymsAll(Log[i].d)
\* algorithm level: the wire format is the one the specification's encoder produces
\* (lists with an empty chunk are left out: the sender does not see empty chunks at all - known finding F12)
WireAsCoded == (\A k \in 1..Len(Log[i].c) : Log[i].c[k] # <<>>) => Syms(Log[i].w) = EncAll(SymsAll(Log[i].c))
=============================================================================
