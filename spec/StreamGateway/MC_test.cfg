SPECIFICATION Spec
CONSTANTS
  HS = 2
  SCR = 5
  Bodies = {2, 3, 4}
  MaxMsgs = 2
  MaxArgs = {0, 1, 2, 3, 4, 5, 6, 7}
  Bug = "none"
  RECORD = FALSE
INVARIANTS TypeOK Prefix NoError Conservation BufIsFramePrefix ScratchCase AcctOK QuietEqual
PROPERTIES AbsSpec
