----------------------------- MODULE GwAbsTrace -----------------------------
(***************************************************************************)
(* Trace validation against GwAbs (property C03) for EVERY gateway type.    *)
(* harness/gw.cpp (and gwmini / gwmicro) recorded, during long seeded       *)
(* random runs with random segmentation, one line per event:                *)
(*   {"e":"Reset","cfg":..,"mode":"items"|"bytes"}  a new run begins        *)
(*   {"e":"S","i":n}        item n (1, 2, ...) was queued on the sender      *)
(*   {"e":"D","i":j}        an item was handed to the receiver's callback;   *)
(*                          j = the number of the queued item whose bytes    *)
(*                          it has (the next undelivered one if that one     *)
(*                          matches; 0 if no queued item has these bytes)    *)
(*   {"e":"Q"}              all bytes have moved and the sender is idle      *)
(* In "bytes" mode (raw gateway: no framing, the item is the byte):          *)
(*   {"e":"S","len":n}      n more bytes were queued                         *)
(*   {"e":"D","a":a,"b":b}  the bytes handed over are bytes [a, b) of the    *)
(*                          queued stream (a = -1: they are not the bytes    *)
(*                          that come next in it)                            *)
(* Every line is one step of GwAbs (Send / Move); the invariants of GwAbs    *)
(* are checked in every state: a log that breaks the property is reported    *)
(* with the name of the invariant, not merely rejected.                      *)
(***************************************************************************)
EXTENDS Naturals, Integers, Sequences, TLC, IOUtils, Json

VARIABLES sent, delivered, quiet,   \* GwAbs
          bytes,                    \* "bytes" mode: sent / delivered are numbers of bytes
          slack,                    \* "bytes" mode with a minimum chunk size: up to slack bytes may stay behind at quiescence (documented)
          l
Log == ndJsonDeserialize(IOEnv.TRACE)
N == Len(Log)

IsPrefix(s, t) == Len(s) <= Len(t) /\ \A i \in 1..Len(s) : s[i] = t[i]

Init == sent = <<>> /\ delivered = <<>> /\ quiet = TRUE /\ bytes = FALSE /\ slack = 0 /\ l = 1

Reset == /\ Log[l].e = "Reset"
         /\ bytes' = (Log[l].mode = "bytes") /\ slack' = (IF "slack" \in DOMAIN Log[l] THEN Log[l].slack ELSE 0)
         /\ sent' = (IF Log[l].mode = "bytes" THEN 0 ELSE <<>>) /\ delivered' = (IF Log[l].mode = "bytes" THEN 0 ELSE <<>>) /\ quiet' = TRUE
S == /\ Log[l].e = "S"
     /\ sent' = (IF bytes THEN sent + Log[l].len ELSE Append(sent, Log[l].i))
     /\ quiet' = FALSE /\ UNCHANGED <<delivered, bytes, slack>>
D == /\ Log[l].e = "D"
     /\ delivered' = (IF bytes THEN (IF Log[l].a = delivered THEN Log[l].b ELSE -1) ELSE Append(delivered, Log[l].i))
     /\ quiet' = FALSE /\ UNCHANGED <<sent, bytes, slack>>
Q == /\ Log[l].e = "Q" /\ quiet' = TRUE /\ UNCHANGED <<sent, delivered, bytes, slack>>

\* the whole log has been read: say so (printing the marker is cheaper than having TLC print a 10^4-state counterexample to "l <= N")
Done == l = N + 1 /\ PrintT("@@\"accepted\"") /\ l' = N + 2 /\ UNCHANGED <<sent, delivered, quiet, bytes, slack>>
Next == (l <= N /\ (Reset \/ S \/ D \/ Q) /\ l' = l + 1) \/ Done
Spec == Init /\ [][Next]_<<sent, delivered, quiet, bytes, slack, l>>

\* ---- GwAbs, on the recorded run
Prefix     == IF bytes THEN delivered >= 0 /\ delivered <= sent ELSE IsPrefix(delivered, sent)
QuietEqual == quiet => (IF bytes THEN delivered <= sent /\ sent - delivered <= slack ELSE delivered = sent)
\* item numbers are queued in order 1, 2, ...
SentInOrder == bytes \/ \A i \in 1..Len(sent) : sent[i] = i

=============================================================================
