------------------------------- MODULE GwSlip -------------------------------
(***************************************************************************)
(* SLIPFramedDataMessageIOGateway as coded: every data chunk of an outgoing *)
(* Message becomes one SLIP frame (RFC 1055 with a leading END:             *)
(* END esc(chunk) END); the receiver decodes whatever pieces the raw-data   *)
(* superclass hands it, keeping between pieces the frame under construction *)
(* (_pendingBuffer) and _lastReceivedCharWasEscape.                         *)
(*                                                                          *)
(* Alphabet: the four bytes SLIP treats specially and one ordinary byte.    *)
(* TLC proves for EVERY list of chunks within the bounds and EVERY          *)
(* segmentation of the encoded stream (0-byte reads included): the decoder  *)
(* hands over exactly the non-empty chunks, in order (an empty SLIP frame   *)
(* is indistinguishable from back-to-back END bytes by design).             *)
(***************************************************************************)
EXTENDS Naturals, Sequences, TLC

CONSTANTS MaxChunk,   \* chunk lengths 0..MaxChunk
          MaxChunks,  \* 1..MaxChunks chunks per run
          Bug         \* "none" or a wrong variant: "local_esc" (the ESC flag does not survive the end of a piece),
                      \* "esc_sticky" (the flag is not cleared by the byte it escapes), "enc_no_esc_esc" (the encoder lets ESC through);
                      \* "no_lead_end" (no END in front of a frame) is NOT wrong (plain RFC 1055) and must pass

END == "END"  ESC == "ESC"  EEND == "EEND"  EESC == "EESC"  X == "x"
Alphabet == {END, ESC, EEND, EESC, X}

(* ---- SLIPEncodeBytes --------------------------------------------------- *)
RECURSIVE EncBody(_)
EncBody(c) == IF c = <<>> THEN <<>>
              ELSE (IF c[1] = END THEN <<ESC, EEND>> ELSE IF c[1] = ESC /\ Bug # "enc_no_esc_esc" THEN <<ESC, EESC>> ELSE <<c[1]>>) \o EncBody(Tail(c))
Enc(c) == (IF Bug = "no_lead_end" THEN <<>> ELSE <<END>>) \o EncBody(c) \o <<END>>
RECURSIVE EncAll(_)
EncAll(cs) == IF cs = <<>> THEN <<>> ELSE Enc(cs[1]) \o EncAll(Tail(cs))

(* ---- the decoder: MessageReceivedFromGateway, byte by byte ------------- *)
\* d = [pend, esc, out]
Flush(d) == IF d.pend # <<>> THEN [d EXCEPT !.out = Append(@, d.pend), !.pend = <<>>] ELSE d
Byte(d, b) ==
   IF d.esc
   THEN LET d2 == CASE b = END  -> Flush(d)
                    [] b = EEND -> [d EXCEPT !.pend = Append(@, END)]
                    [] b = EESC -> [d EXCEPT !.pend = Append(@, ESC)]
                    [] OTHER    -> [d EXCEPT !.pend = Append(@, b)]        \* protocol violation, let through like the reference implementation
        IN [d2 EXCEPT !.esc = (Bug = "esc_sticky")]
   ELSE LET d2 == CASE b = END -> Flush(d)
                    [] b = ESC -> d
                    [] OTHER   -> [d EXCEPT !.pend = Append(@, b)]
        IN [d2 EXCEPT !.esc = (b = ESC)]
RECURSIVE Piece(_, _)
Piece(d, bytes) == IF bytes = <<>> THEN d ELSE Piece(Byte(d, bytes[1]), Tail(bytes))

VARIABLES chunks, wire, pos, dec
vars == <<chunks, wire, pos, dec>>

Chunk  == UNION {[1..n -> Alphabet] : n \in 0..MaxChunk}
Init == /\ chunks \in UNION {[1..n -> Chunk] : n \in 1..MaxChunks}
        /\ wire = EncAll(chunks) /\ pos = 0
        /\ dec = [pend |-> <<>>, esc |-> FALSE, out |-> <<>>]

\* one DoInput call: the raw-data superclass reads k bytes and hands them over as one piece
Feed(k) == /\ pos + k <= Len(wire)
           /\ dec' = Piece(IF Bug = "local_esc" THEN [dec EXCEPT !.esc = FALSE] ELSE dec, SubSeq(wire, pos + 1, pos + k))
           /\ pos' = pos + k /\ UNCHANGED <<chunks, wire>>
Next == \E k \in 0..(2 * MaxChunk + 2) : Feed(k)
Spec == Init /\ [][Next]_vars

(* ---- the property ------------------------------------------------------ *)
NonEmpty(cs) == SelectSeq(cs, LAMBDA c : c # <<>>)
IsPrefix(s, t) == Len(s) <= Len(t) /\ \A j \in 1..Len(s) : s[j] = t[j]
\* decoding in one piece
RefDecode(bytes) == Flush(Piece([pend |-> <<>>, esc |-> FALSE, out |-> <<>>], bytes)).out
\* nothing but sent chunks, in order, at any moment; everything when the whole stream has been read
PrefixAlways == IsPrefix(dec.out, NonEmpty(chunks))
AllAtEnd     == pos = Len(wire) => (dec.out = NonEmpty(chunks) /\ dec.pend = <<>> /\ ~dec.esc)
\* chunked decoding = decoding in one piece, for every prefix
ChunkedIsUnchunked == LET d1 == Piece([pend |-> <<>>, esc |-> FALSE, out |-> <<>>], SubSeq(wire, 1, pos)) IN dec = d1
\* the encoder never emits a bare special byte inside a frame
RoundTrip == RefDecode(wire) = NonEmpty(chunks)
=============================================================================
