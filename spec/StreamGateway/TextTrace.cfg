SPECIFICATION TSpec
CONSTANTS
  MaxLen = 0
  Bug = "none"
INVARIANT LineOK
