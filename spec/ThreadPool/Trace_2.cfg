SPECIFICATION TraceSpec
CONSTANTS
  Clients = {1, 2, 3}
  MaxThreads = 2
  NMsgs = 3
  AllowShutdown = TRUE
  RECORD = TRUE
INVARIANTS NotAccepted OneAtATime ThreadLimit InOrder Conservation FlagExact UnregisterWaits NoHandlerAfterUnregister
CONSTRAINT Track
POSTCONDITION Report
