SPECIFICATION FairSpec
CONSTANTS
  Clients = {1, 2}
  MaxThreads = 1
  NMsgs = 2
  AllowShutdown = TRUE
  RECORD = FALSE
INVARIANTS OneAtATime ThreadLimit InOrder Conservation FlagExact UnregisterWaits
PROPERTIES UnregisterReturns ShutdownTerminates AllHandled
