-------------------------------- MODULE TPTrace --------------------------------
(* Trace validation for C19: the events a real ThreadPool emits inside its _poolLock critical sections (aggregated per     *)
(* critical section), the pool threads' Receive events, the client handlers' calls and the wake-ups / joins observed by     *)
(* the controlled scheduler are replayed against TPImpl; every action is logged, validation is linear.                      *)
EXTENDS TPImpl, Json, IOUtils
VARIABLE l
TraceLog == ndJsonDeserialize(IOEnv.TRACE)
N == Len(TraceLog)
TraceInit == Init /\ l = 1 /\ TLCSet(1, 0)
B(x) == x = 1
Step(ln) ==
   CASE ln.e = "Submit"     -> Submit(ln.c) /\ last'.deferred = B(ln.deferred) /\ last'.len = ln.len /\ last'.made = ln.made /\ last'.disp = ln.disp
     [] ln.e = "Receive"    -> Receive(ln.t) /\ last'.c = ln.c
     [] ln.e = "Handle"     -> Handle(ln.t) /\ last'.c = ln.c /\ last'.m = ln.m
     [] ln.e = "Finish"     -> Finish(ln.t) /\ last'.c = ln.c /\ last'.early = B(ln.early) /\ last'.promoted = ln.promoted /\ last'.notified = B(ln.notified)
                               /\ last'.made = ln.made /\ last'.disp = ln.disp
     [] ln.e = "UnregBegin" -> UnregBegin(ln.c) /\ last'.wait = B(ln.wait)
     [] ln.e = "UnregWake"  -> UnregWake(ln.c)
     [] ln.e = "UnregEnd"   -> UnregEnd(ln.c)
     [] ln.e = "ShutFlag"   -> ShutFlag
     [] ln.e = "SwapAvail"  -> SwapAvail /\ last'.n = ln.n
     [] ln.e = "SwapActive" -> SwapActive /\ last'.n = ln.n
     [] ln.e = "ShutStop"   -> ShutStop /\ last'.t = ln.t
     [] ln.e = "ShutFinal"  -> ShutFinal
     [] OTHER -> FALSE
Evented == l <= N /\ TraceLog[l].e # "Reset" /\ Step(TraceLog[l]) /\ l' = l + 1
TReset == /\ l <= N /\ TraceLog[l].e = "Reset"
          /\ (shut = "done" \/ l = 1)
          /\ reg' = [c \in Clients |-> "idle"] /\ pend' = <<>> /\ pq' = [c \in Clients |-> <<>>] /\ defq' = [c \in Clients |-> <<>>]
          /\ nthreads' = 0 /\ avail' = <<>> /\ active' = <<>> /\ thr' = [t \in TIds |-> T0]
          /\ wait' = [c \in Clients |-> "no"] /\ upc' = [c \in Clients |-> "reg"]
          /\ shut' = "no" /\ stopq' = <<>> /\ nstop' = 0
          /\ sub' = [c \in Clients |-> 0] /\ hlog' = [c \in Clients |-> <<>>] /\ last' = [a |-> "Init"]
          /\ l' = l + 1
TraceNext == Evented \/ TReset
TraceSpec == TraceInit /\ [][TraceNext]_<<vars, l>>
NotAccepted == l <= N
Track == TLCSet(1, IF TLCGet(1) > l THEN TLCGet(1) ELSE l)
Report == PrintT(<<"maxline", TLCGet(1), "of", N>>)
=============================================================================
