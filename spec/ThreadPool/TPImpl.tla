-------------------------------- MODULE TPImpl --------------------------------
(***************************************************************************)
(* system/ThreadPool.cpp as coded.  Everything the pool knows is protected  *)
(* by _poolLock; one action = one _poolLock critical section (Submit with   *)
(* its dispatch loop, Finish with promotion of deferred Messages + dispatch *)
(* + notification, the three steps of UnregisterClient, the steps of        *)
(* Shutdown) or one step a pool thread takes outside the lock (receiving    *)
(* the dummy wake-up Message, handling ONE client Message).  The Message    *)
(* channel to a pool thread is C11's (ThreadImpl); here it is abstracted to *)
(* "signalled".                                                            *)
(* The property (C19) is at the bottom.                                     *)
(***************************************************************************)
EXTENDS Naturals, Sequences, FiniteSets, TLC

CONSTANTS Clients,      \* set of client ids (small naturals)
          MaxThreads,   \* the pool's thread limit
          NMsgs,        \* Messages each client submits at most
          AllowShutdown,\* BOOLEAN: the pool may be destroyed at any moment
          RECORD

TIds == 1..MaxThreads

VARIABLES reg,       \* [Clients -> "no" | "idle" | "busy"]   _registeredClients + its being-handled flag
          pend,      \* Seq(Clients): key order of _pendingMessages
          pq, defq,  \* [Clients -> Seq(Nat)] pending / deferred Messages of a client
          nthreads,  \* pool threads created so far (ids 1..nthreads)
          avail,     \* Seq(TIds): _availableThreads in table order (the LAST one is used)
          active,    \* Seq(TIds): _activeThreads in table (= insertion) order
          thr,       \* [TIds -> [st, c, iq]]  st: none | parked | signalled | handling | exited
          wait,      \* [Clients -> "no" | "waiting" | "notified"]   _waitingForCompletion + the waiter's wait-condition
          upc,       \* [Clients -> "reg" | "unregWait" | "unregEnd" | "gone"]  progress of the client's UnregisterClient call
          shut,      \* "no" | "flagged" | "stopAvail" | "stopActive" | "done"
          stopq,     \* threads the Shutdown call still has to stop and join, in table order
          nstop,     \* threads stopped in this round of Shutdown's loop
          sub,       \* [Clients -> Nat] Messages submitted (ghost; Message k of client c is the k-th submitted)
          hlog,      \* [Clients -> Seq(Nat)] Messages the client's handler saw (ghost)
          last

vars == <<reg, pend, pq, defq, nthreads, avail, active, thr, wait, upc, shut, stopq, nstop, sub, hlog, last>>

T0 == [st |-> "none", c |-> 0, iq |-> <<>>]
Init == /\ reg = [c \in Clients |-> "idle"] /\ pend = <<>> /\ pq = [c \in Clients |-> <<>>] /\ defq = [c \in Clients |-> <<>>]
        /\ nthreads = 0 /\ avail = <<>> /\ active = <<>> /\ thr = [t \in TIds |-> T0]
        /\ wait = [c \in Clients |-> "no"] /\ upc = [c \in Clients |-> "reg"]
        /\ shut = "no" /\ stopq = <<>> /\ nstop = 0
        /\ sub = [c \in Clients |-> 0] /\ hlog = [c \in Clients |-> <<>>]
        /\ last = [a |-> "Init"]

Cur == [reg |-> reg, pend |-> pend, pq |-> pq, nthreads |-> nthreads, avail |-> avail, active |-> active, thr |-> thr, made |-> <<>>, disp |-> <<>>]
Front(s) == SubSeq(s, 1, Len(s) - 1)
InSeq(x, s) == \E i \in 1..Len(s) : s[i] = x
Without(s, x) == SelectSeq(s, LAMBDA y : y # x)

\* DispatchPendingMessagesUnsafe(), as a function on the pool state (made / disp record what it did, for the log)
RECURSIVE Dispatch(_)
Dispatch(s) ==
    IF shut # "no" \/ s.pend = <<>> THEN s
    ELSE LET c == Head(s.pend) IN
         IF s.reg[c] # "no" /\ s.pq[c] # <<>>
         THEN LET s1 == IF s.avail = <<>> /\ Len(s.active) < MaxThreads
                        THEN [s EXCEPT !.nthreads = @ + 1, !.avail = <<s.nthreads + 1>>, !.thr[s.nthreads + 1] = [T0 EXCEPT !.st = "parked"], !.made = Append(@, s.nthreads + 1)]
                        ELSE s
              IN IF s1.avail # <<>>
                 THEN LET t == s1.avail[Len(s1.avail)]
                      IN Dispatch([s1 EXCEPT !.avail = Front(@), !.active = Append(@, t),
                                             !.thr[t] = [st |-> "signalled", c |-> c, iq |-> s1.pq[c]],
                                             !.pq[c] = <<>>, !.reg[c] = "busy", !.pend = Tail(@), !.disp = Append(@, <<c, t>>)])
                 ELSE s1                                                \* every pool thread is busy
         ELSE Dispatch([s EXCEPT !.pend = Tail(@)])                     \* nothing to do for this client

Put(s) == /\ reg' = s.reg /\ pend' = s.pend /\ pq' = s.pq /\ nthreads' = s.nthreads /\ avail' = s.avail /\ active' = s.active /\ thr' = s.thr
Log(a, rec) == last' = IF RECORD THEN [a |-> a] @@ rec ELSE last
Outstanding(s, dq, c) == s.reg[c] = "busy" \/ s.pq[c] # <<>> \/ dq[c] # <<>>       \* DoesClientHaveMessagesOutstandingUnsafe

\* ---- SendMessageToThreadPool ------------------------------------------------------------------------------
Submit(c) ==
    /\ upc[c] = "reg" /\ reg[c] # "no" /\ sub[c] < NMsgs
    /\ sub' = [sub EXCEPT ![c] = @ + 1]
    /\ IF reg[c] = "busy"
       THEN /\ defq' = [defq EXCEPT ![c] = Append(@, sub[c] + 1)]
            /\ UNCHANGED <<reg, pend, pq, nthreads, avail, active, thr>>
            /\ Log("Submit", [c |-> c, m |-> sub[c] + 1, deferred |-> TRUE, len |-> Len(defq[c]) + 1, made |-> <<>>, disp |-> <<>>])
       ELSE LET s1 == [Cur EXCEPT !.pq[c] = Append(@, sub[c] + 1), !.pend = IF InSeq(c, pend) THEN pend ELSE Append(pend, c)]
                s2 == IF Len(s1.pq[c]) = 1 THEN Dispatch(s1) ELSE s1
            IN /\ Put(s2) /\ UNCHANGED defq
               /\ Log("Submit", [c |-> c, m |-> sub[c] + 1, deferred |-> FALSE, len |-> Len(s1.pq[c]), made |-> s2.made, disp |-> s2.disp])
    /\ UNCHANGED <<wait, upc, shut, stopq, nstop, hlog>>

\* ---- a pool thread ------------------------------------------------------------------------------------------------
\* the internal thread receives the dummy wake-up Message: MessageReceivedFromOwner starts working through _internalQueue
Receive(t) ==
    /\ thr[t].st = "signalled"
    /\ thr' = [thr EXCEPT ![t].st = "handling"]
    /\ Log("Receive", [t |-> t, c |-> thr[t].c])
    /\ UNCHANGED <<reg, pend, pq, defq, nthreads, avail, active, wait, upc, shut, stopq, nstop, sub, hlog>>
\* the client's handler is called for ONE Message (outside the lock)
Handle(t) ==
    /\ thr[t].st = "handling" /\ thr[t].iq # <<>>
    /\ hlog' = [hlog EXCEPT ![thr[t].c] = Append(@, Head(thr[t].iq))]
    /\ thr' = [thr EXCEPT ![t].iq = Tail(@)]
    /\ Log("Handle", [t |-> t, c |-> thr[t].c, m |-> Head(thr[t].iq)])
    /\ UNCHANGED <<reg, pend, pq, defq, nthreads, avail, active, wait, upc, shut, stopq, nstop, sub>>
\* ThreadFinishedProcessingClientMessages
Finish(t) ==
    /\ thr[t].st = "handling" /\ thr[t].iq = <<>>
    /\ LET c == thr[t].c IN
       IF shut # "no"
       THEN /\ thr' = [thr EXCEPT ![t] = [T0 EXCEPT !.st = "parked"]]
            /\ UNCHANGED <<reg, pend, pq, defq, nthreads, avail, active, wait>>
            /\ Log("Finish", [t |-> t, c |-> c, early |-> TRUE, promoted |-> 0, notified |-> FALSE, made |-> <<>>, disp |-> <<>>])
       ELSE LET promote == reg[c] # "no" /\ defq[c] # <<>>
                s1 == [Cur EXCEPT !.reg[c] = IF reg[c] = "no" THEN "no" ELSE "idle",
                                  !.pq[c] = IF promote THEN defq[c] ELSE @,
                                  !.pend = IF promote /\ ~InSeq(c, pend) THEN Append(pend, c) ELSE pend,
                                  !.active = Without(@, t), !.avail = Append(@, t), !.thr[t] = [T0 EXCEPT !.st = "parked"]]
                dq == IF promote THEN [defq EXCEPT ![c] = <<>>] ELSE defq
                s2 == Dispatch(s1)
                note == ~Outstanding(s2, dq, c) /\ wait[c] = "waiting"
            IN /\ Put(s2) /\ defq' = dq
               /\ wait' = IF note THEN [wait EXCEPT ![c] = "notified"] ELSE wait
               /\ Log("Finish", [t |-> t, c |-> c, early |-> FALSE, promoted |-> IF promote THEN Len(defq[c]) ELSE 0, notified |-> note, made |-> s2.made, disp |-> s2.disp])
    /\ UNCHANGED <<upc, shut, stopq, nstop, sub, hlog>>

\* ---- UnregisterClient ---------------------------------------------------------------------------------------------
\* (a client whose SetThreadPool(NULL) had read its pool pointer before Shutdown()'s last step cleared it still gets here after the
\* shutdown: it finds nothing outstanding and nothing to remove)
UnregBegin(c) ==
    /\ upc[c] = "reg"
    /\ LET w == Outstanding(Cur, defq, c) IN
       /\ wait' = IF w THEN [wait EXCEPT ![c] = "waiting"] ELSE wait
       /\ upc' = [upc EXCEPT ![c] = IF w THEN "unregWait" ELSE "unregEnd"]
       /\ Log("UnregBegin", [c |-> c, wait |-> w])
    /\ UNCHANGED <<reg, pend, pq, defq, nthreads, avail, active, thr, shut, stopq, nstop, sub, hlog>>
UnregWake(c) ==
    /\ upc[c] = "unregWait" /\ wait[c] = "notified"
    /\ upc' = [upc EXCEPT ![c] = "unregEnd"]
    /\ Log("UnregWake", [c |-> c])
    /\ UNCHANGED <<reg, pend, pq, defq, nthreads, avail, active, thr, wait, shut, stopq, nstop, sub, hlog>>
UnregEnd(c) ==
    /\ upc[c] = "unregEnd"
    /\ reg' = [reg EXCEPT ![c] = "no"] /\ pend' = Without(pend, c) /\ pq' = [pq EXCEPT ![c] = <<>>] /\ defq' = [defq EXCEPT ![c] = <<>>]
    /\ wait' = [wait EXCEPT ![c] = "no"] /\ upc' = [upc EXCEPT ![c] = "gone"]
    /\ Log("UnregEnd", [c |-> c, dropped |-> Len(pq[c]) + Len(defq[c])])
    /\ UNCHANGED <<nthreads, avail, active, thr, shut, stopq, nstop, sub, hlog>>

\* ---- Shutdown (the pool's destructor) ---------------------------------------------------------------------------------
\* (Shutdown() may run again on a pool that is already shut down - the recycler flush repeats until nothing is flushed, and the
\* destructor calls it once more: every step then finds empty tables)
ShutFlag == /\ AllowShutdown /\ shut \in {"no", "done"}
            /\ shut' = "flagged"
            /\ Log("ShutFlag", [x |-> 0])
            /\ UNCHANGED <<reg, pend, pq, defq, nthreads, avail, active, thr, wait, upc, stopq, nstop, sub, hlog>>
\* while(true) {swap _availableThreads into a local table and stop + join each thread; same for _activeThreads; break if both were empty}
SwapAvail == /\ (shut = "flagged" \/ (shut = "stopActive" /\ nstop > 0)) /\ stopq = <<>>
             /\ stopq' = avail /\ avail' = <<>> /\ shut' = "stopAvail" /\ nstop' = Len(avail)
             /\ Log("SwapAvail", [n |-> Len(avail)])
             /\ UNCHANGED <<reg, pend, pq, defq, nthreads, active, thr, wait, upc, sub, hlog>>
SwapActive == /\ shut = "stopAvail" /\ stopq = <<>>
              /\ stopq' = active /\ active' = <<>> /\ shut' = "stopActive" /\ nstop' = nstop + Len(active)
              /\ Log("SwapActive", [n |-> Len(active)])
              /\ UNCHANGED <<reg, pend, pq, defq, nthreads, avail, thr, wait, upc, sub, hlog>>
\* ShutdownInternalThread(): the join returns once the thread has worked off what it was given and sees the NULL Message
ShutStop == /\ stopq # <<>> /\ thr[Head(stopq)].st = "parked"
            /\ thr' = [thr EXCEPT ![Head(stopq)].st = "exited"]
            /\ stopq' = Tail(stopq)
            /\ Log("ShutStop", [t |-> Head(stopq)])
            /\ UNCHANGED <<reg, pend, pq, defq, nthreads, avail, active, wait, upc, shut, nstop, sub, hlog>>
\* final critical section: forget everything, wake every thread waiting in UnregisterClient
ShutFinal == /\ shut = "stopActive" /\ stopq = <<>> /\ nstop = 0
             /\ shut' = "done"
             /\ reg' = [c \in Clients |-> "no"] /\ pend' = <<>> /\ pq' = [c \in Clients |-> <<>>] /\ defq' = [c \in Clients |-> <<>>]
             /\ wait' = [c \in Clients |-> IF wait[c] = "waiting" THEN "notified" ELSE wait[c]]
             /\ Log("ShutFinal", [x |-> 0])
             /\ UNCHANGED <<nthreads, avail, active, thr, upc, stopq, nstop, sub, hlog>>

Next == \/ \E c \in Clients : Submit(c) \/ UnregBegin(c) \/ UnregWake(c) \/ UnregEnd(c)
        \/ \E t \in TIds : Receive(t) \/ Handle(t) \/ Finish(t)
        \/ ShutFlag \/ SwapAvail \/ SwapActive \/ ShutStop \/ ShutFinal
Spec == Init /\ [][Next]_vars
\* the library's own steps are taken (user choices - submit, unregister, destroy - are not forced)
LibNext == \/ \E c \in Clients : UnregWake(c) \/ UnregEnd(c)
           \/ \E t \in TIds : Receive(t) \/ Handle(t) \/ Finish(t)
           \/ SwapAvail \/ SwapActive \/ ShutStop \/ ShutFinal
FairSpec == Spec /\ WF_vars(LibNext) /\ \A t \in TIds : WF_vars(Receive(t) \/ Handle(t) \/ Finish(t))
                 /\ \A c \in Clients : WF_vars(UnregWake(c) \/ UnregEnd(c))
                 /\ WF_vars(SwapAvail \/ SwapActive \/ ShutStop \/ ShutFinal)

-------------------------------------------------------------------------------
(* The property *)
Working(t) == thr[t].st \in {"signalled", "handling"}
\* never two pool threads for one client
OneAtATime == \A a, b \in TIds : (a # b /\ Working(a) /\ Working(b)) => thr[a].c # thr[b].c
\* at most MaxThreads threads exist
ThreadLimit == nthreads <= MaxThreads
\* each client's Messages are handled once each, in the order submitted
InOrder == \A c \in Clients : hlog[c] = [i \in 1..Len(hlog[c]) |-> i] /\ Len(hlog[c]) <= sub[c]
\* a Message is in exactly one place: handled, in a pool thread's queue, pending, or deferred (nothing lost, nothing duplicated)
Conservation == \A c \in Clients : (reg[c] # "no" /\ shut = "no") =>
                   LET inq == IF \E t \in TIds : Working(t) /\ thr[t].c = c THEN (CHOOSE t \in TIds : Working(t) /\ thr[t].c = c) ELSE 0
                   IN hlog[c] \o (IF inq = 0 THEN <<>> ELSE thr[inq].iq) \o pq[c] \o defq[c] = [i \in 1..sub[c] |-> i]
\* the being-handled flag tells the truth
FlagExact == shut = "no" => \A c \in Clients : (reg[c] = "busy") <=> (\E t \in TIds : Working(t) /\ thr[t].c = c)
\* UnregisterClient returns only after everything the client submitted was handled (unless the pool is being destroyed)
UnregisterWaits == \A c \in Clients : (upc[c] \in {"unregEnd", "gone"} /\ shut = "no") => Len(hlog[c]) = sub[c]
\* ... and whatever else is going on (a shutdown included), once it has returned no pool thread is in - or on its way into - that client's handler:
\* the caller may destroy the client
NoHandlerAfterUnregister == \A c \in Clients : upc[c] = "gone" => ~\E t \in TIds : Working(t) /\ thr[t].c = c
\* liveness: a thread waiting in UnregisterClient is released; Shutdown terminates; without shutdown everything submitted is handled
UnregisterReturns == \A c \in Clients : (upc[c] = "unregWait") ~> (upc[c] = "gone")
ShutdownTerminates == (shut = "flagged") ~> (shut = "done")
AllHandled == \A c \in Clients : \A k \in 1..NMsgs : (sub[c] >= k /\ shut = "no") ~> (Len(hlog[c]) >= k \/ shut # "no")
=============================================================================
