---- MODULE TPImpl_TTrace_1790403061 ----
EXTENDS Sequences, TLCExt, Toolbox, Naturals, TLC, TPImpl

_expression ==
    LET TPImpl_TEExpression == INSTANCE TPImpl_TEExpression
    IN TPImpl_TEExpression!expression
----

_trace ==
    LET TPImpl_TETrace == INSTANCE TPImpl_TETrace
    IN TPImpl_TETrace!trace
----

_inv ==
    ~(
        TLCGet("level") = Len(_TETrace)
        /\
        sub = (<<1, 0>>)
        /\
        pq = (<<<<>>, <<>>>>)
        /\
        shut = ("no")
        /\
        avail = (<<>>)
        /\
        defq = (<<<<>>, <<>>>>)
        /\
        wait = (<<"no", "no">>)
        /\
        last = ([a |-> "Init"])
        /\
        stopq = (<<>>)
        /\
        active = ({1})
        /\
        upc = (<<"reg", "reg">>)
        /\
        hlog = (<<<<>>, <<>>>>)
        /\
        nstop = ()
        /\
        reg = (<<"busy", "idle">>)
        /\
        nthreads = (1)
        /\
        pend = (<<>>)
        /\
        thr = (<<[st |-> "signalled", c |-> 1, iq |-> <<1>>], [st |-> "none", c |-> 0, iq |-> <<>>]>>)
    )
----

_init ==
    /\ active = _TETrace[1].active
    /\ stopq = _TETrace[1].stopq
    /\ sub = _TETrace[1].sub
    /\ defq = _TETrace[1].defq
    /\ pend = _TETrace[1].pend
    /\ pq = _TETrace[1].pq
    /\ wait = _TETrace[1].wait
    /\ nstop = _TETrace[1].nstop
    /\ reg = _TETrace[1].reg
    /\ last = _TETrace[1].last
    /\ hlog = _TETrace[1].hlog
    /\ nthreads = _TETrace[1].nthreads
    /\ thr = _TETrace[1].thr
    /\ shut = _TETrace[1].shut
    /\ upc = _TETrace[1].upc
    /\ avail = _TETrace[1].avail
----

_next ==
    /\ \E i,j \in DOMAIN _TETrace:
        /\ \/ /\ j = i + 1
              /\ i = TLCGet("level")
        /\ active  = _TETrace[i].active
        /\ active' = _TETrace[j].active
        /\ stopq  = _TETrace[i].stopq
        /\ stopq' = _TETrace[j].stopq
        /\ sub  = _TETrace[i].sub
        /\ sub' = _TETrace[j].sub
        /\ defq  = _TETrace[i].defq
        /\ defq' = _TETrace[j].defq
        /\ pend  = _TETrace[i].pend
        /\ pend' = _TETrace[j].pend
        /\ pq  = _TETrace[i].pq
        /\ pq' = _TETrace[j].pq
        /\ wait  = _TETrace[i].wait
        /\ wait' = _TETrace[j].wait
        /\ nstop  = _TETrace[i].nstop
        /\ nstop' = _TETrace[j].nstop
        /\ reg  = _TETrace[i].reg
        /\ reg' = _TETrace[j].reg
        /\ last  = _TETrace[i].last
        /\ last' = _TETrace[j].last
        /\ hlog  = _TETrace[i].hlog
        /\ hlog' = _TETrace[j].hlog
        /\ nthreads  = _TETrace[i].nthreads
        /\ nthreads' = _TETrace[j].nthreads
        /\ thr  = _TETrace[i].thr
        /\ thr' = _TETrace[j].thr
        /\ shut  = _TETrace[i].shut
        /\ shut' = _TETrace[j].shut
        /\ upc  = _TETrace[i].upc
        /\ upc' = _TETrace[j].upc
        /\ avail  = _TETrace[i].avail
        /\ avail' = _TETrace[j].avail

\* Uncomment the ASSUME below to write the states of the error trace
\* to the given file in Json format. Note that you can pass any tuple
\* to `JsonSerialize`. For example, a sub-sequence of _TETrace.
    \* ASSUME
    \*     LET J == INSTANCE Json
    \*         IN J!JsonSerialize("TPImpl_TTrace_1790403061.json", _TETrace)

=============================================================================

 Note that you can extract this module `TPImpl_TEExpression`
  to a dedicated file to reuse `expression` (the module in the 
  dedicated `TPImpl_TEExpression.tla` file takes precedence 
  over the module `TPImpl_TEExpression` below).

---- MODULE TPImpl_TEExpression ----
EXTENDS Sequences, TLCExt, Toolbox, Naturals, TLC, TPImpl

expression == 
    [
        \* To hide variables of the `TPImpl` spec from the error trace,
        \* remove the variables below.  The trace will be written in the order
        \* of the fields of this record.
        active |-> active
        ,stopq |-> stopq
        ,sub |-> sub
        ,defq |-> defq
        ,pend |-> pend
        ,pq |-> pq
        ,wait |-> wait
        ,nstop |-> nstop
        ,reg |-> reg
        ,last |-> last
        ,hlog |-> hlog
        ,nthreads |-> nthreads
        ,thr |-> thr
        ,shut |-> shut
        ,upc |-> upc
        ,avail |-> avail
        
        \* Put additional constant-, state-, and action-level expressions here:
        \* ,_stateNumber |-> _TEPosition
        \* ,_activeUnchanged |-> active = active'
        
        \* Format the `active` variable as Json value.
        \* ,_activeJson |->
        \*     LET J == INSTANCE Json
        \*     IN J!ToJson(active)
        
        \* Lastly, you may build expressions over arbitrary sets of states by
        \* leveraging the _TETrace operator.  For example, this is how to
        \* count the number of times a spec variable changed up to the current
        \* state in the trace.
        \* ,_activeModCount |->
        \*     LET F[s \in DOMAIN _TETrace] ==
        \*         IF s = 1 THEN 0
        \*         ELSE IF _TETrace[s].active # _TETrace[s-1].active
        \*             THEN 1 + F[s-1] ELSE F[s-1]
        \*     IN F[_TEPosition - 1]
    ]

=============================================================================



Parsing and semantic processing can take forever if the trace below is long.
 In this case, it is advised to uncomment the module below to deserialize the
 trace from a generated binary file.

\*
\*---- MODULE TPImpl_TETrace ----
\*EXTENDS IOUtils, TLC, TPImpl
\*
\*trace == IODeserialize("TPImpl_TTrace_1790403061.bin", TRUE)
\*
\*=============================================================================
\*

---- MODULE TPImpl_TETrace ----
EXTENDS TLC, TPImpl

trace == 
    <<
    ([sub |-> <<0, 0>>,pq |-> <<<<>>, <<>>>>,shut |-> "no",avail |-> <<>>,defq |-> <<<<>>, <<>>>>,wait |-> <<"no", "no">>,last |-> [a |-> "Init"],stopq |-> <<>>,active |-> {},upc |-> <<"reg", "reg">>,hlog |-> <<<<>>, <<>>>>,nstop |-> 0,reg |-> <<"idle", "idle">>,nthreads |-> 0,pend |-> <<>>,thr |-> <<[st |-> "none", c |-> 0, iq |-> <<>>], [st |-> "none", c |-> 0, iq |-> <<>>]>>]),
    ([sub |-> <<1, 0>>,pq |-> <<<<>>, <<>>>>,shut |-> "no",avail |-> <<>>,defq |-> <<<<>>, <<>>>>,wait |-> <<"no", "no">>,last |-> [a |-> "Init"],stopq |-> <<>>,active |-> {1},upc |-> <<"reg", "reg">>,hlog |-> <<<<>>, <<>>>>,nstop |-> ,reg |-> <<"busy", "idle">>,nthreads |-> 1,pend |-> <<>>,thr |-> <<[st |-> "signalled", c |-> 1, iq |-> <<1>>], [st |-> "none", c |-> 0, iq |-> <<>>]>>])
    >>
----


=============================================================================

---- CONFIG TPImpl_TTrace_1790403061 ----
CONSTANTS
    Clients = { 1 , 2 }
    MaxThreads = 2
    NMsgs = 2
    AllowShutdown = TRUE
    RECORD = FALSE

INVARIANT
    _inv

CHECK_DEADLOCK
    \* CHECK_DEADLOCK off because of PROPERTY or INVARIANT above.
    FALSE

INIT
    _init

NEXT
    _next

CONSTANT
    _TETrace <- _trace

ALIAS
    _expression
=============================================================================
\* Generated on Sat Sep 26 06:11:03 UTC 2026