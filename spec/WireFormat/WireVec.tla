------------------------------- MODULE WireVec -------------------------------
(***************************************************************************)
(* C08, spec -> code: the vectors of the repertoire common to the shipped  *)
(* implementations, enumerated by TLC - every field kind (fixed-size       *)
(* numerics, bool, string, point, rect, raw buffers of two type codes,     *)
(* nested Message) with 1, 2 and 3 items alone; every ordered pair of a    *)
(* field with 1..3 items and a field with 1..2 items in both field orders; *)
(* the empty Message (count 0); nesting chains of depth 1..3 around every  *)
(* kind; arrays of sub-Messages; names that are empty / non-ASCII / not    *)
(* UTF-8.  For each vector TLC prints the Message value, its bytes and     *)
(* size according to WireAbs, and whether it lies in the repertoire of     *)
(* message.py (parsing: py, native construction: pyn): the harness asks an *)
(* implementation only where the specification says so.                    *)
(***************************************************************************)
EXTENDS WireAbs, Json

CONSTANT Part      \* which slice of the vectors this run enumerates: "all", "single", "nest", or a kind (the pairs whose first field is of that kind)
VARIABLES v, d     \* the Message value; the detour (0..5, see WireAbs.DetourOf) of the API script through which the C++ side builds it

F1_0  == <<0, 0, 128, 63>>    F2_0 == <<0, 0, 0, 64>>     F3_0 == <<0, 0, 64, 64>>   F4_0 == <<0, 0, 128, 64>>
FNAN  == <<0, 0, 192, 127>>   FNEG0 == <<0, 0, 0, 128>>   FINF == <<0, 0, 128, 127>> FSNAN == <<1, 0, 128, 127>>
TC_X  == <<68, 67, 66, 193>>

Kinds == {"bool", "int8", "int16", "int32", "int64", "float", "double", "string", "point", "rect", "raw", "rawx", "message"}
TCK(k) == IF k = "rawx" THEN TC_X ELSE TCOf(k)

Leaf(w, k, its) == [what |-> w, fields |-> <<[name |-> <<107>>, type |-> TCK(k), items |-> its]>>]

\* three items per kind; the third one is the one outside some implementation's repertoire, where there is one
Seq3(k) == CASE k = "bool"    -> << <<1>>, <<0>>, <<1>> >>
             [] k = "int8"    -> << <<128>>, <<127>>, <<255>> >>
             [] k = "int16"   -> << <<0, 128>>, <<254, 255>>, <<255, 127>> >>
             [] k = "int32"   -> << <<0, 0, 0, 128>>, <<1, 2, 3, 4>>, <<255, 255, 255, 127>> >>
             [] k = "int64"   -> << <<0, 0, 0, 0, 0, 0, 0, 128>>, <<1, 2, 3, 4, 5, 6, 7, 8>>, <<255, 255, 255, 255, 255, 255, 255, 127>> >>
             [] k = "float"   -> << FNAN, FNEG0, FSNAN >>
             [] k = "double"  -> << <<0, 0, 0, 0, 0, 0, 248, 127>>, <<0, 0, 0, 0, 0, 0, 0, 128>>, <<1, 0, 0, 0, 0, 0, 240, 127>> >>
             [] k = "string"  -> << <<>>, <<195, 169, 32, 240, 159, 152, 128>>, <<97, 255>> >>
             [] k = "point"   -> << F1_0 \o F2_0, FNAN \o FNEG0, FSNAN \o FINF >>
             [] k = "rect"    -> << F1_0 \o F2_0 \o F3_0 \o F4_0, FNEG0 \o FINF \o FNAN \o F1_0, F1_0 \o F1_0 \o FSNAN \o F1_0 >>
             [] k = "raw"     -> << <<0, 255>>, <<>>, <<1, 2, 3, 4, 5, 6, 7, 8, 9>> >>
             [] k = "rawx"    -> << <<7>>, <<0, 0>>, <<255>> >>
             [] k = "message" -> << [what |-> <<1, 0, 0, 0>>, fields |-> <<>>],
                                    Leaf(<<255, 255, 255, 255>>, "int16", << <<1, 128>>, <<2, 0>> >>),
                                    Leaf(<<2, 0, 0, 0>>, "string", << <<97, 255>> >>) >>
Fld(nm, k, c) == [name |-> nm, type |-> TCK(k), items |-> SubSeq(Seq3(k), 1, c)]
NA == <<97>>
NB == <<98>>
W0 == <<1, 2, 3, 132>>

Single == {[what |-> <<0, 0, 0, 0>>, fields |-> <<>>]}
          \cup {[what |-> W0, fields |-> <<Fld(NA, k, c)>>] : k \in Kinds, c \in 1..3}
          \cup {[what |-> W0, fields |-> <<Fld(nm, "int32", 2)>>] : nm \in {<<>>, <<195, 169>>, <<110, 255>>, <<1>>}}    \* empty, non-ASCII, not UTF-8, control character
\* a pair of fields in both orders, built through detour dd
PairsOf(k, c, k2, c2, dd) == {[m |-> [what |-> W0, fields |-> <<Fld(NA, k, c), Fld(NB, k2, c2)>>], d |-> dd], [m |-> [what |-> W0, fields |-> <<Fld(NB, k2, c2), Fld(NA, k, c)>>], d |-> (dd + 3) % 6]}
Pairs(k) == UNION {PairsOf(k, c, k2, c2, (c * 2 + c2) % 6) : c \in 1..3, k2 \in Kinds, c2 \in 1..2}
\* the Message wrapped dp times: nesting depth dp
RECURSIVE Wrap(_, _)
Wrap(mm, dp) == IF dp = 0 THEN mm ELSE [what |-> <<dp, 0, 0, 0>>, fields |-> <<[name |-> <<109>>, type |-> TC_MESSAGE, items |-> <<Wrap(mm, dp - 1)>>], Fld(<<122>>, "int8", 1)>>]
Nest == {Wrap(Leaf(W0, k, SubSeq(Seq3(k), 1, 2)), dp) : k \in Kinds, dp \in 1..3}
        \cup {[what |-> W0, fields |-> <<[name |-> <<109>>, type |-> TC_MESSAGE, items |-> <<Wrap(Leaf(W0, k, SubSeq(Seq3(k), 1, 1)), 1), Wrap(Leaf(W0, "string", SubSeq(Seq3("string"), 1, 2)), 2), [what |-> <<0, 0, 0, 0>>, fields |-> <<>>]>>]>>] : k \in Kinds}
NestNames == {Wrap([what |-> W0, fields |-> <<Fld(nm, "int32", 1), Fld(NB, "string", 2)>>], dp) : nm \in {<<195, 169>>, <<110, 255>>, <<>>}, dp \in 1..2}
\* longer fields, so that the item array is rotated / regrown at a larger capacity as well: 7 items of every kind (the three of Seq3 repeated)
Long == {[what |-> W0, fields |-> <<[name |-> NA, type |-> TCK(k), items |-> Seq3(k) \o Seq3(k) \o SubSeq(Seq3(k), 1, 1)], Fld(NB, "int16", 2)>>] : k \in Kinds}
\* three fields of any three kinds (thorough tier)
Triples == {[m |-> [what |-> <<0, 0, 0, 128>>, fields |-> <<Fld(NA, k, 1), Fld(<<99, 195, 169>>, k2, 2), Fld(NB, k3, 3)>>], d |-> (Len(Seq3(k)[1]) + Len(Seq3(k3)[2])) % 6] : k \in Kinds \ {"message"}, k2 \in Kinds, k3 \in Kinds \ {"message"}}

\* deep nesting: dp levels of sub-Messages below the top, every level holding its child in a one-item field (inline) or with a sibling (array)
RECURSIVE Deep(_, _)
Deep(dp, arr) == [what |-> <<dp % 256, dp \div 256, 0, 0>>,
                  fields |-> <<Fld(<<108>>, "int32", 1), Fld(<<115>>, "string", 2)>> \o
                             (IF dp = 0 THEN <<>> ELSE <<[name |-> <<99>>, type |-> TC_MESSAGE,
                                                         items |-> <<Deep(dp - 1, arr)>> \o (IF arr THEN <<Leaf(<<7, 0, 0, 0>>, "bool", << <<1>> >>)>> ELSE <<>>)]>>)]
Deeps == {[m |-> Deep(dp, arr), d |-> dd] : dp \in {31, 32, 33, 64}, arr \in BOOLEAN, dd \in {0, 5}} \cup {[m |-> Deep(200, arr), d |-> 0] : arr \in BOOLEAN}
\* fields with ZERO items (left behind in a Message by ShareName + removal through the other Message): of every kind; alone, first, in the middle, last,
\* two of them, and inside a sub-Message (one-item and two-item Message field)
ZeroF(nm, k) == [name |-> nm, type |-> TCK(k), items |-> <<>>]
ZeroMsgs(k) == LET z == ZeroF(NB, k) f1 == Fld(NA, "int32", 1) f2 == Fld(<<99>>, "string", 2)
                   inner == [what |-> <<9, 0, 0, 0>>, fields |-> <<f1, z>>] IN
               {[what |-> W0, fields |-> <<z>>], [what |-> W0, fields |-> <<z, f1>>], [what |-> W0, fields |-> <<f1, z, f2>>], [what |-> W0, fields |-> <<f2, f1, z>>],
                [what |-> W0, fields |-> <<z, ZeroF(<<122>>, "int8")>>],
                [what |-> W0, fields |-> <<[name |-> <<109>>, type |-> TC_MESSAGE, items |-> <<inner>>], f2>>],
                [what |-> W0, fields |-> <<[name |-> <<109>>, type |-> TC_MESSAGE, items |-> <<inner, [what |-> <<0, 0, 0, 0>>, fields |-> <<>>], inner>>]>>]}
Zeros == {[m |-> mm, d |-> dd] : mm \in UNION {ZeroMsgs(k) : k \in Kinds}, dd \in {0, 1}}

\* NON-flattenable fields (C++ AddPointer / AddTag, mini MMPutPointerField) next to ordinary ones, first / middle / last / several, with 1..3 items, and inside
\* sub-Messages (one-item and two-item Message fields): they are part of the Message but Flatten skips them and the field count word does not count them
NF(nm, tc, c) == [name |-> nm, type |-> tc, items |-> [j \in 1..c |-> <<>>]]
NonFlatMsgs(k) == LET f1 == Fld(NA, k, 2) f2 == Fld(<<99>>, "string", 2) p == NF(NB, TC_POINTER, 1) p3 == NF(<<112>>, TC_POINTER, 3) t == NF(<<116>>, TC_TAG, 2)
                      inner == [what |-> <<9, 0, 0, 0>>, fields |-> <<f1, p, f2>>] IN
                  {[what |-> W0, fields |-> <<p>>], [what |-> W0, fields |-> <<p, f1>>], [what |-> W0, fields |-> <<f1, p3, f2>>], [what |-> W0, fields |-> <<f2, f1, t>>],
                   [what |-> W0, fields |-> <<p, f1, t, f2, p3>>],
                   [what |-> W0, fields |-> <<[name |-> <<109>>, type |-> TC_MESSAGE, items |-> <<inner>>], p3, f2>>],
                   [what |-> W0, fields |-> <<t, [name |-> <<109>>, type |-> TC_MESSAGE, items |-> <<inner, [what |-> <<0, 0, 0, 0>>, fields |-> <<p>>]>>]>>]}
NonFlats == {[m |-> mm, d |-> dd] : mm \in UNION {NonFlatMsgs(k) : k \in {"int32", "string", "raw", "message", "bool"}}, dd \in {0, 1, 3}}

\* every detour for the single-field, nested and long vectors; one detour (varying with the item counts and the field order) per pair
AllD(S) == {[m |-> mm, d |-> dd] : mm \in S, dd \in 0..5}
Vectors == CASE Part = "single" -> AllD(Single) [] Part = "triples" -> Triples [] Part = "deep" -> Deeps [] Part = "zero" -> Zeros [] Part = "nonflat" -> NonFlats [] Part = "nest" -> AllD(Nest \cup NestNames) [] Part = "long" -> AllD(Long)
             [] Part = "all" -> AllD(Single \cup Nest \cup NestNames \cup Long) \cup UNION {Pairs(k) : k \in Kinds}
             [] OTHER -> Pairs(Part)

Init == \E e \in Vectors : v = e.m /\ d = e.d
Next == UNCHANGED <<v, d>>
Spec == Init /\ [][Next]_<<v, d>>

\* the codec's own laws on every vector
VecOK == /\ WellFormed(v)
         /\ Build(DetourOf(v, d)) = v            \* the script the C++ side executes leaves exactly this Message
         /\ LET b == Flatten(v) u == Unflatten(b) IN u.ok /\ u.msg = Norm(v) /\ Len(b) = FlattenedSize(v) /\ Flatten(u.msg) = b /\ b = Flatten(Norm(v))
Emit == PrintT("@@" \o ToJson([m |-> v, d |-> d, s |-> DetourOf(v, d), zero |-> HasZero(v), f45mini |-> F45mini(v), f45micro |-> F45micro(v), mb |-> IF F45micro(v) THEN Flatten(DropZeroRaw(v)) ELSE <<>>, b |-> Flatten(v), z |-> FlattenedSize(v), py |-> Common("python", v), pyn |-> Common("pynative", v), f38 |-> F38(v), f39 |-> F39(v)]))
=============================================================================
