------------------------------- MODULE WireHeap -------------------------------
(***************************************************************************)
(* C01: histories in which serialising is an operation IN THE MIDDLE, and  *)
(* in which Messages alias each other.                                     *)
(*  - AddMessage(name, MessageRef) "need not make a copy of the referenced *)
(*    Message": a sub-Message held by reference in one or several parents  *)
(*    (or twice in one) can be changed in place afterwards, and every      *)
(*    parent must then advertise and write the new bytes;                  *)
(*  - a.ShareName(name, b): "if there is more than one value present in    *)
(*    the source field, no copy of the field data is made: instead, the    *)
(*    field becomes shared between the two Messages, and changes to the    *)
(*    field in one Message will be seen in the other"; RemoveData() removes *)
(*    an emptied field from the Message it is called on, so the other      *)
(*    Message is left with a field of ZERO items (not the same as no       *)
(*    field: WireAbs serialises it).                                       *)
(* The state is a small heap: NObj Message objects whose fields point to   *)
(* item arrays (arrs); a Message field's items are object numbers.  An     *)
(* object only refers to objects with a larger number (no cycles).  After  *)
(* EVERY call the harness sizes, serialises, parses and compares EVERY     *)
(* object against Flatten(Val(o)): `last` carries the bytes and sizes of   *)
(* all objects.  Run with -simulate: a behaviour of SimDepth calls is      *)
(* printed once.  Kept out of the generated calls because the              *)
(* documentation is silent: ShareName of a field with fewer than two       *)
(* items or onto an existing name, RemoveData on a field with zero items.  *)
(***************************************************************************)
EXTENDS WireAbs, Json

CONSTANTS Inst,       \* kind of the byte-valued field: "int16", "string" or "raw"
          NObj, MaxItems, MaxRefs, SimDepth

VARIABLES objs, arrs, last, hist
vars == <<objs, arrs, last, hist>>

NA == <<97>>          \* the byte-valued field
NM == <<109>>         \* the field of sub-Message references
TB == TCOf(Inst)
Vals == CASE Inst = "int16" -> {<<1, 128>>, <<254, 255>>} [] Inst = "string" -> {<<>>, <<195, 169, 240, 159, 152, 128, 113, 114, 115, 116, 117, 118, 119, 120, 121, 122, 113, 114, 115, 116>>} [] OTHER -> {<<>>, <<0, 255, 7>>}
Whats == {<<1, 2, 3, 132>>, <<0, 0, 0, 0>>}
Objs == 1..NObj

FIdx(os, o, nm) == LET S == {i \in 1..Len(os[o].fields) : os[o].fields[i].name = nm} IN IF S = {} THEN 0 ELSE CHOOSE i \in S : TRUE
ArrOf(o, nm) == LET x == FIdx(objs, o, nm) IN IF x = 0 THEN 0 ELSE objs[o].fields[x].arr
Count(o, nm) == LET id == ArrOf(o, nm) IN IF id = 0 THEN 0 ELSE Len(arrs[id])
Has(o, nm) == FIdx(objs, o, nm) # 0
Holders(id) == {o \in Objs : \E i \in 1..Len(objs[o].fields) : objs[o].fields[i].arr = id}

\* the Message value an object denotes
RECURSIVE Val(_, _, _)
Val(os, as, o) == [what |-> os[o].what,
                   fields |-> [i \in 1..Len(os[o].fields) |->
                                 LET f == os[o].fields[i] IN
                                 [name |-> f.name, type |-> f.type,
                                  items |-> IF f.type = TC_MESSAGE THEN [j \in 1..Len(as[f.arr]) |-> Val(os, as, as[f.arr][j])] ELSE as[f.arr]]]]

Without(s, i) == SubSeq(s, 1, i - 1) \o SubSeq(s, i + 1, Len(s))
Fail == [os |-> objs, as |-> arrs, ok |-> FALSE]

\* one item (bytes, or an object number for a Message field) added at the end / the front of field nm of object o
Put(o, nm, t, item, front) ==
   LET x == FIdx(objs, o, nm) IN
   IF x = 0 THEN [os |-> [objs EXCEPT ![o].fields = Append(@, [name |-> nm, type |-> t, arr |-> Len(arrs) + 1])], as |-> Append(arrs, <<item>>), ok |-> TRUE]
   ELSE IF objs[o].fields[x].type # t THEN Fail
   ELSE LET id == objs[o].fields[x].arr IN [os |-> objs, as |-> [arrs EXCEPT ![id] = IF front THEN <<item>> \o @ ELSE Append(@, item)], ok |-> TRUE]

Apply(s) ==
   CASE s.op \in {"Add", "Prepend"}       -> Put(s.o, s.n, s.t, s.v, s.op = "Prepend")
     [] s.op \in {"AddRef", "PrependRef"} -> Put(s.o, s.n, TC_MESSAGE, s.k, s.op = "PrependRef")
     [] s.op = "Remove" -> LET x == FIdx(objs, s.o, s.n) IN
                           IF x = 0 THEN Fail
                           ELSE LET id == objs[s.o].fields[x].arr IN
                                IF s.i >= Len(arrs[id]) THEN Fail
                                ELSE [os |-> IF Len(arrs[id]) = 1 THEN [objs EXCEPT ![s.o].fields = Without(@, x)] ELSE objs,      \* the emptied field leaves THIS Message only
                                      as |-> [arrs EXCEPT ![id] = Without(@, s.i + 1)], ok |-> TRUE]
     [] s.op = "Replace" -> LET x == FIdx(objs, s.o, s.n) IN
                           IF x = 0 THEN Fail
                           ELSE LET id == objs[s.o].fields[x].arr IN
                                IF objs[s.o].fields[x].type # s.t \/ s.i >= Len(arrs[id]) THEN Fail
                                ELSE [os |-> objs, as |-> [arrs EXCEPT ![id][s.i + 1] = s.v], ok |-> TRUE]
     [] s.op = "RemoveName" -> LET x == FIdx(objs, s.o, s.n) IN
                           IF x = 0 THEN Fail ELSE [os |-> [objs EXCEPT ![s.o].fields = Without(@, x)], as |-> arrs, ok |-> TRUE]
     [] s.op = "Share" -> LET x == FIdx(objs, s.o, s.n) IN              \* objs[o].ShareName(n, objs[k])
                           [os |-> [objs EXCEPT ![s.k].fields = Append(@, objs[s.o].fields[x])], as |-> arrs, ok |-> TRUE]
     [] s.op = "What" -> [os |-> [objs EXCEPT ![s.o].what = s.v], as |-> arrs, ok |-> TRUE]

St(op, o, nm, t, val, i, k) == [op |-> op, o |-> o, n |-> nm, t |-> t, v |-> val, i |-> i, a |-> FALSE, k |-> k]

\* the calls generated in a state
Room(o, nm, mx) == Count(o, nm) < mx
ByteSteps   == {St(op, o, NA, TB, v, 0, 0) : op \in {"Add", "Prepend"}, o \in {o \in Objs : Room(o, NA, MaxItems)}, v \in Vals}
\* a reference to k may be stored in an array only if k is larger than every object that holds (or is about to hold) the array
RefSteps    == {s \in {St(op, o, NM, TC_MESSAGE, <<>>, 0, k) : op \in {"AddRef", "PrependRef"}, o \in Objs, k \in Objs} :
                  /\ Room(s.o, NM, MaxRefs) /\ s.k > s.o
                  /\ \A h \in (IF Has(s.o, NM) THEN Holders(ArrOf(s.o, NM)) ELSE {}) : s.k > h}
RemoveSteps == UNION {IF Count(o, nm) >= 1 THEN {St("Remove", o, nm, <<>>, <<>>, i, 0) : i \in 0..Count(o, nm)} ELSE {} : o \in Objs, nm \in {NA, NM}}
ReplaceSteps == UNION {{St("Replace", o, NA, TB, v, i, 0) : i \in 0..(Count(o, NA) - 1), v \in Vals} : o \in Objs}
NameSteps   == {s \in {St("RemoveName", o, nm, <<>>, <<>>, 0, 0) : o \in Objs, nm \in {NA, NM}} : Has(s.o, s.n)}
ShareSteps  == {s \in {St("Share", o, nm, <<>>, <<>>, 0, k) : o \in Objs, k \in Objs, nm \in {NA, NM}} :
                  /\ s.o # s.k /\ Count(s.o, s.n) >= 2 /\ ~Has(s.k, s.n)
                  /\ s.n = NM => \A j \in 1..Count(s.o, NM) : arrs[ArrOf(s.o, NM)][j] > s.k}
WhatSteps   == {s \in {St("What", o, <<>>, <<>>, w, 0, 0) : o \in Objs, w \in Whats} : objs[s.o].what # s.v}

Pick == LET c == RandomElement(1..24)
            S == CASE c <= 7 -> ByteSteps [] c <= 12 -> RefSteps [] c <= 16 -> RemoveSteps [] c <= 18 -> ReplaceSteps [] c <= 19 -> NameSteps [] c <= 23 -> ShareSteps [] OTHER -> WhatSteps
        IN  RandomElement(IF S = {} THEN ByteSteps \cup NameSteps \cup WhatSteps ELSE S)

Rec(s, r) == [op |-> s.op, o |-> s.o, n |-> s.n, t |-> s.t, v |-> s.v, i |-> s.i, a |-> s.a, k |-> s.k, ok |-> r.ok]
Bytes(os, as) == [o \in Objs |-> Flatten(Val(os, as, o))]
Sizes(os, as) == [o \in Objs |-> FlattenedSize(Val(os, as, o))]

Init == /\ objs = [o \in Objs |-> [what |-> <<o, 0, 0, 0>>, fields |-> <<>>]]
        /\ arrs = <<>>
        /\ last = [op |-> "New", ws |-> [o \in Objs |-> <<o, 0, 0, 0>>]]
        /\ hist = <<[op |-> "New", ws |-> [o \in Objs |-> <<o, 0, 0, 0>>], bs |-> [o \in Objs |-> Flatten([what |-> <<o, 0, 0, 0>>, fields |-> <<>>])], zs |-> [o \in Objs |-> 12]]>>
Do(s) == LET r == Apply(s) IN
         /\ objs' = r.os /\ arrs' = r.as /\ last' = Rec(s, r)
         /\ hist' = Append(hist, Rec(s, r) @@ [bs |-> Bytes(r.os, r.as), zs |-> Sizes(r.os, r.as)])
Next == \/ Len(hist) <= SimDepth /\ Do(Pick)
        \/ /\ Len(hist) = SimDepth + 1 /\ PrintT("@@" \o ToJson(hist))
           /\ hist' = Append(hist, [op |-> "-"]) /\ UNCHANGED <<objs, arrs, last>>
Spec == Init /\ [][Next]_vars

----------------------------------------------------------------------------
\* the property, on every object after every call
ObjOK(o) == LET m == Val(objs, arrs, o) b == Flatten(m) u == Unflatten(b) IN
            /\ WellFormed(m)
            /\ u.ok /\ u.msg = Norm(m)                 \* round trip, zero-item fields included
            /\ Len(b) = FlattenedSize(m)               \* size exact
            /\ Flatten(u.msg) = b
HeapOK == \A o \in Objs : ObjOK(o)
\* no object reaches itself
Acyclic == \A o \in Objs : \A i \in 1..Len(objs[o].fields) : objs[o].fields[i].type = TC_MESSAGE => \A j \in 1..Len(arrs[objs[o].fields[i].arr]) : arrs[objs[o].fields[i].arr][j] > o
\* reachability targets (violated = reached)
Reach_ZeroItemField == ~(\E o \in Objs : \E nm \in {NA, NM} : Has(o, nm) /\ Count(o, nm) = 0)
Reach_SharedChildChanged == ~(last.op \in {"Add", "Prepend", "Remove", "Replace"} /\ last.ok /\ \E p \in Objs : p < last.o /\ Has(p, NM) /\ Count(p, NM) >= 2 /\ \E j \in 1..Count(p, NM) : arrs[ArrOf(p, NM)][j] = last.o)
=============================================================================
