SPECIFICATION Spec
CONSTANTS
  Bug = "none"
  Part = "string"
INVARIANTS VecOK Emit
