SPECIFICATION Spec
CONSTANTS
  Bug = "none"
  Inst = "int32"
  MaxItems = 3
  RECORD = "off"
INVARIANTS TypeOK RoundTrip SizeExact Idempotent NonFlatInvisible FrameOK
