SPECIFICATION Spec
CONSTANTS
  Bug = "none"
  Inst = "int32"
  MaxItems = 3
  RECORD = "bytes"
INVARIANTS TypeOK
