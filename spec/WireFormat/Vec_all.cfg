\* C08: prints one line per vector of the common repertoire
SPECIFICATION Spec
CONSTANTS
  Bug = "none"
  Part = "all"
INVARIANTS VecOK Emit
