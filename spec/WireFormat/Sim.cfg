\* run with -simulate num=<n> -depth 27
SPECIFICATION SimSpec
CONSTANTS
  Bug = "none"
  Inst = "all"
  MaxItems = 6
  RECORD = "step"
  SimDepth = 24
INVARIANTS TypeOK RoundTrip SizeExact Idempotent NonFlatInvisible FrameOK
