------------------------------- MODULE WireSim -------------------------------
(* Deep random API scripts of WireMC for the replay direction (C01): run with -simulate and RECORD = "step".  *)
(* Each step picks ONE call at random (a class of calls first, then a call of that class) among the calls     *)
(* WireMC generates in the state - computing every successor of a state costs two orders of magnitude more -  *)
(* and when a behaviour has SimDepth calls its history is printed once, each call with the serialised bytes   *)
(* and the advertised size of the Message after it.                                                           *)
EXTENDS WireMC, Json
CONSTANT SimDepth
VARIABLES hist, ms
Pick == LET c == RandomElement(1..20)
            S == CASE c <= 8 -> AddSteps [] c <= 11 -> PrependSteps [] c <= 14 -> RemoveSteps [] c <= 18 -> ReplaceSteps [] OTHER -> RemoveNameSteps
        IN  RandomElement(IF S = {} THEN AddSteps \cup RemoveNameSteps ELSE S)
SimInit == Init /\ hist = <<last>> /\ ms = <<m>>
SimNext == \/ /\ Len(hist) <= SimDepth /\ Do(Pick) /\ hist' = Append(hist, last') /\ ms' = Append(ms, m')
           \/ /\ Len(hist) = SimDepth + 1
              /\ PrintT("@@" \o ToJson([k \in 1..Len(hist) |-> hist[k] @@ [b |-> Flatten(ms[k]), z |-> FlattenedSize(ms[k])]]))
              /\ hist' = Append(hist, [op |-> "-"]) /\ UNCHANGED <<vars, ms>>
SimSpec == SimInit /\ [][SimNext]_<<vars, hist, ms>>
=============================================================================
