------------------------------- MODULE WireSim -------------------------------
(* Deep random API scripts of WireMC for the replay direction (C01): run with -simulate and RECORD = "step";  *)
(* when a behaviour has SimDepth calls its history is printed once, each call with the serialised bytes and   *)
(* the advertised size of the Message after it (computed here, not for every successor the simulator looks at) *)
EXTENDS WireMC, Json
CONSTANT SimDepth
VARIABLES hist, ms
SimInit == Init /\ hist = <<last>> /\ ms = <<m>>
SimNext == \/ /\ Len(hist) <= SimDepth /\ Next /\ hist' = Append(hist, last') /\ ms' = Append(ms, m')
           \/ /\ Len(hist) = SimDepth + 1
              /\ PrintT("@@" \o ToJson([k \in 1..Len(hist) |-> hist[k] @@ [b |-> Flatten(ms[k]), z |-> FlattenedSize(ms[k])]]))
              /\ hist' = Append(hist, [op |-> "-"]) /\ UNCHANGED <<vars, ms>>
SimSpec == SimInit /\ [][SimNext]_<<vars, hist, ms>>
=============================================================================
