SPECIFICATION TraceSpec
CONSTANTS
  Bug = "none"
  Deviations = {"F38", "F39"}
CONSTRAINT Track
POSTCONDITION Report
