------------------------------- MODULE WireAbs -------------------------------
(***************************************************************************)
(* C01 / C08: the INDEPENDENT reference codec of the MUSCLE Message wire   *)
(* format, written from the documented layout only:                        *)
(*   - the format comment of Message::Flatten (message/Message.cpp) and of *)
(*     MMFlattenMessage (lang/c/minimessage/MiniMessage.c):                *)
(*       0. protocol revision number (4 bytes, 'PM00')                     *)
(*       1. 'what' code (4 bytes)        2. number of entries (4 bytes)    *)
(*       3. entry name length (4 bytes)  4. entry name (flattened String)  *)
(*       5. entry type code (4 bytes)    6. entry data length (4 bytes)    *)
(*       7. entry data (n bytes)         8. loop to 3 as necessary         *)
(*   - support/MuscleSupport.h: the B_*_TYPE constants and their comments  *)
(*     (1 byte per bool, 2 floats per Point, 4 floats per Rect, pointers   *)
(*     and tags are not flattened), everything little-endian;              *)
(*   - the per-type rules that every shipped implementation documents in   *)
(*     the same words (message.py GetFieldContentsLength, MiniMessage.c,   *)
(*     MicroMessage.c): a String is its bytes plus a NUL and its length    *)
(*     word counts the NUL; string fields and raw-buffer fields (every     *)
(*     type code that is not one of the built-in ones) carry an item-count *)
(*     word followed by length-prefixed items; Message fields carry NO     *)
(*     item-count word, each sub-Message is length-prefixed; fixed-size    *)
(*     items are simply concatenated;                                      *)
(*   - iogateway/MessageIOGateway.h: the stream frame = 4 bytes body       *)
(*     length, 4 bytes encoding id ('Enc0'), body.                         *)
(* Nothing here is transcribed from the C++ writer or parser.              *)
(*                                                                         *)
(* A Message value is [what, fields]; what = 4 bytes (little-endian);      *)
(* fields = sequence (the field order) of [name, type, items]; name = the  *)
(* bytes of the name without the NUL; type = the 4 bytes of the type code  *)
(* (little-endian); items = sequence of BYTE TUPLES - an int32 is a        *)
(* 4-tuple, a double an 8-tuple, a Point an 8-tuple (x then y), a Rect a   *)
(* 16-tuple (left, top, right, bottom), a String its bytes without the     *)
(* NUL, a raw buffer its bytes - so that NaN / -0 / inf are just bit       *)
(* patterns and TLC (32-bit integers) never does wide arithmetic; the      *)
(* items of a Message field are Message values; the items of a pointer or  *)
(* tag field are <<>> (their identity never reaches the wire).             *)
(* Bytes are 0..255.                                                       *)
(***************************************************************************)
EXTENDS Integers, Sequences, FiniteSets, TLC

\* "none" in every real configuration.  The other values are deliberately wrong variants of this codec,
\* used only by the Wrong_* configurations to show that each invariant of WireMC can fail.
CONSTANT Bug

----------------------------------------------------------------------------
\* words

LE32(n) == <<n % 256, (n \div 256) % 256, (n \div 65536) % 256, (n \div 16777216) % 256>>

\* the 32-bit little-endian word at b[p..p+3], or -1 if it does not fit into TLC's integers
Word(b, p) == IF b[p + 3] >= 128 THEN -1 ELSE b[p] + 256 * b[p + 1] + 65536 * b[p + 2] + 16777216 * b[p + 3]

RECURSIVE CatAll(_)
CatAll(ss) == IF Len(ss) = 0 THEN <<>> ELSE Head(ss) \o CatAll(Tail(ss))

RECURSIVE SumAll(_)
SumAll(ns) == IF Len(ns) = 0 THEN 0 ELSE Head(ns) + SumAll(Tail(ns))

----------------------------------------------------------------------------
\* protocol constants (message/Message.h, support/MuscleSupport.h, iogateway/MessageIOGateway.h)

PM00       == LE32(1347235888)    \* CURRENT_PROTOCOL_VERSION 'PM00'
ENC0       == LE32(1164862256)    \* MUSCLE_MESSAGE_ENCODING_DEFAULT 'Enc0'
TC_BOOL    == LE32(1112493900)    \* 'BOOL' 1 byte per bool
TC_DOUBLE  == LE32(1145195589)    \* 'DBLE' 8 bytes
TC_FLOAT   == LE32(1179406164)    \* 'FLOT' 4 bytes
TC_INT64   == LE32(1280069191)    \* 'LLNG' 8 bytes
TC_INT32   == LE32(1280265799)    \* 'LONG' 4 bytes
TC_INT16   == LE32(1397248596)    \* 'SHRT' 2 bytes
TC_INT8    == LE32(1113150533)    \* 'BYTE' 1 byte
TC_MESSAGE == LE32(1297303367)    \* 'MSGG' sub Messages
TC_POINTER == LE32(1347310674)    \* 'PNTR' will not be flattened
TC_POINT   == LE32(1112559188)    \* 'BPNT' two floats
TC_RECT    == LE32(1380270932)    \* 'RECT' four floats
TC_STRING  == LE32(1129534546)    \* 'CSTR' variable length
TC_RAW     == LE32(1380013908)    \* 'RAWT' variable number of bytes
TC_TAG     == LE32(1297367367)    \* 'MTAG' in-memory-only tags
TC_ANY     == LE32(1095653716)    \* 'ANYT' wild card: never the type of a field

Kind(tc) == CASE tc = TC_BOOL    -> "bool"    [] tc = TC_INT8   -> "int8"   [] tc = TC_INT16  -> "int16"
              [] tc = TC_INT32   -> "int32"   [] tc = TC_INT64  -> "int64"  [] tc = TC_FLOAT  -> "float"
              [] tc = TC_DOUBLE  -> "double"  [] tc = TC_STRING -> "string" [] tc = TC_POINT  -> "point"
              [] tc = TC_RECT    -> "rect"    [] tc = TC_MESSAGE -> "message"
              [] tc = TC_POINTER -> "pointer" [] tc = TC_TAG    -> "tag"
              [] OTHER           -> "raw"     \* every other type code: variable-sized byte buffers

FixedSize == [bool |-> 1, int8 |-> 1, int16 |-> 2, int32 |-> 4, int64 |-> 8, float |-> 4, double |-> 8, point |-> 8, rect |-> 16]
IsFixed(k) == k \in DOMAIN FixedSize
TCOf(k) == CASE k = "bool" -> TC_BOOL [] k = "int8" -> TC_INT8 [] k = "int16" -> TC_INT16 [] k = "int32" -> TC_INT32
             [] k = "int64" -> TC_INT64 [] k = "float" -> TC_FLOAT [] k = "double" -> TC_DOUBLE [] k = "string" -> TC_STRING
             [] k = "point" -> TC_POINT [] k = "rect" -> TC_RECT [] k = "message" -> TC_MESSAGE [] k = "pointer" -> TC_POINTER
             [] k = "tag" -> TC_TAG [] k = "raw" -> TC_RAW

FlattenableKind(k) == k \notin {"pointer", "tag"}
Flattenable(f) == FlattenableKind(Kind(f.type))

----------------------------------------------------------------------------
\* what a Message value looks like

IsBytes(s) == \A i \in 1..Len(s) : s[i] \in 0..255
NoDup(fs) == \A i, j \in 1..Len(fs) : fs[i].name = fs[j].name => i = j

RECURSIVE WellFormed(_)
ItemOK(k, it) == CASE IsFixed(k)      -> IsBytes(it) /\ Len(it) = FixedSize[k] /\ (k = "bool" => it[1] \in {0, 1})
                   [] k = "string"    -> IsBytes(it) /\ \A i \in 1..Len(it) : it[i] # 0
                   [] k = "message"   -> WellFormed(it)
                   [] k \in {"pointer", "tag"} -> it = <<>>
                   [] OTHER           -> IsBytes(it)
WellFormed(m) == /\ Len(m.what) = 4 /\ IsBytes(m.what)
                 /\ NoDup(m.fields)
                 /\ \A i \in 1..Len(m.fields) :
                      LET f == m.fields[i] IN
                      /\ IsBytes(f.name) /\ (\A j \in 1..Len(f.name) : f.name[j] # 0)
                      /\ Len(f.type) = 4 /\ IsBytes(f.type) /\ f.type # TC_ANY
                      \* Len(f.items) = 0 is possible: RemoveData() removes a field with its last item from the Message it is called on, but a
                      \* field shared into another Message (ShareName: "changes to the field in one Message will be seen in the other") stays
                      \* there with zero items.  A field with zero items is not the same as no field: it is counted, named, typed and serialised.
                      /\ \A j \in 1..Len(f.items) : ItemOK(Kind(f.type), f.items[j])

\* what survives serialisation: everything but the non-flattenable fields, at every nesting level
RECURSIVE Norm(_)
Norm(m) == LET fs == SelectSeq(m.fields, Flattenable) IN
           [what |-> m.what,
            fields |-> [i \in 1..Len(fs) |-> IF Kind(fs[i].type) = "message"
                                              THEN [name |-> fs[i].name, type |-> fs[i].type, items |-> [j \in 1..Len(fs[i].items) |-> Norm(fs[i].items[j])]]
                                              ELSE fs[i]]]

----------------------------------------------------------------------------
\* the writer

RECURSIVE Flatten(_)
Payload(k, items) ==
   CASE IsFixed(k)    -> CatAll(items)
     [] k = "message" -> (IF Bug = "MsgCountWord" THEN LE32(Len(items)) ELSE <<>>) \o
                         CatAll([i \in 1..Len(items) |-> LET b == Flatten(items[i]) IN LE32(Len(b)) \o b])
     [] k = "string"  -> LE32(Len(items)) \o CatAll([i \in 1..Len(items) |-> LE32(Len(items[i]) + 1) \o items[i] \o <<0>>])
     [] OTHER         -> LE32(Len(items)) \o CatAll([i \in 1..Len(items) |-> LE32(Len(items[i])) \o items[i]])

FlatField(f) == LET p == Payload(Kind(f.type), f.items) IN
                LE32(Len(f.name) + 1) \o f.name \o <<0>> \o f.type \o LE32(Len(p)) \o p

Flatten(m) == LET fs == SelectSeq(m.fields, Flattenable) IN
              PM00 \o m.what \o LE32(IF Bug = "TagCounted" THEN Len(m.fields) ELSE Len(fs)) \o CatAll([i \in 1..Len(fs) |-> FlatField(fs[i])])

\* the advertised size, computed by arithmetic (not as Len(Flatten(m)): SizeExact of WireMC relates the two)
RECURSIVE FlattenedSize(_)
PayloadSize(k, items) ==
   CASE IsFixed(k)    -> Len(items) * FixedSize[k]
     [] k = "message" -> SumAll([i \in 1..Len(items) |-> 4 + FlattenedSize(items[i])])
     [] k = "string"  -> 4 + SumAll([i \in 1..Len(items) |-> 4 + Len(items[i]) + 1])
     [] OTHER         -> 4 + SumAll([i \in 1..Len(items) |-> 4 + Len(items[i])])
FlattenedSize(m) == LET fs == SelectSeq(m.fields, Flattenable) IN
                    12 + SumAll([i \in 1..Len(fs) |-> 4 + Len(fs[i].name) + (IF Bug = "SizeNoNul" THEN 0 ELSE 1) + 4 + 4 + PayloadSize(Kind(fs[i].type), fs[i].items)])

\* the 8-byte stream frame of the gateways
Frame(b) == LE32(Len(b)) \o ENC0 \o b
FrameStream(bs) == CatAll([i \in 1..Len(bs) |-> Frame(bs[i])])

----------------------------------------------------------------------------
\* the parser: total (any byte sequence gives a verdict), strict (accepts exactly the well-formed encodings)

Bad == [ok |-> FALSE]

\* n length-prefixed items that fill b[p..hi] exactly; nul = 1: each item is a NUL-terminated string without inner NULs
RECURSIVE PVarItems(_, _, _, _, _)
PVarItems(b, p, hi, n, nul) ==
   IF n = 0 THEN (IF p = hi + 1 THEN [ok |-> TRUE, items |-> <<>>] ELSE Bad)
   ELSE IF p + 3 > hi THEN Bad
   ELSE LET len == Word(b, p) IN
        IF len < nul \/ len > hi - (p + 3) THEN Bad
        ELSE IF nul = 1 /\ \E q \in (p + 4)..(p + 3 + len) : (b[q] = 0) # (q = p + 3 + len) THEN Bad
        ELSE LET r == PVarItems(b, p + 4 + len, hi, n - 1, nul) IN
             IF r.ok THEN [ok |-> TRUE, items |-> <<SubSeq(b, p + 4, p + 3 + len - nul)>> \o r.items] ELSE Bad

RECURSIVE PMsg(_, _, _), PSubMsgs(_, _, _), PFields(_, _, _, _)

\* length-prefixed sub-Messages that fill b[p..hi] exactly (no count word: the count is implied by the data length)
PSubMsgs(b, p, hi) ==
   IF p = hi + 1 THEN [ok |-> TRUE, items |-> <<>>]
   ELSE IF p + 3 > hi THEN Bad
   ELSE LET len == Word(b, p) IN
        IF len < 12 \/ len > hi - (p + 3) THEN Bad
        ELSE LET s == PMsg(b, p + 4, p + 3 + len) IN
             IF ~s.ok THEN Bad
             ELSE LET r == PSubMsgs(b, p + 4 + len, hi) IN
                  IF r.ok THEN [ok |-> TRUE, items |-> <<s.msg>> \o r.items] ELSE Bad

PItems(b, tc, p, hi) ==
   LET k == Kind(tc) dl == hi - p + 1 IN
   CASE k \in {"pointer", "tag"} \/ tc = TC_ANY -> Bad                                   \* never on the wire
     [] IsFixed(k) -> LET sz == FixedSize[k] n == dl \div sz IN
                      IF dl % sz # 0 THEN Bad
                      ELSE LET its == [i \in 1..n |-> SubSeq(b, p + (i - 1) * sz, p + i * sz - 1)] IN
                           IF k = "bool" /\ \E i \in 1..n : its[i][1] > 1 THEN Bad ELSE [ok |-> TRUE, items |-> its]
     [] k = "message" -> PSubMsgs(b, p, hi)
     [] OTHER -> IF dl < 4 THEN Bad
                 ELSE LET n == Word(b, p) IN
                      IF n < 0 \/ n > (dl - 4) \div 4 THEN Bad       \* every item takes at least its length word
                      ELSE LET r == PVarItems(b, p + 4, hi, n, IF k = "string" THEN 1 ELSE 0) IN
                           IF Bug = "UnflatDropsThird" /\ r.ok /\ n = 3 THEN [ok |-> TRUE, items |-> SubSeq(r.items, 1, 2)] ELSE r

\* n fields starting at p, inside b[..hi]; returns the position after the last one
PFields(b, p, hi, n) ==
   IF n = 0 THEN [ok |-> TRUE, fields |-> <<>>, p |-> p]
   ELSE IF p + 3 > hi THEN Bad
   ELSE LET nl == Word(b, p) IN
        IF nl < 1 \/ nl > hi - (p + 3) THEN Bad
        ELSE LET q == p + 4 + nl IN                                             \* position of the type code
             IF \E j \in (p + 4)..(q - 1) : (b[j] = 0) # (j = q - 1) THEN Bad   \* NUL-terminated, no inner NUL
             ELSE IF q + 7 > hi THEN Bad
             ELSE LET tc == SubSeq(b, q, q + 3) dl == Word(b, q + 4) d == q + 8 IN
                  IF dl < 0 \/ dl > hi - (d - 1) THEN Bad
                  ELSE LET it == PItems(b, tc, d, d + dl - 1) IN
                       IF ~it.ok THEN Bad                                         \* (zero items is a legitimate field state, see WellFormed)
                       ELSE LET r == PFields(b, d + dl, hi, n - 1) IN
                            IF r.ok THEN [ok |-> TRUE, fields |-> <<[name |-> SubSeq(b, p + 4, q - 2), type |-> tc, items |-> it.items]>> \o r.fields, p |-> r.p]
                            ELSE Bad

\* a Message that fills b[lo..hi] exactly
PMsg(b, lo, hi) ==
   IF hi - lo + 1 < 12 \/ SubSeq(b, lo, lo + 3) # PM00 THEN Bad
   ELSE LET n == Word(b, lo + 8) IN
        IF n < 0 \/ n > (hi - (lo + 11)) \div 12 THEN Bad                       \* every field takes at least three words
        ELSE LET r == PFields(b, lo + 12, hi, n) IN
             IF r.ok /\ r.p = hi + 1 /\ NoDup(r.fields) THEN [ok |-> TRUE, msg |-> [what |-> SubSeq(b, lo + 4, lo + 7), fields |-> r.fields]] ELSE Bad

Unflatten(b) == PMsg(b, 1, Len(b))

----------------------------------------------------------------------------
(* Construction through the public API, as the header documents it (message/Message.h):                    *)
(*  Add / Prepend   "Name of the field to add (or add to) ... B_TYPE_MISMATCH if a type conflict occurred": *)
(*                  a new field goes to the END of the field order; an existing field of another type is   *)
(*                  left alone.  AddTag / AddPointer are Add with the tag / pointer type code.             *)
(*  Remove          RemoveData(name, i): "Removes the (index)'th item ... If the field entry becomes empty, *)
(*                  the field itself is removed also ... B_DATA_NOT_FOUND if the field name/index wasn't    *)
(*                  found".                                                                                 *)
(*  Replace         ReplaceX(okayToAdd, name, i, v): "If set true, attempting to replace an item that       *)
(*                  doesn't exist will cause the new item to be added to the end of the field array,        *)
(*                  instead.  If false ... B_DATA_NOT_FOUND to be returned with no side effects".           *)
(*  RemoveName      removes the field and its contents.                                                     *)
(* A step is [op, n, t, v, i, a] (only the components the call uses); for a Message field v is a script     *)
(* [w, s] of the sub-Message, so that sub-Messages are built through the API as well.                       *)
(* ApplyStep returns [m, ok]: the Message afterwards and whether the call reports success.                  *)

FieldIndex(m, nm) == LET S == {i \in 1..Len(m.fields) : m.fields[i].name = nm} IN IF S = {} THEN 0 ELSE CHOOSE i \in S : TRUE
RemoveAt(s, i) == SubSeq(s, 1, i - 1) \o SubSeq(s, i + 1, Len(s))        \* i is 1-based
WithItems(m, x, its) == [m EXCEPT !.fields[x].items = its]
WithoutField(m, x) == [m EXCEPT !.fields = RemoveAt(@, x)]

RECURSIVE Build(_), BuildFrom(_, _, _), ApplyStep(_, _)

ItemOf(s) == IF Kind(s.t) = "message" THEN Build(s.v) ELSE s.v

AddItem(m, s, front) ==
   LET x == FieldIndex(m, s.n) IN
   IF x = 0 THEN [m |-> [m EXCEPT !.fields = Append(@, [name |-> s.n, type |-> s.t, items |-> <<ItemOf(s)>>])], ok |-> TRUE]
   ELSE IF m.fields[x].type # s.t THEN [m |-> m, ok |-> FALSE]
   ELSE [m |-> WithItems(m, x, IF front THEN <<ItemOf(s)>> \o m.fields[x].items ELSE Append(m.fields[x].items, ItemOf(s))), ok |-> TRUE]

ApplyStep(m, s) ==
   CASE s.op = "Add"     -> AddItem(m, s, FALSE)
     [] s.op = "Prepend" -> AddItem(m, s, TRUE)
     [] s.op = "Remove"  -> LET x == FieldIndex(m, s.n) IN
                            IF x = 0 THEN [m |-> m, ok |-> FALSE]
                            ELSE IF s.i >= Len(m.fields[x].items) THEN [m |-> m, ok |-> FALSE]
                            ELSE IF Len(m.fields[x].items) = 1 THEN [m |-> WithoutField(m, x), ok |-> TRUE]
                            ELSE [m |-> WithItems(m, x, RemoveAt(m.fields[x].items, s.i + 1)), ok |-> TRUE]
     [] s.op = "Replace" -> LET x == FieldIndex(m, s.n)
                                hit == IF x = 0 THEN FALSE ELSE m.fields[x].type = s.t /\ s.i < Len(m.fields[x].items) IN
                            IF hit THEN [m |-> WithItems(m, x, [m.fields[x].items EXCEPT ![s.i + 1] = ItemOf(s)]), ok |-> TRUE]
                            ELSE IF s.a THEN AddItem(m, s, FALSE)
                            ELSE [m |-> m, ok |-> FALSE]
     \* a field with zero items, as left behind by  donor.Add(n, x); donor.Add(n, y); donor.ShareName(n, m); donor.RemoveData(n, 0) twice
     [] s.op = "ZeroField" -> IF FieldIndex(m, s.n) # 0 THEN [m |-> m, ok |-> FALSE]
                              ELSE [m |-> [m EXCEPT !.fields = Append(@, [name |-> s.n, type |-> s.t, items |-> <<>>])], ok |-> TRUE]
     [] s.op = "RemoveName" -> LET x == FieldIndex(m, s.n) IN
                            IF x = 0 THEN [m |-> m, ok |-> FALSE] ELSE [m |-> WithoutField(m, x), ok |-> TRUE]

BuildFrom(m, steps, k) == IF k > Len(steps) THEN m ELSE BuildFrom(ApplyStep(m, steps[k]).m, steps, k + 1)
Build(sc) == BuildFrom([what |-> sc.w, fields |-> <<>>], sc.s, 1)

\* the script that rebuilds a Message value with Add calls only (used to hand contents to the harness)
RECURSIVE ScriptOf(_)
ScriptOf(m) == [w |-> m.what,
                s |-> CatAll([i \in 1..Len(m.fields) |->
                        [j \in 1..Len(m.fields[i].items) |->
                           [op |-> "Add", n |-> m.fields[i].name, t |-> m.fields[i].type,
                            v |-> IF Kind(m.fields[i].type) = "message" THEN ScriptOf(m.fields[i].items[j]) ELSE m.fields[i].items[j]]]])]

(* Scripts that leave the same Message but are NOT append-only (C08 builds its C++ Messages through them, so that   *)
(* the serialiser is also seen on item arrays whose storage has been rotated, shrunk, overwritten or regrown):     *)
(*  d = 1  Add items 2..n, then Prepend item 1                 (prepend onto 1+ items)                             *)
(*  d = 2  Add 3 x item 1, Add items 1..k, RemoveData(0) x 3, Add items k+1..n   (first in, first out)             *)
(*  d = 3  Add n-1 x item 1, Replace(j) every item but the last, Replace(okayToAdd, n-1) appends the last          *)
(*  d = 4  Add item 1 and 2 x item 1, RemoveData(2), RemoveData(1) (down to one item), Add items 2..n              *)
(*  d = 5  Prepend items n..1                                                                                       *)
(*  other  Add items 1..n (as ScriptOf)                                                                             *)
(* The fields are built one after the other, and no field is ever emptied on the way, so the field order is kept.  *)
(* Sub-Messages are built by the same detour.  WireVec / WireTrace check Build(DetourOf(m, d)) = m.                 *)
RECURSIVE DetourOf(_, _)
FieldDetour(f, d) ==
   LET n == Len(f.items)
       k == (n + 1) \div 2
       val(j) == IF Kind(f.type) = "message" THEN DetourOf(f.items[j], d) ELSE f.items[j]
       add(j) == [op |-> "Add", n |-> f.name, t |-> f.type, v |-> val(j)]
       pre(j) == [op |-> "Prepend", n |-> f.name, t |-> f.type, v |-> val(j)]
       rem(i) == [op |-> "Remove", n |-> f.name, i |-> i]
       rep(i, j, a) == [op |-> "Replace", n |-> f.name, t |-> f.type, v |-> val(j), i |-> i, a |-> a]
   IN CASE n = 0 -> <<[op |-> "ZeroField", n |-> f.name, t |-> f.type]>>
        [] d = 1 -> [j \in 1..(n - 1) |-> add(j + 1)] \o <<pre(1)>>
        [] d = 2 -> <<add(1), add(1), add(1)>> \o [j \in 1..k |-> add(j)] \o <<rem(0), rem(0), rem(0)>> \o [j \in 1..(n - k) |-> add(k + j)]
        [] d = 3 -> [j \in 1..(n - 1) |-> add(1)] \o [j \in 1..(n - 1) |-> rep(j - 1, j, FALSE)] \o <<rep(n - 1, n, TRUE)>>
        [] d = 4 -> <<add(1), add(1), add(1), rem(2), rem(1)>> \o [j \in 1..(n - 1) |-> add(j + 1)]
        [] d = 5 -> [j \in 1..n |-> pre(n + 1 - j)]
        [] OTHER -> [j \in 1..n |-> add(j)]
DetourOf(m, d) == [w |-> m.what, s |-> CatAll([i \in 1..Len(m.fields) |-> FieldDetour(m.fields[i], d)])]

----------------------------------------------------------------------------
(* The repertoire common to C++ and another shipped implementation (C08).                                   *)
(*  mini, micro : everything the C++ class can put on the wire (names and strings are C strings in all      *)
(*                three; unknown type codes are byte buffers in all three).                                  *)
(*  python      : lang/python3/message.py keeps names and strings as Python text (decode() / encode(),      *)
(*                UTF-8) and Point / Rect co-ordinates as Python floats (struct '<2f' / '<4f': a float32    *)
(*                signalling NaN does not survive the conversion to double and back), so: names and strings  *)
(*                well-formed UTF-8, no signalling NaN in a Point or Rect.                                   *)
(*  pynative    : the same content built with message.py's own Put* calls from Python values.               *)

RECURSIVE Utf8From(_, _)
Utf8From(s, p) ==
   IF p > Len(s) THEN TRUE
   ELSE LET c == s[p]
            In(q, lo, hi) == q <= Len(s) /\ s[q] >= lo /\ s[q] <= hi
        IN CASE c < 128                -> Utf8From(s, p + 1)
             [] c >= 194 /\ c <= 223   -> In(p + 1, 128, 191) /\ Utf8From(s, p + 2)
             [] c = 224                -> In(p + 1, 160, 191) /\ In(p + 2, 128, 191) /\ Utf8From(s, p + 3)
             [] (c >= 225 /\ c <= 236) \/ c = 238 \/ c = 239 -> In(p + 1, 128, 191) /\ In(p + 2, 128, 191) /\ Utf8From(s, p + 3)
             [] c = 237                -> In(p + 1, 128, 159) /\ In(p + 2, 128, 191) /\ Utf8From(s, p + 3)
             [] c = 240                -> In(p + 1, 144, 191) /\ In(p + 2, 128, 191) /\ In(p + 3, 128, 191) /\ Utf8From(s, p + 4)
             [] c >= 241 /\ c <= 243   -> In(p + 1, 128, 191) /\ In(p + 2, 128, 191) /\ In(p + 3, 128, 191) /\ Utf8From(s, p + 4)
             [] c = 244                -> In(p + 1, 128, 143) /\ In(p + 2, 128, 191) /\ In(p + 3, 128, 191) /\ Utf8From(s, p + 4)
             [] OTHER                  -> FALSE
Utf8OK(s) == Utf8From(s, 1)

\* the float32 at it[p..p+3] (little-endian) is a signalling NaN: exponent all ones, quiet bit clear, mantissa not zero
SNaN32(it, p) == /\ it[p + 3] % 128 = 127 /\ it[p + 2] >= 128            \* exponent 0xFF
                 /\ it[p + 2] < 192                                      \* quiet bit (bit 22) clear
                 /\ (it[p + 2] % 64 # 0 \/ it[p + 1] # 0 \/ it[p] # 0)   \* mantissa not zero (else infinity)

RECURSIVE PyOK(_)
PyOK(m) == \A i \in 1..Len(m.fields) :
              LET f == m.fields[i] k == Kind(f.type) IN
              Flattenable(f) =>
                 /\ Utf8OK(f.name)
                 /\ \A j \in 1..Len(f.items) :
                       CASE k = "string"  -> Utf8OK(f.items[j])
                         [] k = "message" -> PyOK(f.items[j])
                         [] k = "point"   -> ~SNaN32(f.items[j], 1) /\ ~SNaN32(f.items[j], 5)
                         [] k = "rect"    -> \A q \in {1, 5, 9, 13} : ~SNaN32(f.items[j], q)
                         [] OTHER         -> TRUE

\* building the same content NATIVELY in Python hands message.py lists of Python floats, which it packs into array('f'):
\* additionally no float32 signalling NaN in a float field
RECURSIVE NoSNaNFloats(_)
NoSNaNFloats(m) == \A i \in 1..Len(m.fields) :
                      LET f == m.fields[i] k == Kind(f.type) IN
                      \A j \in 1..Len(f.items) : CASE k = "float" -> ~SNaN32(f.items[j], 1) [] k = "message" -> NoSNaNFloats(f.items[j]) [] OTHER -> TRUE
PyNativeOK(m) == PyOK(m) /\ NoSNaNFloats(Norm(m))

----------------------------------------------------------------------------
(* Known findings about the OTHER implementations (known_findings.json), as predicates on the Message: while a   *)
(* finding is open (its id in the Deviations constant of WireVec / WireTrace) the one leg it concerns is left   *)
(* free for the Messages it matches; everything else is judged normally.                                         *)
(*  F38  micro reader: UMFindData() fails on a zero-length raw item that is the last item of its field.          *)
(*  F39  message.py: FlattenedSize() counts the characters of a field name, Flatten() writes its UTF-8 bytes, and *)
(*       the length prefix of a sub-Message comes from FlattenedSize(): wrong bytes when a field name INSIDE A    *)
(*       SUB-MESSAGE is not pure ASCII.                                                                           *)
RECURSIVE F38(_)
F38(m) == \E i \in 1..Len(m.fields) :
             LET f == m.fields[i] k == Kind(f.type) IN
             \/ k = "raw" /\ Len(f.items) > 0 /\ Len(f.items[Len(f.items)]) = 0
             \/ k = "message" /\ \E j \in 1..Len(f.items) : F38(f.items[j])
RECURSIVE NonAsciiName(_)
NonAsciiName(m) == \E i \in 1..Len(m.fields) :
                      LET f == m.fields[i] IN
                      Flattenable(f) /\ (\/ \E q \in 1..Len(f.name) : f.name[q] >= 128
                                         \/ Kind(f.type) = "message" /\ \E j \in 1..Len(f.items) : NonAsciiName(f.items[j]))
F39(m) == \E i \in 1..Len(m.fields) : Kind(m.fields[i].type) = "message" /\ \E j \in 1..Len(m.fields[i].items) : NonAsciiName(m.fields[i].items[j])

\* some field, at any level, has zero items
RECURSIVE HasZero(_)
HasZero(m) == \E i \in 1..Len(m.fields) :
                 \/ Len(m.fields[i].items) = 0
                 \/ (Kind(m.fields[i].type) = "message" /\ \E j \in 1..Len(m.fields[i].items) : HasZero(m.fields[i].items[j]))

\* (A field with zero items is INSIDE every implementation's repertoire: C08 quantifies over any counts and C++ writes it in the documented layout.)
Common(impl, m) == CASE impl = "python" -> PyOK(m) [] impl = "pynative" -> PyNativeOK(m) [] OTHER -> TRUE

\* Known findings F45mini / F45micro (see known_findings.json), as predicates:
\*  F45mini   the Message has a field with zero items (any kind, any level): MMUnflattenMessage refuses the bytes, MMPut*Field(.., 0) returns NULL
\*  F45micro  the Message has a RAW-BUFFER field with zero items: the micro writer has no call that writes one (UMAddData adds exactly one item), so
\*            re-serialising what the reader read, and native construction, lose exactly those fields: the bytes are those of DropZeroRaw(m)
F45mini(m) == HasZero(m)
RECURSIVE HasZeroRaw(_)
HasZeroRaw(m) == \E i \in 1..Len(m.fields) :
                    \/ (Kind(m.fields[i].type) = "raw" /\ Len(m.fields[i].items) = 0)
                    \/ (Kind(m.fields[i].type) = "message" /\ \E j \in 1..Len(m.fields[i].items) : HasZeroRaw(m.fields[i].items[j]))
F45micro(m) == HasZeroRaw(m)
RECURSIVE DropZeroRaw(_)
DropZeroRaw(m) == LET fs == SelectSeq(m.fields, LAMBDA f : ~(Kind(f.type) = "raw" /\ Len(f.items) = 0)) IN
                  [what |-> m.what,
                   fields |-> [i \in 1..Len(fs) |-> IF Kind(fs[i].type) = "message" THEN [name |-> fs[i].name, type |-> fs[i].type, items |-> [j \in 1..Len(fs[i].items) |-> DropZeroRaw(fs[i].items[j])]]
                                                     ELSE fs[i]]]
=============================================================================
