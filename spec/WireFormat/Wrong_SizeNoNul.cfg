\* a deliberately wrong variant of the codec: TLC must report that SizeExact is violated
SPECIFICATION Spec
CONSTANTS
  Bug = "SizeNoNul"
  Inst = "string"
  MaxItems = 3
  RECORD = "off"
INVARIANTS SizeExact
