\* reachability target: violated = reached
SPECIFICATION Spec
CONSTANTS
  Bug = "none"
  Inst = "int16"
  MaxItems = 3
  RECORD = "step"
INVARIANTS Reach_BackToOne
