\* model check of one instance (the check generates one such configuration per field kind, see checks/c01.py)
SPECIFICATION Spec
CONSTANTS
  Bug = "none"
  Inst = "int32"
  MaxItems = 3
  RECORD = "off"
INVARIANTS TypeOK RoundTrip SizeExact Idempotent NonFlatInvisible FrameOK
