------------------------------- MODULE WireMC -------------------------------
(***************************************************************************)
(* C01: Messages are built the way a user builds them - by API scripts     *)
(* (Add / Prepend / RemoveData(i) / Replace(i) / RemoveName, AddTag and    *)
(* AddPointer for the non-flattenable fields) - so that every item count   *)
(* of a field (0 after removal, 1, 2, 3) and every transition between them *)
(* is reached by every call that can cause it.  The state is the Message   *)
(* value of WireAbs; the invariants are the property: serialisation round  *)
(* trips exactly, the advertised size is exact, re-serialisation gives the *)
(* same bytes, non-flattenable fields are invisible on the wire.           *)
(*                                                                         *)
(* RECORD = "off"   model checking: `last` stays constant.                 *)
(* RECORD = "bytes" generation: `last` is the call that led to the state,  *)
(*                  whether it reports success, and the serialised bytes   *)
(*                  and advertised size of the Message AFTER the call; the *)
(*                  check dumps the state graph and replays a path cover   *)
(*                  of every transition into the real Message class.       *)
(* RECORD = "step"  simulation (WireSim): the call only; the bytes are     *)
(*                  computed once per behaviour when it is printed.        *)
(* Inst selects the calls the instance ranges over (see MainOf / SideOf).  *)
(***************************************************************************)
EXTENDS WireAbs

CONSTANTS Inst, MaxItems, RECORD

VARIABLES m, last
vars == <<m, last>>

NA == <<97>>      \* "a": the field under test
NB == <<98>>      \* "b": a neighbour, to see the field order and the field count
NC == <<99, 195, 169>>   \* "cé": a name with non-ASCII bytes (simulation only)

\* ---- boundary values, as bit patterns (little-endian)
F1_0  == <<0, 0, 128, 63>>    F2_0 == <<0, 0, 0, 64>>     F3_0 == <<0, 0, 64, 64>>   F4_0 == <<0, 0, 128, 64>>
FNAN  == <<0, 0, 192, 127>>   FNEG0 == <<0, 0, 0, 128>>   FINF == <<0, 0, 128, 127>> FSNAN == <<1, 0, 128, 127>>   FDEN == <<1, 0, 0, 0>>
DNAN  == <<0, 0, 0, 0, 0, 0, 248, 127>>   DNEG0 == <<0, 0, 0, 0, 0, 0, 0, 128>>   DNINF == <<0, 0, 0, 0, 0, 0, 240, 255>>
D1_5  == <<0, 0, 0, 0, 0, 0, 248, 63>>    DSNAN == <<1, 0, 0, 0, 0, 0, 240, 127>>
TC_X  == <<68, 67, 66, 193>>  \* a user-defined type code (0xC1424344): raw buffers of arbitrary type codes
S17   == <<113, 114, 115, 116, 117, 118, 119, 120, 121, 122, 113, 114, 115, 116, 117, 118, 119>>    \* longer than a String's inline buffer

Sub0 == [w |-> <<1, 0, 0, 0>>, s |-> <<>>]
Sub1 == [w |-> <<255, 255, 255, 255>>,
         s |-> <<[op |-> "Add", n |-> <<120>>, t |-> TC_INT16, v |-> <<1, 128>>],
                 [op |-> "Add", n |-> <<120>>, t |-> TC_INT16, v |-> <<254, 255>>],
                 [op |-> "Add", n |-> <<116>>, t |-> TC_TAG, v |-> <<>>],
                 [op |-> "Add", n |-> <<115>>, t |-> TC_STRING, v |-> <<>>],
                 [op |-> "Add", n |-> <<109>>, t |-> TC_MESSAGE, v |-> Sub0],
                 [op |-> "Prepend", n |-> <<109>>, t |-> TC_MESSAGE, v |-> [w |-> <<2, 0, 0, 0>>, s |-> <<[op |-> "Add", n |-> <<98>>, t |-> TC_BOOL, v |-> <<1>>]>>]]>>]

\* two values per kind for the exhaustive instances
Vals(k) == CASE k = "bool"    -> {<<1>>, <<0>>}
             [] k = "int8"    -> {<<128>>, <<127>>}
             [] k = "int16"   -> {<<0, 128>>, <<254, 255>>}
             [] k = "int32"   -> {<<0, 0, 0, 128>>, <<1, 2, 3, 4>>}
             [] k = "int64"   -> {<<0, 0, 0, 0, 0, 0, 0, 128>>, <<1, 2, 3, 4, 5, 6, 7, 8>>}
             [] k = "float"   -> {FNAN, FNEG0}
             [] k = "double"  -> {DNAN, DNEG0}
             [] k = "string"  -> {<<>>, <<195, 169, 255>>}
             [] k = "point"   -> {F1_0 \o F2_0, FNAN \o FNEG0}
             [] k = "rect"    -> {F1_0 \o F2_0 \o F3_0 \o F4_0, FNEG0 \o FINF \o FNAN \o F1_0}
             [] k = "raw"     -> {<<>>, <<0, 255>>}
             [] k = "message" -> {Sub0, Sub1}
             [] k = "tag"     -> {<<>>}
             [] k = "pointer" -> {<<>>}
\* more of them for the random behaviours
MoreVals(k) == CASE k = "int8" -> {<<0>>, <<255>>}
             [] k = "int16"   -> {<<255, 127>>}
             [] k = "int32"   -> {<<255, 255, 255, 127>>, <<255, 255, 255, 255>>}
             [] k = "int64"   -> {<<255, 255, 255, 255, 255, 255, 255, 127>>}
             [] k = "float"   -> {FINF, FSNAN, FDEN, F1_0}
             [] k = "double"  -> {DNINF, DSNAN, D1_5}
             [] k = "string"  -> {<<97>>, S17, <<240, 159, 152, 128>>}
             [] k = "point"   -> {FSNAN \o FINF}
             [] k = "raw"     -> {S17, <<0>>}
             [] OTHER         -> {}

\* one value per kind for the instance that mixes the kinds
One(k) == CASE k = "string" -> <<195, 169, 255>> [] k = "raw" -> <<0, 255>> [] k = "message" -> Sub1 [] k = "float" -> FNAN [] k = "double" -> DNAN
            [] k = "point" -> FNAN \o FNEG0 [] k = "rect" -> FNEG0 \o FINF \o FNAN \o F1_0 [] OTHER -> CHOOSE v \in Vals(k) : TRUE

Kinds == {"bool", "int8", "int16", "int32", "int64", "float", "double", "string", "point", "rect", "raw", "message"}
TV(k) == {[t |-> TCOf(k), v |-> v] : v \in Vals(k)}
TVMore(k) == {[t |-> TCOf(k), v |-> v] : v \in Vals(k) \cup MoreVals(k)}

\* the (type, value) pairs the calls on field "a" range over
MainOf(inst) == CASE inst = "raw"     -> TV("raw") \cup {[t |-> TC_X, v |-> <<7>>]}
                  [] inst = "nonflat" -> TV("tag") \cup TV("pointer") \cup {[t |-> TC_INT8, v |-> <<5>>]}
                  [] inst = "mixed"   -> {[t |-> TCOf(k), v |-> One(k)] : k \in Kinds}
                  [] inst = "all"     -> UNION {TVMore(k) : k \in Kinds} \cup TV("tag") \cup TV("pointer") \cup {[t |-> TC_X, v |-> <<7>>]}
                  [] OTHER            -> TV(inst)
\* the plain Add calls on the neighbour "b" (a tag or a flattenable field, one item) and the Add on "a" that must fail with a type mismatch
OtherT(inst) == IF inst = "int32" THEN TC_STRING ELSE TC_INT32
OtherV(inst) == IF inst = "int32" THEN <<98>> ELSE <<4, 3, 2, 1>>
SideOf(inst) == CASE inst = "all"   -> {}
                  [] inst = "mixed" -> {}
                  [] OTHER -> {[n |-> NB, t |-> TC_TAG, v |-> <<>>], [n |-> NB, t |-> OtherT(inst), v |-> OtherV(inst)], [n |-> NA, t |-> OtherT(inst), v |-> OtherV(inst)]}
MainNames == IF Inst = "all" THEN {NA, NB, NC} ELSE IF Inst = "mixed" THEN {NA, NB} ELSE {NA}
AllNames  == MainNames \cup {NB}
Whats == IF Inst \in {"all", "mixed", "nonflat"} THEN {<<1, 2, 3, 132>>, <<0, 0, 0, 0>>}
         ELSE IF Inst \in {"bool", "int16", "int64", "double", "point", "raw"} THEN {<<1, 2, 3, 132>>} ELSE {<<0, 0, 0, 0>>}

Main == MainOf(Inst)
Side == SideOf(Inst)

NumItems(nm) == LET x == FieldIndex(m, nm) IN IF x = 0 THEN 0 ELSE Len(m.fields[x].items)
TypeOfField(nm) == LET x == FieldIndex(m, nm) IN IF x = 0 THEN <<>> ELSE m.fields[x].type

Rec(s, r) == IF RECORD = "off" THEN last
             ELSE IF RECORD = "step" THEN [op |-> s.op, n |-> s.n, t |-> s.t, v |-> s.v, i |-> s.i, a |-> s.a, ok |-> r.ok]
             ELSE [op |-> s.op, n |-> s.n, t |-> s.t, v |-> s.v, i |-> s.i, a |-> s.a, ok |-> r.ok, w |-> r.m.what, b |-> Flatten(r.m), z |-> FlattenedSize(r.m)]

Do(s) == LET r == ApplyStep(m, s) IN m' = r.m /\ last' = Rec(s, r)

\* The calls an instance generates in a state, as sets of step records (WireSim picks from them at random):
\* an Add / Prepend is generated while the field has room, and also when it must fail (type mismatch)
Step(op, nm, t, val, i, a) == [op |-> op, n |-> nm, t |-> t, v |-> val, i |-> i, a |-> a]
RoomFor(nm, t) == TypeOfField(nm) = t => NumItems(nm) < MaxItems
AddSteps     == {s \in {Step("Add", nm, e.t, e.v, 0, FALSE) : e \in Main, nm \in MainNames} : RoomFor(s.n, s.t)}
PrependSteps == {s \in {Step("Prepend", nm, e.t, e.v, 0, FALSE) : e \in Main, nm \in MainNames} : RoomFor(s.n, s.t)}
\* the neighbour "b" gets one item (a tag or a flattenable one); the Add on "a" with another type must fail
SideSteps    == {s \in {Step("Add", e.n, e.t, e.v, 0, FALSE) : e \in Side} : IF s.n = NB THEN NumItems(NB) = 0 ELSE NumItems(NA) > 0 /\ TypeOfField(NA) # s.t}
\* every valid index, and the first invalid one (must fail and change nothing)
RemoveSteps  == UNION {{Step("Remove", nm, <<>>, <<>>, i, FALSE) : i \in 0..NumItems(nm)} : nm \in AllNames}
\* every valid index; the first invalid one with and without okayToAdd; a missing field; a field of another type (index 0 only)
ReplaceSteps == UNION {{s \in {Step("Replace", nm, e.t, e.v, i, a) : e \in Main, i \in 0..NumItems(nm), a \in BOOLEAN} :
                          /\ s.a => (s.i = NumItems(nm) /\ RoomFor(nm, s.t))
                          /\ (TypeOfField(nm) # s.t /\ NumItems(nm) > 0) => s.i = 0} : nm \in MainNames}
RemoveNameSteps == {Step("RemoveName", nm, <<>>, <<>>, 0, FALSE) : nm \in AllNames}

DoAdd        == \E s \in AddSteps : Do(s)
DoPrepend    == \E s \in PrependSteps : Do(s)
DoSide       == \E s \in SideSteps : Do(s)
DoRemove     == \E s \in RemoveSteps : Do(s)
DoReplace    == \E s \in ReplaceSteps : Do(s)
DoRemoveName == \E s \in RemoveNameSteps : Do(s)

New(w) == LET e == [what |-> w, fields |-> <<>>] IN
          /\ m = e
          /\ last = IF RECORD = "bytes" THEN [op |-> "New", n |-> <<>>, t |-> <<>>, v |-> <<>>, i |-> 0, a |-> FALSE, ok |-> TRUE, w |-> w, b |-> Flatten(e), z |-> FlattenedSize(e)]
                    ELSE [op |-> "New", n |-> <<>>, t |-> <<>>, v |-> <<>>, i |-> 0, a |-> FALSE, ok |-> TRUE, w |-> w]
Init == \E w \in Whats : New(w)
Next == DoAdd \/ DoPrepend \/ DoSide \/ DoRemove \/ DoReplace \/ DoRemoveName
Spec == Init /\ [][Next]_vars

----------------------------------------------------------------------------
\* the property (C01), on every Message the scripts can build

TypeOK == WellFormed(m)
\* parsing the serialised bytes yields the original: same what, same fields in the same order, same type codes,
\* same item counts, bit-identical items, at every nesting level - minus the non-flattenable fields
RoundTrip == LET u == Unflatten(Flatten(m)) IN u.ok /\ u.msg = Norm(m)
\* the advertised size equals the number of bytes written
SizeExact == Len(Flatten(m)) = FlattenedSize(m)
\* serialising the parsed Message reproduces the original bytes
Idempotent == LET u == Unflatten(Flatten(m)) IN u.ok /\ Flatten(u.msg) = Flatten(m) /\ FlattenedSize(u.msg) = FlattenedSize(m)
\* pointers and tags leave no trace: not in the field count, not in the size, not in the bytes
NonFlatInvisible == Flatten(m) = Flatten(Norm(m)) /\ FlattenedSize(m) = FlattenedSize(Norm(m))
\* the frame adds exactly the two documented words
FrameOK == LET b == Flatten(m) f == Frame(b) IN Len(f) = Len(b) + 8 /\ Word(f, 1) = Len(b) /\ SubSeq(f, 5, 8) = ENC0 /\ SubSeq(f, 9, Len(f)) = b

\* reachability targets (violated = reached): the representation boundary is crossed in both directions
Reach_ThreeItems == ~(NumItems(NA) = 3)
Reach_BackToOne  == ~(last.op = "Remove" /\ NumItems(NA) = 1)
=============================================================================
