------------------------------- MODULE WireTrace -------------------------------
(***************************************************************************)
(* C01 / C08, code -> spec: lines recorded by harness/wire.cpp from the    *)
(* real implementations are validated one by one against WireAbs (the      *)
(* function oracle); validation is linear, one state per line.             *)
(*  {"op":"New","w":..,"b":..,"z":..}            a fresh Message(what)      *)
(*  {"op":"Add"|"Prepend"|"Remove"|"Replace"|"RemoveName", n, t, v, i, a,   *)
(*   "ok":.., "b":.., "z":..}                    one public API call on it; *)
(*        b / z = the bytes the code serialised AFTER the call and the size *)
(*        it advertised: must be Flatten / FlattenedSize of the Message the *)
(*        documented API semantics give (ApplyStep)                         *)
(*  {"op":"Vec","m":Message value,"s":script,"b":..,"z":..,"o":{mini_u,..     *)
(*   micro_b,py_u,py_b}}   C08: C++ bytes of a content and, per other       *)
(*        implementation, 1 iff it (u) parsed and re-serialised those bytes *)
(*        to the same bytes / (b) built the content natively to the same    *)
(*        bytes and C++ accepted them.  Required wherever Common(impl, m).  *)
(*  {"op":"Frames","bs":[bytes..],"st":stream,"o":{..}}  the stream the C++ *)
(*        gateway wrote for a batch = FrameStream; the C gateways agree.    *)
(*  {"op":"PyEcho","m":..,"b":..,"same":0|1}     echo through the Python    *)
(*        transceiver thread.                                               *)
(***************************************************************************)
EXTENDS WireAbs, Json, IOUtils

CONSTANT Deviations    \* ids of the OPEN known findings about other implementations: {"F38", "F39"} or a subset (see WireAbs)

VARIABLES m, l
TraceLog == ndJsonDeserialize(IOEnv.TRACE)
N == Len(TraceLog)
Empty == [what |-> <<0, 0, 0, 0>>, fields |-> <<>>]
Calls == {"Add", "Prepend", "Remove", "Replace", "RemoveName"}

\* registers: 1 = line being explained, 5 = the Message before it, 2 = calls whose reported status differs from the documented one (bytes agree),
\* 3 / 4 = Vec / PyEcho lines inside the repertoire of message.py (parsing / native construction): vacuity guards for Common,
\* 6 / 7 / 8 / 9 = lines on which the tolerated finding F38 / F39 / F45mini / F45micro applied AND the leg it concerns disagreed (the finding reproduced)
TraceInit == m = Empty /\ l = 1 /\ TLCSet(1, 1) /\ TLCSet(2, 0) /\ TLCSet(3, 0) /\ TLCSet(4, 0) /\ TLCSet(5, Empty) /\ TLCSet(6, 0) /\ TLCSet(7, 0) /\ TLCSet(8, 0) /\ TLCSet(9, 0)
Dev45mini(mm) == "F45mini" \in Deviations /\ F45mini(mm)
Dev45micro(mm) == "F45micro" \in Deviations /\ F45micro(mm)
Dev38(mm) == "F38" \in Deviations /\ F38(mm)
Dev39(mm) == "F39" \in Deviations /\ F39(mm)

\* structural equality of two Message values, field by field and item by item (TLC's built-in equality on a value built by Build and a value read
\* from JSON ran into a Java StackOverflowError on nested Messages with non-flattenable fields)
RECURSIVE SameMsg(_, _)
SameMsg(a, b) == /\ a.what = b.what /\ Len(a.fields) = Len(b.fields)
                 /\ \A i \in 1..Len(a.fields) :
                       LET f == a.fields[i] g == b.fields[i] IN
                       /\ f.name = g.name /\ f.type = g.type /\ Len(f.items) = Len(g.items)
                       /\ \A j \in 1..Len(f.items) : IF Kind(f.type) = "message" THEN SameMsg(f.items[j], g.items[j]) ELSE f.items[j] = g.items[j]
Same(ln, mm) == ln.b = Flatten(mm) /\ ln.z = FlattenedSize(mm)
\* ln.r holds, for a leg that answered with OTHER bytes, those bytes (absent otherwise)
Reply(ln, leg) == IF "r" \in DOMAIN ln /\ leg \in DOMAIN ln.r THEN ln.r[leg] ELSE <<>>
MicroLeg(ln, mm, leg) == \/ ln.o[leg] = 1
                         \/ /\ Dev45micro(mm) /\ ~Dev38(mm) /\ Reply(ln, leg) = Flatten(DropZeroRaw(mm))      \* the known finding, and nothing else, explains the bytes
                            /\ TLCSet(9, TLCGet(9) + 1)
                         \/ (leg = "micro_u" /\ Dev38(mm))
AgreeLn(ln, mm) == LET o == ln.o IN
                /\ ~Dev45mini(mm) => (o.mini_u = 1 /\ o.mini_b = 1)
                /\ (Dev45mini(mm) /\ (o.mini_u # 1 \/ o.mini_b # 1)) => TLCSet(8, TLCGet(8) + 1)
                /\ MicroLeg(ln, mm, "micro_u") /\ MicroLeg(ln, mm, "micro_b")
                /\ (Dev38(mm) /\ o.micro_u # 1) => TLCSet(6, TLCGet(6) + 1)
                /\ (Common("python", mm) /\ ~Dev39(mm)) => o.py_u = 1
                /\ (Common("pynative", mm) /\ ~Dev39(mm)) => o.py_b = 1
                /\ (Common("python", mm) /\ Dev39(mm) /\ (o.py_u # 1 \/ o.py_b # 1)) => TLCSet(7, TLCGet(7) + 1)
FrameKeys == {"cpp_r_cpp", "mini_g", "mini_r", "cpp_r_mini", "micro_g", "micro_r", "cpp_r_micro"}

TNew    == /\ TraceLog[l].op = "New"
           /\ LET e == [what |-> TraceLog[l].w, fields |-> <<>>] IN Same(TraceLog[l], e) /\ m' = e
TCall   == /\ TraceLog[l].op \in Calls
           /\ LET r == ApplyStep(m, TraceLog[l]) IN
              /\ Same(TraceLog[l], r.m)
              /\ (TraceLog[l].ok # r.ok) => TLCSet(2, TLCGet(2) + 1)
              /\ m' = r.m
TVec    == /\ TraceLog[l].op = "Vec"
           /\ LET ln == TraceLog[l] IN
              /\ WellFormed(ln.m) /\ Same(ln, ln.m) /\ AgreeLn(ln, ln.m)
              /\ "s" \in DOMAIN ln => SameMsg(Build(ln.s), ln.m)       \* the (not append-only) script the C++ Message was built by leaves this content
              /\ Common("python", ln.m) => TLCSet(3, TLCGet(3) + 1)
              /\ Common("pynative", ln.m) => TLCSet(4, TLCGet(4) + 1)
           /\ m' = m
TFrames == /\ TraceLog[l].op = "Frames"
           /\ LET ln == TraceLog[l] IN
              /\ ln.st = FrameStream(ln.bs)
              /\ FrameKeys \subseteq DOMAIN ln.o /\ \A k \in FrameKeys : ln.o[k] = 1
           /\ m' = m
TPyEcho == /\ TraceLog[l].op = "PyEcho"
           /\ LET ln == TraceLog[l] IN
              /\ WellFormed(ln.m) /\ ln.b = Flatten(ln.m)
              /\ "s" \in DOMAIN ln => SameMsg(Build(ln.s), ln.m)
              /\ (Common("python", ln.m) /\ ~Dev39(ln.m)) => ln.same = 1 /\ TLCSet(3, TLCGet(3) + 1)
              /\ (Common("python", ln.m) /\ Dev39(ln.m) /\ ln.same # 1) => TLCSet(7, TLCGet(7) + 1)
           /\ m' = m
TraceNext == l <= N /\ (TNew \/ TCall \/ TVec \/ TFrames \/ TPyEcho) /\ l' = l + 1
TraceSpec == TraceInit /\ [][TraceNext]_<<m, l>>

\* progress registers (one worker: the states are visited in the order of the lines)
Track == TLCSet(1, l) /\ TLCSet(5, m)
\* accepted iff the line register ran past the end; otherwise say what the specification expects for the first unexplained line
\* (what is printed about a rejected line is clipped: serialising a sequence of tens of thousands of bytes to JSON overflows the Java stack)
Clip(q) == IF Len(q) > 3000 THEN SubSeq(q, 1, 3000) ELSE q
Expect(ln, mm) == IF ln.op \in Calls THEN LET r == ApplyStep(mm, ln) IN [op |-> ln.op, spec_b |-> Clip(Flatten(r.m)), spec_z |-> FlattenedSize(r.m), spec_ok |-> r.ok, code_b |-> Clip(ln.b), code_z |-> ln.z]
                  ELSE IF ln.op = "New" THEN [op |-> ln.op, spec_b |-> Clip(Flatten([what |-> ln.w, fields |-> <<>>])), code_b |-> Clip(ln.b)]
                  ELSE IF ln.op \in {"Vec", "PyEcho"} THEN [op |-> ln.op, wellformed |-> WellFormed(ln.m), script_builds_content |-> IF "s" \in DOMAIN ln THEN SameMsg(Build(ln.s), ln.m) ELSE TRUE, spec_b |-> Clip(Flatten(ln.m)), spec_z |-> FlattenedSize(ln.m), code_b |-> Clip(ln.b),
                                                           python |-> Common("python", ln.m), pynative |-> Common("pynative", ln.m), f38 |-> F38(ln.m), f39 |-> F39(ln.m), f45mini |-> F45mini(ln.m), f45micro |-> F45micro(ln.m), outcome |-> IF "o" \in DOMAIN ln THEN ln.o ELSE ln.same]
                  ELSE IF ln.op = "Frames" THEN [op |-> ln.op, spec_stream |-> Clip(FrameStream(ln.bs)), code_stream |-> Clip(ln.st), outcome |-> ln.o]
                  ELSE [op |-> ln.op]
Report == /\ PrintT(<<"maxline", TLCGet(1), "of", N, "statusdiffers", TLCGet(2), "pyok", TLCGet(3), "pynative", TLCGet(4), "F38", TLCGet(6), "F39", TLCGet(7), "F45mini", TLCGet(8), "F45micro", TLCGet(9)>>)
          /\ TLCGet(1) <= N => PrintT("@@" \o ToJson([line |-> TLCGet(1)] @@ Expect(TraceLog[TLCGet(1)], TLCGet(5))))
=============================================================================
