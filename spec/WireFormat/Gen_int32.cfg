\* generation: run with -dump dot,actionlabels <file>; every transition of the graph is replayed into the real Message class
SPECIFICATION Spec
CONSTANTS
  Bug = "none"
  Inst = "int32"
  MaxItems = 3
  RECORD = "bytes"
INVARIANTS TypeOK RoundTrip SizeExact Idempotent NonFlatInvisible FrameOK
