SPECIFICATION Spec
CONSTANTS
  Bug = "none"
  Part = "single"
INVARIANTS VecOK Emit
