\* a deliberately wrong variant of the codec: TLC must report that Idempotent is violated
SPECIFICATION Spec
CONSTANTS
  Bug = "UnflatDropsThird"
  Inst = "string"
  MaxItems = 3
  RECORD = "off"
INVARIANTS Idempotent
