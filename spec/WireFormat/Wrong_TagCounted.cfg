\* a deliberately wrong variant of the codec: TLC must report that NonFlatInvisible is violated
SPECIFICATION Spec
CONSTANTS
  Bug = "TagCounted"
  Inst = "nonflat"
  MaxItems = 3
  RECORD = "off"
INVARIANTS NonFlatInvisible
