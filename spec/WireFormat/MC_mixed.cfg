SPECIFICATION Spec
CONSTANTS
  Bug = "none"
  Inst = "mixed"
  MaxItems = 2
  RECORD = "off"
INVARIANTS TypeOK RoundTrip SizeExact Idempotent NonFlatInvisible FrameOK
