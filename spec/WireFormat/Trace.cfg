\* validation of a recorded ndjson trace: TRACE=<file> in the environment, one worker
SPECIFICATION TraceSpec
CONSTANTS
  Bug = "none"
  Deviations = {}
CONSTRAINT Track
POSTCONDITION Report
