\* a deliberately wrong variant of the codec: TLC must report that RoundTrip is violated
SPECIFICATION Spec
CONSTANTS
  Bug = "MsgCountWord"
  Inst = "message"
  MaxItems = 3
  RECORD = "off"
INVARIANTS RoundTrip
