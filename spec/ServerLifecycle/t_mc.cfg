SPECIFICATION Spec
CONSTANTS
  N = 3
  MaxSteps = 4
  MaxQ = 2
  Ops <- Ops_msg
  Pers <- Pers_plain
  Dests = {"up"}
  MsgMenu <- Msg_small
  ExtMenu <- Ext_none
  ArmMenu <- Arm_none
  FacModes = {"ok"}
  UpMode = "async"
  DownMode = "async"
  Deviations = {}
  RECORD = FALSE
INVARIANT AllClauses
