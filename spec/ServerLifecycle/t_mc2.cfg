SPECIFICATION Spec
CONSTANTS
  N = 3
  MaxSteps = 4
  MaxQ = 2
  Ops <- Ops_all
  Pers <- Pers_all
  Dests = {"up","down"}
  MsgMenu <- Msg_core
  ExtMenu <- Ext_core
  ArmMenu <- Arm_core
  FacModes = {"ok","null","bad"}
  UpMode = "async"
  DownMode = "async"
  Deviations = {}
  RECORD = FALSE
INVARIANT AllClauses
