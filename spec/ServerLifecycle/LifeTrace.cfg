SPECIFICATION TraceSpec
CONSTANTS
  N = 4
  MaxSteps = 100000
  MaxQ = 100000
  Ops <- Ops_all
  Pers <- Pers_all
  Dests = {"up", "down"}
  MsgMenu <- Msg_none
  ExtMenu <- Ext_none
  ArmMenu <- Arm_none
  FacModes = {"ok", "null", "bad"}
  UpMode = "async"
  DownMode = "async"
  Deviations = {}
  RECORD = TRUE
INVARIANTS NotAccepted AllClauses
CONSTRAINT Track
POSTCONDITION Report
