SPECIFICATION TraceSpec
CONSTANTS
  N = 4
  MaxSteps = 100000000
  MaxQ = 100000000
  Ops <- Ops_all
  Pers <- Pers_all
  Dests = {"up", "down"}
  MsgMenu <- Msg_none
  ExtMenu <- Ext_none
  ArmMenu <- Arm_none
  FacModes = {"ok", "null", "bad"}
  UpMode = "async"
  DownMode = "async"
  Deviations = {}
  RECORD = TRUE
INVARIANTS AllClauses
