------------------------------- MODULE LifeTrace -------------------------------
(* Trace validation (code -> spec): harness/life.cpp runs seeded random histories of driver steps on a real ReflectServer and writes, per call,   *)
(* the step with its arguments, the callbacks it observed during the call, the call's result and the snapshot after it.  Each line must be a      *)
(* step of LifeImpl: the driver action with the logged arguments, followed - for the calls inside which the server takes several steps (Pump,       *)
(* Cleanup) - by the inner steps until the server is idle again; the callbacks of all of them, concatenated, the result and the snapshot must      *)
(* equal the logged ones.  Linear: the specification is deterministic once the arguments are given.  {"a":"Reset"} starts a new history.          *)
EXTENDS LifeMC, Json, IOUtils

VARIABLES l,      \* next line
          acc     \* callbacks of the current call so far
TraceLog == ndJsonDeserialize(IOEnv.TRACE)
NL == Len(TraceLog)
tvars == <<vars, l, acc>>

TraceInit == Init /\ l = 1 /\ acc = <<>>

Has(ln, f) == f \in DOMAIN ln
Step(ln) ==
   CASE ln.a = "AddSock" -> AddSock(P(ln.ok, ln.ccc, ln.ds))
     [] ln.a = "AddBare" -> AddBare(P(ln.ok, ln.ccc, ln.ds))
     [] ln.a = "AddConn" -> AddConn(P(ln.ok, ln.ccc, ln.ds), ln.dest, ln.ard)
     [] ln.a = "AddDorm" -> AddDorm(P(ln.ok, ln.ccc, ln.ds), ln.dest, ln.ard)
     [] ln.a = "Ext"     -> Ext(<<ln.op, ln.t>>)
     [] ln.a = "Send"    -> Send(ln.c, <<ln.act, ln.t>>)
     [] ln.a = "Close"   -> Close(ln.c)
     [] ln.a = "PConn"   -> PConn(ln.m)
     [] ln.a = "PutFac"  -> PutFac
     [] ln.a = "RemFac"  -> RemFac
     [] ln.a = "Arm"     -> Arm(A(ln.s, ln.cb, ln.act, ln.t))
     [] ln.a = "Clock"   -> Clock
     [] ln.a = "Wp"      -> Wp(ln.s)
     [] ln.a = "Pump"    -> Pump
     [] ln.a = "Cleanup" -> Cleanup
     [] OTHER -> FALSE

\* what the harness could observe of the connections: 1 = the server has closed its end, 0 = open, -1 = the harness has no end of it to look at
CeAgree(m, o) == Len(m) = Len(o) /\ \A c \in 1..Len(m) : (m[c] >= 0 /\ o[c] >= 0) => m[c] = o[c]
Match(ln, evs, rec) ==
   /\ evs = ln.ev
   /\ (ln.a \in {"AddSock", "AddBare", "AddConn", "AddDorm", "PutFac", "RemFac"} => rec.r = ln.r)
   /\ rec.snap.tbl = ln.snap.tbl
   /\ rec.snap.ss = ln.snap.ss
   /\ CeAgree(rec.snap.ce, ln.snap.ce)

Done(p) == p.p \in {"idle", "done"}
\* the last line has been explained: say so (acceptance is read from this message; an invariant violated on purpose would make TLC print the whole behaviour)
Fin(lp) == lp = NL + 1 => PrintT("@@{\"accepted\":true}")
\* a call begins
TCall == /\ l <= NL /\ TraceLog[l].a # "Reset" /\ pc.p = "idle"
         /\ Step(TraceLog[l])
         /\ acc' = last'.ev
         /\ IF Done(pc') THEN Match(TraceLog[l], acc', last') /\ l' = l + 1 ELSE l' = l
         /\ Fin(l')
\* ... and goes on inside the server
TInner == /\ l <= NL /\ ~Done(pc)
          /\ Inner
          /\ acc' = acc \o last'.ev
          /\ IF Done(pc') THEN Match(TraceLog[l], acc', last') /\ l' = l + 1 ELSE l' = l
          /\ Fin(l')
TReset == /\ l <= NL /\ TraceLog[l].a = "Reset" /\ Done(pc)
          /\ tbl' = <<>> /\ ducks' = <<>> /\ ses' = [s \in 1..N |-> Fresh0] /\ gws' = <<>> /\ con' = <<>> /\ fac' = Fac0
          /\ run' = 1 /\ arm' = NoArm /\ nid' = 1 /\ h' = [s \in 1..N |-> H0] /\ note' = NoNote /\ pc' = Pc0 /\ nsteps' = 0
          /\ last' = [a |-> "Init"] /\ acc' = <<>> /\ l' = l + 1 /\ Fin(l')

TraceNext == TCall \/ TInner \/ TReset
TraceSpec == TraceInit /\ [][TraceNext]_tvars

\* (for runs by hand: "violated" = the whole trace was explained, and TLC prints how)
NotAccepted == l <= NL
=============================================================================
