------------------------------- MODULE LifeMC -------------------------------
(* Instances of LifeImpl: the menus the configurations choose from (TLC configuration files cannot write records). *)
EXTENDS LifeImpl

P(ok, ccc, ds) == [ok |-> ok, ccc |-> ccc, ds |-> ds]
Pers_plain == {P(1, "B", 0)}
Pers_ok    == {P(1, "B", 0), P(1, "F", 0), P(1, "B", 1)}
Pers_all   == {P(1, "B", 0), P(0, "B", 0), P(1, "T", 0), P(1, "F", 0), P(1, "B", 1), P(1, "F", 1)}
Pers_att   == {P(1, "B", 0), P(0, "B", 0)}
Pers_ccc   == {P(1, "B", 0), P(1, "F", 0), P(1, "T", 0)}

\* Messages: what the receiving session does inside MessageReceivedFromGateway()
Msg_none == {<<"None", 0>>}
Msg_core == {<<"None", 0>>, <<"End", 1>>, <<"End", 2>>, <<"Disc", 1>>, <<"Disc", 2>>, <<"Repl", 1>>, <<"ReplF", 1>>, <<"Reco", 1>>, <<"Add", 0>>, <<"AddF", 0>>, <<"Quit", 0>>}
Msg_two  == {<<"None", 0>>, <<"End", 1>>, <<"End", 2>>, <<"Disc", 1>>, <<"Disc", 2>>, <<"Repl", 1>>, <<"Repl", 2>>, <<"Reco", 1>>, <<"Reco", 2>>, <<"Add", 0>>, <<"Quit", 0>>}
Msg_small == {<<"None", 0>>, <<"End", 1>>, <<"Disc", 1>>, <<"Repl", 1>>}

Ext_none == {}
Ext_core == {<<"End", 1>>, <<"Disc", 1>>, <<"Reco", 1>>, <<"Repl", 1>>, <<"ReplF", 1>>, <<"Quit", 0>>, <<"Add", 0>>, <<"AddF", 0>>, <<"Ard1", 1>>, <<"Ard0", 1>>}
Ext_two  == Ext_core \cup {<<"End", 2>>, <<"Disc", 2>>, <<"Reco", 2>>, <<"Repl", 2>>}
Ext_conn == {<<"End", 1>>, <<"Disc", 1>>, <<"Reco", 1>>}
Ext_small == {<<"End", 1>>, <<"Disc", 1>>, <<"Reco", 1>>, <<"Quit", 0>>}

A(s, cb, act, t) == [s |-> s, cb |-> cb, act |-> act, t |-> t]
Arm_none == {}
Arm_core == {A(1, "Att", "End", 1), A(1, "Att", "Disc", 1), A(1, "Att", "Add", 0), A(2, "Att", "End", 1), A(2, "Att", "Disc", 1),
             A(1, "Det", "End", 2), A(1, "Det", "Add", 0), A(1, "Det", "Disc", 2), A(1, "Det", "Quit", 0),
             A(1, "CCC", "Reco", 1), A(1, "CCC", "End", 1), A(1, "CCC", "Repl", 1), A(1, "CCC", "End", 2), A(1, "CCC", "Disc", 1),
             A(1, "Pulse", "End", 1), A(1, "Pulse", "Disc", 1), A(1, "Pulse", "Repl", 1), A(1, "Pulse", "Disc", 2)}
Arm_conn == {A(1, "ACC", "End", 1), A(1, "ACC", "Disc", 1), A(1, "ACC", "Reco", 1), A(1, "CCC", "Reco", 1), A(1, "CCC", "End", 1), A(1, "Pulse", "Disc", 1),
             A(1, "Att", "Disc", 1), A(1, "Att", "End", 1), A(1, "Det", "Add", 0), A(1, "CCC", "Repl", 1)}
Arm_core2 == {A(1, "Att", "End", 1), A(1, "Att", "Disc", 1), A(2, "Att", "Disc", 1), A(1, "Det", "Add", 0), A(1, "Det", "End", 2),
              A(1, "CCC", "Reco", 1), A(1, "CCC", "Repl", 1), A(1, "Pulse", "Disc", 1), A(1, "Pulse", "Repl", 1)}
Arm_conn2 == {A(1, "ACC", "Disc", 1), A(1, "ACC", "Reco", 1), A(1, "CCC", "Reco", 1), A(1, "CCC", "Repl", 1), A(1, "Pulse", "Disc", 1)}
Arm_small == {A(1, "Att", "End", 1), A(1, "Det", "Add", 0), A(1, "CCC", "Reco", 1)}

Ops_all  == {"AddSock", "AddBare", "AddConn", "AddDorm", "Ext", "Send", "Close", "Fac", "Arm", "Clock", "Wp", "Pump", "Cleanup"}
Ops_core == {"AddSock", "AddBare", "Ext", "Send", "Close", "Arm", "Wp", "Pump", "Cleanup"}
Ops_msg  == {"AddSock", "AddBare", "Send", "Close", "Pump", "Cleanup"}
Ops_conn == {"AddConn", "AddDorm", "Ext", "Send", "Close", "Arm", "Clock", "Pump", "Cleanup"}
Ops_connx == {"AddConn", "AddDorm", "Send", "Close", "Clock", "Pump", "Cleanup"}
Ops_fac  == {"AddSock", "Fac", "Send", "Close", "Ext", "Pump", "Cleanup"}
=============================================================================
