------------------------------- MODULE LifeImpl -------------------------------
(***************************************************************************************************************)
(* The session life cycle of reflector/ReflectServer.cpp (+ AbstractReflectSession.cpp, ServerComponent,        *)
(* ReflectSessionFactory) AS CODED: the server's session table (_sessions, in iteration order), the lame-duck    *)
(* table, each session's life-cycle state, its gateway and the socket connection behind it, one accept factory,  *)
(* and the phases of one iteration of the event loop (ServerProcessLoop(0)).                                     *)
(*                                                                                                               *)
(* One action = one step the server takes: a public call made by the driver between two iterations (AddSock,     *)
(* AddBare, AddConn, AddDorm, Ext = EndSession / DisconnectSession / Reconnect / ReplaceSession / AddNewSession  *)
(* / EndServer / SetAutoReconnectDelay, PutFac, RemFac, Pump, Cleanup), something the peer / the harness does     *)
(* (Send, Close, PConn, Arm, Clock, Wp), or one step INSIDE a call: iDetach (ClearLameDucks, one duck), iPrep      *)
(* (PrepareToWaitForEvents + WaitForEvents), iPulse / iMsg / iRdErr / iWrite (one session's turn in              *)
(* HandleEvents), iAccept (DoAccept), iEnd; cDet / cFree (Cleanup).  Sessions act on themselves and on each       *)
(* other from INSIDE their callbacks: the action a Message carries is performed inside                            *)
(* MessageReceivedFromGateway(), one armed action (Arm) inside AttachedToServer / AboutToDetachFromServer /        *)
(* ClientConnectionClosed / AsyncConnectCompleted / Pulse.                                                        *)
(*                                                                                                               *)
(* Every step records the callbacks it makes (`ev`: session, callback, IsAttachedToServer(),                      *)
(* IsFullyAttachedToServer(), IsConnected(), GetSessions().GetNumItems(), a result) - harness/life.cpp compares  *)
(* them with the callbacks of the real server.  The documented protocol is at the bottom.                        *)
(***************************************************************************************************************)
EXTENDS Integers, Sequences, FiniteSets, TLC

CONSTANTS N,           \* session objects 1..N (handed out in order of creation)
          MaxSteps,    \* driver steps per behaviour
          MaxQ,        \* Messages a peer may have in flight per connection
          Ops,         \* kinds of driver steps generated
          Pers,        \* personalities of sessions the driver adds: [ok: AttachedToServer() succeeds, ccc: "B"ase / "T"rue / "F"alse, ds: CreateDefaultSocket() supplies a socket]
          Dests,       \* destinations of connect sessions: subset of {"up", "down"}
          MsgMenu,     \* <<action, target>> a Message may carry
          ExtMenu,     \* <<action, target>> the driver may perform between two iterations
          ArmMenu,     \* [s, cb, act, t]: session s performs act on t inside its callback cb (one armed at a time)
          FacModes,    \* what the factory does with an incoming connection: "ok", "null" (CreateSession returns NULL), "bad" (the session refuses to attach)
          UpMode,      \* how a non-blocking connect to a listening loopback port completes on this machine: "sync" | "async"
          DownMode,    \* ... to a refusing port: "refused" (at once: the library substitutes a broken socket pair) | "async"
          Deviations,  \* named WRONG designs (vacuity guards): each must violate the clause it is aimed at
          RECORD       \* TRUE: keep the step record `last` (behaviour generation / trace validation)

\* The wrong designs (each is a one-line change somewhere below; checks/lifecycle.py runs every one of them, every time, and requires TLC to report the clause named):
\*   DetachTwiceOnCleanup -> DetachOnce            NoDetachOnCleanupForDucks -> NoLeak           EndRemovesFromTable -> TableAgrees
\*   CallbackAfterDetach -> NoCallbackAfterDetach  DoubleCCC -> CCCOncePerConn                   CCCTrueStays -> MustGo
\*   ReplaceKeepsOld, ReplaceFailTouchesOld -> Replace      FullBeforeAttach -> FullFlag         DormantConnects -> Dormant
\*   NoReconnectOnPulse -> AutoReconnect           NoPlanForReconnect -> CCCResult               NullCreatesSession -> NullCreatesNothing
\*   DucksNotFlushedAtEnd -> PumpFlushesDucks      FreeWhileAttached -> DestroyedDetached        QuitIgnored -> QuitStopsLoop
\*   AttachTwice -> AttachOnce                     ConnectBeforeAttach -> AttachFirst            DetachWithoutAttach -> DetachOnlyAttached
\*   FinalizeBySocket -> ConnectOutcomeOnce
Dev(d) == d \in Deviations
Range(q) == {q[i] : i \in 1..Len(q)}
Without(q, x) == SelectSeq(q, LAMBDA y : y # x)
AppendNew(q, x) == IF x \in Range(q) THEN q ELSE Append(q, x)     \* Hashtable::Put() of an existing key keeps its position

VARIABLES tbl,    \* _sessions, in iteration order (the Hashtable keeps insertion order)
          ducks,  \* _lameDuckSessions, in iteration order
          ses,    \* [1..N -> session record]
          gws,    \* gateways: sequence; gws[g] = the connection its DataIO holds, 0 = none (no socket / Shutdown())
          con,    \* connections: sequence of records
          fac,    \* the accept factory
          run,    \* _keepServerGoing
          arm,    \* the armed callback action
          nid,    \* next session id
          h,      \* ghost: per-session history (counts of callbacks ...), read by the protocol clauses only
          note,   \* ghost: what the step that led here promised (read by the protocol clauses only)
          pc,     \* where the server is
          nsteps,
          last

vars == <<tbl, ducks, ses, gws, con, fac, run, arm, nid, h, note, pc, nsteps, last>>

Fresh0 == [life |-> "fresh",   \* fresh | add (owner set, not yet in the table) | att (in the table) | det (detached / refused, still referenced) | gone (destroyed)
           full |-> 0,         \* IsFullyAttachedToServer()
           g |-> 0,            \* its gateway (0 = none)
           ic |-> 0, ca |-> 0, wc |-> 0,   \* _isConnected, _connectingAsync, _wasConnected
           ard |-> 0,          \* _autoReconnectDelay # MUSCLE_TIME_NEVER
           rt |-> "never",     \* _reconnectTime: never | pend (in the future) | due
           dest |-> "none",    \* _asyncConnectDest: none | up | down
           ok |-> 1, ccc |-> "B", ds |-> 0,     \* personality
           wp |-> 0,           \* the harness asked for a Pulse()
           pv |-> 0,           \* this iteration: the pulse time computed by PrepareToWaitForEvents() is valid and due
           pl |-> "no",        \* this iteration: what the multiplexer reported for its socket: no | r | w
           sr |-> 0]           \* _scratchReconnected
H0 == [att |-> 0, attok |-> 0, det |-> 0, dr |-> 0, after |-> 0, early |-> 0, ccs |-> 0, bf |-> 0, ff |-> 0, mg |-> 0, dorm |-> 0]
NoArm  == [on |-> 0, s |-> 0, cb |-> "", act |-> "", t |-> 0]
NoNote == [k |-> ""]
Pc0    == [p |-> "idle", nx |-> "", i |-> 0, sub |-> "", c |-> 0, rx |-> 0, rs |-> 1]
Fac0   == [st |-> "none", pq |-> <<>>, ap |-> 0]      \* none | att | duck (removed, in _lameDuckFactories) | gone
NewCon(kind, st, hp, pcl, up) == [st |-> st,        \* pend (in a factory's accept queue) | conn (asynchronous connect in progress) | open | closed (the server has closed its end)
                                  inq |-> <<>>,     \* Messages the peer has written and the server has not read
                                  pcl |-> pcl,      \* the peer has closed its end
                                  hp |-> hp,        \* the harness holds the peer's end
                                  kind |-> kind,    \* pair | tcp | fake (the broken socket pair standing in for a refused connect)
                                  up |-> up,        \* conn: the connect will succeed
                                  fin |-> 0]        \* ghost: how often the outcome of the connect was reported

Init == /\ tbl = <<>> /\ ducks = <<>> /\ ses = [s \in 1..N |-> Fresh0] /\ gws = <<>> /\ con = <<>> /\ fac = Fac0
        /\ run = 1 /\ arm = NoArm /\ nid = 1 /\ h = [s \in 1..N |-> H0] /\ note = NoNote /\ pc = Pc0 /\ nsteps = 0
        /\ last = [a |-> "Init"]

Cur == [tbl |-> tbl, ducks |-> ducks, ses |-> ses, gws |-> gws, con |-> con, fac |-> fac, run |-> run, arm |-> arm, nid |-> nid, h |-> h,
        note |-> NoNote, ev |-> <<>>]

CnOf(w, s) == IF w.ses[s].g = 0 THEN 0 ELSE w.gws[w.ses[s].g]
Attached(w, s) == s \in 1..N /\ w.ses[s].life \in {"add", "att"}          \* IsAttachedToServer(): the owner pointer is set
Alive(w, s) == s \in 1..N /\ w.ses[s].life \in {"add", "att", "det"}

\* ------------------------------------------------------------------------------------------------ events, ghost bookkeeping
Ev(c, s, a, f, k, n, x) == [c |-> c, s |-> s, a |-> a, f |-> f, k |-> k, n |-> n, x |-> x]
LifeCbs == {"Att", "Det", "CCC", "ACC", "Msg", "Pulse"}
Emit(w, s, c, x) ==
   LET q == w.ses[s]
       att == IF q.life \in {"add", "att"} THEN 1 ELSE 0
       g == w.h[s]
       g2 == [g EXCEPT !.att   = IF c = "Att" THEN @ + 1 ELSE @,
                       !.det   = IF c = "Det" THEN @ + 1 ELSE @,
                       !.after = IF g.dr = 1 /\ c \in LifeCbs THEN 1 ELSE @,
                       !.early = IF g.att = 0 /\ c \in (LifeCbs \ {"Att"}) THEN 1 ELSE @,
                       !.ff    = IF c \in {"Att", "Det"} /\ (q.full = 1 \/ att = 0) THEN 1 ELSE @]
   IN [w EXCEPT !.ev = Append(@, Ev(c, s, att, q.full, q.ic, IF att = 1 THEN Len(w.tbl) ELSE -1, x)), !.h[s] = g2]
FEmit(w, c, a, f, x) == [w EXCEPT !.ev = Append(@, Ev(c, 1, a, f, 0, IF a = 1 THEN Len(w.tbl) ELSE 0, x))]

\* the server closes its end of connection c: every gateway holding it loses its socket
CloseConn(w, c) == [w EXCEPT !.con[c].st = "closed", !.gws = [g \in 1..Len(w.gws) |-> IF w.gws[g] = c THEN 0 ELSE w.gws[g]]]
\* a gateway nobody refers to any more is destroyed, its DataIO and socket with it
DropGw(w, g) == IF g # 0 /\ (\A s \in 1..N : w.ses[s].g # g) /\ w.gws[g] # 0 THEN CloseConn(w, w.gws[g]) ELSE w
\* ShutdownIOFor(): DataIO::Shutdown() of the session's gateway
Shut(w, t) == IF w.ses[t].g # 0 /\ w.gws[w.ses[t].g] # 0 THEN CloseConn(w, w.gws[w.ses[t].g]) ELSE w
\* the last reference to session s goes: destructor
Free(w, s) ==
   LET g == w.ses[s].g
       w1 == [w EXCEPT !.ev = Append(@, Ev("Gone", s, 0, 0, 0, 0, 0)), !.h[s].bf = IF w.ses[s].life # "det" THEN 1 ELSE @, !.ses[s] = [Fresh0 EXCEPT !.life = "gone"]]
   IN DropGw(w1, g)
\* the creator drops its reference: the object goes unless the lame-duck table still holds it
Release(w, s) == IF s \in Range(w.ducks) THEN w ELSE Free(w, s)
\* AddLameDuckSession(AbstractReflectSession *): looks the session up in GetSessions()
AddDuck(w, t) == IF t \in Range(w.tbl) THEN [w EXCEPT !.ducks = AppendNew(@, t)] ELSE w
NewConn(w, rec) == [w EXCEPT !.con = Append(@, rec)]
\* session t gets a DataIO on connection c (0 = a DataIO without socket); CreateDataIO(), then CreateGateway() if it has none
GiveIO(w, t, c) ==
   LET w1 == Emit(w, t, "Io", 0)
   IN IF w1.ses[t].g = 0 THEN LET w2 == Emit(w1, t, "Gw", 0) IN [w2 EXCEPT !.gws = Append(@, c), !.ses[t].g = Len(w2.gws) + 1]
      ELSE [w1 EXCEPT !.gws[w1.ses[t].g] = c]

\* ------------------------------------------------------------------------------------------------ what sessions do (callbacks may nest: recursion, bounded by the one armed action)
RECURSIVE CB(_, _, _, _), Do(_, _, _, _), Disc(_, _, _), Reco(_, _), Attach(_, _), Repl(_, _, _), AddNested(_, _)

\* callback c of session s: logged, then the armed action, if it is this one
CB(w, s, c, x) ==
   LET w1 == Emit(w, s, c, x)
   IN IF w1.arm.on = 1 /\ w1.arm.s = s /\ w1.arm.cb = c
      THEN LET w2 == Do([w1 EXCEPT !.arm = NoArm], s, w1.arm.act, w1.arm.t)
           \* (ghost) what a call made from inside a callback promised is not judged at the end of the step: the step goes on after it
           IN [w2 EXCEPT !.note = IF @.k \in {"repl", "ccc"} THEN [@ EXCEPT !.clean = FALSE] ELSE @]
      ELSE w1

\* AbstractReflectSession::EndSession(): "Marks this session for immediate termination and removal from the server."
\* ReflectServer::EndSession(): "Causes the ReflectServer to place the session in the "lame duck sessions list" ..."
EndS(w, t) == IF Dev("EndRemovesFromTable") THEN [w EXCEPT !.tbl = Without(@, t)] ELSE AddDuck(w, t)

\* ReflectServer::DisconnectSession(): io = the server found the connection broken (read / write error); otherwise somebody called it
Disc(w, t, io) ==
   LET q0 == w.ses[t]
       oldg == q0.g
       oldc == CnOf(w, t)
       w1 == [w EXCEPT !.ses[t].ca = 0, !.ses[t].ic = 0, !.ses[t].pv = 0, !.ses[t].sr = 0]
       \* ClientConnectionClosed(): "Default implementation always returns true, unless the automatic-reconnect feature has been enabled
       \* (via SetAutoReconnectDelay()), in which case this method will return false and try to Reconnect() again, instead."
       r == IF q0.ccc = "T" THEN 1 ELSE IF q0.ccc = "F" THEN 0 ELSE IF q0.ard = 1 THEN 0 ELSE 1
       w2 == IF q0.ccc = "B" /\ q0.ard = 1 /\ ~Dev("NoPlanForReconnect") THEN [w1 EXCEPT !.ses[t].rt = "pend"] ELSE w1       \* PlanForReconnect()
       w3 == [w2 EXCEPT !.h[t].ccs = IF io THEN @ + 1 ELSE @]
       w4 == CB(w3, t, "CCC", r)
       q4 == w4.ses[t]
       same == q4.g = oldg /\ CnOf(w4, t) = oldc
       w5 == IF r = 1 THEN (IF Dev("CCCTrueStays") THEN Shut(w4, t) ELSE AddDuck(Shut(w4, t), t))
             ELSE IF q4.sr = 0 /\ same /\ ~Dev("DoubleCCC") THEN Shut(w4, t) ELSE w4
       clean == w4.arm = w3.arm                                                  \* no armed action ran inside
   IN [w |-> [w5 EXCEPT !.h[t].mg = IF r = 1 THEN 1 ELSE @,
                        !.note = [k |-> "ccc", s |-> t, r |-> r, base |-> IF q0.ccc = "B" THEN 1 ELSE 0, ard |-> q0.ard, clean |-> clean, wasduck |-> t \in Range(w.ducks)]],
       r |-> r]

\* AbstractReflectSession::Reconnect()
Reco(w, t) ==
   LET q == w.ses[t]
       w1 == Shut(w, t)                                                       \* _gateway()->SetDataIO(DataIORef()): "get rid of any existing socket first"
       w2 == [w1 EXCEPT !.ses[t].ic = 0, !.ses[t].wc = 0, !.ses[t].ca = 0, !.ses[t].pv = 0, !.ses[t].pl = "no", !.ses[t].sr = 1, !.h[t].dorm = 0, !.h[t].ccs = 0]
       c == Len(w2.con) + 1
   IN IF q.dest = "up" THEN
         IF UpMode = "sync"
         THEN CB([GiveIO(NewConn(w2, NewCon("tcp", "open", 1, 0, 1)), t, c) EXCEPT !.ses[t].ic = 1, !.ses[t].wc = 1], t, "ACC", 0)
         ELSE [GiveIO(NewConn(w2, NewCon("tcp", "conn", 1, 0, 1)), t, c) EXCEPT !.ses[t].ca = 1]
      ELSE IF q.dest = "down" THEN
         IF DownMode = "refused"
         THEN GiveIO(NewConn(w2, NewCon("fake", "open", 0, 1, 0)), t, c)         \* FogBugz #5256: "act as if it succeeded": a socket pair whose far end is closed
         ELSE [GiveIO(NewConn(w2, NewCon("tcp", "conn", 0, 0, 0)), t, c) EXCEPT !.ses[t].ca = 1]
      ELSE LET w3 == Emit(w2, t, "Sock", q.ds)                                \* CreateDefaultSocket()
           IN IF q.ds = 1 THEN GiveIO(NewConn(w3, NewCon("pair", "open", 1, 0, 1)), t, c) ELSE GiveIO(w3, t, 0)

\* ReflectServer::AttachNewSession()
Attach(w, n) ==
   LET w1 == [w EXCEPT !.tbl = Append(@, n), !.ses[n].life = "att", !.ses[n].full = IF Dev("FullBeforeAttach") THEN 1 ELSE @]
       w2a == IF Dev("DetachWithoutAttach") /\ w.ses[n].ok = 0 THEN w1 ELSE CB(w1, n, "Att", w.ses[n].ok)
       w2 == IF Dev("AttachTwice") THEN Emit(w2a, n, "Att", w.ses[n].ok) ELSE w2a
   IN IF w.ses[n].ok = 1 THEN [w |-> [w2 EXCEPT !.ses[n].full = 1, !.h[n].attok = 1], ok |-> 1]
      ELSE LET w3 == CB(w2, n, "Det", 0)                                       \* "well, it *was* attached, if only for a moment" - the headers are silent: see DetachOnlyAttached
           IN [w |-> [w3 EXCEPT !.h[n].dr = 1, !.ses[n].life = "det", !.ses[n].full = 0, !.tbl = Without(@, n)], ok |-> 0]

\* ReflectServer::ReplaceSession(newSession, old)
Repl(w, old, okNew) ==
   LET n == w.nid
       before == w.ses[old]
       w0 == [w EXCEPT !.nid = n + 1, !.ses[n] = [Fresh0 EXCEPT !.ok = okNew, !.g = before.g, !.pl = before.pl]]   \* the same socket: the multiplexer's answer applies to it, too
       ra == Attach(w0, n)
       clean == ra.w.arm = w.arm
       nt(ok) == [k |-> "repl", old |-> old, new |-> n, ok |-> ok, g |-> before.g, c |-> CnOf(w, old), before |-> before, wasduck |-> old \in Range(w.ducks), clean |-> clean]
   IN IF ra.ok = 1
      THEN LET w1 == DropGw([ra.w EXCEPT !.ses[old].g = 0], ra.w.ses[old].g)   \* "gateway now belongs to newSession" (a gateway the old session got meanwhile goes)
           IN [(IF Dev("ReplaceKeepsOld") THEN w1 ELSE EndS(w1, old)) EXCEPT !.note = nt(1)]
      ELSE LET w1 == DropGw([ra.w EXCEPT !.ses[n].g = 0, !.ses[old].g = IF Dev("ReplaceFailTouchesOld") THEN 0 ELSE @], ra.w.ses[n].g)     \* "Oops, rollback changes and error out"
           IN [Release(w1, n) EXCEPT !.note = nt(0)]

\* AddNewSession(ref) without a socket, from inside a callback or by the driver: a session without gateway
AddNested(w, ok) ==
   LET n == w.nid
       w0 == [w EXCEPT !.nid = n + 1, !.ses[n] = [Fresh0 EXCEPT !.life = "add", !.ok = ok]]
       ra == Attach(Emit(w0, n, "Sock", 0), n)
   IN IF ra.ok = 1 THEN ra.w ELSE Release(ra.w, n)

\* session self (0 = the driver) performs act on session t
Do(w, self, act, t) ==
   CASE act = "End"  -> IF Attached(w, t) THEN EndS(w, t) ELSE w
     [] act = "Disc" -> IF Attached(w, t) THEN Disc(w, t, FALSE).w ELSE w
     [] act = "Reco" -> IF Attached(w, t) THEN Reco(w, t) ELSE w
     [] act \in {"Repl", "ReplF"} -> IF Attached(w, t) /\ w.nid <= N THEN Repl(w, t, IF act = "Repl" THEN 1 ELSE 0) ELSE w
     [] act \in {"Add", "AddF"} -> IF w.nid <= N /\ (self = 0 \/ Attached(w, self)) THEN AddNested(w, IF act = "Add" THEN 1 ELSE 0) ELSE w
     [] act = "Quit" -> IF self = 0 \/ Attached(w, self) THEN [w EXCEPT !.run = 0] ELSE w
     [] act = "Ard1" -> IF Alive(w, t) THEN [w EXCEPT !.ses[t].ard = 1, !.ses[t].pv = 0] ELSE w
     [] act = "Ard0" -> IF Alive(w, t) THEN [w EXCEPT !.ses[t].ard = 0, !.ses[t].pv = 0] ELSE w
     [] OTHER -> w

\* ------------------------------------------------------------------------------------------------ where the event loop goes next
\* a connect that was refused, looked at by a session that does not (any longer) regard itself as connecting: the socket reports its error to a reader
Broken(cr) == cr.st = "conn" /\ cr.up = 0
RECURSIVE Norm(_, _)
Norm(w, p) ==
   CASE p.p = "ducks" -> IF w.ducks # <<>> THEN p ELSE Norm(w, [p EXCEPT !.p = p.nx])
     [] p.p = "sess" ->
          IF p.i > Len(w.tbl) THEN Norm(w, [p EXCEPT !.p = "acc", !.sub = ""])
          ELSE LET s == w.tbl[p.i]  q == w.ses[s]  c == CnOf(w, s) IN
              (CASE p.sub = "pulse" -> IF q.pv = 1 THEN p ELSE Norm(w, [p EXCEPT !.sub = "read"])
                 [] p.sub = "read"  -> IF c # 0 /\ w.con[c].st \in {"open", "conn"} /\ q.pl = "r"
                                       THEN IF Broken(w.con[c]) THEN [p EXCEPT !.sub = "rderr"]
                                            ELSE IF w.con[c].inq # <<>> THEN [p EXCEPT !.sub = "msg", !.c = c, !.rx = s]
                                            ELSE IF w.con[c].pcl = 1 THEN [p EXCEPT !.sub = "rderr"]
                                            ELSE Norm(w, [p EXCEPT !.sub = "write"])
                                       ELSE Norm(w, [p EXCEPT !.sub = "write"])
                 [] p.sub = "msg"   -> IF w.con[p.c].st \in {"open", "conn"} /\ w.con[p.c].inq # <<>> THEN p ELSE Norm(w, [p EXCEPT !.sub = "write", !.c = 0, !.rx = 0])
                 [] p.sub = "rderr" -> p
                 [] p.sub = "write" -> IF c # 0 /\ (q.ca = 1 \/ Dev("FinalizeBySocket")) /\ w.con[c].st = "conn" /\ q.pl = "w" THEN p ELSE Norm(w, [p EXCEPT !.i = @ + 1, !.sub = "pulse"]))
     [] p.p = "acc" -> IF w.fac.st = "att" /\ w.fac.ap = 1 /\ w.fac.pq # <<>> /\ p.sub # "done" THEN p
                       ELSE IF Dev("DucksNotFlushedAtEnd") THEN [p EXCEPT !.p = "end"] ELSE Norm(w, [p EXCEPT !.p = "ducks", !.nx = "end", !.sub = ""])
     [] OTHER -> p                                                               \* prep, end, clean, idle, done

\* ------------------------------------------------------------------------------------------------ the observable state between two calls
Snap(w) == [tbl |-> w.tbl,
            ss  |-> [s \in 1..N |-> IF Alive(w, s)
                                    THEN LET q == w.ses[s] IN <<IF q.life \in {"add", "att"} THEN 1 ELSE 0, q.full, q.ic, q.ca, q.wc, IF q.g # 0 THEN 1 ELSE 0, CnOf(w, s), q.ard>>
                                    ELSE <<>>],
            ce  |-> [c \in 1..Len(w.con) |-> IF w.con[c].hp = 1 /\ w.con[c].pcl = 0 THEN (IF w.con[c].st = "closed" THEN 1 ELSE 0) ELSE -1],
            np  |-> -1]

Apply(w, npc, drv, a, g, r) ==
   /\ tbl' = w.tbl /\ ducks' = w.ducks /\ ses' = w.ses /\ gws' = w.gws /\ con' = w.con /\ fac' = w.fac /\ run' = w.run /\ arm' = w.arm
   /\ nid' = w.nid /\ h' = w.h /\ note' = w.note /\ pc' = npc /\ nsteps' = IF drv THEN nsteps + 1 ELSE nsteps
   /\ last' = IF RECORD THEN [a |-> a, g |-> g, r |-> r, ev |-> w.ev, pc |-> npc.p, snap |-> IF npc.p \in {"idle", "done"} THEN Snap(w) ELSE <<>>] ELSE last

Idle == pc.p = "idle" /\ nsteps < MaxSteps

\* ------------------------------------------------------------------------------------------------ driver steps: sessions are added
NewSes(p, life) == [Fresh0 EXCEPT !.life = life, !.ok = p.ok, !.ccc = p.ccc, !.ds = p.ds]
Finish(ra, n) == IF ra.ok = 1 THEN ra.w ELSE Release(ra.w, n)

\* ReflectServer::AddNewSession(ref, socket)
AddSock(p) ==
   /\ Idle /\ "AddSock" \in Ops /\ nid <= N
   /\ LET n == nid
          w0 == [Cur EXCEPT !.nid = n + 1, !.ses[n] = NewSes(p, "add")]                    \* SetOwner(this) "in case CreateGateway() needs to use the owner"
          c == Len(con) + 1
          w1 == [Emit(NewConn(w0, NewCon("pair", "open", 1, 0, 1)), n, "Gw", 0) EXCEPT !.gws = Append(@, c), !.ses[n].g = Len(gws) + 1]
          ra == Attach(Emit(w1, n, "Io", 0), n)
      IN Apply(Finish(ra, n), pc, TRUE, "AddSock", [s |-> n, ok |-> p.ok, ccc |-> p.ccc, ds |-> p.ds], ra.ok)

\* AddNewSession(ref): "the session's CreateDefaultSocket() method will be called to supply the ConstSocketRef.  If that also returns a NULL
\* reference, then the client will run without a connection to anything."
BareBody(w0, n) ==
   LET w1 == Emit(w0, n, "Sock", w0.ses[n].ds)
   IN IF w0.ses[n].ds = 1
      THEN LET c == Len(w1.con) + 1
               w2 == [Emit(NewConn(w1, NewCon("pair", "open", 1, 0, 1)), n, "Gw", 0) EXCEPT !.gws = Append(@, c), !.ses[n].g = Len(w1.gws) + 1]
           IN Attach(Emit(w2, n, "Io", 0), n)
      ELSE Attach(w1, n)
AddBare(p) ==
   /\ Idle /\ "AddBare" \in Ops /\ nid <= N
   /\ LET n == nid
          ra == BareBody([Cur EXCEPT !.nid = n + 1, !.ses[n] = NewSes(p, "add")], n)
      IN Apply(Finish(ra, n), pc, TRUE, "AddBare", [s |-> n, ok |-> p.ok, ccc |-> p.ccc, ds |-> p.ds], ra.ok)

\* AddNewConnectSession(): "AttachedToServer() will be called immediately on the session, and then when the connection is complete,
\* AsyncConnectCompleted() will be called."
AddConn(p, d, ard) ==
   /\ Idle /\ "AddConn" \in Ops /\ nid <= N
   /\ LET n == nid
          c == Len(con) + 1
          sync == d = "up" /\ UpMode = "sync"
          fake == d = "down" /\ DownMode = "refused"
          rec == IF sync THEN NewCon("tcp", "open", 1, 0, 1) ELSE IF fake THEN NewCon("fake", "open", 0, 1, 0) ELSE NewCon("tcp", "conn", IF d = "up" THEN 1 ELSE 0, 0, IF d = "up" THEN 1 ELSE 0)
          w0 == [Cur EXCEPT !.nid = n + 1, !.ses[n] = [NewSes(p, "add") EXCEPT !.dest = d, !.ic = IF sync THEN 1 ELSE 0, !.ca = IF sync \/ fake THEN 0 ELSE 1]]
          w1 == [Emit(NewConn(w0, rec), n, "Gw", 0) EXCEPT !.gws = Append(@, c), !.ses[n].g = Len(gws) + 1]
          ra == Attach(IF Dev("ConnectBeforeAttach") THEN Emit(Emit(w1, n, "Io", 0), n, "ACC", 0) ELSE Emit(w1, n, "Io", 0), n)
          w2 == IF ra.ok = 1
                THEN LET w3 == [ra.w EXCEPT !.ses[n].ard = IF ard = 1 THEN 1 ELSE @]
                     IN IF w3.ses[n].ic = 1 THEN CB([w3 EXCEPT !.ses[n].wc = 1], n, "ACC", 0) ELSE w3
                ELSE Release([ra.w EXCEPT !.ses[n].dest = "none", !.ses[n].ic = 0, !.ses[n].ca = 0], n)
      IN Apply(w2, pc, TRUE, "AddConn", [s |-> n, ok |-> p.ok, ccc |-> p.ccc, ds |-> p.ds, dest |-> d, ard |-> ard], ra.ok)

\* AddNewDormantConnectSession(): "the added session will not initiate a TCP connection to the specified address immediately.  Instead, it will
\* just hang out and do nothing until you call Reconnect() on it."
AddDorm(p, d, ard) ==
   /\ Idle /\ "AddDorm" \in Ops /\ nid <= N
   /\ LET n == nid
          w0 == [Cur EXCEPT !.nid = n + 1, !.ses[n] = [NewSes(p, "add") EXCEPT !.dest = d], !.h[n].dorm = 1]
          ra == IF Dev("DormantConnects")
                THEN LET c == Len(con) + 1
                         w1 == [Emit(NewConn(w0, NewCon("tcp", "conn", 1, 0, 1)), n, "Gw", 0) EXCEPT !.gws = Append(@, c), !.ses[n].g = Len(gws) + 1, !.ses[n].ca = 1]
                     IN Attach(Emit(w1, n, "Io", 0), n)
                ELSE BareBody(w0, n)
          w2 == IF ra.ok = 1 THEN [ra.w EXCEPT !.ses[n].ard = IF ard = 1 THEN 1 ELSE @]
                ELSE Release([ra.w EXCEPT !.ses[n].dest = "none"], n)
      IN Apply(w2, pc, TRUE, "AddDorm", [s |-> n, ok |-> p.ok, ccc |-> p.ccc, ds |-> p.ds, dest |-> d, ard |-> ard], ra.ok)

\* the driver calls a public method between two iterations
ExtUseful(m) ==                       \* (pruning of the generated graphs only: the other calls are legal, and do nothing)
   /\ (m[1] \in {"Quit", "Add", "AddF"} \/ (m[2] \in 1..N /\ ses[m[2]].life = "att"))
   /\ (m[1] \in {"Add", "AddF", "Repl", "ReplF"} => nid <= N)
   /\ (m[1] = "Quit" => run = 1)
Ext(m) ==
   /\ Idle /\ "Ext" \in Ops
   /\ Apply(Do(Cur, 0, m[1], m[2]), pc, TRUE, "Ext", [op |-> m[1], t |-> m[2]], 0)

\* ------------------------------------------------------------------------------------------------ the peers, the harness
Send(c, m) ==
   /\ Idle /\ "Send" \in Ops /\ c \in 1..Len(con)
   /\ con[c].hp = 1 /\ con[c].pcl = 0 /\ con[c].st \in {"open", "conn", "pend"}
   /\ Apply([Cur EXCEPT !.con[c].inq = Append(@, m)], pc, TRUE, "Send", [c |-> c, act |-> m[1], t |-> m[2]], 1)
Close(c) ==
   /\ Idle /\ "Close" \in Ops /\ c \in 1..Len(con)
   /\ con[c].hp = 1 /\ con[c].pcl = 0 /\ con[c].st \in {"open", "conn", "pend"}
   /\ Apply([Cur EXCEPT !.con[c].pcl = 1], pc, TRUE, "Close", [c |-> c], 1)
\* a peer connects to the factory's port
PConn(mode) ==
   /\ Idle /\ "Fac" \in Ops /\ fac.st = "att"
   /\ Apply([NewConn(Cur, NewCon("tcp", "pend", 1, 0, 1)) EXCEPT !.fac.pq = Append(@, <<Len(con) + 1, mode>>)], pc, TRUE, "PConn", [f |-> 1, m |-> mode], 1)
PutFac ==
   /\ Idle /\ "Fac" \in Ops /\ fac.st = "none"
   /\ Apply([FEmit(Cur, "FAtt", 1, 0, 0) EXCEPT !.fac.st = "att"], pc, TRUE, "PutFac", [f |-> 1], 1)
ClosePending(w) == [w EXCEPT !.con = [c \in 1..Len(w.con) |-> IF w.con[c].st = "pend" THEN [w.con[c] EXCEPT !.st = "closed"] ELSE w.con[c]], !.fac.pq = <<>>, !.fac.ap = 0]
RemFac ==
   /\ Idle /\ "Fac" \in Ops /\ fac.st = "att"
   /\ Apply([ClosePending(FEmit(Cur, "FDet", 1, 0, 0)) EXCEPT !.fac.st = "duck"], pc, TRUE, "RemFac", [f |-> 1], 1)
Arm(m) ==
   /\ Idle /\ "Arm" \in Ops /\ arm.on = 0
   /\ Apply([Cur EXCEPT !.arm = [on |-> 1, s |-> m.s, cb |-> m.cb, act |-> m.act, t |-> m.t]], pc, TRUE, "Arm", m, 0)
\* the server's clock passes every scheduled reconnect time
Clock ==
   /\ Idle /\ "Clock" \in Ops
   /\ Apply([Cur EXCEPT !.ses = [s \in 1..N |-> IF ses[s].rt = "pend" THEN [ses[s] EXCEPT !.rt = "due"] ELSE ses[s]]], pc, TRUE, "Clock", [x |-> 0], 0)
Wp(s) ==
   /\ Idle /\ "Wp" \in Ops /\ ses[s].life = "att"
   /\ Apply([Cur EXCEPT !.ses[s].wp = 1, !.ses[s].pv = 0], pc, TRUE, "Wp", [s |-> s], 0)

\* ------------------------------------------------------------------------------------------------ one iteration of the event loop: ServerProcessLoop(0)
FacDucks(w) == IF w.fac.st = "duck" THEN [FEmit(w, "FGone", 0, 0, 0) EXCEPT !.fac.st = "gone"] ELSE w       \* _lameDuckFactories.Clear()
Pump ==
   /\ Idle /\ "Pump" \in Ops
   /\ LET w == FacDucks(Cur)
          quit == run = 0 /\ ~Dev("QuitIgnored")
      IN Apply(w, Norm(w, [Pc0 EXCEPT !.p = "ducks", !.nx = IF quit THEN "end" ELSE "prep", !.rs = run]), TRUE, "Pump", [x |-> 0], 1)

\* ClearLameDucks(), one duck
iDetach ==
   /\ pc.p = "ducks" /\ ducks # <<>>
   /\ LET d == Head(ducks)
          w3 == IF d \in Range(tbl)
                THEN LET w1 == CB([Cur EXCEPT !.ses[d].full = 0], d, "Det", 0)
                     IN [w1 EXCEPT !.h[d].dr = 1, !.ses[d].life = "det", !.tbl = IF Dev("CallbackAfterDetach") THEN @ ELSE Without(@, d)]
                ELSE Cur
          w4 == [w3 EXCEPT !.ducks = Tail(@)]
          w5 == IF Dev("CallbackAfterDetach") /\ d \in Range(tbl) THEN w4 ELSE Free(w4, d)
      IN Apply(w5, Norm(w5, pc), FALSE, "iDetach", [s |-> d], 0)

\* PrepareToWaitForEvents() + WaitForEvents(): which sockets are reported ready, whose Pulse() is due
iPrep ==
   /\ pc.p = "prep"
   /\ LET f(s) == LET q == ses[s]  c == CnOf(Cur, s) IN
                  IF s \in Range(tbl)
                  THEN [q EXCEPT !.pl = IF c # 0 /\ (q.ca = 1 \/ Dev("FinalizeBySocket")) /\ con[c].st = "conn" THEN "w"                              \* "so we can watch for the async-connect event"
                                        ELSE IF c # 0 /\ q.ca = 0 /\ con[c].st \in {"open", "conn"} /\ (con[c].inq # <<>> \/ con[c].pcl = 1 \/ Broken(con[c])) THEN "r"
                                        ELSE "no",
                                 !.pv = IF q.rt = "due" \/ q.wp = 1 THEN 1 ELSE 0]
                  ELSE q
          w == [Cur EXCEPT !.ses = [s \in 1..N |-> f(s)], !.fac.ap = IF fac.st = "att" /\ fac.pq # <<>> THEN 1 ELSE 0]
      IN Apply(w, Norm(w, [pc EXCEPT !.p = "sess", !.i = 1, !.sub = "pulse"]), FALSE, "iPrep", [x |-> 0], 0)

\* HandleEvents(), a session's turn: CallPulseAux()
iPulse ==
   /\ pc.p = "sess" /\ pc.sub = "pulse"
   /\ LET s == tbl[pc.i]
          w1 == CB([Cur EXCEPT !.ses[s].pv = 0, !.ses[s].wp = 0], s, "Pulse", 0)
          q == w1.ses[s]
          \* AbstractReflectSession::Pulse(): SetAutoReconnectDelay(): "... when it should automatically try to reconnect to that same destination (by calling Reconnect())"
          reco == q.rt = "due" /\ q.ard = 1 /\ ~Dev("NoReconnectOnPulse")
          w2 == IF q.rt = "due" THEN (IF reco THEN Reco([w1 EXCEPT !.ses[s].rt = "never"], s) ELSE [w1 EXCEPT !.ses[s].rt = "never"]) ELSE w1
          w3 == [w2 EXCEPT !.note = [k |-> "pulse", s |-> s, due |-> q.rt = "due", ard |-> q.ard, reco |-> reco]]
      IN Apply(w3, Norm(w3, [pc EXCEPT !.sub = "read"]), FALSE, "iPulse", [s |-> s], 0)

\* ... DoInput(): one Message; the gateway goes on reading as long as its DataIO delivers
iMsg ==
   /\ pc.p = "sess" /\ pc.sub = "msg"
   /\ LET c == pc.c  rx == pc.rx  m == Head(con[c].inq)
          w1 == Emit([Cur EXCEPT !.con[c].inq = Tail(@)], rx, "Msg", 0)
          w2 == Do(w1, rx, m[1], m[2])
      IN Apply(w2, Norm(w2, pc), FALSE, "iMsg", [s |-> rx, act |-> m[1], t |-> m[2]], 0)

\* ... the read failed (end of stream): DisconnectSession()
iRdErr ==
   /\ pc.p = "sess" /\ pc.sub = "rderr"
   /\ LET s == tbl[pc.i]
          d == Disc(Cur, s, TRUE)
          \* "continue;  // avoid any chance of a seecond call to DisconnectSession() in our DoOutput-section below"
          np == IF d.r = 0 THEN [pc EXCEPT !.i = @ + 1, !.sub = "pulse"] ELSE [pc EXCEPT !.sub = "write"]
      IN Apply(d.w, Norm(d.w, np), FALSE, "iRdErr", [s |-> s], d.r)

\* ... the socket of an asynchronous connect is ready for writing: FinalizeAsyncConnect()
iWrite ==
   /\ pc.p = "sess" /\ pc.sub = "write"
   /\ LET s == tbl[pc.i]  c == CnOf(Cur, s)
          w0 == [Cur EXCEPT !.con[c].fin = @ + 1]
          w1 == IF con[c].up = 1
                THEN CB([w0 EXCEPT !.ses[s].ca = 0, !.ses[s].pv = 0, !.ses[s].ic = 1, !.ses[s].wc = 1, !.con[c].st = "open"], s, "ACC", 0)
                ELSE Disc(w0, s, TRUE).w                                         \* "(if the asynchronous connect fails, ClientConnectionClosed() is called instead)"
      IN Apply(w1, Norm(w1, [pc EXCEPT !.i = @ + 1, !.sub = "pulse"]), FALSE, "iWrite", [s |-> s], con[c].up)

\* DoAccept(): one incoming connection
iAccept ==
   /\ pc.p = "acc"
   /\ LET e == Head(fac.pq)  c == e[1]  mode == e[2]
          w0 == FEmit([Cur EXCEPT !.fac.pq = Tail(@)], "Create", 1, 1, c)
          tb == tbl
          \* CreateSession(): "returns a reference to a freshly allocated AbstractReflectSession object on success, or a NULL reference on failure."
          w1 == IF (mode = "null" /\ ~Dev("NullCreatesSession")) \/ nid > N THEN CloseConn(w0, c)
                ELSE LET n == nid
                         w2 == [w0 EXCEPT !.nid = n + 1, !.ses[n] = [Fresh0 EXCEPT !.life = "add", !.ok = IF mode = "bad" THEN 0 ELSE 1, !.ic = 1], !.con[c].st = "open"]
                         w3 == [Emit(w2, n, "Gw", 0) EXCEPT !.gws = Append(@, c), !.ses[n].g = Len(w2.gws) + 1]
                         ra == Attach(Emit(w3, n, "Io", 0), n)
                     IN IF ra.ok = 1 THEN [ra.w EXCEPT !.ses[n].wc = 1] ELSE Release([ra.w EXCEPT !.ses[n].ic = 0], n)
          w4 == [w1 EXCEPT !.note = [k |-> "acc", mode |-> mode, tb |-> tb]]
      IN Apply(w4, Norm(w4, [pc EXCEPT !.sub = "done"]), FALSE, "iAccept", [m |-> mode], 0)

iEnd ==
   /\ pc.p = "end"
   /\ LET w == [Cur EXCEPT !.ses = [s \in 1..N |-> [ses[s] EXCEPT !.pv = 0, !.pl = "no"]], !.fac.ap = 0, !.note = [k |-> "pumpend"]]
      IN Apply(w, Pc0, FALSE, "iEnd", [x |-> 0], 0)

\* ------------------------------------------------------------------------------------------------ ReflectServer::Cleanup(), then the server is destroyed
Cleanup ==
   /\ Idle /\ "Cleanup" \in Ops
   /\ Apply(Cur, [Pc0 EXCEPT !.p = "clean"], TRUE, "Cleanup", [x |-> 0], 0)
cDet ==
   /\ pc.p = "clean" /\ tbl # <<>>
   /\ LET s == Head(tbl)
          skip == Dev("NoDetachOnCleanupForDucks") /\ s \in Range(ducks)
          w1 == IF skip THEN Cur ELSE CB([Cur EXCEPT !.ses[s].full = 0], s, "Det", 0)
          w2 == [w1 EXCEPT !.h[s].dr = IF skip THEN @ ELSE 1, !.ses[s].life = IF Dev("FreeWhileAttached") THEN @ ELSE "det", !.tbl = Without(@, s), !.ducks = AppendNew(@, s)]
      IN Apply(w2, pc, FALSE, "cDet", [s |-> s], 0)
RECURSIVE FreeAll(_, _), DetachAgain(_, _)
FreeAll(w, q) == IF q = <<>> THEN w ELSE FreeAll(Free(w, Head(q)), Tail(q))
DetachAgain(w, q) == IF q = <<>> THEN w ELSE DetachAgain(Emit(w, Head(q), "Det", 0), Tail(q))
cFree ==
   /\ pc.p = "clean" /\ tbl = <<>>
   /\ LET w0 == IF Dev("DetachTwiceOnCleanup") THEN DetachAgain(Cur, ducks) ELSE Cur
          w1 == IF fac.st = "att" THEN [ClosePending(FEmit(w0, "FDet", 1, 0, 0)) EXCEPT !.fac.st = "duck"] ELSE w0       \* RemoveAcceptFactory(0)
          w2 == [FreeAll(w1, w1.ducks) EXCEPT !.ducks = <<>>]                                                         \* _lameDuckSessions.Clear()
          w3 == FacDucks(w2)
      IN Apply(w3, [Pc0 EXCEPT !.p = "done"], FALSE, "cFree", [x |-> 0], 0)

Inner == iDetach \/ iPrep \/ iPulse \/ iMsg \/ iRdErr \/ iWrite \/ iAccept \/ iEnd \/ cDet \/ cFree
Next == \/ \E p \in Pers : AddSock(p) \/ AddBare(p)
        \/ \E p \in Pers, d \in Dests, a \in {0, 1} : AddConn(p, d, a) \/ AddDorm(p, d, a)
        \/ \E m \in ExtMenu : ExtUseful(m) /\ Ext(m)
        \/ \E c \in 1..Len(con) : Close(c) \/ \E m \in MsgMenu : Len(con[c].inq) < MaxQ /\ Send(c, m)
        \/ \E mode \in FacModes : Len(fac.pq) < 2 /\ PConn(mode)
        \/ PutFac \/ RemFac \/ Pump \/ Cleanup
        \/ ((\E s \in 1..N : ses[s].rt = "pend") /\ Clock)
        \/ \E m \in ArmMenu : Arm(m)
        \/ \E s \in 1..N : ses[s].wp = 0 /\ Wp(s)
        \/ Inner

Spec == Init /\ [][Next]_vars

-------------------------------------------------------------------------------------------------------------------
(* The documented protocol.  Each clause quotes the header sentence it comes from; where the headers are silent the   *)
(* clause allows either behaviour and says so.                                                                        *)

TypeOK == /\ Range(tbl) \subseteq 1..N /\ Range(ducks) \subseteq 1..N /\ nid \in 1..(N + 1)
          /\ \A s \in 1..N : ses[s].g \in 0..Len(gws)
          /\ \A g \in 1..Len(gws) : gws[g] \in 0..Len(con)

\* ServerComponent.h, AttachedToServer(): "This method is called when this object has been added to a ReflectServer object."  Once per object.
AttachOnce == \A s \in 1..N : h[s].att <= 1
\* ServerComponent.h, AttachedToServer(): "When this method is called, it is okay to call the other methods in the ServerComponent API" - not before: no
\* life-cycle callback (Message, connection closed / completed, Pulse, detach) reaches a session that has not been told it is attached.
\* ServerComponent.h, AddNewConnectSession(): "AttachedToServer() will be called immediately on the session, and then when the connection is complete,
\* AsyncConnectCompleted() will be called."
AttachFirst == \A s \in 1..N : h[s].early = 0
\* ServerComponent.h, AboutToDetachFromServer(): "This method is called just before we are removed from the ReflectServer object."  Once; and only for an
\* object that was told it is attached.  Whether a session whose AttachedToServer() returned an error is told AboutToDetachFromServer() the headers do
\* not say (the code does tell it: "well, it *was* attached, if only for a moment"): EITHER.
DetachOnce == \A s \in 1..N : h[s].det <= 1
DetachOnlyAttached == \A s \in 1..N : h[s].det >= 1 => h[s].att = 1
\* ServerComponent.h, AboutToDetachFromServer(): "Methods in the ServerComponent API may still be called at this time (but not after this method returns)."
\* The session is no part of the server any more: no callback after it.
NoCallbackAfterDetach == \A s \in 1..N : h[s].after = 0
\* ServerComponent.h, IsAttachedToServer(): "Returns true if we are attached to the ReflectServer object, false if we are not." and
\* ReflectServer.h, GetSessions(): "our table of sessions currently attached to this server": they agree, at every step.
TableAgrees == /\ \A s \in 1..N : (s \in Range(tbl)) <=> (ses[s].life = "att")
               /\ \A i, j \in 1..Len(tbl) : i # j => tbl[i] # tbl[j]
\* ServerComponent.h, IsFullyAttachedToServer(): "this method only returns true after AttachedToServer() has completed successully, and before
\* AboutToDetachFromServer() has been called.  Compare that to IsAttachedToServer()'s which returns true during the AttachedToServer and
\* AboutToDetachFromServer() calls themselves, also."
FullFlag == \A s \in 1..N : /\ (ses[s].full = 1 => h[s].attok = 1 /\ h[s].det = 0)
                            /\ h[s].ff = 0                 \* inside AttachedToServer() / AboutToDetachFromServer(): attached, not fully attached
\* ServerComponent.cpp, ~ServerComponent(): "ServerComponent deleted while still attached to its ReflectServer!" (assertion)
DestroyedDetached == \A s \in 1..N : h[s].bf = 0
\* ReflectServer.h, Cleanup(): "Should be called just before the ReflectServer is to be destroyed." - afterwards every session that was added has been
\* detached (if it was attached successfully: exactly once) and destroyed; nothing is left.
NoLeak == pc.p = "done" => /\ \A s \in 1..N : ses[s].life \in {"fresh", "gone"} /\ (h[s].attok = 1 => h[s].det = 1)
                           /\ tbl = <<>> /\ ducks = <<>> /\ fac.st \in {"none", "gone"}
                           /\ \A c \in 1..Len(con) : con[c].st = "closed"
\* AbstractReflectSession.h, ClientConnectionClosed(): "If this method returns true, then this session will be removed and deleted."
MustGo == \A s \in 1..N : h[s].mg = 1 => (s \in Range(ducks) \/ ses[s].life \in {"det", "gone"})
\* AbstractReflectSession.h, ClientConnectionClosed(): "If it returns false, then this session will continue, even though the client is no longer available."
\* ... "Default implementation always returns true, unless the automatic-reconnect feature has been enabled (via SetAutoReconnectDelay()), in which case this
\* method will return false and try to Reconnect() again, instead."
CCCResult == note.k = "ccc" =>
                /\ (note.r = 0 /\ note.clean /\ ~note.wasduck => note.s \in Range(tbl) /\ note.s \notin Range(ducks))
                /\ (note.base = 1 => note.r = 1 - note.ard)
                /\ (note.base = 1 /\ note.ard = 1 /\ note.clean => ses[note.s].rt # "never")
\* AbstractReflectSession.h, ClientConnectionClosed(): "Called when the TCP connection to our client is broken." - the server reports one broken connection once.
CCCOncePerConn == \A s \in 1..N : h[s].ccs <= 1
\* AbstractReflectSession.h, AsyncConnectCompleted(): "this method is called when the asynchronous connect process completes successfully.  (if the asynchronous
\* connect fails, ClientConnectionClosed() is called instead)": one outcome per connect.
ConnectOutcomeOnce == \A c \in 1..Len(con) : con[c].fin <= 1
\* ReflectServer.h, EndSession(): "... which will result in it being safely detached and removed from the ReflectServer at the next iteration of the event loop."
PumpFlushesDucks == note.k = "pumpend" => ducks = <<>>
\* AbstractReflectSession.h, ReplaceSession(): "Causes this session to be terminated (similar to EndSession(), and the session specified in (newSessionRef) to
\* take its place using the same socket connection & message IO gateway."
\* ReflectServer.h, ReplaceSession(): "If an error code is returned, then this call is guaranteed not to have had any effect on the old session."
Replace == (note.k = "repl" /\ note.clean) =>
              IF note.ok = 1
              THEN /\ note.new \in Range(tbl) /\ ses[note.new].g = note.g /\ CnOf(Cur, note.new) = note.c
                   /\ ses[note.old].g = 0 /\ note.old \in Range(ducks)
              ELSE /\ ses[note.old] = note.before /\ (note.old \in Range(ducks)) = note.wasduck /\ CnOf(Cur, note.old) = note.c
                   /\ note.new \notin Range(tbl)
\* ServerComponent.h, AddNewDormantConnectSession(): "the added session will not initiate a TCP connection to the specified address immediately.  Instead, it will
\* just hang out and do nothing until you call Reconnect() on it."
Dormant == \A s \in 1..N : h[s].dorm = 1 => (CnOf(Cur, s) = 0 \/ con[CnOf(Cur, s)].kind # "tcp")
\* AbstractReflectSession.h, SetAutoReconnectDelay(): "Sets the amount of time that should pass between when this session loses its connection ... and when it should
\* automatically try to reconnect to that same destination (by calling Reconnect())."
AutoReconnect == note.k = "pulse" => (note.due /\ note.ard = 1 => note.reco)
\* ReflectSessionFactory, CreateSession(): "... or a NULL reference on failure": nothing is added.
NullCreatesNothing == note.k = "acc" => (note.mode = "null" => tbl = note.tb)
\* ReflectServer.h, EndServer(): "Call this and the server will quit ASAP": an iteration that starts after it does no session I/O.  (What the iteration in which it is
\* called still does the headers do not say: EITHER; the code finishes it.)
QuitStopsLoop == pc.p \in {"prep", "sess", "acc"} => pc.rs = 1

AllClauses == /\ TypeOK /\ AttachOnce /\ AttachFirst /\ DetachOnce /\ DetachOnlyAttached /\ NoCallbackAfterDetach /\ TableAgrees /\ FullFlag
              /\ DestroyedDetached /\ NoLeak /\ MustGo /\ CCCResult /\ CCCOncePerConn /\ ConnectOutcomeOnce /\ PumpFlushesDucks /\ Replace
              /\ Dormant /\ AutoReconnect /\ NullCreatesNothing /\ QuitStopsLoop
=============================================================================
