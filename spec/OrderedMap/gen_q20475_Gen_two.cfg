SPECIFICATION GenSpec
CONSTANTS
  Keys = {1, 2}
  Vals = {1}
  MaxIt = 1
  Sorted = "none"
  Ops = {"Put", "PutPrev", "PutIfAbsent", "GetOrPut", "PutOrRemove", "Remove", "RemoveGet", "SortSelf", "Swap", "Clear", "Destroy", "AssignFrom", "AssignTo", "PutAll", "MoveToTable", "RemoveAll", "Intersect", "ItNew", "ItNewAt", "ItAdv", "ItDel"}
  Wrong = {}
  GHOST = FALSE
  RECORD = TRUE
INVARIANTS TypeOK
