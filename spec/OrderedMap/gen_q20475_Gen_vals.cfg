SPECIFICATION GenSpec
CONSTANTS
  Keys = {1, 2}
  Vals = {1, 2}
  MaxIt = 1
  Sorted = "none"
  Ops = {"Put", "PutPrev", "PutIfAbsent", "GetOrPut", "PutOrRemove", "Remove", "RemoveGet", "SortByValue", "Clear", "ItNew", "ItNewAt", "ItAdv", "ItDel"}
  Wrong = {}
  GHOST = FALSE
  RECORD = TRUE
INVARIANTS TypeOK
