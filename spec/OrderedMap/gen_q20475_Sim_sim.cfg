SPECIFICATION SimSpec
CONSTANTS
  Keys = {1, 2, 3}
  Vals = {1, 2}
  MaxIt = 2
  Sorted = "none"
  Ops = {"Put", "PutPrev", "PutIfAbsent", "GetOrPut", "PutOrRemove", "PutAtFront", "PutAtBack", "PutBefore", "PutBehind", "PutAtPosition", "GetAndMoveToFront", "GetAndMoveToBack", "Remove", "RemoveGet", "RemoveFirst", "RemoveLast", "MoveToFront", "MoveToBack", "MoveToBefore", "MoveToBehind", "MoveToPosition", "SortByKey", "SortByValue", "SortSelf", "Reposition", "Swap", "Clear", "Destroy", "AssignFrom", "AssignTo", "PutAll", "MoveToTable", "RemoveAll", "Intersect", "EnsureSize", "ShrinkToFit", "Get", "IndexOfKey", "IndexOfValue", "GetKeyAt", "GetValueAt", "GetFirstKey", "GetLastKey", "GetKeyBefore", "GetKeyAfter", "ContainsValue", "NumItems", "IsEqualTo", "ItNew", "ItNewAt", "ItAdv", "ItRet", "ItFlip", "ItDel", "ItCopy"}
  Wrong = {}
  GHOST = FALSE
  RECORD = TRUE
INVARIANTS TypeOK
CONSTANTS SimDepth = 30
