SPECIFICATION Spec
CONSTANTS
  Keys = {1, 2, 3}
  Vals = {1}
  MaxIt = 1
  Sorted = "none"
  Ops = {"Put", "PutPrev", "PutIfAbsent", "GetOrPut", "PutOrRemove", "PutAtFront", "PutAtBack", "PutBefore", "PutBehind", "PutAtPosition", "GetAndMoveToFront", "GetAndMoveToBack", "Remove", "RemoveGet", "RemoveFirst", "RemoveLast", "MoveToFront", "MoveToBack", "MoveToBefore", "MoveToBehind", "MoveToPosition", "SortByKey", "SortByValue", "SortSelf", "Clear", "Destroy", "EnsureSize", "ShrinkToFit", "ItNew", "ItNewAt", "ItAdv", "ItRet", "ItFlip", "ItDel"}
  Wrong = {}
  GHOST = TRUE
  RECORD = FALSE
INVARIANTS TypeOK IterSafe NoSkip NoTwice StaysSorted
