SPECIFICATION Spec
CONSTANTS
  Keys = {1, 2}
  Vals = {1}
  MaxIt = 1
  Sorted = "none"
  Ops = {"Put", "Remove", "MoveToBack", "ItNew", "ItAdv", "ItDel"}
  Wrong = {"no_reorder_exemption"}
  GHOST = TRUE
  RECORD = FALSE
INVARIANTS NoTwice
