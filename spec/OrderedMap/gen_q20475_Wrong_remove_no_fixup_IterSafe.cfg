SPECIFICATION Spec
CONSTANTS
  Keys = {1, 2}
  Vals = {1}
  MaxIt = 1
  Sorted = "none"
  Ops = {"Put", "Remove", "MoveToBack", "ItNew", "ItAdv", "ItDel"}
  Wrong = {"remove_no_fixup"}
  GHOST = TRUE
  RECORD = FALSE
INVARIANTS IterSafe
