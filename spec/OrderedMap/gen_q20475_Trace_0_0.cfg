SPECIFICATION TraceSpec
CONSTANTS
  Keys = {1, 2, 3, 4, 5}
  Vals = {1, 2, 3}
  MaxIt = 3
  Sorted = "none"
  Ops = {"Put", "PutPrev", "PutIfAbsent", "GetOrPut", "PutOrRemove", "PutAtFront", "PutAtBack", "PutBefore", "PutBehind", "PutAtPosition", "GetAndMoveToFront", "GetAndMoveToBack", "Remove", "RemoveGet", "RemoveFirst", "RemoveLast", "MoveToFront", "MoveToBack", "MoveToBefore", "MoveToBehind", "MoveToPosition", "SortByKey", "SortByValue", "SortSelf", "Reposition", "Swap", "Clear", "Destroy", "AssignFrom", "AssignTo", "PutAll", "MoveToTable", "RemoveAll", "Intersect", "EnsureSize", "ShrinkToFit", "Get", "IndexOfKey", "IndexOfValue", "GetKeyAt", "GetValueAt", "GetFirstKey", "GetLastKey", "GetKeyBefore", "GetKeyAfter", "ContainsValue", "NumItems", "IsEqualTo", "ItNew", "ItNewAt", "ItAdv", "ItRet", "ItFlip", "ItDel", "ItCopy"}
  Wrong = {}
  GHOST = TRUE
  RECORD = FALSE
INVARIANTS TypeOK IterSafe NoSkip NoTwice StaysSorted
CONSTANTS MatchIters = FALSE
CONSTRAINT Track
POSTCONDITION Report
