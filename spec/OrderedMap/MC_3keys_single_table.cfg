\* the first model-checking instance of `tools/check C09 quick` (the check generates its configurations; this one is kept for manual runs:
\*   cd spec/OrderedMap && java -cp /opt/veriftools/tla/tla2tools.jar:/opt/veriftools/tla/CommunityModules-deps.jar tlc2.TLC -deadlock -noGenerateSpecTE -coverage 1 -config MC_3keys_single_table.cfg MapAbs.tla)
SPECIFICATION Spec
CONSTANTS
  Keys = {1, 2, 3}
  Vals = {1}
  MaxIt = 1
  Sorted = "none"
  Ops = {"Put", "PutPrev", "PutIfAbsent", "GetOrPut", "PutOrRemove", "PutAtFront", "PutAtBack", "PutBefore", "PutBehind", "PutAtPosition", "GetAndMoveToFront", "GetAndMoveToBack", "Remove", "RemoveGet", "RemoveFirst", "RemoveLast", "MoveToFront", "MoveToBack", "MoveToBefore", "MoveToBehind", "MoveToPosition", "SortByKey", "SortByValue", "SortSelf", "Clear", "Destroy", "EnsureSize", "ShrinkToFit", "ItNew", "ItNewAt", "ItAdv", "ItRet", "ItFlip", "ItDel"}
  PutVals = "any"
  BigArgs = FALSE
  Wrong = {}
  GHOST = TRUE
  RECORD = FALSE
INVARIANTS TypeOK IterSafe NoSkip NoTwice StaysSorted
