\* trace validation of a log written by `ht random ... <class 0> ... 5 3 3` (TRACE=<file> in the environment); -workers 1
SPECIFICATION TraceSpec
CONSTANTS
  Keys = {1, 2, 3, 4, 5}
  Vals = {1, 2, 3}
  MaxIt = 3
  Sorted = "none"
  Ops = {"Put", "PutPrev", "PutIfAbsent", "GetOrPut", "PutOrRemove", "PutAtFront", "PutAtBack", "PutBefore", "PutBehind", "PutAtPosition", "GetAndMoveToFront", "GetAndMoveToBack", "Remove", "RemoveGet", "RemoveFirst", "RemoveLast", "MoveToFront", "MoveToBack", "MoveToBefore", "MoveToBehind", "MoveToPosition", "SortByKey", "SortByValue", "SortSelf", "Reposition", "Swap", "Clear", "Destroy", "AssignFrom", "AssignTo", "PutAll", "MoveToTable", "RemoveAll", "Intersect", "EnsureSize", "ShrinkToFit", "Get", "IndexOfKey", "IndexOfValue", "GetKeyAt", "GetValueAt", "GetFirstKey", "GetLastKey", "GetKeyBefore", "GetKeyAfter", "ContainsValue", "NumItems", "IsEqualTo", "ItNew", "ItNewAt", "ItAdv", "ItRet", "ItFlip", "ItDel", "ItCopy"}
  PutVals = "any"
  BigArgs = FALSE
  Wrong = {}
  GHOST = TRUE
  RECORD = FALSE
  MatchIters = TRUE
INVARIANTS TypeOK IterSafe NoSkip NoTwice StaysSorted
CONSTRAINT Track
POSTCONDITION Report
