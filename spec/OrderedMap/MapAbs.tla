------------------------------- MODULE MapAbs -------------------------------
(***************************************************************************)
(* util/Hashtable.h as an ideal ORDERED MAP with robust iterators (C09).   *)
(*                                                                         *)
(* tbl  = the table under test, a sequence of <<key, value>> in iteration  *)
(*        order; oth = a second table of the same class (argument of       *)
(*        SwapContents, operator=, Put(table), MoveToTable, IsEqualTo ...).*)
(* its  = the iterator objects.  An iterator is [tab, pos, sk, sv, dir]:   *)
(*        tab  table it is registered with (1 = tbl, 2 = oth, 0 = none),   *)
(*        pos  key of the entry its cursor is linked to (0 = none),        *)
(*        sk/sv scratch copy (0 = none), dir 0 = forward, 1 = backward.    *)
(*        Current item = scratch copy if there is one, else the entry pos. *)
(*        When the entry under a cursor is UNLINKED from the iteration     *)
(*        list (removed, or moved: a move is unlink + relink) the iterator *)
(*        keeps a scratch copy (unless it already has one) and pos goes to *)
(*        the neighbour the entry had at that moment in the iterator's     *)
(*        direction.  ++ only drops the scratch copy if there is one.      *)
(*        Moves that are no-ops in the code do not unlink.                 *)
(*                                                                         *)
(* One action per public call, result = the documented result (integers:   *)
(* status 1 = B_NO_ERROR, 0 = B_DATA_NOT_FOUND / NULL, -1 = B_BAD_ARGUMENT;*)
(* values and keys are positive, 0 = "none").                              *)
(*                                                                         *)
(* Sorted = "none" (Hashtable), "key" (OrderedKeysHashtable), "val"        *)
(* (OrderedValuesHashtable).  For the sorting classes a Put lands at ANY   *)
(* position that keeps the table sorted: the relative order of entries     *)
(* whose sort keys compare equal is not documented.                        *)
(*                                                                         *)
(* Modelled as coded where the header is silent (the check judges these   *)
(* points at the property level with Either, see harness/ht.cpp Monitor):  *)
(*  - Clear() / destructor / operator= hand every registered iterator a    *)
(*    copy of the entry its cursor is linked to, OVERWRITING a scratch copy*)
(*    it may already hold (DetachIts);                                      *)
(*  - MoveToPosition / PutAtPosition to a middle position always unlink    *)
(*    and relink the entry, even if it already is at that position.        *)
(* Reordering and NoSkip / NoTwice: an entry that a call relinks (mv) is    *)
(* exempt as if it were a new entry; all other entries must still be       *)
(* visited exactly once - also when the relinked entry is the one a cursor *)
(* is on.  Calls that change the relative order of the OTHER entries (the  *)
(* sorts) exempt the traversals they cross.                                *)
(*                                                                         *)
(* The property is at the bottom.                                          *)
(***************************************************************************)
EXTENDS Integers, Sequences, FiniteSets, TLC

CONSTANTS Keys,      \* set of positive integers
          Vals,      \* set of positive integers
          MaxIt,     \* number of iterator slots
          Sorted,    \* "none" | "key" | "val"
          Ops,       \* names of the calls that may be made
          PutVals,   \* "any" | "key": "key" restricts the Put calls to value = key (tie-free, single-outcome instances for the replay of the sorting classes)
          BigArgs,   \* TRUE: every uint32 position / index / count parameter also takes the boundary values of its TYPE, coded as negative numbers
                     \*       (TLC integers are 32-bit signed): -1 = 0xFFFFFFFF (MUSCLE_NO_LIMIT, also a failed IndexOf fed back in), -2 = 0xFFFFFFFE, -3 = 0x80000000, -4 = 0x7FFFFFFF
          Wrong,     \* deliberately wrong variants of the specification (vacuity guards): subset of {"remove_no_fixup", "no_reorder_exemption", "moves_keep_tight"}
          GHOST,     \* TRUE: maintain the traversal ghosts (seen / must / re / fin / twice) needed by NoSkip, NoTwice
          RECORD     \* TRUE: keep the step record `last` (behaviour generation, trace validation)

VARIABLES tbl, oth, its, last,
          ord        \* sorting classes only, for the table object tbl: [auto |-> SetAutoSortEnabled state (on by default),
                     \*   loose |-> an explicit move / positional put took effect, or a Put appended with auto-sort off, since the table was last sorted].
                     \* The header: with auto-sort off a Put is not moved to its sorted place; the explicit moves are allowed on the sorting classes
                     \* ("likely to unsort the traversal ordering ... calling Sort() will restore the sort-order"); with auto-sort on "Put() expects the
                     \* table's contents to already be sorted ... if they aren't, it won't insert its new item at the correct location": such Puts are
                     \* not generated (no documented outcome).  oth always has auto-sort on and is never moved in.
vars == <<tbl, oth, its, last, ord>>

N0 == Cardinality(Keys)
Big == IF BigArgs THEN {-1, -2, -3, -4} ELSE {}
Pos == (0..N0) \cup Big   \* position arguments (values >= number of items mean "last"; an index that large is "not valid": NULL / failure)

------------------------------------------------------------------------------
(* sequences of <<k, v>> *)
KeysOf(t)   == {t[i][1] : i \in DOMAIN t}
Idx(t, k)   == IF k \in KeysOf(t) THEN CHOOSE i \in DOMAIN t : t[i][1] = k ELSE 0
Val(t, k)   == IF k \in KeysOf(t) THEN t[Idx(t, k)][2] ELSE 0
Without(t, k) == SelectSeq(t, LAMBDA e : e[1] # k)
InsertAt(t, p, e) == SubSeq(t, 1, p) \o <<e>> \o SubSeq(t, p + 1, Len(t))       \* e ends up at index p+1
SetVal(t, k, v) == [i \in DOMAIN t |-> IF t[i][1] = k THEN <<k, v>> ELSE t[i]]
KeySeq(t) == [i \in DOMAIN t |-> t[i][1]]
ValSeq(t) == [i \in DOMAIN t |-> t[i][2]]
Restrict(t, S) == SelectSeq(t, LAMBDA e : e[1] \in S)
\* neighbour of k in t in direction d (0 = towards the tail, 1 = towards the head); 0 if none
Nbr(t, k, d) == LET i == Idx(t, k) IN
                IF i = 0 THEN 0
                ELSE IF d = 0 THEN (IF i < Len(t) THEN t[i + 1][1] ELSE 0) ELSE (IF i > 1 THEN t[i - 1][1] ELSE 0)
SortKey(e) == IF Sorted = "val" THEN e[2] ELSE e[1]
IsSorted(t) == Sorted = "none" \/ \A i \in 1..(Len(t) - 1) : SortKey(t[i]) <= SortKey(t[i + 1])
\* the relative order of the entries that exist both before and after has changed
Reordered(old, new) == KeySeq(Restrict(old, KeysOf(new))) # KeySeq(Restrict(new, KeysOf(old)))
\* stable sort by mode m ("key" | "val") = the only arrangement that is sorted and keeps the order of equal elements
KeyBy(e, m) == IF m = "val" THEN e[2] ELSE e[1]
RECURSIVE StableIns(_, _, _)
StableIns(s, e, m) == IF s = <<>> THEN <<e>> ELSE IF KeyBy(s[Len(s)], m) <= KeyBy(e, m) THEN Append(s, e) ELSE Append(StableIns(SubSeq(s, 1, Len(s) - 1), e, m), s[Len(s)])
RECURSIVE StableSortAux(_, _, _)
StableSortAux(acc, t, m) == IF t = <<>> THEN acc ELSE StableSortAux(StableIns(acc, Head(t), m), Tail(t), m)
StableSort(t, m) == StableSortAux(<<>>, t, m)
\* all arrangements of the pairs of t that are sorted (ties free); W # <<>> is a witness order of keys that cuts the search (trace validation)
Perms(S) == {f \in [1..Cardinality(S) -> S] : \A i, j \in 1..Cardinality(S) : i # j => f[i] # f[j]}
SortedArrangements(t, W) ==
    IF W # <<>> THEN (IF Len(W) = Len(t) /\ KeysOf(t) = {W[i] : i \in DOMAIN W} /\ IsSorted([i \in DOMAIN W |-> <<W[i], Val(t, W[i])>>])
                      THEN {[i \in DOMAIN W |-> <<W[i], Val(t, W[i])>>]} ELSE {})
    ELSE {s \in {[i \in DOMAIN f |-> <<f[i], Val(t, f[i])>>] : f \in Perms(KeysOf(t))} : IsSorted(s)}

------------------------------------------------------------------------------
(* iterators *)
NoIt == [live |-> FALSE, tab |-> 0, pos |-> 0, sk |-> 0, sv |-> 0, dir |-> 0,
         seen |-> {}, must |-> {}, re |-> FALSE, fin |-> FALSE, twice |-> FALSE]
HasData(it) == it.live /\ (it.sk # 0 \/ it.pos # 0)
ItIds == 1..MaxIt

\* entry k (value v) of table number n, whose contents are t at this moment, is unlinked from the iteration list
UnlinkIts(I, n, t, k, v) ==
    IF "remove_no_fixup" \in Wrong THEN I ELSE
    [i \in DOMAIN I |-> LET it == I[i] IN
        IF it.live /\ it.tab = n /\ it.pos = k
        THEN [it EXCEPT !.pos = Nbr(t, k, it.dir), !.sk = IF it.sk = 0 THEN k ELSE it.sk, !.sv = IF it.sk = 0 THEN v ELSE it.sv]
        ELSE it]

\* Clear() / destructor / operator= of table n with contents t: every registered iterator is handed a copy of the entry its
\* cursor is linked to - as coded this overwrites an existing scratch copy (named deviation, see the check's report) - and is detached
DetachIts(I, n, t) ==
    [i \in DOMAIN I |-> LET it == I[i] IN
        IF it.live /\ it.tab = n
        THEN [it EXCEPT !.tab = 0, !.pos = 0, !.sk = IF it.pos # 0 THEN it.pos ELSE it.sk, !.sv = IF it.pos # 0 THEN Val(t, it.pos) ELSE it.sv]
        ELSE it]

SwapIts(I) == [i \in DOMAIN I |-> IF I[i].live /\ I[i].tab # 0 THEN [I[i] EXCEPT !.tab = 3 - I[i].tab] ELSE I[i]]

------------------------------------------------------------------------------
(* table operations on one table: n = its number (for the iterators), t = its contents; they return [t, its, res] *)
TR(t, I, res) == [t |-> t, its |-> I, res |-> res, mv |-> FALSE]      \* mv: an entry was unlinked and relinked (a reordering operation took effect)

\* k (present) is moved to index p+1 of the list without k; noop = the code finds it in place and does not unlink it
MoveK(t, I, n, k, p, noop) ==
    IF noop THEN TR(t, I, 1)
    ELSE LET e == t[Idx(t, k)] IN [TR(InsertAt(Without(t, k), p, e), UnlinkIts(I, n, t, k, e[2]), 1) EXCEPT !.mv = TRUE]

ToFront(t, I, n, k)  == MoveK(t, I, n, k, 0, Idx(t, k) = 1)
ToBack(t, I, n, k)   == MoveK(t, I, n, k, Len(t) - 1, Idx(t, k) = Len(t))
ToBefore(t, I, n, k, k2) == MoveK(t, I, n, k, Idx(Without(t, k), k2) - 1, Idx(t, k) + 1 = Idx(t, k2))
ToBehind(t, I, n, k, k2) == MoveK(t, I, n, k, Idx(Without(t, k), k2), Idx(t, k) = Idx(t, k2) + 1)
ToPosition(t, I, n, k, p) == IF p = 0 THEN ToFront(t, I, n, k)
                             ELSE IF p >= Len(t) \/ p < 0 THEN ToBack(t, I, n, k)                 \* documented clamp (p < 0: a huge value)
                             ELSE MoveK(t, I, n, k, p, FALSE)        \* the general path always unlinks

\* Put(k, v): the SET of allowed outcomes.  W = witness order of keys (or <<>>).
PutSet(t, I, n, k, v, W, auto) ==
    IF Sorted = "none" THEN
        {IF k \in KeysOf(t) THEN TR(SetVal(t, k, v), I, 1) ELSE TR(Append(t, <<k, v>>), I, 1)}
    ELSE IF ~auto THEN      \* auto-sort off: a new key is appended like in a plain table; replacing a value is not generated (the header does not say whether the entry moves)
        (IF k \in KeysOf(t) THEN {} ELSE {TR(Append(t, <<k, v>>), I, 1)})
    ELSE IF k \notin KeysOf(t) THEN
        {TR(InsertAt(t, p, <<k, v>>), I, 1) : p \in {q \in 0..Len(t) : IsSorted(InsertAt(t, q, <<k, v>>)) /\ (W = <<>> \/ (q + 1 \in DOMAIN W /\ W[q + 1] = k))}}
    ELSE LET t1 == SetVal(t, k, v)  rest == Without(t1, k)  pold == Idx(t1, k) - 1 IN
        {IF p = pold THEN TR(t1, I, 1) ELSE [TR(InsertAt(rest, p, <<k, v>>), UnlinkIts(I, n, t1, k, v), 1) EXCEPT !.mv = TRUE]
           : p \in {q \in 0..Len(rest) : IsSorted(InsertAt(rest, q, <<k, v>>)) /\ (W = <<>> \/ (q + 1 \in DOMAIN W /\ W[q + 1] = k))}}

RemoveK(t, I, n, k) == IF k \in KeysOf(t) THEN TR(Without(t, k), UnlinkIts(I, n, t, k, Val(t, k)), 1) ELSE TR(t, I, 0)

RECURSIVE RemoveSeq(_, _, _, _, _)
RemoveSeq(t, I, n, ks, cnt) == IF ks = <<>> THEN TR(t, I, cnt)
                               ELSE LET r == RemoveK(t, I, n, Head(ks)) IN RemoveSeq(r.t, r.its, n, Tail(ks), cnt + r.res)

SortBy(t, m) == StableSort(t, m)

\* tbl.Put(oth): existing keys get the new value in place, new ones are appended; the sorting classes then re-sort (ties free)
PutAllSeq(t, o) == LET upd == [i \in DOMAIN t |-> IF t[i][1] \in KeysOf(o) THEN <<t[i][1], Val(o, t[i][1])>> ELSE t[i]]
                   IN upd \o SelectSeq(o, LAMBDA e : e[1] \notin KeysOf(t))

------------------------------------------------------------------------------
(* the world: [t, o, its]; every call yields a SET of [t, o, its, res] *)
WR(t, o, I, res) == [t |-> t, o |-> o, its |-> I, res |-> res, mv |-> FALSE]
On1(w, r) == [WR(r.t, w.o, r.its, r.res) EXCEPT !.mv = r.mv]     \* a one-table result applied to tbl
OnSet(w, S) == {On1(w, r) : r \in S}
Same(w, res) == {WR(w.t, w.o, w.its, res)}
Has(w, k) == k \in KeysOf(w.t)
\* the calls that involve the order of both tables are generated for the sorting classes only while tbl is auto-sorting and sorted
Tight(w) == Sorted = "none" \/ (w.ord.auto /\ IsSorted(w.t))
Ord0 == [auto |-> TRUE, loose |-> FALSE]
PutKinds  == {"Put", "PutPrev", "PutIfAbsent", "GetOrPut", "PutOrRemove"}
MoveKinds == {"PutAtFront", "PutAtBack", "PutBefore", "PutBehind", "PutAtPosition", "GetAndMoveToFront", "GetAndMoveToBack",
              "MoveToFront", "MoveToBack", "MoveToBefore", "MoveToBehind", "MoveToPosition", "SortByKey", "SortByValue"}
NewOrd(op, a, b, w, r) ==
    IF Sorted = "none" THEN w.ord ELSE
    LET o == w.ord IN
    CASE op \in {"SortSelf", "Clear", "AssignFrom"} \/ (op = "Self" /\ a = 3) -> [o EXCEPT !.loose = FALSE]
      [] op = "Destroy" -> Ord0                                            \* a new table object
      [] op = "SetAutoSort" -> IF (a = 1) = o.auto THEN o ELSE [auto |-> (a = 1), loose |-> IF a = 1 /\ b = 1 THEN FALSE ELSE o.loose]
      [] op \in MoveKinds -> [o EXCEPT !.loose = @ \/ (r.mv /\ "moves_keep_tight" \notin Wrong)]
      [] op \in PutKinds  -> [o EXCEPT !.loose = @ \/ (~o.auto /\ Len(r.t) > Len(w.t))]
      [] OTHER -> o

\* Put followed by a move of the (now present) key
PutThen(w, k, v, Mv(_, _)) == {LET m == Mv(r.t, r.its) IN [WR(m.t, w.o, m.its, 1) EXCEPT !.mv = r.mv \/ m.mv] : r \in PutSet(w.t, w.its, 1, k, v, <<>>, w.ord.auto)}

TableOps == {"Put", "PutPrev", "PutIfAbsent", "GetOrPut", "PutOrRemove", "PutAtFront", "PutAtBack", "PutBefore", "PutBehind", "PutAtPosition",
             "GetAndMoveToFront", "GetAndMoveToBack", "Remove", "RemoveGet", "RemoveFirst", "RemoveLast",
             "MoveToFront", "MoveToBack", "MoveToBefore", "MoveToBehind", "MoveToPosition",
             "SortByKey", "SortByValue", "SortSelf", "Reposition", "Swap", "Clear", "Destroy", "AssignFrom", "AssignTo", "PutAll", "MoveToTable",
             "RemoveAll", "Intersect", "EnsureSize", "ShrinkToFit", "SetAutoSort", "EnsureCanPut", "CopyToTable", "Self"}
QueryOps == {"Get", "IndexOfKey", "IndexOfValue", "GetKeyAt", "GetValueAt", "GetFirstKey", "GetLastKey", "GetKeyBefore", "GetKeyAfter",
             "ContainsValue", "NumItems", "IsEqualTo"}
IterOps  == {"ItNew", "ItNewAt", "ItAdv", "ItRet", "ItFlip", "ItDel", "ItCopy"}

\* argument domains: <<a, b, c>> (0 where unused)
Args(op) ==
    CASE op \in {"Put", "PutPrev", "PutIfAbsent", "GetOrPut", "PutAtFront", "PutAtBack"} -> {x \in Keys \X Vals \X {0} : PutVals = "any" \/ x[2] = x[1]}
      [] op = "PutOrRemove" -> {x \in Keys \X (Vals \cup {0}) \X {0} : PutVals = "any" \/ x[2] \in {0, x[1]}}
      [] op = "SetAutoSort" -> {0, 1} \X {0, 1} \X {0}                 \* SetAutoSortEnabled(enabled, sortNow)
      [] op \in {"PutBefore", "PutBehind"} -> Keys \X Keys \X Vals
      [] op = "PutAtPosition" -> Keys \X Pos \X Vals
      [] op \in {"GetAndMoveToFront", "GetAndMoveToBack", "Remove", "RemoveGet", "MoveToFront", "MoveToBack", "MoveToTable", "Reposition",
                 "Get", "IndexOfKey", "GetKeyBefore", "GetKeyAfter"} -> Keys \X {0} \X {0}
      [] op \in {"MoveToBefore", "MoveToBehind"} -> Keys \X Keys \X {0}
      [] op = "MoveToPosition" -> Keys \X Pos \X {0}
      [] op = "EnsureSize" -> ((0..(N0 + 1)) \cup Big) \X {0, 1} \X {0}
      [] op = "ShrinkToFit" -> ({0, 1} \cup Big) \X {0} \X {0}
      [] op = "CopyToTable" -> Keys \X {0} \X {0}
      [] op = "Self" -> ((0..5) \X {0, 1} \X {0}) \cup ({6} \X Keys \X {0})      \* the table is its own argument: 0 operator=, 1 SwapContents, 2 Put(table), 3 Remove(table), 4 Intersect, 5 IsEqualTo(ordering b), 6 MoveToTable(key b)
      [] op = "EnsureCanPut" -> ({0, 1, 2} \cup Big) \X {0} \X {0}
      [] op = "IndexOfValue" -> Vals \X {0, 1} \X {0}
      [] op \in {"GetKeyAt", "GetValueAt"} -> Pos \X {0} \X {0}
      [] op = "ContainsValue" -> Vals \X {0} \X {0}
      [] op = "IsEqualTo" -> {0, 1} \X {0} \X {0}
      [] op = "ItNew" -> ItIds \X {0, 1} \X {0}
      [] op = "ItNewAt" -> ItIds \X Keys \X {0, 1}
      [] op \in {"ItAdv", "ItRet", "ItFlip", "ItDel"} -> ItIds \X {0} \X {0}
      [] op = "ItCopy" -> ItIds \X ItIds \X {0}
      [] OTHER -> {<<0, 0, 0>>}

\* W1 / W2: witness orders for tbl / oth after the call (<<>> = none)
DoTable(w, op, a, b, c, W1, W2) ==
    LET t == w.t  I == w.its IN
    CASE op = "Put" -> OnSet(w, PutSet(t, I, 1, a, b, W1, w.ord.auto))
      [] op = "PutPrev" -> {On1(w, [r EXCEPT !.res = Val(t, a)]) : r \in PutSet(t, I, 1, a, b, W1, w.ord.auto)}          \* previous value, 0 = nothing replaced
      [] op = "PutIfAbsent" -> IF Has(w, a) THEN Same(w, 0) ELSE OnSet(w, PutSet(t, I, 1, a, b, W1, w.ord.auto))
      [] op = "GetOrPut" -> IF Has(w, a) THEN Same(w, Val(t, a)) ELSE {On1(w, [r EXCEPT !.res = b]) : r \in PutSet(t, I, 1, a, b, W1, w.ord.auto)}
      [] op = "PutOrRemove" -> IF b = 0 THEN {On1(w, [RemoveK(t, I, 1, a) EXCEPT !.res = 1])} ELSE OnSet(w, PutSet(t, I, 1, a, b, W1, w.ord.auto))
      [] op = "PutAtFront" -> PutThen(w, a, b, LAMBDA x, y : ToFront(x, y, 1, a))
      [] op = "PutAtBack"  -> PutThen(w, a, b, LAMBDA x, y : ToBack(x, y, 1, a))
      [] op = "PutBefore"  -> PutThen(w, a, c, LAMBDA x, y : IF b # a /\ b \in KeysOf(x) THEN ToBefore(x, y, 1, a, b) ELSE TR(x, y, 1))
      [] op = "PutBehind"  -> PutThen(w, a, c, LAMBDA x, y : IF b # a /\ b \in KeysOf(x) THEN ToBehind(x, y, 1, a, b) ELSE TR(x, y, 1))
      [] op = "PutAtPosition" -> PutThen(w, a, c, LAMBDA x, y : ToPosition(x, y, 1, a, b))
      [] op = "GetAndMoveToFront" -> IF Has(w, a) THEN {On1(w, [ToFront(t, I, 1, a) EXCEPT !.res = Val(t, a)])} ELSE Same(w, 0)
      [] op = "GetAndMoveToBack"  -> IF Has(w, a) THEN {On1(w, [ToBack(t, I, 1, a) EXCEPT !.res = Val(t, a)])} ELSE Same(w, 0)
      [] op = "Remove" -> {On1(w, RemoveK(t, I, 1, a))}
      [] op = "RemoveGet" -> {On1(w, [RemoveK(t, I, 1, a) EXCEPT !.res = Val(t, a)])}                         \* removed value, 0 = not found
      [] op = "RemoveFirst" -> IF t = <<>> THEN Same(w, 0) ELSE {On1(w, [RemoveK(t, I, 1, t[1][1]) EXCEPT !.res = t[1][1]])}           \* removed key
      [] op = "RemoveLast"  -> IF t = <<>> THEN Same(w, 0) ELSE {On1(w, [RemoveK(t, I, 1, t[Len(t)][1]) EXCEPT !.res = t[Len(t)][1]])}
      [] op = "MoveToFront" -> IF Has(w, a) THEN {On1(w, ToFront(t, I, 1, a))} ELSE Same(w, 0)
      [] op = "MoveToBack"  -> IF Has(w, a) THEN {On1(w, ToBack(t, I, 1, a))} ELSE Same(w, 0)
      [] op = "MoveToBefore" -> IF ~Has(w, a) \/ ~Has(w, b) THEN Same(w, 0) ELSE IF a = b THEN Same(w, -1) ELSE {On1(w, ToBefore(t, I, 1, a, b))}
      [] op = "MoveToBehind" -> IF ~Has(w, a) \/ ~Has(w, b) THEN Same(w, 0) ELSE IF a = b THEN Same(w, -1) ELSE {On1(w, ToBehind(t, I, 1, a, b))}
      [] op = "MoveToPosition" -> IF Has(w, a) THEN {On1(w, ToPosition(t, I, 1, a, b))} ELSE Same(w, 0)
      \* sorting relinks the list without touching the iterators: a cursor stays on its entry
      [] op = "SortByKey"   -> {WR(SortBy(t, "key"), w.o, I, 0)}
      [] op = "SortByValue" -> {WR(SortBy(t, "val"), w.o, I, 0)}
      [] op = "SortSelf"    -> IF Sorted = "none" THEN Same(w, 0) ELSE {WR(x, w.o, I, 0) : x \in SortedArrangements(t, W1)}    \* Sort(): sorted, ties free
      [] op = "SetAutoSort" -> IF Sorted = "none" \/ (a = 1) = w.ord.auto \/ ~(a = 1 /\ b = 1) THEN Same(w, 0)
                               ELSE {WR(x, w.o, I, 0) : x \in SortedArrangements(t, W1)}                                     \* switched on with sortNow: Sort() is called
      [] op = "Reposition"  -> IF ~Has(w, a) THEN Same(w, 0) ELSE IF Sorted = "none" THEN Same(w, 1) ELSE OnSet(w, PutSet(t, I, 1, a, Val(t, a), W1, TRUE))
      [] op = "Swap"    -> IF Tight(w) THEN {WR(w.o, t, SwapIts(I), 0)} ELSE {}
      [] op \in {"Clear", "Destroy"} -> {WR(<<>>, w.o, DetachIts(I, 1, t), 0)}
      [] op = "AssignFrom" -> {WR(w.o, w.o, DetachIts(I, 1, t), 0)}                                              \* tbl = oth
      [] op = "AssignTo"   -> IF Tight(w) THEN {WR(t, t, DetachIts(I, 2, w.o), 0)} ELSE {}                                 \* oth = tbl
      [] op = "PutAll" -> IF ~Tight(w) THEN {}
                          ELSE IF Sorted = "none" \/ w.o = <<>> THEN {WR(PutAllSeq(t, w.o), w.o, I, 1)}
                          ELSE {WR(s, w.o, I, 1) : s \in SortedArrangements(PutAllSeq(t, w.o), W1)}
      [] op = "MoveToTable" -> IF ~Has(w, a) THEN Same(w, 0)
                               ELSE {LET r == RemoveK(t, p.its, 1, a) IN [WR(r.t, p.t, r.its, 1) EXCEPT !.mv = p.mv] : p \in PutSet(w.o, I, 2, a, Val(t, a), W2, TRUE)}
      [] op = "CopyToTable" -> IF ~Has(w, a) THEN Same(w, 0)
                               ELSE {[WR(t, p.t, p.its, 1) EXCEPT !.mv = p.mv] : p \in PutSet(w.o, I, 2, a, Val(t, a), W2, TRUE)}
      \* documented: "trying to move an item into its own table will simply return B_NO_ERROR with no side effects"; Remove(table) removes every
      \* key of the argument (here: all, the code clears the table); the others are the ordinary meaning of the call applied to equal operands
      [] op = "Self" -> CASE a = 3 -> {WR(<<>>, w.o, DetachIts(I, 1, t), Len(t))}
                          [] a = 6 -> Same(w, IF Has(w, b) THEN 1 ELSE 0)
                          [] a \in {2, 5} -> Same(w, 1)
                          [] OTHER -> Same(w, 0)
      [] op = "RemoveAll" -> {On1(w, RemoveSeq(t, I, 1, KeySeq(w.o), 0))}                                        \* tbl.Remove(oth): number removed
      [] op = "Intersect" -> {On1(w, RemoveSeq(t, I, 1, KeySeq(SelectSeq(t, LAMBDA e : e[1] \notin KeysOf(w.o))), 0))}
      \* pure capacity calls.  A huge request ends with B_NO_ERROR (allocation deferred), B_OUT_OF_MEMORY or B_RESOURCE_LIMIT - the header
      \* documents the first two - and leaves the contents and the iterators alone: result 2 = "one of these"
      [] op \in {"EnsureSize", "ShrinkToFit", "EnsureCanPut"} -> Same(w, IF a < 0 THEN 2 ELSE 1)

DoQuery(w, op, a, b, c) ==
    LET t == w.t IN
    CASE op = "Get" -> Val(t, a)
      [] op = "IndexOfKey" -> Idx(t, a) - 1
      [] op = "IndexOfValue" -> LET S == {i \in DOMAIN t : t[i][2] = a} IN
                                IF S = {} THEN -1 ELSE (IF b = 1 THEN CHOOSE i \in S : \A j \in S : j <= i ELSE CHOOSE i \in S : \A j \in S : j >= i) - 1
      [] op = "GetKeyAt" -> IF a + 1 \in DOMAIN t THEN t[a + 1][1] ELSE 0
      [] op = "GetValueAt" -> IF a + 1 \in DOMAIN t THEN t[a + 1][2] ELSE 0
      [] op = "GetFirstKey" -> IF t = <<>> THEN 0 ELSE t[1][1]
      [] op = "GetLastKey"  -> IF t = <<>> THEN 0 ELSE t[Len(t)][1]
      [] op = "GetKeyBefore" -> Nbr(t, a, 1)
      [] op = "GetKeyAfter"  -> Nbr(t, a, 0)
      [] op = "ContainsValue" -> IF \E i \in DOMAIN t : t[i][2] = a THEN 1 ELSE 0
      [] op = "NumItems" -> Len(t)
      [] op = "IsEqualTo" -> IF a = 1 THEN (IF t = w.o THEN 1 ELSE 0)                                            \* considerOrdering
                             ELSE (IF {t[i] : i \in DOMAIN t} = {w.o[i] : i \in DOMAIN w.o} THEN 1 ELSE 0)

\* --- iterator calls --------------------------------------------------------------------------------------
TabOf(w, n) == IF n = 1 THEN w.t ELSE IF n = 2 THEN w.o ELSE <<>>
\* keys from k onwards in direction d
Ahead(t, k, d) == IF k = 0 THEN {} ELSE {t[i][1] : i \in {j \in DOMAIN t : IF d = 0 THEN j >= Idx(t, k) ELSE j <= Idx(t, k)}}
Visit(it) == \* the cursor has just landed (creation / advance): ghost bookkeeping
    IF ~GHOST THEN it
    ELSE IF it.pos = 0 THEN [it EXCEPT !.fin = ~it.re]
    ELSE IF it.re THEN it
    ELSE [it EXCEPT !.twice = @ \/ (it.pos \in it.seen), !.seen = @ \cup {it.pos}]
NewIt(w, k, d) == Visit([NoIt EXCEPT !.live = TRUE, !.tab = IF k = 0 THEN 0 ELSE 1, !.pos = k, !.dir = d,
                                     !.must = IF GHOST THEN Ahead(w.t, k, d) ELSE {}])
Step1(w, it, d) == \* one ++ (d = it.dir) or -- (d = the opposite direction)
    IF it.sk # 0 THEN [it EXCEPT !.sk = 0, !.sv = 0]
    ELSE [it EXCEPT !.pos = Nbr(TabOf(w, it.tab), it.pos, d)]

DoIter(w, op, a, b, c) ==
    LET I == w.its IN
    CASE op = "ItNew"   -> IF I[a].live THEN {} ELSE {[I EXCEPT ![a] = NewIt(w, IF w.t = <<>> THEN 0 ELSE (IF b = 0 THEN w.t[1][1] ELSE w.t[Len(w.t)][1]), b)]}
      [] op = "ItNewAt" -> IF I[a].live THEN {} ELSE {[I EXCEPT ![a] = NewIt(w, IF Has(w, b) THEN b ELSE 0, c)]}
      [] op = "ItAdv"   -> IF ~I[a].live THEN {} ELSE {[I EXCEPT ![a] = Visit(Step1(w, I[a], I[a].dir))]}
      [] op = "ItRet"   -> IF ~I[a].live THEN {} ELSE {[I EXCEPT ![a] = [Step1(w, I[a], 1 - I[a].dir) EXCEPT !.re = GHOST]]}
      [] op = "ItFlip"  -> IF ~I[a].live THEN {} ELSE {[I EXCEPT ![a] = [I[a] EXCEPT !.dir = 1 - @, !.re = GHOST]]}
      [] op = "ItDel"   -> IF ~I[a].live THEN {} ELSE {[I EXCEPT ![a] = NoIt]}
      [] op = "ItCopy"  -> IF ~I[a].live \/ I[b].live THEN {} ELSE {[I EXCEPT ![b] = I[a]]}

\* an iterator whose cursor is linked to nothing is affected by nothing any more: it may as well be unregistered
\* (the code does not register an iterator created on an empty table / absent key at all)
\* (and the ghosts of a traversal that a reordering crossed are not looked at any more: collapse them)
Normalize(I) == [i \in DOMAIN I |-> LET x == IF I[i].live /\ I[i].pos = 0 THEN [I[i] EXCEPT !.tab = 0] ELSE I[i]
                                    IN IF x.re THEN [x EXCEPT !.seen = {}, !.must = {}, !.fin = FALSE] ELSE x]

\* ghost bookkeeping of a table call.  Entries that died leave seen / must.  An entry that the call itself relinked (mk: its key; a move is
\* unlink + relink, also to the place it had) counts as a new entry from then on: it may be passed over or met again.  Every OTHER entry
\* keeps its side of every cursor, so the promise stays strict for them - in particular when the moved entry is the one a cursor is on.
\* Only a call that changes the relative order of the other entries (the sorts) exempts the traversals it crosses altogether.
GhostFix(w, r, mk) ==
    IF ~GHOST THEN r.its ELSE
    [i \in DOMAIN r.its |-> LET old == w.its[i]  it == r.its[i] IN
        IF ~it.live THEN it
        ELSE IF it.tab = 0 THEN (IF old.tab = 0 THEN it ELSE [it EXCEPT !.must = {}, !.seen = {}])
        ELSE LET ot == TabOf(w, old.tab)  nt == TabOf(r, it.tab)
                 ex == "no_reorder_exemption" \notin Wrong
                 gone == (KeysOf(ot) \ KeysOf(nt)) \cup (IF mk # 0 /\ ex THEN {mk} ELSE {}) IN
             [it EXCEPT !.must = @ \ gone, !.seen = @ \ gone,
                        !.re = @ \/ (Reordered(Without(ot, mk), Without(nt, mk)) /\ ex)]]

------------------------------------------------------------------------------
W0 == [t |-> tbl, o |-> oth, its |-> its, ord |-> ord]
ItObs(w, it) == IF ~it.live THEN [h |-> -1, k |-> 0, v |-> 0]
                ELSE IF it.sk # 0 THEN [h |-> 1, k |-> it.sk, v |-> it.sv]
                ELSE IF it.pos # 0 THEN [h |-> 1, k |-> it.pos, v |-> Val(TabOf(w, it.tab), it.pos)]
                ELSE [h |-> 0, k |-> 0, v |-> 0]
Rec(op, a, b, c, r) == [op |-> op, a |-> a, b |-> b, c |-> c, res |-> r.res,
                        keys |-> KeySeq(r.t), vals |-> ValSeq(r.t), okeys |-> KeySeq(r.o), ovals |-> ValSeq(r.o),
                        it |-> [i \in ItIds |-> ItObs(r, r.its[i])],
                        itab |-> [i \in ItIds |-> r.its[i].tab], mv |-> r.mv]       \* itab, mv: not observable; the replayer's monitor uses them

\* all outcomes of a call on the current state, iterators normalised and ghosts updated
Outcomes(op, a, b, c, W1, W2) ==
    IF op \in TableOps THEN {[t |-> r.t, o |-> r.o, its |-> Normalize(GhostFix(W0, r, IF r.mv THEN a ELSE 0)), res |-> r.res, mv |-> r.mv, ord |-> NewOrd(op, a, b, W0, r)] : r \in DoTable(W0, op, a, b, c, W1, W2)}
    ELSE IF op \in QueryOps THEN {[WR(tbl, oth, its, DoQuery(W0, op, a, b, c)) EXCEPT !.mv = FALSE] @@ [ord |-> ord]}
    ELSE {WR(tbl, oth, Normalize(J), 0) @@ [ord |-> ord] : J \in DoIter(W0, op, a, b, c)}

Apply(op, a, b, c, r) ==
    /\ tbl' = r.t /\ oth' = r.o /\ its' = r.its /\ ord' = r.ord
    /\ last' = IF RECORD THEN Rec(op, a, b, c, r) ELSE last

Call(op) == /\ op \in Ops
            /\ \E x \in Args(op) : \E r \in Outcomes(op, x[1], x[2], x[3], <<>>, <<>>) : Apply(op, x[1], x[2], x[3], r)

\* one named action per call (TLC reports coverage per action: the vacuity guard of the check is per call);
\* the leading TRUE keeps TLC from attributing everything to Call
aPut == TRUE /\ Call("Put")
aPutPrev == TRUE /\ Call("PutPrev")
aPutIfAbsent == TRUE /\ Call("PutIfAbsent")
aGetOrPut == TRUE /\ Call("GetOrPut")
aPutOrRemove == TRUE /\ Call("PutOrRemove")
aPutAtFront == TRUE /\ Call("PutAtFront")
aPutAtBack == TRUE /\ Call("PutAtBack")
aPutBefore == TRUE /\ Call("PutBefore")
aPutBehind == TRUE /\ Call("PutBehind")
aPutAtPosition == TRUE /\ Call("PutAtPosition")
aGetAndMoveToFront == TRUE /\ Call("GetAndMoveToFront")
aGetAndMoveToBack == TRUE /\ Call("GetAndMoveToBack")
aRemove == TRUE /\ Call("Remove")
aRemoveGet == TRUE /\ Call("RemoveGet")
aRemoveFirst == TRUE /\ Call("RemoveFirst")
aRemoveLast == TRUE /\ Call("RemoveLast")
aMoveToFront == TRUE /\ Call("MoveToFront")
aMoveToBack == TRUE /\ Call("MoveToBack")
aMoveToBefore == TRUE /\ Call("MoveToBefore")
aMoveToBehind == TRUE /\ Call("MoveToBehind")
aMoveToPosition == TRUE /\ Call("MoveToPosition")
aSortByKey == TRUE /\ Call("SortByKey")
aSortByValue == TRUE /\ Call("SortByValue")
aSortSelf == TRUE /\ Call("SortSelf")
aReposition == TRUE /\ Call("Reposition")
aSwap == TRUE /\ Call("Swap")
aClear == TRUE /\ Call("Clear")
aDestroy == TRUE /\ Call("Destroy")
aAssignFrom == TRUE /\ Call("AssignFrom")
aAssignTo == TRUE /\ Call("AssignTo")
aPutAll == TRUE /\ Call("PutAll")
aMoveToTable == TRUE /\ Call("MoveToTable")
aRemoveAll == TRUE /\ Call("RemoveAll")
aIntersect == TRUE /\ Call("Intersect")
aEnsureSize == TRUE /\ Call("EnsureSize")
aShrinkToFit == TRUE /\ Call("ShrinkToFit")
aSetAutoSort == TRUE /\ Call("SetAutoSort")
aEnsureCanPut == TRUE /\ Call("EnsureCanPut")
aCopyToTable == TRUE /\ Call("CopyToTable")
aSelf == TRUE /\ Call("Self")
aGet == TRUE /\ Call("Get")
aIndexOfKey == TRUE /\ Call("IndexOfKey")
aIndexOfValue == TRUE /\ Call("IndexOfValue")
aGetKeyAt == TRUE /\ Call("GetKeyAt")
aGetValueAt == TRUE /\ Call("GetValueAt")
aGetFirstKey == TRUE /\ Call("GetFirstKey")
aGetLastKey == TRUE /\ Call("GetLastKey")
aGetKeyBefore == TRUE /\ Call("GetKeyBefore")
aGetKeyAfter == TRUE /\ Call("GetKeyAfter")
aContainsValue == TRUE /\ Call("ContainsValue")
aNumItems == TRUE /\ Call("NumItems")
aIsEqualTo == TRUE /\ Call("IsEqualTo")
aItNew == TRUE /\ Call("ItNew")
aItNewAt == TRUE /\ Call("ItNewAt")
aItAdv == TRUE /\ Call("ItAdv")
aItRet == TRUE /\ Call("ItRet")
aItFlip == TRUE /\ Call("ItFlip")
aItDel == TRUE /\ Call("ItDel")
aItCopy == TRUE /\ Call("ItCopy")

Init == /\ tbl = <<>> /\ oth = <<>> /\ its = [i \in ItIds |-> NoIt] /\ last = [op |-> "Init"] /\ ord = Ord0
Next == \/ aPut \/ aPutPrev \/ aPutIfAbsent \/ aGetOrPut \/ aPutOrRemove \/ aPutAtFront \/ aPutAtBack \/ aPutBefore \/ aPutBehind \/ aPutAtPosition \/ aGetAndMoveToFront \/ aGetAndMoveToBack
        \/ aRemove \/ aRemoveGet \/ aRemoveFirst \/ aRemoveLast \/ aMoveToFront \/ aMoveToBack \/ aMoveToBefore \/ aMoveToBehind \/ aMoveToPosition \/ aSortByKey \/ aSortByValue \/ aSortSelf \/ aReposition
        \/ aSwap \/ aClear \/ aDestroy \/ aAssignFrom \/ aAssignTo \/ aPutAll \/ aMoveToTable \/ aRemoveAll \/ aIntersect \/ aEnsureSize \/ aShrinkToFit \/ aSetAutoSort \/ aEnsureCanPut \/ aCopyToTable \/ aSelf
        \/ aGet \/ aIndexOfKey \/ aIndexOfValue \/ aGetKeyAt \/ aGetValueAt \/ aGetFirstKey \/ aGetLastKey \/ aGetKeyBefore \/ aGetKeyAfter \/ aContainsValue \/ aNumItems \/ aIsEqualTo
        \/ aItNew \/ aItNewAt \/ aItAdv \/ aItRet \/ aItFlip \/ aItDel \/ aItCopy
Spec == Init /\ [][Next]_vars

------------------------------------------------------------------------------
(* The property *)
IsTable(t) == /\ \A i, j \in DOMAIN t : i # j => t[i][1] # t[j][1]
              /\ \A i \in DOMAIN t : t[i][1] \in Keys /\ t[i][2] \in Vals
TypeOK == /\ IsTable(tbl) /\ IsTable(oth)
          /\ ord.auto \in BOOLEAN /\ ord.loose \in BOOLEAN
          /\ \A i \in ItIds : its[i].tab \in 0..2 /\ its[i].pos \in Keys \cup {0} /\ its[i].sk \in Keys \cup {0} /\ its[i].dir \in {0, 1}
\* the auto-sorting classes stay sorted while auto-sort is on and no explicit move took effect since the table was last sorted
StaysSorted == IsSorted(oth) /\ ((ord.auto /\ ~ord.loose) => IsSorted(tbl))
\* an iterator never refers to a removed entry: its cursor is linked to an entry that exists in the table it is registered with, or to nothing
IterSafe == \A i \in ItIds : its[i].live =>
               /\ (its[i].tab = 0 => its[i].pos = 0)
               /\ (its[i].pos # 0 => its[i].pos \in KeysOf(TabOf(W0, its[i].tab)))
\* a finished traversal that no reordering crossed has visited every entry that was ahead of its start and present throughout ...
NoSkip  == \A i \in ItIds : (its[i].live /\ its[i].fin /\ ~its[i].re) => its[i].must \subseteq its[i].seen
\* ... and no entry twice
NoTwice == \A i \in ItIds : its[i].live => ~its[i].twice

\* reachability targets (must be VIOLATED: vacuity guards for the generation instance)
Reach_ScratchThenNextRemoved == ~(\E i \in ItIds : its[i].live /\ its[i].sk # 0 /\ its[i].pos # 0 /\ its[i].tab = 2)
=============================================================================
