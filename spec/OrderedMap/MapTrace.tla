------------------------------- MODULE MapTrace -------------------------------
(* Trace validation for C09 (code -> spec): every line of the log written by harness/ht.cpp in `random` mode is one   *)
(* public call made on a real table: call, arguments, result, full key / value order of both tables after the call, *)
(* what every iterator shows after the call.  A line is accepted iff MapAbs has an outcome of that call, in the      *)
(* state reached so far, with exactly these observations.  Validation is linear: one state per line (for the auto-   *)
(* sorting classes the logged key order is the witness that selects among the outcomes that differ in the position   *)
(* of entries with equal sort keys).  Several runs are concatenated with {"op":"Reset"} lines.                        *)
(* The log is accepted iff the line counter reaches N + 1 (printed by the POSTCONDITION; no invariant is violated on  *)
(* acceptance, so TLC writes no counterexample files).                                                                *)
EXTENDS MapAbs, Json, IOUtils

CONSTANT MatchIters    \* FALSE: second pass over a rejected log - only the ordered-map part (results, contents of both tables) has to match;
                       \*        tells a breach of the ordered-map semantics from a mere difference in what an iterator shows
VARIABLE l
TraceLog == ndJsonDeserialize(IOEnv.TRACE)
N == Len(TraceLog)
From == IF "FROM" \in DOMAIN IOEnv THEN atoi(IOEnv.FROM) ELSE 1      \* shard: lines From..To (a shard starts at a Reset line)
To   == IF "TO" \in DOMAIN IOEnv THEN atoi(IOEnv.TO) ELSE N

TraceInit == Init /\ l = From /\ TLCSet(1, 0)

Matches(rec, ln) == /\ rec.res = ln.res /\ rec.keys = ln.keys /\ rec.vals = ln.vals /\ rec.okeys = ln.okeys /\ rec.ovals = ln.ovals
                    /\ MatchIters => \A i \in ItIds : rec.it[i].h = ln.it[i].h /\ rec.it[i].k = ln.it[i].k /\ rec.it[i].v = ln.it[i].v

TCall == /\ l <= To /\ TraceLog[l].op # "Reset"
         /\ LET ln == TraceLog[l]
                W1 == IF Sorted = "none" THEN <<>> ELSE ln.keys
                W2 == IF Sorted = "none" THEN <<>> ELSE ln.okeys
            IN /\ ln.op \in Ops
               /\ <<ln.a, ln.b, ln.c>> \in Args(ln.op)
               /\ \E r \in Outcomes(ln.op, ln.a, ln.b, ln.c, W1, W2) :
                     /\ Matches(Rec(ln.op, ln.a, ln.b, ln.c, r), ln)
                     /\ Apply(ln.op, ln.a, ln.b, ln.c, r)
         /\ l' = l + 1

TReset == /\ l <= To /\ TraceLog[l].op = "Reset"
          /\ tbl' = <<>> /\ oth' = <<>> /\ its' = [i \in ItIds |-> NoIt] /\ last' = [op |-> "Init"] /\ ord' = Ord0
          /\ l' = l + 1

TraceNext == TCall \/ TReset
TraceSpec == TraceInit /\ [][TraceNext]_<<vars, l>>

\* progress register for diagnosing a rejection (needs -workers 1)
Track == TLCSet(1, IF TLCGet(1) > l THEN TLCGet(1) ELSE l)
Report == PrintT(<<"maxline", TLCGet(1), "of", To>>)
=============================================================================
