SPECIFICATION GenSpec
CONSTANTS
  Keys = {1, 2, 3}
  Vals = {1}
  MaxIt = 1
  Sorted = "none"
  Ops = {"Put", "PutAtFront", "PutAtBack", "PutBefore", "PutBehind", "PutAtPosition", "GetAndMoveToFront", "GetAndMoveToBack", "Remove", "RemoveFirst", "RemoveLast", "MoveToFront", "MoveToBack", "MoveToBefore", "MoveToBehind", "MoveToPosition", "SortByKey", "Clear", "ItNew", "ItNewAt", "ItAdv", "ItRet", "ItFlip", "ItDel"}
  Wrong = {}
  GHOST = FALSE
  RECORD = TRUE
INVARIANTS TypeOK
