SPECIFICATION GenSpec
CONSTANTS
  Keys = {1, 2, 3}
  Vals = {1}
  MaxIt = 1
  Sorted = "none"
  Ops = {"Put", "PutAtBack", "PutBefore", "PutBehind", "PutAtPosition", "GetAndMoveToBack", "Remove", "RemoveLast", "MoveToBack", "MoveToBefore", "MoveToBehind", "MoveToPosition", "SortByKey", "EnsureSize", "ShrinkToFit", "ItNew", "ItNewAt", "ItAdv", "ItDel"}
  Wrong = {}
  GHOST = FALSE
  RECORD = TRUE
INVARIANTS TypeOK
