------------------------------- MODULE MapGen -------------------------------
(* Behaviour generation for the replay (spec -> code) direction of C09.                                       *)
(* A call is split into two steps so that the state graph TLC dumps has one node per TRANSITION of MapAbs     *)
(* (not one per pair of consecutive transitions, which is what keeping the step record in the state of a      *)
(* single-step specification would give):                                                                      *)
(*    Choose:  last = [op |-> "-"]  -->  last = the complete step record (call, arguments, documented result, *)
(*             expected contents of both tables, expected observable state of every iterator); tables unchanged*)
(*    Exec:    the call takes effect, last = [op |-> "-"] again.                                              *)
(* tools/pathcover.py covers every edge, hence every (state, call, arguments) of MapAbs; the replayer skips   *)
(* the "-" records.  Used with instances in which every call has exactly one outcome: Sorted = "none", or a   *)
(* sorting class without ties (PutVals = "key").                                                               *)
EXTENDS MapAbs

Idle == [op |-> "-"]
GenInit == /\ tbl = <<>> /\ oth = <<>> /\ its = [i \in ItIds |-> NoIt] /\ last = Idle /\ ord = Ord0

Choose == /\ last = Idle
          /\ \E op \in Ops : \E x \in Args(op) : \E r \in Outcomes(op, x[1], x[2], x[3], <<>>, <<>>) : last' = Rec(op, x[1], x[2], x[3], r)
          /\ UNCHANGED <<tbl, oth, its, ord>>
Exec   == /\ last # Idle
          /\ \E r \in Outcomes(last.op, last.a, last.b, last.c, <<>>, <<>>) :
                /\ Rec(last.op, last.a, last.b, last.c, r) = last
                /\ tbl' = r.t /\ oth' = r.o /\ its' = r.its /\ ord' = r.ord
          /\ last' = Idle
GenNext == Choose \/ Exec
GenSpec == GenInit /\ [][GenNext]_vars
=============================================================================
