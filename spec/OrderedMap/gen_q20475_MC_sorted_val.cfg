SPECIFICATION Spec
CONSTANTS
  Keys = {1, 2}
  Vals = {1, 2}
  MaxIt = 1
  Sorted = "val"
  Ops = {"Put", "PutOrRemove", "Remove", "RemoveFirst", "RemoveLast", "SortSelf", "Reposition", "Swap", "Clear", "AssignFrom", "PutAll", "MoveToTable", "RemoveAll", "Intersect", "ItNew", "ItNewAt", "ItAdv", "ItDel"}
  Wrong = {}
  GHOST = TRUE
  RECORD = FALSE
INVARIANTS TypeOK IterSafe NoSkip NoTwice StaysSorted
