SPECIFICATION GenSpec
CONSTANTS
  Keys = {1, 2}
  Vals = {1}
  MaxIt = 2
  Sorted = "none"
  Ops = {"Put", "Remove", "MoveToBack", "Clear", "EnsureSize", "ItNew", "ItAdv", "ItDel", "ItCopy"}
  Wrong = {}
  GHOST = FALSE
  RECORD = TRUE
INVARIANTS TypeOK
