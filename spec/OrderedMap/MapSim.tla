------------------------------- MODULE MapSim -------------------------------
(* Deep random behaviours of MapAbs for the replay direction: run with -simulate; the history of step records *)
(* is printed when a behaviour has reached SimDepth steps.                                                     *)
EXTENDS MapAbs, Json
CONSTANT SimDepth
VARIABLE hist
SimInit == Init /\ hist = <<>>
SimNext == \/ Len(hist) < SimDepth /\ Next /\ hist' = Append(hist, last')
           \/ /\ Len(hist) = SimDepth /\ PrintT("@@" \o ToJson(hist))      \* evaluated once, for the state the simulator chose
              /\ hist' = Append(hist, [op |-> "-"]) /\ UNCHANGED vars
SimSpec == SimInit /\ [][SimNext]_<<vars, hist>>
=============================================================================
