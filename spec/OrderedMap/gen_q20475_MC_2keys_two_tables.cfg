SPECIFICATION Spec
CONSTANTS
  Keys = {1, 2}
  Vals = {1}
  MaxIt = 1
  Sorted = "none"
  Ops = {"Put", "PutOrRemove", "PutAtFront", "PutBefore", "PutAtPosition", "Remove", "RemoveFirst", "RemoveLast", "MoveToFront", "MoveToBack", "MoveToBehind", "MoveToPosition", "SortByKey", "Swap", "Clear", "AssignFrom", "AssignTo", "PutAll", "MoveToTable", "RemoveAll", "Intersect", "ItNew", "ItNewAt", "ItAdv", "ItRet", "ItFlip", "ItDel"}
  Wrong = {}
  GHOST = TRUE
  RECORD = FALSE
INVARIANTS TypeOK IterSafe NoSkip NoTwice StaysSorted
